import Lean.Data.Json
import GBS.Model.Gen
import GBS.Extracted.Choose
import GBS.Extracted.Mixture
import GBS.Model.Mixture
import GBS.Model.SysGen
import GBS.Model.FF
import GBS.Model.Parse
import GBS.Model.ReactGraph
import GBS.Model.WellPosed
import GBS.Model.AtomGraph
import GBS.Model.AtomGen
import GBS.Model.MolProb
import GBS.Model.Certify
/-! JSON codecs for the line protocol (driver only; not part of the verified model). -/
open Lean
namespace GBS.Driver

abbrev R := Except String

def getF (j : Json) (k : String) : R Json := j.getObjVal? k

def natOf (j : Json) : R Nat := j.getNat?
def intOf (j : Json) : R Int := j.getInt?
def strOf (j : Json) : R String := j.getStr?
def boolOf (j : Json) : R Bool := j.getBool?
def arrOf (j : Json) : R (Array Json) := j.getArr?

def listOf {α} (f : Json → R α) (j : Json) : R (List α) := do
  let a ← arrOf j
  a.toList.mapM f

def optOf {α} (f : Json → R α) (j : Json) : R (Option α) :=
  if j.isNull then pure none else some <$> f j

/-- rationals travel as strings `"n/d"` or `"n"` (exact; from `float.as_integer_ratio()`) -/
def ratOfString (s : String) : R Rat :=
  match s.splitOn "/" with
  | [n] => match n.toInt? with
    | some n => pure (n : Rat)
    | none => throw s!"bad rational {s}"
  | [n, d] => match n.toInt?, d.toNat? with
    | some n, some d => if d = 0 then throw s!"zero denominator {s}" else pure ((n : Rat) / (d : Rat))
    | _, _ => throw s!"bad rational {s}"
  | _ => throw s!"bad rational {s}"

def ratOf (j : Json) : R Rat := do ratOfString (← strOf j)

def ratToJson (q : Rat) : Json := Json.str s!"{q.num}/{q.den}"

def symOf (j : Json) : R Sym := do
  match (← strOf j) with
  | "" => pure .none | "$" => pure .dollar | "<" => pure .lt | ">" => pure .gt
  | s => throw s!"bad symbol {s}"

def symToJson : Sym → Json
  | .none => "" | .dollar => "$" | .lt => "<" | .gt => ">"

def orderOf (j : Json) : R Order := do
  match (← natOf j) with
  | 0 => pure .unspecified | 1 => pure .single | 2 => pure .double | 3 => pure .triple
  | 4 => pure .quadruple | 7 => pure .oneAndAHalf
  | n => throw s!"bad bond order {n}"

def orderToJson (o : Order) : Json := Json.num (JsonNumber.fromNat o.toNat)

def descOf (j : Json) : R Desc := do
  let sym ← symOf (← getF j "s")
  let id ← optOf natOf (← getF j "id")
  let order ← orderOf (← getF j "o")
  let weight ← ratOf (← getF j "w")
  let trans ← optOf (listOf ratOf) (← getF j "t")
  let atom ← natOf (← getF j "a")
  pure { sym, id, order, weight, trans, atom }

def descToJson (d : Desc) : Json :=
  Json.mkObj [("s", symToJson d.sym), ("id", match d.id with | none => Json.null | some n => Json.num (JsonNumber.fromNat n)),
    ("o", orderToJson d.order), ("w", ratToJson d.weight),
    ("t", match d.trans with | none => Json.null | some l => Json.arr (l.map ratToJson).toArray),
    ("a", Json.num (JsonNumber.fromNat d.atom))]

def natToJson (n : Nat) : Json := Json.num (JsonNumber.fromNat n)
def natsToJson (l : List Nat) : Json := Json.arr (l.map natToJson).toArray
def ratsToJson (l : List Rat) : Json := Json.arr (l.map ratToJson).toArray

def tokenOf (j : Json) : R Token := do
  pure { tid := ← natOf (← getF j "tid"), natoms := ← natOf (← getF j "n"), mass := ← ratOf (← getF j "m"),
         bds := ← listOf descOf (← getF j "bds") }

def elementOf (j : Json) : R Element := do
  match (← strOf (← getF j "k")) with
  | "tok" => pure (.tok (← tokenOf (← getF j "t")))
  | "stoch" =>
    pure (.stoch { left := ← descOf (← getF j "left"), right := ← descOf (← getF j "right"),
                   repeats := ← listOf tokenOf (← getF j "rep"), ends := ← listOf tokenOf (← getF j "end"),
                   hasDist := ← boolOf (← getF j "dist") })
  | k => throw s!"bad element kind {k}"

def eventOf (j : Json) : R Event := do
  match j.getObjVal? "p" with
  | .ok v => pure (.pick (← natOf v))
  | .error _ => pure (.draw (← ratOf (← getF j "d")))

def errToString (e : Err) : String := (reprStr e).replace "GBS.Err." ""

def choiceToJson (c : Choice) : Json :=
  Json.mkObj [("a", natsToJson c.opts), ("p", ratsToJson c.probs), ("r", natToJson c.res)]

def traceItemToJson : TraceItem → Json
  | .choice c => Json.mkObj [("c", choiceToJson c)]
  | .drew x => Json.mkObj [("d", ratToJson x)]
  | .units n => Json.mkObj [("u", natToJson n)]
  | .cmp a t => Json.mkObj [("cmp", Json.arr #[ratToJson a, ratToJson t])]

def molToJson (m : Mol) : Json :=
  Json.mkObj [
    ("insts", natsToJson (m.insts.map (·.tok.tid))),
    ("offs", natsToJson (m.insts.map (·.off))),
    ("natoms", natToJson m.natoms),
    ("bonds", Json.arr (m.bonds.map fun b => natsToJson [b.a, b.b, b.order.toNat, b.na, b.nb, b.ia, b.ka, b.ib, b.kb]).toArray),
    ("opens", Json.arr (m.opens.map fun o => (descToJson o.d).setObjVal! "node" (natToJson o.node)
                                            |>.setObjVal! "inst" (natToJson o.inst) |>.setObjVal! "k" (natToJson o.k)).toArray),
    ("mass", ratToJson m.mass)]

def mixOf (j : Json) : R Mix := do
  pure { abs := ← optOf ratOf (← getF j "abs"), rel := ← optOf ratOf (← getF j "rel"), sys := ← optOf ratOf (← getF j "sys") }

def optRatToJson : Option Rat → Json
  | none => Json.null
  | some q => ratToJson q

def mixToJson (m : Mix) : Json :=
  Json.mkObj [("abs", optRatToJson m.abs), ("rel", optRatToJson m.rel), ("sys", optRatToJson m.sys)]

def compOf (j : Json) : R SysComp := do
  pure { els := ← listOf elementOf (← getF j "els"), rel := ← ratOf (← getF j "rel"), generable := ← boolOf (← getF j "gen") }

open GBS.P in
def pdescToJson (p : PDesc) : Json :=
  (descToJson p.d).setObjVal! "pre" (Json.str (String.ofList p.pre)) |>.setObjVal! "num" (natToJson p.num)
    |>.setObjVal! "noatom" (Json.bool p.noAtom)

open GBS.P in
def ptokenToJson (t : PToken) : Json :=
  Json.mkObj [
    ("els", Json.arr (t.els.map fun e => match e with
      | .atom a => Json.mkObj [("a", Json.str (String.ofList a))]
      | .str x => Json.mkObj [("s", Json.str (String.ofList x))]
      | .bond k => Json.mkObj [("b", natToJson k)]).toArray),
    ("atoms", Json.arr (t.atoms.map fun a => Json.str (String.ofList a)).toArray),
    ("descs", Json.arr (t.descs.map pdescToJson).toArray),
    ("res", natToJson t.resId),
    ("ext", Json.str (String.ofList (printToken t true))),
    ("noext", Json.str (String.ofList (printToken t false))),
    ("frag", Json.str (String.ofList (fragment t)))]

open GBS.P in
def pdistToJson (d : PDist) : Json :=
  Json.mkObj [("fam", Json.str (famText d.fam)), ("params", ratsToJson d.params)]

open GBS.P in
def pstochToJson (o : PStoch) : Json :=
  Json.mkObj [("left", pdescToJson o.left), ("right", pdescToJson o.right),
    ("rep", Json.arr (o.repeats.map ptokenToJson).toArray), ("end", Json.arr (o.ends.map ptokenToJson).toArray),
    ("dist", match o.dist with | none => Json.null | some d => pdistToJson d),
    ("ext", Json.str (String.ofList (printStoch o true))), ("noext", Json.str (String.ofList (printStoch o false)))]

open GBS.P in
def pmolToJson (m : PMol) : Json :=
  Json.mkObj [
    ("elems", Json.arr (m.elems.map fun e => match e with
      | .tok t => Json.mkObj [("k", "tok"), ("v", ptokenToJson t)]
      | .stoch o => Json.mkObj [("k", "stoch"), ("v", pstochToJson o)]).toArray),
    ("mix", match m.mix with
      | none => Json.null
      | some x => Json.mkObj [("abs", optRatToJson x.abs), ("rel", optRatToJson x.rel)]),
    ("ext", Json.str (String.ofList (printMol m true))), ("noext", Json.str (String.ofList (printMol m false)))]

def atokenOf (j : Json) : R AToken := do
  let atoms ← listOf (fun a => do
    let arr ← arrOf a
    match arr.toList with
    | [z, c, ar] => pure ({ z := ← natOf z, charge := ← intOf c, arom := ← boolOf ar } : AAtom)
    | _ => throw "bad atom") (← getF j "atoms")
  let inner ← listOf (fun a => do
    let arr ← arrOf a
    match arr.toList with
    | [i, k, b] => pure ((← natOf i), (← natOf k), (← natOf b))
    | _ => throw "bad bond") (← getF j "inner")
  pure { atoms := atoms, inner := inner, bds := ← listOf descOf (← getF j "bds"), mass := ← ratOf (← getF j "m") }

def aelemOf (j : Json) : R AElem := do
  match (← strOf (← getF j "k")) with
  | "tok" => pure (.tok (← atokenOf (← getF j "t")))
  | "stoch" =>
    pure (.stoch (← descOf (← getF j "left")) (← descOf (← getF j "right")) (← listOf atokenOf (← getF j "rep"))
      (← listOf atokenOf (← getF j "end")) (← optOf ratOf (← getF j "mn")) (← optOf ratOf (← getF j "mw")))
  | k => throw s!"bad element kind {k}"

end GBS.Driver
