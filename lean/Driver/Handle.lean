import Driver.Codec
open Lean
namespace GBS.Driver

def handleCompat (j : Json) : R Json := do
  let a ← descOf (← getF j "a")
  let b ← descOf (← getF j "b")
  pure (Json.mkObj [("r", Json.bool (isCompatible a b))])

def handleOrder (j : Json) : R Json := do
  let p ← strOf (← getF j "p")
  pure (Json.mkObj [("o", orderToJson (orderOfPrefix p.toList)), ("stereo", Json.bool (stereoRejected p.toList))])

def handleIds (j : Json) : R Json := do
  let bds ← listOf descOf (← getF j "bds")
  let b ← optOf descOf (← getF j "b")
  pure (Json.mkObj [("ids", natsToJson (compatibleIds bds b))])

def handleCompatMat (j : Json) : R Json := do
  let ds ← listOf descOf (← getF j "ds")
  let rows := ds.map fun a => String.ofList (ds.map fun b => if isCompatible a b then '1' else '0')
  pure (Json.mkObj [("rows", Json.arr (rows.map Json.str).toArray)])

/-- the extracted tables, for the table-equality validation of a part whose source the translator could not read -/
def handleTables (_j : Json) : R Json := do
  pure (Json.mkObj [
    ("singles", Json.str (String.ofList singleLetterAtoms)),
    ("doubles", Json.arr (doubleLetterAtoms.map fun (a, b) => Json.str (String.ofList [a, b])).toArray),
    ("dispatch", Json.arr (distDispatch.map fun (k, f) => Json.arr #[Json.str k, Json.str (reprStr f)]).toArray),
    ("masses", Json.arr (atomicMasses.map fun (z, m) => Json.arr #[natToJson z, ratToJson m]).toArray)])

/-- the translated `choose_compatible_weight` on a vector of weights -/
def handleChooseX (j : Json) : R Json := do
  let ws ← listOf ratOf (← getF j "ws")
  pure (Json.mkObj [("p", ratsToJson (chooseWeightsX ws))])

/-- the translated loop-ending comparisons on a pair of numbers -/
def handleLoopsX (j : Json) : R Json := do
  let a ← ratOf (← getF j "a")
  let b ← ratOf (← getF j "b")
  pure (Json.mkObj [("grow", Json.bool (decide (growStopsX a b))), ("sys", Json.bool (decide (sysContinuesX a b)))])

/-- the translated `Mixture` setters on one mixture -/
def handleMixSetX (j : Json) : R Json := do
  let m ← mixOf (← getF j "m")
  let v ← ratOf (← getF j "v")
  let which ← strOf (← getF j "which")
  if which == "print" || which == "print0" then
    return Json.mkObj [("s", Json.str (String.ofList (printMixX { abs := m.abs, rel := m.rel } (which == "print"))))]
  let r := if which == "sys" then setSysX m v else setRelX m v
  match r with
  | .error e => pure (Json.mkObj [("ok", Json.bool false), ("err", Json.str ((reprStr e).replace "GBS.EErr." ""))])
  | .ok m' => pure (Json.mkObj [("ok", Json.bool true), ("m", mixToJson m')])

def handleGen (j : Json) : R Json := do
  let els ← listOf elementOf (← getF j "els")
  let ev ← listOf eventOf (← getF j "ev")
  let fuel ← natOf (← getF j "fuel")
  match genMol fuel els ev with
  | .error e => pure (Json.mkObj [("ok", Json.bool false), ("err", Json.str (errToString e))])
  | .ok (m, tr, rest) =>
    pure (Json.mkObj [("ok", Json.bool true),
      ("mol", match m with | none => Json.null | some m => molToJson m),
      ("trace", Json.arr (tr.map traceItemToJson).toArray),
      ("rest", natToJson rest.length)])

def handleEstim (j : Json) : R Json := do
  let ms ← listOf (optOf mixOf) (← getF j "ms")
  let M ← optOf ratOf (← getF j "M")
  match estimate ms M with
  | .error e => pure (Json.mkObj [("ok", Json.bool false), ("err", Json.str ((reprStr e).replace "GBS.EErr." ""))])
  | .ok (b, r) =>
    pure (Json.mkObj [("ok", Json.bool true), ("gen", Json.bool b),
      ("ms", Json.arr (r.map fun m => match m with | none => Json.null | some m => mixToJson m).toArray)])

def memberToJson (x : Member) : Json :=
  Json.mkObj [("i", natToJson x.1), ("mass", ratToJson x.2.mass), ("n", natToJson x.2.insts.length),
              ("open", natToJson x.2.opens.length), ("insts", natsToJson (x.2.insts.map (·.tok.tid)))]

def handleSysGen (j : Json) : R Json := do
  let cs ← listOf compOf (← getF j "comps")
  let ev ← listOf eventOf (← getF j "ev")
  let fuel ← natOf (← getF j "fuel")
  let single ← boolOf (← getF j "single")
  if single then
    match sysGenerate fuel cs ev with
    | .error e => pure (Json.mkObj [("ok", Json.bool false), ("err", Json.str (errToString e))])
    | .ok (x, tr, rest) =>
      pure (Json.mkObj [("ok", Json.bool true), ("members", Json.arr #[memberToJson x]),
        ("trace", Json.arr (tr.map traceItemToJson).toArray), ("rest", natToJson rest.length)])
  else
    let M ← ratOf (← getF j "M")
    let est ← boolOf (← getF j "estim")
    let g := sysGenerable est cs
    match sysGenerator fuel 100000 g cs M ev with
    | .error e => pure (Json.mkObj [("ok", Json.bool false), ("gen", Json.bool g), ("err", Json.str (errToString e))])
    | .ok (l, tr, rest) =>
      pure (Json.mkObj [("ok", Json.bool true), ("gen", Json.bool g), ("members", Json.arr (l.map memberToJson).toArray),
        ("trace", Json.arr (tr.map traceItemToJson).toArray), ("rest", natToJson rest.length)])

def fnameOf (j : Json) : R FName := optOf natOf j

def fnameToJson : FName → Json
  | none => Json.null
  | some k => natToJson k

def handleFFRun (j : Json) : R Json := do
  let calls ← listOf (fun c => do
    let a ← arrOf c
    match a.toList with
    | [x, y] => pure ((← fnameOf x), (← fnameOf y))
    | _ => throw "bad call") (← getF j "calls")
  let (_, outs) := ffRun {} calls
  pure (Json.mkObj [("built", Json.arr (outs.map fun o => match o with
    | none => Json.null
    | some (a, b) => Json.arr #[fnameToJson a, fnameToJson b]).toArray)])

def handleFFRead (j : Json) : R Json := do
  let rules ← listOf (fun c => do
    let a ← arrOf c
    match a.toList with
    | [t, r] => pure ((← natOf t), (← strOf r).toList)
    | _ => throw "bad rule") (← getF j "rules")
  let tb := readRules rules
  pure (Json.mkObj [
    ("type_dict", Json.arr (tb.typeDict.map fun p => natsToJson [p.1, p.2]).toArray),
    ("type_rev", Json.arr (tb.typeRev.map fun p => natsToJson [p.1, p.2]).toArray),
    ("resolved", Json.arr (rules.map fun p => match resolveRule tb p.2 with | some t => natToJson t | none => Json.null).toArray)])

def handleAssign (j : Json) : R Json := do
  let rules ← listOf (fun c => do
    let a ← arrOf c
    match a.toList with
    | [t, r] => pure ((← natOf t), (← strOf r).toList)
    | _ => throw "bad rule") (← getF j "rules")
  let tb := readRules rules
  let ms ← listOf (fun c => do
    let a ← arrOf c
    match a.toList with
    | [r, l] => pure ((← strOf r).toList, (← listOf natOf l))
    | _ => throw "bad match") (← getF j "matches")
  let n ← natOf (← getF j "n")
  let mf : Rule → List Nat := fun r => ((ms.find? (·.1 == r)).map (·.2)).getD []
  let enc := fun (l : List (Nat × TypeName)) => Json.arr (l.map fun p => Json.arr #[natToJson p.1, natToJson p.2]).toArray
  let typed := (List.range n).filterMap fun a => (typeOfVia tb mf a).map (fun t => (a, t))
  if typed.length = n then pure (Json.mkObj [("ok", Json.bool true), ("types", enc typed)])
  else pure (Json.mkObj [("ok", Json.bool false), ("types", enc typed)])

open GBS.P in
def handleParse (j : Json) : R Json := do
  let kind ← strOf (← getF j "kind")
  let text := (← strOf (← getF j "text")).toList
  let validL ← listOf strOf (← getF j "valid")
  let valid : Py.Str → Bool := fun t => validL.contains (String.ofList t)
  let errJ := fun (e : PErr) => Json.mkObj [("ok", Json.bool false), ("err", Json.str ((reprStr e).replace "GBS.P.PErr." ""))]
  match kind with
  | "desc" =>
    let pre := (← strOf (← getF j "pre")).toList
    let atom ← optOf natOf (← getF j "atom")
    match parseDesc text 0 pre atom with
    | .error e => pure (errJ e)
    | .ok p => pure (Json.mkObj [("ok", Json.bool true), ("v", pdescToJson p),
        ("ext", Json.str (String.ofList (printDesc p true))), ("noext", Json.str (String.ofList (printDesc p false)))])
  | "token" =>
    let off ← natOf (← getF j "offset")
    match parseToken valid text off 0 with
    | .error e => pure (errJ e)
    | .ok t => pure (Json.mkObj [("ok", Json.bool true), ("v", ptokenToJson t)])
  | "stoch" =>
    match parseStoch valid text 0 with
    | .error e => pure (errJ e)
    | .ok o => pure (Json.mkObj [("ok", Json.bool true), ("v", pstochToJson o)])
  | "mol" =>
    match parseMol valid text 0 with
    | .error e => pure (errJ e)
    | .ok m => pure (Json.mkObj [("ok", Json.bool true), ("v", pmolToJson m)])
  | "system" =>
    let M ← optOf ratOf (← getF j "M")
    match parseSystem valid text with
    | .error e => pure (errJ e)
    | .ok ms =>
      -- the mixture bookkeeping of `System.__init__` on the parsed mixtures
      let mixes : List (Option Mix) := ms.map fun m => m.mix.map fun x => ({ abs := x.abs, rel := x.rel } : Mix)
      match estimate mixes M with
      | .error e => pure (Json.mkObj [("ok", Json.bool false), ("err", Json.str ("estimate:" ++ (reprStr e).replace "GBS.EErr." ""))])
      | .ok (g, mixes') =>
        let ms' : List PMol := (ms.zip mixes').map fun (m, x) => { m with mix := x.map fun y => ({ abs := y.abs, rel := y.rel } : PMix) }
        pure (Json.mkObj [("ok", Json.bool true), ("gen", Json.bool g), ("v", Json.arr (ms'.map pmolToJson).toArray),
          ("ext", Json.str (String.ofList (ms'.map (printMol · true)).flatten)),
          ("noext", Json.str (String.ofList (ms'.map (printMol · false)).flatten))])
  | "dist" =>
    match parseDist text with
    | .error e => pure (errJ e)
    | .ok d => pure (Json.mkObj [("ok", Json.bool true), ("v", pdistToJson d), ("ext", Json.str (String.ofList (printDist d)))])
  | "mix" =>
    match parseMixture text with
    | .error e => pure (errJ e)
    | .ok x => pure (Json.mkObj [("ok", Json.bool true), ("abs", optRatToJson x.abs), ("rel", optRatToJson x.rel),
        ("ext", Json.str (String.ofList (printMix x true)))])
  | "float" =>
    match Num.parseFloat text with
    | .ok q => pure (Json.mkObj [("ok", Json.bool true), ("q", ratToJson q),
        ("repr", match Num.reprFloat q with | some r => Json.str (String.ofList r) | none => Json.null)])
    | .nonFinite => pure (Json.mkObj [("ok", Json.bool true), ("q", Json.null)])
    | .bad => pure (Json.mkObj [("ok", Json.bool false)])
  | k => throw s!"unknown parse kind {k}"

def rnodeToJson : RNode → Json
  | .tok e t => natsToJson [e, t]
  | .bd e t k => natsToJson [e, t, k]

def rattrToStr : RAttr → String
  | .atom => "atom" | .prob => "prob" | .termProb => "term_prob" | .transProb => "trans_prob"

def handleRGraph (j : Json) : R Json := do
  let els ← listOf elementOf (← getF j "els")
  let adds := reactionAdds els
  pure (Json.mkObj [("adds", Json.arr (adds.map fun a =>
    Json.arr #[rnodeToJson a.src, rnodeToJson a.dst, Json.str (rattrToStr a.attr), ratToJson a.val]).toArray)])

def handleWellPosed (j : Json) : R Json := do
  let els ← listOf elementOf (← getF j "els")
  pure (Json.mkObj [("wp", Json.bool (wellPosed els)), ("cert", Json.bool (certify els).isSome)])

def handleSAG (j : Json) : R Json := do
  let els ← listOf aelemOf (← getF j "els")
  let wd ← boolOf (← getF j "dist")
  let g := stochAtomGraph els wd
  pure (Json.mkObj [
    ("nodes", Json.arr (g.nodes.map fun n => Json.arr #[natToJson n.id, natToJson n.atom.z, Json.num (JsonNumber.fromInt n.atom.charge),
        Json.bool n.atom.arom, optRatToJson n.mn, optRatToJson n.mw]).toArray),
    ("edges", Json.arr (g.edges.map fun e => Json.arr #[natToJson e.src, natToJson e.dst, natToJson e.bond, ratToJson e.static,
        ratToJson e.stochastic, ratToJson e.termination, ratToJson e.transition]).toArray)])

def handleAGen (j : Json) : R Json := do
  let els ← listOf aelemOf (← getF j "els")
  let ev ← listOf eventOf (← getF j "ev")
  let fuel ← natOf (← getF j "fuel")
  let g := stochAtomGraph els true
  match atomGenerate g fuel ev with
  | .error e => pure (Json.mkObj [("ok", Json.bool false), ("err", Json.str (reprStr e)), ("closed", Json.bool (fillClosed g))])
  | .ok (s, tr, rest) =>
    pure (Json.mkObj [("ok", Json.bool true), ("closed", Json.bool (fillClosed g)),
      ("nodes", Json.arr (s.nodes.map fun n => natsToJson [n.stoch, n.z]).toArray),
      ("edges", Json.arr (s.edges.map fun e => natsToJson [e.1, e.2.1, e.2.2]).toArray),
      ("mw", ratsToJson s.mw),
      ("trace", Json.arr (tr.map traceItemToJson).toArray),
      ("rest", natToJson rest.length)])

def handleCProb (j : Json) : R Json := do
  let firstTok ← boolOf (← getF j "firstIsToken")
  let cands ← listOf (fun c => do pure ((← ratOf (← getF c "w")), (← ratOf (← getF c "m")), (← boolOf (← getF c "ok")))) (← getF j "cands")
  let blocks ← listOf (fun b => do pure ({ n := (← natOf (← getF b "n")), u := (← ratOf (← getF b "u")) } : ChainBlock)) (← getF j "blocks")
  let pts := chainPoints (startFrags firstTok cands) blocks
  pure (Json.mkObj [("starts", Json.arr (pts.map fun (p, l) =>
    Json.mkObj [("p", ratToJson p), ("pts", Json.arr (l.map fun (v, pr) => ratsToJson [v, pr]).toArray)]).toArray)])

def handle (j : Json) : R Json := do
  let op ← strOf (← getF j "op")
  match op with
  | "COMPAT" => handleCompat j
  | "ORDER" => handleOrder j
  | "IDS" => handleIds j
  | "GEN" => handleGen j
  | "ESTIM" => handleEstim j
  | "SYSGEN" => handleSysGen j
  | "FFRUN" => handleFFRun j
  | "PARSE" => handleParse j
  | "RGRAPH" => handleRGraph j
  | "WELLPOSED" => handleWellPosed j
  | "SAG" => handleSAG j
  | "AGEN" => handleAGen j
  | "ASSIGN" => handleAssign j
  | "FFREAD" => handleFFRead j
  | "COMPATMAT" => handleCompatMat j
  | "CPROB" => handleCProb j
  | "TABLES" => handleTables j
  | "CHOOSEX" => handleChooseX j
  | "LOOPSX" => handleLoopsX j
  | "MIXSETX" => handleMixSetX j
  | _ => throw s!"unknown op {op}"

def handleLine (line : String) : String :=
  match Json.parse line with
  | .error e => (Json.mkObj [("fail", Json.str s!"json: {e}")]).compress
  | .ok j => match handle j with
    | .ok r => r.compress
    | .error e => (Json.mkObj [("fail", Json.str e)]).compress

end GBS.Driver
