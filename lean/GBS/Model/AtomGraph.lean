import GBS.Model.Gen
/-!
# `stochastic_atom_graph.py`: the stochastic atom graph of a molecule

Atoms and inner bonds of a token are what RDKit reads from the token's fragment (parameters of the model, supplied by the
harness and compared with the written token by C02/C05).  Node ids are consecutive in written order of elements and tokens.
-/
namespace GBS

structure AAtom where
  z : Nat
  charge : Int
  arom : Bool
deriving DecidableEq, Repr, Inhabited

structure AToken where
  atoms : List AAtom
  /-- inner bonds (i, j, RDKit bond type) -/
  inner : List (Nat × Nat × Nat)
  bds : List Desc
  mass : Rat
deriving DecidableEq, Repr, Inhabited

inductive AElem
  | tok (t : AToken)
  | stoch (left right : Desc) (reps ends : List AToken) (mn mw : Option Rat)
deriving Repr, Inhabited

structure ANode where
  id : Nat
  atom : AAtom
  mn : Option Rat
  mw : Option Rat
deriving DecidableEq, Repr, Inhabited

structure AEdge where
  src : Nat
  dst : Nat
  bond : Nat
  static : Rat := 0
  stochastic : Rat := 0
  termination : Rat := 0
  transition : Rat := 0
deriving DecidableEq, Repr, Inhabited

/-- nodes and static edges of one token placed at offset `off` -/
def tokenNodes (off : Nat) (t : AToken) (mn mw : Option Rat) : List ANode :=
  (withIdx t.atoms).map fun (i, a) => { id := off + i, atom := a, mn := mn, mw := mw }

def tokenStatic (off : Nat) (t : AToken) : List AEdge :=
  t.inner.flatMap fun (i, j, b) =>
    [{ src := off + i, dst := off + j, bond := b, static := 1 }, { src := off + j, dst := off + i, bond := b, static := 1 }]

/-- a descriptor of an element with the offset of its token, the token index and whether it sits on a repeat unit -/
structure ADesc where
  off : Nat
  tIdx : Nat
  isRepeat : Bool
  d : Desc
deriving DecidableEq, Repr, Inhabited

/-- offsets of consecutive tokens starting at `off` -/
def tokenOffsets (off : Nat) : List AToken → List Nat
  | [] => []
  | t :: ts => off :: tokenOffsets (off + t.atoms.length) ts

def elemTokens : AElem → List (AToken × Bool)
  | .tok t => [(t, true)]
  | .stoch _ _ reps ends _ _ => reps.map (·, true) ++ ends.map (·, false)

def elemSize (e : AElem) : Nat := ((elemTokens e).map (·.1.atoms.length)).sum

def elemDescsA (off : Nat) (e : AElem) : List ADesc :=
  let toks := elemTokens e
  let offs := tokenOffsets off (toks.map (·.1))
  ((withIdx (toks.zip offs)).map fun (i, ((t, rep), o)) => t.bds.map fun d => ({ off := o, tIdx := i, isRepeat := rep, d := d } : ADesc)).flatten

def bondNat (o : Order) : Nat := o.toNat

/-- `_add_stochastic_bonds` -/
def stochasticEdges (ds : List ADesc) : List AEdge :=
  (ds.filter (·.isRepeat)).flatMap fun g =>
    match g.d.trans with
    | some l =>
      ((ds.zip l).filter (fun p => isCompatible g.d p.1.d && decide (0 < p.2))).flatMap fun (o, p) =>
        [{ src := g.off + g.d.atom, dst := o.off + o.d.atom, bond := bondNat g.d.order, stochastic := p },
         { src := g.off + g.d.atom, dst := o.off + o.d.atom, bond := bondNat g.d.order, termination := g.d.weight }]
    | none =>
      (ds.filter (fun o => isCompatible g.d o.d && decide (0 < o.d.weight))).map fun o =>
        if o.isRepeat then { src := g.off + g.d.atom, dst := o.off + o.d.atom, bond := bondNat g.d.order, stochastic := o.d.weight }
        else { src := g.off + g.d.atom, dst := o.off + o.d.atom, bond := bondNat g.d.order, termination := o.d.weight }

def isStochA : AElem → Bool | .stoch .. => true | .tok _ => false
def leftA : AElem → Option Desc | .stoch l _ _ _ _ _ => some l | .tok _ => none
def rightA : AElem → Option Desc | .stoch _ r _ _ _ _ => some r | .tok _ => none

/-- the descriptor `b` of the right element is admitted by its left terminal (always, for a plain token) -/
def admitL (rhs : AElem) (b : Desc) : Bool :=
  match leftA rhs with | some l => isCompatible (invertTerminal l) b | none => true

/-- the descriptor `a` of the left element is admitted by its right terminal (always, for a plain token) -/
def admitR (lhs : AElem) (a : Desc) : Bool :=
  match rightA lhs with | some r => isCompatible (invertTerminal r) a | none => true

/-- `_add_transition_bonds` for one pair of consecutive elements (after the `fix:` commit: the source must not be an end group) -/
def transitionEdges (lhs rhs : AElem) (offL offR : Nat) : List AEdge :=
  (elemDescsA offL lhs).flatMap fun a =>
    (elemDescsA offR rhs).filterMap fun b =>
      if !isCompatible a.d b.d then none else
      if !(admitL rhs b.d && admitR lhs a.d) then none else
      -- not into, and not out of, a terminal group
      if !(b.isRepeat && a.isRepeat) then none else
      some { src := a.off + a.d.atom, dst := b.off + b.d.atom, bond := bondNat a.d.order, transition := b.d.weight }

def elemOffsets (off : Nat) : List AElem → List Nat
  | [] => []
  | e :: es => off :: elemOffsets (off + elemSize e) es

structure SAG where
  nodes : List ANode
  edges : List AEdge
deriving Repr, Inhabited

def elemNodesEdges (off : Nat) (e : AElem) : List ANode × List AEdge :=
  match e with
  | .tok t => (tokenNodes off t (some t.mass) (some t.mass), tokenStatic off t)
  | .stoch _ _ reps ends mn mw =>
    let toks := reps ++ ends
    let offs := tokenOffsets off toks
    (((toks.zip offs).map fun (t, o) => tokenNodes o t mn mw).flatten,
     ((toks.zip offs).map fun (t, o) => tokenStatic o t).flatten ++ stochasticEdges (elemDescsA off e))

/-- `StochasticAtomGraph.generate()`; `withDist = false` drops `mn` / `mw` (`expect_schulz_zimm_distribution=False`) -/
def stochAtomGraph (els : List AElem) (withDist : Bool) : SAG :=
  let offs := elemOffsets 0 els
  let parts := (els.zip offs).map fun (e, o) => elemNodesEdges o e
  let nodes := (parts.map (·.1)).flatten
  let nodes := if withDist then nodes else nodes.map fun n => { n with mn := none, mw := none }
  let trans := ((els.zip offs).zip ((els.zip offs).drop 1)).flatMap fun ((l, ol), (r, or')) => transitionEdges l r ol or'
  { nodes := nodes, edges := (parts.map (·.2)).flatten ++ trans }

end GBS
