import GBS.Model.Gen
/-!
# Closability analysis (`wellPosed`) — the decidable notion of "well-posed molecule" of C06

A conservative, purely syntactic analysis of the descriptor classes of a molecule description: which descriptors can ever
be open inside each stochastic object (least fixed point), whether each of them can always grow (a compatible repeat-unit
descriptor, or a transition list that puts weight on compatible descriptors only), can always be capped (a compatible end
group), whether the descriptor reserved for the right terminal always exists, and whether consecutive elements hand over
exactly one matching descriptor with closed outer ends.  `wellPosed es = true` is meant to imply that generation completes
without error and without open descriptor for **every** oracle; that implication is checked against the implementation
(C06's check), not proved (`C06_partial`).
-/
namespace GBS

/-- a descriptor slot of a stochastic object: on a repeat unit or an end group, token index, index in token -/
structure Slot where
  rep : Bool
  t : Nat
  k : Nat
  d : Desc
deriving DecidableEq, Repr, Inhabited

def slotsOf (rep : Bool) (ts : List Token) : List Slot :=
  ((withIdx ts).map fun (i, t) => (withIdx t.bds).map fun (k, d) => ({ rep := rep, t := i, k := k, d := d } : Slot)).flatten

def Stoch.slots (o : Stoch) : List Slot := slotsOf true o.repeats ++ slotsOf false o.ends

def posWeights (l : List Slot) : List Slot :=
  if l.any (fun s => decide (0 < s.d.weight)) then l.filter (fun s => decide (0 < s.d.weight)) else l

/-- the slots that may be picked as partner of the open descriptor `x` during growth; `none` = generation can fail -/
def growOptions (o : Stoch) (x : Desc) : Option (List Slot) :=
  match x.trans with
  | some l =>
    let all := o.slots
    if l.length != all.length then none else
    if l.any (fun w => decide (w < 0)) then none else
    if sumRat l = 0 ∨ x.weight = 0 then none else
    let picked := ((all.zip l).filter (fun p => decide (0 < p.2))).map (·.1)
    if picked.all (fun s => isCompatible s.d x) then some picked else none
  | none =>
    let comp := (slotsOf true o.repeats).filter (fun s => isCompatible x s.d)
    if comp.isEmpty then none else some (posWeights comp)

/-- the other descriptors of the token a slot sits on -/
def siblings (o : Stoch) (s : Slot) : List Slot :=
  o.slots.filter (fun y => y.rep == s.rep && y.t == s.t && y.k != s.k)

def sameSlot (a b : Slot) : Bool := a.rep == b.rep && a.t == b.t && a.k == b.k

def addNew (acc new : List Slot) : List Slot :=
  new.foldl (fun a s => if a.any (sameSlot s) then a else a ++ [s]) acc

/-- least fixed point: slots that can be open; `none` if some open descriptor cannot grow safely -/
def reachLoop (o : Stoch) : Nat → List Slot → List Desc → Option (List Slot)
  | 0, acc, _ => some acc
  | f + 1, acc, extra =>
    let opensD : List Desc := extra ++ acc.map (·.d)
    match opensD.mapM (growOptions o) with
    | none => none
    | some optss =>
      let entered := optss.flatten
      let acc' := addNew acc (entered.flatMap (siblings o))
      if acc'.length == acc.length then some acc else reachLoop o f acc' extra

def hasEndFor (o : Stoch) (x : Desc) : Bool := (slotsOf false o.ends).any (fun s => isCompatible x s.d)

/-- analysis of one stochastic object given the descriptor handed in (`none`: end-group initiated).
Returns the class of the descriptor handed on (`none`: nothing is handed on), or `none` if not well-posed. -/
def analyseStoch (o : Stoch) (inc : Option Desc) : Option (Option Desc) :=
  if !o.generable then none else
  if o.repeats.isEmpty then none else
  if o.repeats.any (fun t => decide (t.mass ≤ 0)) then none else
  if o.slots.any (fun s => decide (s.d.weight < 0)) then none else
  -- start
  let startR : Option (List Desc × List Slot) :=
    match inc with
    | some x =>
      if o.left.sym = .none then none else
      if x.sym ≠ o.left.sym ∨ x.id ≠ o.left.id then none else
      if o.left.weight < 0 then none else
      some ([{ x with weight := o.left.weight, trans := o.left.trans }], [])
    | none =>
      if o.left.sym ≠ .none then none else
      if o.ends.isEmpty then none else
      if o.ends.any (fun t => t.bds.length != 1) then none else
      some ([], posWeights (slotsOf false o.ends))
  match startR with
  | none => none
  | some (extra, startSlots) =>
    match reachLoop o (o.slots.length + 2) startSlots extra with
    | none => none
    | some reach =>
      -- the descriptor handed in / the start end group's descriptor is the only open one at first: it is consumed by the
      -- first unit and never capped; what can be open at a finalisation are descriptors of entered repeat units
      let opens : List Desc := (reach.filter (·.rep)).map (·.d)
      let growing : List Desc := extra ++ reach.map (·.d)
      if o.ends.any (fun t => t.bds.length != 1) then none else
      if o.right.sym = .none then
        -- everything is capped
        if opens.all (hasEndFor o) then some none else none
      else
        let inv := invertTerminal o.right
        let isR := fun (x : Desc) => isCompatible inv x
        -- chain-like: every token that can be entered has exactly two descriptors, every open descriptor is of the reserved class
        let chain := (o.repeats.all (fun t => t.bds.length == 2)) && opens.all isR && !opens.isEmpty &&
          -- a transition list must not route into an end group (that would close the only open descriptor)
          growing.all (fun x => match growOptions o x with | some l => l.all (·.rep) | none => false)
        if chain then some (some { inv with sym := (opens.headD default).sym, order := .single })
        else
          -- branched: every open class can be capped, and entering any unit leaves a descriptor of the reserved class
          let leaves := growing.all (fun x => match growOptions o x with
            | some l => l.all (fun s => s.rep && (siblings o s).any (fun y => isR y.d))
            | none => false)
          if opens.all (hasEndFor o) && leaves then
            match (o.slots.filter (fun s => s.rep && isR s.d)).head? with
            | some s => some (some { s.d with weight := 1, trans := none })
            | none => none
          else none

/-- analysis of a token element given the descriptor handed in; returns what is handed on -/
def analyseToken (t : Token) (inc : Option Desc) (isLast : Bool) : Option (Option Desc) :=
  if !t.generable then none else
  if t.natoms == 0 then none else
  match inc with
  | none =>
    match t.bds with
    | [] => if isLast then some none else none
    | [d] => if isLast then none else some (some d)
    | _ => none
  | some x =>
    let comp := (withIdx t.bds).filter (fun p => isCompatible x p.2)
    let cand := if comp.any (fun p => decide (0 < p.2.weight)) then comp.filter (fun p => decide (0 < p.2.weight)) else comp
    match cand with
    | [(j, _)] =>
      let rest := (withIdx t.bds).filter (fun p => p.1 != j)
      match rest with
      | [] => if isLast then some none else none
      | [(_, d)] => if isLast then none else some (some d)
      | _ => none
    | _ => none

def analyseElems : List Element → Option Desc → Bool
  | [], inc => inc.isNone
  | e :: es, inc =>
    let r := match e with
      | .tok t => analyseToken t inc es.isEmpty
      | .stoch o => analyseStoch o inc
    match r with
    | none => false
    | some out => analyseElems es out

/-- **well-posed**: the closability analysis accepts the molecule -/
def wellPosed (es : List Element) : Bool := !es.isEmpty && analyseElems es none

end GBS
