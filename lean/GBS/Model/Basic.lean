/-!
# Basic types shared by the extracted definitions and the hand-written model

`bond.py`: a `BondDescriptor` has a symbol (`descriptor`: `""`, `$`, `<`, `>`), an id
(`descriptor_id`: `""` or an `int`), a bond order (`bond_type`), a weight, an optional transition
list and the atom it bonds to.  Import-free: the driver links against this.
-/
namespace GBS

/-- `BondDescriptor.descriptor`: `""` (the empty terminal `[]`), `$`, `<`, `>`. -/
inductive Sym | none | dollar | lt | gt
deriving DecidableEq, Repr, Inhabited

/-- `rdkit.Chem.rdchem.BondType` values that `bond.py` can assign. -/
inductive Order | unspecified | single | double | triple | quadruple | oneAndAHalf
deriving DecidableEq, Repr, Inhabited

/-- A parsed bond descriptor (the fields of `BondDescriptor` that any behaviour depends on). -/
structure Desc where
  sym : Sym
  /-- `descriptor_id`; `none` models the empty string -/
  id : Option Nat
  order : Order
  weight : Rat := 1
  trans : Option (List Rat) := none
  /-- `atom_bonding_to` -/
  atom : Nat := 0
deriving DecidableEq, Repr, Inhabited

def Sym.toChar? : Sym → Option Char
  | .none => Option.none | .dollar => some '$' | .lt => some '<' | .gt => some '>'

def Order.toNat : Order → Nat
  | .unspecified => 0 | .single => 1 | .double => 2 | .triple => 3 | .quadruple => 4 | .oneAndAHalf => 7

end GBS
