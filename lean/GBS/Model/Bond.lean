import GBS.Extracted.Bond
/-!
# `bond.py` / `core.py:94-99`: compatibility and the index filter

`isCompatible`, `orderOfPrefix`, `stereoRejected`, `compatSymbolOfText` are *extracted* from the
source on every run (`GBS/Extracted.lean`); this file adds the hand-written loop of
`get_compatible_bond_descriptor_ids`.
-/
namespace GBS

/-- `get_compatible_bond_descriptor_ids(bond_descriptors, bond)`: indices `i` (increasing) with
`bond is None or bond.is_compatible(bond_descriptors[i])`. -/
def compatibleIdsFrom (b : Option Desc) : Nat → List Desc → List Nat
  | _, [] => []
  | i, o :: os =>
    let rest := compatibleIdsFrom b (i + 1) os
    match b with
    | none => i :: rest
    | some b => if isCompatible b o then i :: rest else rest

def compatibleIds (bds : List Desc) (b : Option Desc) : List Nat := compatibleIdsFrom b 0 bds

end GBS
