import GBS.Extracted.FFCache
import GBS.Extracted.FFTables
import GBS.Extracted.Masses
/-!
# `forcefield_helper.py`

* the cache machine: `ffCacheStep` is **extracted** from `get_assignment_class`;
* the rule table and the parameter rows are **extracted** from `data/opls.par` and `data/ffnonbonded.itp`;
* `assign`: model of `SMARTS_ASSIGNMENTS.get_type_assignments` over an abstract match relation (RDKit's SMARTS matching
  is a parameter: which atoms each rule matches).
-/
namespace GBS

/-- a history of typing calls: (smarts file, non-bonded file) per call -/
def ffRun (s : FFCache) : List (FName × FName) → FFCache × List (Option (FName × FName))
  | [] => (s, [])
  | (a, b) :: rest =>
    let s' := ffCacheStep s a b
    let (sf, outs) := ffRun s' rest
    (sf, s'.cached :: outs)

/-- `_rule_dict`: rule text ↦ type, insertion order of first occurrence, last value wins -/
def dictInsert {κ ν} [BEq κ] (d : List (κ × ν)) (k : κ) (v : ν) : List (κ × ν) :=
  if d.any (·.1 == k) then d.map (fun p => if p.1 == k then (k, v) else p) else d ++ [(k, v)]

def ruleDict {κ ν} [BEq κ] (rules : List (ν × κ)) : List (κ × ν) :=
  rules.foldl (fun d p => dictInsert d p.2 p.1) []

/-- `_type_param`: type name ↦ row, last row wins -/
def lookupLast {κ α} [BEq κ] (rows : List (κ × α)) (k : κ) : Option α :=
  (rows.reverse.find? (·.1 == k)).map (·.2)

abbrev Rule := List Char
abbrev TypeName := Nat

/-- first longest rule of a non-empty list (`len(match_rule) > len(final_match)` replaces) -/
def firstLongest : List Rule → Option Rule
  | [] => none
  | r :: rs => some (rs.foldl (fun best x => if x.length > best.length then x else best) r)

/-- the rules (in dictionary order) that match atom `a` -/
def rulesFor (dict : List (Rule × TypeName)) (matchesOf : Rule → List Nat) (a : Nat) : List Rule :=
  (dict.filter (fun p => (matchesOf p.1).contains a)).map (·.1)

/-- the type one atom receives: the type of the first longest matching rule -/
def typeOf (dict : List (Rule × TypeName)) (matchesOf : Rule → List Nat) (a : Nat) : Option TypeName :=
  match firstLongest (rulesFor dict matchesOf a) with
  | some r => (dict.find? (·.1 == r)).map (·.2)
  | none => none


/-- `get_type_assignments`: `matchesOf r` = atoms matched by rule `r`; result: atom ↦ type, or (error) the partial map -/
def assign (dict : List (Rule × TypeName)) (matchesOf : Rule → List Nat) (natoms : Nat) :
    Except (List (Nat × TypeName)) (List (Nat × TypeName)) :=
  let typed := (List.range natoms).filterMap fun a => (typeOf dict matchesOf a).map (fun t => (a, t))
  if typed.length = natoms then .ok typed else .error typed

/-- `_type_dict`, `_type_dict_rev`, `_rule_dict` as `_read_smarts_rules` builds them: a new type name gets the next counter
value; names map to ids, ids back to names, rules to names (last line wins) -/
structure RuleTables where
  typeDict : List (TypeName × Nat) := []
  typeRev : List (Nat × TypeName) := []
  ruleDict : List (Rule × TypeName) := []
  counter : Nat := 0
deriving Repr, Inhabited

def dictSet {κ ν} [BEq κ] (d : List (κ × ν)) (k : κ) (v : ν) : List (κ × ν) := dictInsert d k v

/-- the two id dictionaries depend on the sequence of TYPE columns only -/
def readTypes (types : List TypeName) : List (TypeName × Nat) × List (Nat × TypeName) × Nat :=
  types.foldl (fun (acc : List (TypeName × Nat) × List (Nat × TypeName) × Nat) t =>
    let (id, ctr) := match (acc.1.find? (·.1 == t)).map (·.2) with
      | some i => (i, acc.2.2)
      | none => (acc.2.2, acc.2.2 + 1)
    (dictSet acc.1 t id, dictSet acc.2.1 id t, ctr)) ([], [], 0)

def readRules (rules : List (TypeName × Rule)) : RuleTables :=
  let tt := readTypes (rules.map (·.1))
  { typeDict := tt.1, typeRev := tt.2.1, ruleDict := ruleDict rules, counter := tt.2.2 }

/-- `get_ffparam(get_type(_rule_dict[rule]))`: rule → type name → numeric id → type name (whose row is then read) -/
def resolveRule (tb : RuleTables) (r : Rule) : Option TypeName :=
  match (tb.ruleDict.find? (·.1 == r)).map (·.2) with
  | none => none
  | some name =>
    match (tb.typeDict.find? (·.1 == name)).map (·.2) with
    | none => none
    | some id => (tb.typeRev.find? (·.1 == id)).map (·.2)

/-- the same through the numeric id tables, as the code does it -/
def typeOfVia (tb : RuleTables) (matchesOf : Rule → List Nat) (a : Nat) : Option TypeName :=
  match firstLongest (rulesFor tb.ruleDict matchesOf a) with
  | some r => resolveRule tb r
  | none => none

/-- element symbols that occur as leading primitives in the rule file -/
def elemZ : List (List Char × Nat) :=
  [(['H'], 1), (['L','i'], 3), (['B'], 5), (['C'], 6), (['N'], 7), (['O'], 8), (['F'], 9), (['N','a'], 11), (['M','g'], 12),
   (['S','i'], 14), (['P'], 15), (['S'], 16), (['C','l'], 17), (['K'], 19), (['C','a'], 20), (['F','e'], 26), (['C','u'], 29),
   (['B','r'], 35), (['R','b'], 37), (['S','r'], 38), (['I'], 53), (['C','s'], 55), (['B','a'], 56),
   (['c'], 6), (['n'], 7), (['o'], 8), (['s'], 16)]

def lookupZ (s : List Char) : Option Nat := (elemZ.find? (·.1 == s)).map (·.2)

def digitsToNat (cs : List Char) : Option Nat :=
  if cs.isEmpty then none else some (cs.foldl (fun n c => 10 * n + (c.toNat - '0'.toNat)) 0)

/-- one alternative of a primitive: `#6…`, `Cl…`, `C…`, `c…` -/
def primZ (cs : List Char) : Option Nat :=
  match cs with
  | '#' :: rest => digitsToNat (rest.takeWhile Char.isDigit)
  | a :: b :: _ =>
    match lookupZ [a, b] with
    | some z => if b.isLower then some z else lookupZ [a]
    | none => lookupZ [a]
  | [a] => lookupZ [a]
  | [] => none

/-- split on ',' -/
def splitComma (cs : List Char) : List (List Char) :=
  cs.foldr (fun c acc => if c == ',' then [] :: acc else match acc with | [] => [[c]] | x :: xs => (c :: x) :: xs) [[]]

/-- leading atom primitive of a rule `[$([X…` : the atomic numbers it admits (`[o,s]` admits two; `[C;H2,H3]` is `C`
with a property list) -/
def leadingZ (cs : Rule) : List (Option Nat) :=
  if cs.take 4 == ['[', '$', '(', '['] then
    let body := (cs.drop 4).takeWhile (· != ']')
    let head := body.takeWhile (fun c => c != ';')
    (splitComma head).map primZ
  else [none]

end GBS
