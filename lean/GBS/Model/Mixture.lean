/-!
# `mixture.py` setters and `system.py:15-84` (`_estimate_system_molecular_weight`)

Line-by-line model over exact rationals, including Python truthiness (`if mol.mixture.absolute_mass:` is false for
`None` **and** for `0.0`) and the error points (`RuntimeError`, `ZeroDivisionError`).  The code's tolerances `1e-6`
are exact rational comparisons.
-/
namespace GBS

/-- `Mixture` after parsing: `_absolute_mass`, `_relative_mass`, `_system_mass` -/
structure Mix where
  abs : Option Rat := none
  rel : Option Rat := none
  sys : Option Rat := none
deriving DecidableEq, Repr, Inhabited

inductive EErr
  | badWeight      -- "Unable to adjust weight for system"
  | fractionSum    -- "Error adjusting system fractional weight"
  | inconsistent   -- "System described with inconsistent mol weights"
  | zeroDiv        -- Python ZeroDivisionError
  | negMass        -- "Invalid negative total system mass"
  | badFraction    -- "Unable to set weight … Invalid extra fraction"
  | fractionsAfter -- "System described with inconsistent fractions" (all fractions known, sum is not 100)
deriving DecidableEq, Repr, Inhabited

abbrev E := Except EErr

/-- Python truthiness of an optional float -/
def truthy : Option Rat → Bool
  | some x => x != 0
  | none => false

/-- `Mixture.system_mass.setter` -/
def setSys (m : Mix) (mass : Rat) : E Mix :=
  if mass < 0 then .error .negMass else
  match m.rel with
  | some r => .ok { m with sys := some mass, abs := some (r / 100 * mass) }
  | none =>
    match m.abs with
    | some a => if mass = 0 then .error .zeroDiv else .ok { m with sys := some mass, rel := some (100 * a / mass) }
    | none => .ok { m with sys := some mass }

/-- `Mixture.relative_mass.setter` -/
def setRel (m : Mix) (f : Rat) : E Mix :=
  if f < 0 ∨ f > 100 then .error .badFraction else
  let m' := { m with rel := some f }
  if truthy m.abs then
    match m.abs with
    | some a => if f / 100 = 0 then .error .zeroDiv else setSys m' (a / (f / 100))
    | none => .ok m'
  else .ok m'

/-- the first loop: number of components with a percentage, their sum, number with a (truthy) absolute mass, their sum -/
def tally : List (Option Mix) → Nat × Rat × Nat × Rat
  | [] => (0, 0, 0, 0)
  | none :: ms => tally ms
  | some m :: ms =>
    let (nf, tf, nm, tm) := tally ms
    let (nm, tm) := if truthy m.abs then (nm + 1, tm + m.abs.getD 0) else (nm, tm)
    match m.rel with
    | some r => (nf + 1, tf + r, nm, tm)
    | none => (nf, tf, nm, tm)

/-- the inference loop: the one component without percentage gets `weight` -/
def inferRel (weight : Rat) : List (Option Mix) → E (List (Option Mix))
  | [] => .ok []
  | none :: ms =>
    match inferRel weight ms with
    | .error e => .error e
    | .ok r => .ok (some { rel := some weight } :: r)
  | some m :: ms =>
    match (match m.rel with | none => setRel m weight | some _ => .ok m) with
    | .error e => .error e
    | .ok m' =>
      match inferRel weight ms with
      | .error e => .error e
      | .ok r => .ok (some m' :: r)

def sysEstimates : List (Option Mix) → List Rat
  | [] => []
  | none :: ms => sysEstimates ms
  | some m :: ms => if truthy m.sys then m.sys.getD 0 :: sysEstimates ms else sysEstimates ms

def tol : Rat := 1 / 1000000

def absR (x : Rat) : Rat := if x < 0 then -x else x

/-- consecutive estimates agree within 1e-6 -/
def consistentList : List Rat → Bool
  | a :: b :: rest => decide (¬ (absR (a - b) > tol)) && consistentList (b :: rest)
  | _ => true

/-- the final loop: set the system mass on every component; stops (returning `false`) at the first component without
mixture — the components before it have already been updated, as in the code -/
def setAll (w : Rat) : List (Option Mix) → E (Bool × List (Option Mix))
  | [] => .ok (true, [])
  | none :: ms => .ok (false, none :: ms)
  | some m :: ms =>
    match setSys m w with
    | .error e => .error e
    | .ok m' =>
      match setAll w ms with
      | .error e => .error e
      | .ok (b, r) => .ok (b, some m' :: r)

def sumQ (l : List Rat) : Rat := l.foldr (· + ·) 0

/-- the fractions of all components, if every component has one (`None not in fractions`) -/
def allRel : List (Option Mix) → Option (List Rat)
  | [] => some []
  | none :: _ => none
  | some m :: ms =>
    match m.rel, allRel ms with
    | some r, some rs => some (r :: rs)
    | _, _ => none

/-- the candidate system masses, in the order the code collects them: the caller's value, the system masses already
known on components (a component with both a percentage and an absolute mass), the sum of all absolute masses when
every component has one -/
def estList (M : Option Rat) (ms : List (Option Mix)) (nm : Nat) (tm : Rat) : List Rat :=
  (if truthy M then [M.getD 0] else []) ++ sysEstimates ms ++ (if nm = ms.length then [tm] else [])

/-- set the system mass everywhere, then (fixed behaviour) require the now known fractions to sum to 100 -/
def finishAll (w : Rat) (ms : List (Option Mix)) : E (Bool × List (Option Mix)) :=
  match setAll w ms with
  | .error e => .error e
  | .ok (false, r) => .ok (false, r)
  | .ok (true, r) =>
    match allRel r with
    | some fs => if fs ≠ [] ∧ absR (sumQ fs - 100) > tol then .error .fractionsAfter else .ok (true, r)
    | none => .ok (true, r)

def finish (nf : Nat) (tf : Rat) (nm : Nat) (tm : Rat) (ms : List (Option Mix)) (M : Option Rat) : E (Bool × List (Option Mix)) :=
  if nf = ms.length ∧ absR (tf - 100) > tol then .error .fractionSum else
  if !consistentList (estList M ms nm tm) then .error .inconsistent else
  match estList M ms nm tm with
  | [] => .ok (false, ms)
  | w :: _ => finishAll w ms

/-- the inference of the one missing percentage -/
def step1 (nf : Nat) (tf : Rat) (ms : List (Option Mix)) : E (Nat × Rat × List (Option Mix)) :=
  if nf + 1 = ms.length then
    if 100 - tf < 0 ∨ 100 - tf > 100 then .error .badWeight else
    match inferRel (100 - tf) ms with
    | .error e => .error e
    | .ok ms' => .ok (nf + 1, tf + (100 - tf), ms')
  else .ok (nf, tf, ms)

/-- `_estimate_system_molecular_weight(molecules, system_molweight)`: generable flag and the mixtures afterwards -/
def estimate (ms : List (Option Mix)) (M : Option Rat) : E (Bool × List (Option Mix)) :=
  match step1 (tally ms).1 (tally ms).2.1 ms with
  | .error e => .error e
  | .ok (nf, tf, ms') => finish nf tf (tally ms).2.2.1 (tally ms).2.2.2 ms' M

end GBS
