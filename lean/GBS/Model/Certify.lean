import GBS.Model.Gen
/-!
# Certificates of closability (the decidable notion behind "well-posed" in C06)

A certificate for a molecule description gives, for every stochastic object, its *mode* (what it hands on) and a set `R` of
descriptor classes that may be open inside it.  `ElemsOK es cs none` is a decidable check of the certificate:
every class of `R` has a non-negative weight, can always grow (a compatible repeat unit, or a transition list that only routes
to compatible descriptors) into tokens whose other descriptors are again in `R`, can be capped where capping is needed, the
descriptor reserved for the right terminal always exists, and consecutive elements hand over exactly one fitting descriptor.
`GBS/Lemmas/Progress.lean` proves that a checked certificate implies error-free, complete generation for every oracle
(`certified_generates`); `certify` searches a certificate (least fixed point from the start descriptors) and checks it.
-/
namespace GBS

/-- the descriptor of an entry of `repeatBonds` / `endBonds` -/
abbrev Prod3.d (p : Token × Nat × Desc) : Desc := p.2.2

/-- equality of descriptors up to the attachment atom (a copy placed in a molecule has its atom index shifted) -/
def dEq (x y : Desc) : Prop := x.sym = y.sym ∧ x.id = y.id ∧ x.order = y.order ∧ x.weight = y.weight ∧ x.trans = y.trans

instance (x y : Desc) : Decidable (dEq x y) := by unfold dEq; infer_instance


/-- `x` belongs (up to the atom) to the set `R` of descriptor classes that may be open -/
def InR (R : List Desc) (x : Desc) : Prop := ∃ y ∈ R, dEq x y

instance (R : List Desc) (x : Desc) : Decidable (InR R x) := by unfold InR; infer_instance


/-- the indices `choose_compatible_weight(bds, b)` can return: compatible and of positive probability (a compatible descriptor of
weight 0 next to one of positive weight is never taken) -/
def pickable (bds : List Desc) (b : Option Desc) : List Nat :=
  let ids := compatibleIds bds b
  let ps := chooseProbs (ids.map fun i => (bds.getD i default).weight)
  (ids.zip ps).filterMap fun p => if 0 < p.2 then some p.1 else none

/-- how the object ends: `inv` = the descriptor class reserved for the right terminal (`none`: everything is capped);
`chain` = every unit that can be entered has exactly two descriptors, so exactly one descriptor is open at any time and
nothing ever needs a cap -/
structure Mode where
  inv : Option Desc
  chain : Bool
deriving DecidableEq, Repr

/-- what entering `tok` at descriptor `k` must leave behind in mode `m` -/
def Leaves (m : Mode) (tok : Token) (k : Nat) : Prop :=
  (match m.inv with
   | none => True
   | some r => ∃ y ∈ tok.bds.eraseIdx k, isCompatible r y = true) ∧
  (m.chain = true → tok.bds.length = 2)

instance (m : Mode) (tok : Token) (k : Nat) : Decidable (Leaves m tok k) := by
  unfold Leaves
  have : Decidable (match m.inv with
   | none => True
   | some r => ∃ y ∈ tok.bds.eraseIdx k, isCompatible r y = true) := by split <;> infer_instance
  infer_instance

/-- entering the object at index `c` (repeat units first, then end groups) from the open descriptor `x` works and leaves only
descriptors of `R` open -/
def EntryOK (o : Stoch) (m : Mode) (R : List Desc) (x : Desc) (c : Nat) : Prop :=
  match o.entry c with
  | some (tok, k, d) => tok.generable = true ∧ tok.bds[k]? = some d ∧ isCompatible d x = true ∧ (∀ y ∈ tok.bds.eraseIdx k, InR R y) ∧ Leaves m tok k
  | none => False

instance (o : Stoch) (m : Mode) (R : List Desc) (x : Desc) (c : Nat) : Decidable (EntryOK o m R x c) := by
  unfold EntryOK; split <;> infer_instance

/-- the partner pick of `add_repeat_unit` from the open descriptor `x` cannot raise, and whatever it picks can be attached -/
def GrowOK (o : Stoch) (m : Mode) (R : List Desc) (x : Desc) : Prop :=
  match x.trans with
  | none =>
    compatibleIds (o.repeatBonds.map Prod3.d) (some x) ≠ [] ∧
    (∀ c ∈ compatibleIds (o.repeatBonds.map Prod3.d) (some x), 0 ≤ ((o.repeatBonds.map Prod3.d).getD c default).weight) ∧
    ∀ c ∈ pickable (o.repeatBonds.map Prod3.d) (some x), EntryOK o m R x c
  | some l =>
    l ≠ [] ∧ probsOk (l.map (· / x.weight)) x.weight = true ∧
    ∀ c ∈ List.range l.length, 0 < l.getD c 0 / x.weight → EntryOK o m R x c

instance (o : Stoch) (m : Mode) (R : List Desc) (x : Desc) : Decidable (GrowOK o m R x) := by
  unfold GrowOK; split <;> infer_instance

/-- an end group can cap the open descriptor `x` -/
def CapOK (o : Stoch) (x : Desc) : Prop :=
  compatibleIds (o.endBonds.map Prod3.d) (some x) ≠ [] ∧
  ∀ c ∈ compatibleIds (o.endBonds.map Prod3.d) (some x),
    0 ≤ ((o.endBonds.map Prod3.d).getD c default).weight ∧
    match o.endBonds[c]? with
    | some (tok, k, d) => tok.generable = true ∧ tok.bds[k]? = some d ∧ tok.bds.length = 1
    | none => False

instance (o : Stoch) (x : Desc) : Decidable (CapOK o x) := by
  unfold CapOK
  have : ∀ c, Decidable (0 ≤ ((o.endBonds.map Prod3.d).getD c default).weight ∧
      match o.endBonds[c]? with
      | some (tok, k, d) => tok.generable = true ∧ tok.bds[k]? = some d ∧ tok.bds.length = 1
      | none => False) := by
    intro c
    have : Decidable (match o.endBonds[c]? with
      | some (tok, k, d) => tok.generable = true ∧ tok.bds[k]? = some d ∧ tok.bds.length = 1
      | none => False) := by split <;> infer_instance
    infer_instance
  infer_instance

/-- **certificate**: `R0` = the classes the object starts from (open only before the first unit), `R` = the classes that may be
open after a unit was added.  All of them have non-negative weight and can grow into `R`; those of `R` can be capped (unless the
object is a chain, where nothing ever needs a cap) -/
def Cert (o : Stoch) (m : Mode) (R0 R : List Desc) : Prop :=
  (∀ x ∈ R0 ++ R, 0 ≤ x.weight) ∧ (∀ x ∈ R0 ++ R, GrowOK o m R x) ∧ (m.chain = false → ∀ x ∈ R, CapOK o x)

instance (o : Stoch) (m : Mode) (R0 R : List Desc) : Decidable (Cert o m R0 R) := by unfold Cert; infer_instance



/-- all open descriptors of the molecule are (copies of) classes of `R` -/
def OpensIn (R : List Desc) (s : Mol) : Prop := ∀ od ∈ s.opens, InR R od.d


/-- the mode fits the object's right terminal -/
def ModeOf (o : Stoch) (m : Mode) : Prop :=
  (o.right.sym = .none → m.inv = none ∧ m.chain = false) ∧ (o.right.sym ≠ .none → m.inv = some (invertTerminal o.right))

instance (o : Stoch) (m : Mode) : Decidable (ModeOf o m) := by unfold ModeOf; infer_instance


/-- what `finalize` / the whole growth of the object leaves open: nothing when everything is capped, otherwise exactly the one
descriptor reserved for the right terminal -/
def Handed (m : Mode) (R : List Desc) (r : Mol) : Prop :=
  (m.inv = none → r.opens = []) ∧
  (∀ rr, m.inv = some rr → ∃ od, r.opens = [od] ∧ InR R od.d ∧ isCompatible rr od.d = true)


/-- same symbol, id and bond order: all that compatibility and the left-terminal test read -/
def Same3 (x h : Desc) : Prop := x.sym = h.sym ∧ x.id = h.id ∧ x.order = h.order

instance (x h : Desc) : Decidable (Same3 x h) := by unfold Same3; infer_instance

def flipSym : Sym → Sym | .lt => .gt | .gt => .lt | s => s

/-- the class of the one descriptor that is compatible with `rr` -/
def handOf (rr : Desc) : Desc := { sym := flipSym rr.sym, id := rr.id, order := rr.order }


/-- the molecule handed to an element has exactly one open descriptor, of class `h` -/
def PreOK : Option Mol → Option Desc → Prop
  | none, none => True
  | some p, some h => ∃ od, p.opens = [od] ∧ Same3 od.d h
  | _, _ => False

/-- the start of the object fits: without prefix it starts from an end group whose descriptor may grow; with a prefix the
handed descriptor is the left terminal's and, with the terminal's weight and list, may grow -/
def StartOK (o : Stoch) (R : List Desc) : Option Desc → Prop
  | none =>
    o.left.sym = .none ∧ o.endBonds ≠ [] ∧
    ∀ p ∈ o.endBonds, 0 ≤ p.2.2.weight ∧ p.1.generable = true ∧ p.1.bds.length = 1 ∧ ∀ y ∈ p.1.bds, InR R y
  | some h =>
    h.sym = o.left.sym ∧ h.id = o.left.id ∧ InR R { h with trans := o.left.trans, weight := o.left.weight }

instance (o : Stoch) (R : List Desc) (inc : Option Desc) : Decidable (StartOK o R inc) := by
  unfold StartOK; split <;> infer_instance


/-- the classes an object starts from: the descriptors of its end groups (no prefix), or the handed descriptor with the left
terminal's weight and list -/
def startClasses (o : Stoch) : Option Desc → List Desc
  | none => o.ends.flatMap (·.bds)
  | some h => [{ h with trans := o.left.trans, weight := o.left.weight }]

/-- certificate of one stochastic object inside a molecule -/
def StochOK (o : Stoch) (m : Mode) (R : List Desc) (inc : Option Desc) : Prop :=
  o.generable = true ∧ ModeOf o m ∧ Cert o m (startClasses o inc) R ∧ StartOK o (startClasses o inc) inc

instance (o : Stoch) (m : Mode) (R : List Desc) (inc : Option Desc) : Decidable (StochOK o m R inc) := by
  unfold StochOK; infer_instance

/-- the class handed on by the object -/
def stochOut (m : Mode) : Option Desc := m.inv.map handOf


def tokOut (t : Token) : Option Desc → Option Desc
  | none => t.bds.head?
  | some h => match pickable t.bds (some h) with
    | [j] => (t.bds.eraseIdx j).head?
    | _ => none

/-- a plain token fits: generable; as first element it has at most one descriptor; otherwise exactly one of its descriptors can be
picked for the descriptor handed in (compatible, positive probability) and at most one other descriptor remains -/
def TokOK (t : Token) : Option Desc → Prop
  | none => t.generable = true ∧ t.bds.length ≤ 1
  | some h => t.generable = true ∧ ∃ j ∈ List.range t.bds.length, pickable t.bds (some h) = [j] ∧ (t.bds.eraseIdx j).length ≤ 1

instance (t : Token) (inc : Option Desc) : Decidable (TokOK t inc) := by unfold TokOK; split <;> infer_instance

/-- what an element leaves: nothing open, or exactly one open descriptor of the class handed on -/
def OutOK (r : Mol) : Option Desc → Prop
  | none => r.opens = []
  | some d => PreOK (some r) (some d)


/-- per-element certificate data: for a stochastic object its mode and the set of descriptor classes that may be open; unused
for plain tokens -/
abbrev ElemCert := Mode × List Desc

def elemOut (e : Element) (c : ElemCert) (inc : Option Desc) : Option Desc :=
  match e with
  | .tok t => tokOut t inc
  | .stoch _ => stochOut c.1

def ElemOK (e : Element) (c : ElemCert) (inc : Option Desc) : Prop :=
  match e with
  | .tok t => TokOK t inc
  | .stoch o => StochOK o c.1 c.2 inc

instance (e : Element) (c : ElemCert) (inc : Option Desc) : Decidable (ElemOK e c inc) := by
  unfold ElemOK; split <;> infer_instance

/-- **molecule certificate**: every element fits what the previous one hands over, every element but the last hands a descriptor
on, and the last one leaves nothing open -/
def ElemsOK : List Element → List ElemCert → Option Desc → Prop
  | [], _, inc => inc = none
  | e :: es, c :: cs, inc => ElemOK e c inc ∧ (es ≠ [] → elemOut e c inc ≠ none) ∧ ElemsOK es cs (elemOut e c inc)
  | _ :: _, [], _ => False

instance decElemsOK : (es : List Element) → (cs : List ElemCert) → (inc : Option Desc) → Decidable (ElemsOK es cs inc)
  | [], _, inc => by unfold ElemsOK; infer_instance
  | e :: es, c :: cs, inc => by
    unfold ElemsOK
    have := decElemsOK es cs (elemOut e c inc)
    infer_instance
  | _ :: _, [], _ => by unfold ElemsOK; infer_instance



/-! ## Searching a certificate -/

def normClass (d : Desc) : Desc := { d with atom := 0 }

def addClasses (R new : List Desc) : List Desc :=
  new.foldl (fun acc y => if acc.any (fun z => decide (dEq y z)) then acc else acc ++ [normClass y]) R

/-- the other descriptors of the token entered at index `c` of the object -/
def entrySibs (o : Stoch) (c : Nat) : List Desc :=
  match o.entry c with
  | some (tok, k, _) => tok.bds.eraseIdx k
  | none => []

/-- descriptors that become open when the object grows from the open descriptor `x` -/
def growTargets (o : Stoch) (x : Desc) : List Desc :=
  match x.trans with
  | none => (compatibleIds (o.repeatBonds.map Prod3.d) (some x)).flatMap (entrySibs o)
  | some l => ((List.range l.length).filter fun c => decide (0 < l.getD c 0 / x.weight)).flatMap (entrySibs o)

/-- least fixed point: the classes that become open when the object grows from the start classes `R0` or from classes found so far
(fuel: one more than the number of descriptors) -/
def closeR (o : Stoch) (R0 : List Desc) : Nat → List Desc → List Desc
  | 0, R => R
  | f + 1, R =>
    let R' := addClasses R ((R0 ++ R).flatMap (growTargets o))
    if R'.length == R.length then R else closeR o R0 f R'

def guessStoch (o : Stoch) (inc : Option Desc) : ElemCert :=
  let R := closeR o (startClasses o inc) (o.repeatBonds.length + o.endBonds.length + 2) []
  let inv : Option Desc := if o.right.sym = .none then none else some (invertTerminal o.right)
  let m1 : Mode := { inv := inv, chain := true }
  if inv.isSome && decide (StochOK o m1 R inc) then (m1, R) else ({ inv := inv, chain := false }, R)

def guessCerts : List Element → Option Desc → List ElemCert
  | [], _ => []
  | e :: es, inc =>
    let c : ElemCert := match e with
      | .tok _ => ({ inv := none, chain := false }, [])
      | .stoch o => guessStoch o inc
    c :: guessCerts es (elemOut e c inc)

/-- **search and check**: a certificate for the molecule, if the least-fixed-point guess passes the check -/
def certify (es : List Element) : Option (List ElemCert) :=
  let cs := guessCerts es none
  if !es.isEmpty && decide (ElemsOK es cs none) then some cs else none

end GBS
