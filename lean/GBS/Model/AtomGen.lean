import GBS.Model.AtomGraph
import GBS.Extracted.Masses
/-!
# `graph_generate.py`: generation of a molecule from a stochastic atom graph

A state machine over the stochastic atom graph.  NetworkX iteration orders are part of the model because the indices handed
to `rng.choice` refer to them: `out_edges(n)` groups parallel edges by neighbour in order of first insertion, nodes iterate in
insertion order, `dfs_tree` visits neighbours in adjacency order.  Every `rng.choice` consumes one `pick` (the index drawn),
the Schulz–Zimm target one `draw`.  `EPSILON = 1e-300` is kept as an exact rational.
-/
namespace GBS

def epsilon : Rat := 1 / ((10 : Nat) ^ 300 : Nat)

/-- `stochastic_graph.out_edges(n, data=True)`: grouped by neighbour in first-insertion order -/
def outEdges (g : SAG) (n : Nat) : List AEdge :=
  let es := g.edges.filter (·.src == n)
  let dsts := es.foldl (fun acc e => if acc.contains e.dst then acc else acc ++ [e.dst]) ([] : List Nat)
  dsts.flatMap fun d => es.filter (·.dst == d)

def nodeIds (g : SAG) : List Nat := g.nodes.map (·.id)

/-- adjacency lists of `_build_static_graph` (undirected simple graph), with NetworkX's insertion order -/
def staticAdj (g : SAG) : List (Nat × List Nat) :=
  let init : List (Nat × List Nat) := (nodeIds g).map (·, [])
  let addHalf := fun (adj : List (Nat × List Nat)) (u v : Nat) =>
    adj.map fun (n, l) => if n == u then (n, if l.contains v then l else l ++ [v]) else (n, l)
  (nodeIds g).foldl (fun adj u =>
    ((outEdges g u).filter (fun e => e.static != 0)).foldl (fun adj e =>
      let present := ((adj.find? (·.1 == e.dst)).map (·.2)).getD [] |>.contains u
      if present then adj else addHalf (addHalf adj u e.dst) e.dst u) adj) init

def neighbours (adj : List (Nat × List Nat)) (n : Nat) : List Nat := ((adj.find? (·.1 == n)).map (·.2)).getD []

/-- preorder of `nx.dfs_tree(static_graph, source)` -/
def dfsPre (adj : List (Nat × List Nat)) : Nat → List Nat → List Nat → List Nat
  | 0, _, seen => seen
  | _ + 1, [], seen => seen
  | f + 1, n :: stack, seen =>
    if seen.contains n then dfsPre adj f stack seen
    else dfsPre adj f (neighbours adj n ++ stack) (seen ++ [n])

/-- bond type of the static edge between two stochastic nodes -/
def staticBond (g : SAG) (a b : Nat) : Nat :=
  ((g.edges.find? (fun e => e.static != 0 && ((e.src == a && e.dst == b) || (e.src == b && e.dst == a)))).map (·.bond)).getD 0

structure GNode where
  stoch : Nat
  z : Nat
  mn : Rat
  mw : Rat
  transE : List AEdge := []
  termE : List AEdge := []
  stochE : List AEdge := []
deriving Repr, Inhabited

structure AG where
  nodes : List GNode := []
  /-- undirected edges (a, b, bond type) in insertion order; a repeated pair overwrites (simple graph) -/
  edges : List (Nat × Nat × Nat) := []
  mw : List Rat := [0]
  drawMap : List ((Rat × Rat) × Rat) := []
deriving Repr, Inhabited

inductive AErr | noStart | badOracle | outOfOracle | outOfFuel | badWeights
deriving DecidableEq, Repr, Inhabited

abbrev AM := Except AErr

def massOfAtom (z : Nat) : Rat := ((atomicMasses.find? (·.1 == z)).map (·.2)).getD 0

/-- `_add_node` -/
def addNode (g : SAG) (s : AG) (node : Nat) (tr te st : Bool) : AG × Nat :=
  let es := outEdges g node
  let nd := ((g.nodes.find? (·.id == node)).getD default)
  let gn : GNode := { stoch := node, z := nd.atom.z, mn := nd.mn.getD 0, mw := nd.mw.getD 0,
                      transE := if tr then es.filter (·.transition != 0) else [],
                      termE := if te then es.filter (·.termination != 0) else [],
                      stochE := if st then es.filter (·.stochastic != 0) else [] }
  let mw' := match s.mw.reverse with
    | last :: rest => ((last + massOfAtom nd.atom.z) :: rest).reverse
    | [] => []
  ({ s with nodes := s.nodes ++ [gn], mw := mw' }, s.nodes.length)

def addEdge (s : AG) (a b bond : Nat) : AG :=
  let same := fun (e : Nat × Nat × Nat) => (e.1 == a && e.2.1 == b) || (e.1 == b && e.2.1 == a)
  if s.edges.any same then { s with edges := s.edges.map fun e => if same e then (e.1, e.2.1, bond) else e }
  else { s with edges := s.edges ++ [(a, b, bond)] }

/-- fuel of the static depth-first searches: more than the number of stack operations of a search of `g` -/
def dfsFuel (g : SAG) : Nat := 4 * g.nodes.length + 4 * g.edges.length + 8

/-- one node of the dfs tree of `_fill_static_edges`: every node but the source gets a new atom -/
def fillNodeStep (g : SAG) (src : Nat) (acc : AG × List (Nat × Nat)) (n : Nat) : AG × List (Nat × Nat) :=
  if n == src then acc else
    ((addNode g acc.1 n true true true).1, acc.2 ++ [(n, (addNode g acc.1 n true true true).2)])

def fillLook (amap : List (Nat × Nat)) (n : Nat) : Nat := ((amap.find? (·.1 == n)).map (·.2)).getD 0

/-- `static_graph.edges(static_map.keys())`: for every mapped node, its adjacency, each undirected edge once -/
def fillPairs (adj : List (Nat × List Nat)) (keys : List Nat) : List (Nat × Nat) :=
  keys.foldl (fun (acc : List (Nat × Nat)) u =>
    (neighbours adj u).foldl (fun acc v =>
      if acc.any (fun p => (p.1 == u && p.2 == v) || (p.1 == v && p.2 == u)) then acc else acc ++ [(u, v)]) acc) []

def fillEdgeStep (g : SAG) (amap : List (Nat × Nat)) (s : AG) (p : Nat × Nat) : AG :=
  addEdge s (fillLook amap p.1) (fillLook amap p.2) (staticBond g p.1 p.2)

/-- `_fill_static_edges(current_atom)` -/
def fillStatic (g : SAG) (adj : List (Nat × List Nat)) (s : AG) (cur : Nat) : AG :=
  let src := ((s.nodes[cur]?).map (·.stoch)).getD 0
  let tree := dfsPre adj (dfsFuel g) [src] []
  let r := tree.foldl (fillNodeStep g src) (s, [(src, cur)])
  (fillPairs adj (r.2.map (·.1))).foldl (fillEdgeStep g r.2) r.1

/-- the nodes `_fill_static_edges` maps when started at `src` -/
def fillKeys (g : SAG) (adj : List (Nat × List Nat)) (src : Nat) : List Nat :=
  src :: (dfsPre adj (dfsFuel g) [src] []).filter (· != src)

/-- side condition of the bond invariant: the depth-first tree is closed under static adjacency (the fuel suffices) -/
def fillClosedAt (g : SAG) (adj : List (Nat × List Nat)) (src : Nat) : Bool :=
  (fillKeys g adj src).all fun u => (neighbours adj u).all fun v => (fillKeys g adj src).contains v

def fillClosed (g : SAG) : Bool := (staticAdj g).all fun p => fillClosedAt g (staticAdj g) p.1

abbrev Ev := Event

def normalise (ws : List Rat) : List Rat :=
  let ws' := ws.map (· + epsilon)
  ws'.map (· / sumRat ws')

/-- one `rng.choice(n, p)` over `n` options with the given weights -/
def pickIdx (ws : List Rat) (ω : Oracle) : AM (Nat × Choice × Oracle) :=
  match ω with
  | .pick v :: ω' =>
    if v < ws.length then .ok (v, ⟨List.range ws.length, normalise ws, v⟩, ω') else .error .badOracle
  | .draw _ :: _ => .error .badOracle
  | [] => .error .outOfOracle

def sumW (f : AEdge → Rat) (l : List AEdge) : Rat := sumRat (l.map f)

def clearNode (n : GNode) : GNode := { n with transE := [], termE := [], stochE := [] }

def setNode (s : AG) (i : Nat) (f : GNode → GNode) : AG :=
  { s with nodes := (withIdx s.nodes).map fun (k, n) => if k == i then f n else n }

/-- `_next_termination_edge(exempt)` + the body of the loop of `_terminate_graph` -/
def terminateLoop (g : SAG) (adj : List (Nat × List Nat)) (exempt : Nat) : Nat → AG → Oracle → AM (AG × Trace × Oracle)
  | 0, _, _ => .error .outOfFuel
  | f + 1, s, ω =>
    match (withIdx s.nodes).find? (fun p => p.1 != exempt && !p.2.termE.isEmpty) with
    | none => .ok (s, [], ω)
    | some (node, nd) =>
      match pickIdx (nd.termE.map (·.termination)) ω with
      | .error e => .error e
      | .ok (i, c, ω) =>
        let e := nd.termE.getD i default
        let (s1, newId) := addNode g s e.dst false false false
        let s2 := addEdge s1 node newId e.bond
        let s3 := fillStatic g adj s2 newId
        let s4 := setNode s3 node clearNode
        match terminateLoop g adj exempt f s4 ω with
        | .error e => .error e
        | .ok (r, t, ω) => .ok (r, .choice c :: t, ω)

/-- `_next_stochastic_edge`: nodes with positive total stochastic weight -/
def stochCandidates (s : AG) : List (Nat × GNode) :=
  (withIdx s.nodes).filter fun p => decide (0 < sumW (·.stochastic) p.2.stochE)

/-- `_fill_stochastic_edges(last_node_id)` -/
def stochLoop (g : SAG) (adj : List (Nat × List Nat)) : Nat → AG → Oracle → AM (AG × Trace × Oracle)
  | 0, _, _ => .error .outOfFuel
  | f + 1, s, ω =>
    let cands := stochCandidates s
    if cands.isEmpty then .ok (s, [], ω) else
    match pickIdx (cands.map fun p => sumW (·.stochastic) p.2.stochE) ω with
    | .error e => .error e
    | .ok (ci, c1, ω) =>
      let (exempt, nd) := cands.getD ci default
      match terminateLoop g adj exempt (f + 1) s ω with
      | .error e => .error e
      | .ok (term, t1, ω) =>
        -- target of this element
        let key := (nd.mw, nd.mn)
        let tgt : AM (Rat × AG × AG × Trace × Oracle) :=
          match term.drawMap.find? (·.1 == key) with
          | some (_, v) => .ok (v, term, s, [], ω)
          | none =>
            match ω with
            | .draw v :: ω' => .ok (v, { term with drawMap := term.drawMap ++ [(key, v)] }, { s with drawMap := s.drawMap ++ [(key, v)] }, [.drew v], ω')
            | [] => .error .outOfOracle
            | _ => .error .badOracle
        match tgt with
        | .error e => .error e
        | .ok (target, term, swap, t2, ω) =>
          if term.mw.getLastD 0 < target then
            -- undo the termination (graph and mw of the copy; the draw map of the live object is kept)
            let s' : AG := { swap with drawMap := term.drawMap }
            let es := nd.stochE
            match pickIdx (es.map (·.stochastic)) ω with
            | .error e => .error e
            | .ok (ei, c2, ω) =>
              let e := es.getD ei default
              let s1 := setNode s' exempt clearNode
              let (s2, newId) := addNode g s1 e.dst false false false
              let s3 := addEdge s2 exempt newId e.bond
              let s4 := fillStatic g adj s3 newId
              match stochLoop g adj f s4 ω with
              | .error e => .error e
              | .ok (r, t3, ω) => .ok (r, .choice c1 :: t1 ++ t2 ++ .choice c2 :: t3, ω)
          else
            let s' : AG := { term with nodes := term.nodes.map fun n => { n with stochE := [], termE := [] } }
            .ok (s', .choice c1 :: t1 ++ t2, ω)

def reachAll (g : SAG) (src : Nat) : Bool :=
  let adjD : List (Nat × List Nat) := (nodeIds g).map fun n => (n, (outEdges g n).map (·.dst))
  (dfsPre adjD (dfsFuel g) [src] []).length == g.nodes.length

/-- the outer loop of `generate` -/
def outerLoop (g : SAG) (adj : List (Nat × List Nat)) : Nat → AG → Nat → Oracle → AM (AG × Trace × Oracle)
  | 0, _, _, _ => .error .outOfFuel
  | f + 1, s, nodeId, ω =>
    let s0 := fillStatic g adj s nodeId
    match stochLoop g adj (f + 1) s0 ω with
    | .error e => .error e
    | .ok (s1, t1, ω) =>
      let s1 : AG := { s1 with mw := s1.mw ++ [0] }
      -- `_next_transition_edge`: over ALL nodes, weight = sum of the node's transition weights
      match pickIdx (s1.nodes.map fun n => sumW (·.transition) n.transE) ω with
      | .error e => .error e
      | .ok (ni, c1, ω) =>
        let nd := s1.nodes.getD ni default
        if nd.transE.isEmpty then .ok (s1, t1 ++ [.choice c1], ω) else
        match pickIdx (nd.transE.map (·.transition)) ω with
        | .error e => .error e
        | .ok (ei, c2, ω) =>
          let e := nd.transE.getD ei default
          let s2 : AG := { s1 with nodes := s1.nodes.map fun n => { n with transE := [] } }
          let (s3, newId) := addNode g s2 e.dst false false false
          let s4 := addEdge s3 ni newId e.bond
          match outerLoop g adj f s4 newId ω with
          | .error e => .error e
          | .ok (r, t2, ω) => .ok (r, t1 ++ [.choice c1, .choice c2] ++ t2, ω)

/-- `AtomGraph.generate()` -/
def atomGenerate (g : SAG) (fuel : Nat) (ω : Oracle) : AM (AG × Trace × Oracle) :=
  match (nodeIds g).find? (reachAll g) with
  | none => .error .noStart
  | some start =>
    let adj := staticAdj g
    let (s, id) := addNode g {} start true true true
    outerLoop g adj fuel s id ω

end GBS
