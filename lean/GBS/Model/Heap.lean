/-!
# A heap model for purity (C10): object identity of bond descriptors, `copy.deepcopy`, in-place writes

Parsed objects own descriptor *cells* (the mutable fields `weight`, `transitions`, `atom_bonding_to`, `node_idx`).
`MolGen.__init__`, `attach_other`, `Molecule.elements`, `gen_mirror` take `copy.deepcopy` of descriptor lists: fresh cells
appended to the heap (assumption on CPython: the copy is disjoint from the original).  Generation writes
(`bd.atom_bonding_to += n`, `bd.node_idx += k`, the transfer of the left terminal's weight and list) only into cells it
allocated itself.  An API call is a sequence of such operations.
-/
namespace GBS.Heap

structure Cell where
  weight : Int := 1        -- any value type would do; the proofs never inspect it
  trans : Option (List Int) := none
  atom : Int := 0
  node : Int := 0
deriving DecidableEq, Repr, Inhabited

abbrev Heap := List Cell
abbrev Addr := Nat

/-- `copy.deepcopy(list of descriptors)`: fresh cells with the same contents; returns the new addresses -/
def deepCopy (h : Heap) (addrs : List Addr) : Heap × List Addr :=
  (h ++ addrs.map (fun a => h.getD a default), (List.range addrs.length).map (· + h.length))

inductive Op
  | copy (addrs : List Addr)                 -- deepcopy; the result joins the call's owned cells
  | write (a : Addr) (c : Cell)              -- in-place write of a cell
deriving Repr

/-- state of one API call: the heap and the set of cells the call allocated itself -/
structure CallSt where
  heap : Heap
  owned : List Addr

def step (s : CallSt) : Op → CallSt
  | .copy addrs =>
    let (h', fresh) := deepCopy s.heap addrs
    { heap := h', owned := s.owned ++ fresh }
  | .write a c => { s with heap := s.heap.set a c }

def run (s : CallSt) (ops : List Op) : CallSt := ops.foldl step s

/-- the discipline the generation code follows: every write goes to a cell allocated during this call -/
def Disciplined (s : CallSt) : List Op → Prop
  | [] => True
  | .copy addrs :: rest => Disciplined (step s (.copy addrs)) rest
  | .write a c :: rest => a ∈ s.owned ∧ Disciplined (step s (.write a c)) rest

end GBS.Heap
