import GBS.Model.Num
import GBS.Extracted.Bond
import GBS.Extracted.Token
import GBS.Extracted.Dist
/-!
# The parsers and printers: `bond.py`, `token.py`, `distribution.py` (text level), `mixture.py`,
# `stochastic.py:24-162`, `molecule.py:22-152`, `system.py:92-154`

Character-level, written from the code with its `find` / `rfind` / slicing, so that accept / reject decisions and the
known quirks are reproduced.  RDKit's judgement of a bracket atom (`Atom(text)`) is a parameter (`valid`): the harness
asks RDKit which bracket groups of the input are single valid atoms.
-/
namespace GBS.P
open GBS GBS.Py GBS.Num

inductive PErr
  | descSyntax | descNested | descPipes | badNumber | nonFinite | negativeId | stereo | pyIndex | pyType | pyValue
  | tokUnbalanced | tokBracket | tokMalformed | tokDot | tokTwoAtoms | invalidAtom | tokOffset
  | stochStart | stochEnd | stochEmpty | stochLeft | transitionLength | stochCount
  | unknownDist | distPrefix | distTuple
  | molTrailing | molIncompatible | mixStart | mixRange | mixNegative | sysUnterminated
  | diverge
deriving DecidableEq, Repr, Inhabited

abbrev PR := Except PErr

/-- a parsed `BondDescriptor` -/
structure PDesc where
  d : Desc
  /-- `preceding_characters` as stored (used by `_create_compatible_bond_text`) -/
  pre : Str := []
  /-- position in the stochastic object (`descriptor_num`) -/
  num : Nat := 0
  /-- `atom_bonding_to is None` (terminal descriptors) -/
  noAtom : Bool := false
deriving DecidableEq, Repr, Inhabited

def symOfChar? : Char → Option Sym
  | '$' => some .dollar | '<' => some .lt | '>' => some .gt | _ => none

def floatOf (s : Str) : PR Rat :=
  match parseFloat s with
  | .ok q => .ok q
  | .nonFinite => .error .nonFinite
  | .bad => .error .badNumber

def sumQ (l : List Rat) : Rat := l.foldl (· + ·) 0

/-- the id between the symbol and the first `|` (or the closing bracket) -/
def parseId (raw : Str) : PR (Option Nat) :=
  let idEnd : Int := if raw.contains '|' then find raw ['|'] else -1
  let idStr := slice raw (some 2) (some idEnd)
  if idStr.contains '[' || idStr.contains ']' then .error .descNested else
  if idStr.isEmpty then .ok none else
  match parseInt idStr with
  | none => .error .pyValue
  | some i => if i < 0 then .error .negativeId else .ok (some i.toNat)

/-- the `|…|` segment: one number is the weight; several (or none) are the transition list, whose sum is the weight -/
def parseWeights (raw : Str) : PR (Rat × Option (List Rat)) :=
  if raw.contains '|' then
    if count raw '|' != 2 then .error .descPipes else
    let ws := stripChars ['|'] (slice raw (some (find raw ['|'])) (some (rfind raw ['|'])))
    match (splitWs ws).mapM floatOf with
    | .error e => .error e
    | .ok [w] => .ok (w, none)
    | .ok l => .ok (sumQ l, some l)
  else .ok (1, none)

/-- `BondDescriptor.__init__(big_smiles_ext, descr_num, preceding_characters, atom_bonding_to)` -/
def parseDesc (text : Str) (num : Nat) (pre : Str) (atom : Option Nat) : PR PDesc :=
  if text == "[]".toList then
    .ok { d := { sym := .none, id := none, order := .unspecified, weight := 1, trans := none, atom := 0 }, pre := pre, num := num, noAtom := true }
  else
    let raw : Str := if pre.isEmpty then slice text (some (find text ['['])) none else text
    match index raw 0, index raw (-1) with
    | some c0, some cl =>
      if c0 != '[' || cl != ']' then .error .descSyntax else
      match index raw 1 with
      | none => .error .pyIndex
      | some c1 =>
        match symOfChar? c1 with
        | none => .error .descSyntax
        | some sym =>
          match parseId raw with
          | .error e => .error e
          | .ok id =>
            match parseWeights raw with
            | .error e => .error e
            | .ok (w, tr) =>
              if stereoRejected pre then .error .stereo else
              .ok { d := { sym := sym, id := id, order := orderOfPrefix pre, weight := w, trans := tr, atom := atom.getD 0 },
                    pre := pre, num := num, noAtom := atom.isNone }
    | _, _ => .error .pyIndex

def symStr (s : Sym) : Str := match s.toChar? with | some c => [c] | none => []

def idStr (i : Option Nat) : Str := match i with | some n => Nat.toDigits 10 n | none => []

/-- `repr` of a weight; `?` marks a number outside `reprFloat`'s domain (compared numerically by the harness) -/
def numStr (q : Rat) : Str := match reprFloat q with | some s => s | none => ['?']

/-- `BondDescriptor.generate_string(extension)` -/
def printDesc (p : PDesc) (ext : Bool) : Str :=
  let body : Str :=
    if ext && (p.d.trans.isSome || p.d.weight != 1) then
      match p.d.trans with
      | none => ['|'] ++ numStr p.d.weight ++ ['|']
      | some l =>
        -- `for t in transitions: string += f"{t} "` then `string = string[:-1]`
        let s : Str := ['|'] ++ (l.map (fun t => numStr t ++ [' '])).flatten
        (s.take (s.length - 1)) ++ ['|']
    else []
  strip (['['] ++ symStr p.d.sym ++ idStr p.d.id ++ body ++ [']'])

/-- `_create_compatible_bond_text(bond)` -/
def compatText (p : PDesc) : Str :=
  p.pre ++ ['['] ++ [compatSymbolOfText (printDesc p true)] ++ idStr p.d.id ++ [']']

/-! ## tokens -/

inductive El
  | atom (t : Str)
  | str (s : Str)
  | bond (k : Nat)
deriving DecidableEq, Repr, Inhabited

structure PToken where
  els : List El
  atoms : List Str
  descs : List PDesc
  resId : Nat := 0
deriving DecidableEq, Repr, Inhabited

def isSingleAtom (c : Char) : Bool := singleLetterAtoms.contains c
def isDoubleAtom (a b : Char) : Bool := doubleLetterAtoms.contains (a, b)

def hasDescChar (s : Str) : Bool := s.contains '$' || s.contains '<' || s.contains '>'

/-- the first loop of `SmilesToken.__init__` (token.py:72-119): atoms and maximal non-atom runs -/
def scan (valid : Str → Bool) : Nat → Str → Str → List El → PR (List El)
  | 0, _, _, _ => .error .diverge
  | _ + 1, [], sub, acc => .ok (if sub.isEmpty then acc.reverse else (El.str sub :: acc).reverse)
  | f + 1, c :: cs, sub, acc =>
    let flush : List El := if sub.isEmpty then acc else El.str sub :: acc
    match cs with
    | c2 :: rest =>
      if isDoubleAtom c c2 then scan valid f rest [] (El.atom [c, c2] :: flush)
      else scanOne valid f c cs sub acc flush
    | [] => scanOne valid f c cs sub acc flush
where
  scanOne (valid : Str → Bool) (f : Nat) (c : Char) (cs sub : Str) (acc flush : List El) : PR (List El) :=
    if isSingleAtom c then scan valid f cs [] (El.atom [c] :: flush)
    else if c == '[' then
      match find (c :: cs) [']'] with
      | .negSucc _ => .error .tokBracket
      | .ofNat k =>
        let tok := (c :: cs).take (k + 1)
        let rest := (c :: cs).drop (k + 1)
        if hasDescChar tok then scan valid f rest (sub ++ tok) acc
        else if valid tok then scan valid f rest [] (El.atom tok :: flush)
        else .error .invalidAtom
    else scan valid f cs (sub ++ [c]) acc

/-- `_push_pop_atom_branch` (in written order; a `)` without open branch is an error) -/
def pushPop : Str → List Int → PR (List Int)
  | [], st => .ok st
  | c :: cs, st =>
    if c == '(' then
      match st with
      | top :: _ => pushPop cs (top :: st)
      | [] => .error .pyIndex
    else if c == ')' then
      match st with
      | _ :: rest => if rest.isEmpty then .error .tokUnbalanced else pushPop cs rest
      | [] => .error .pyIndex
    else pushPop cs st

structure BindSt where
  els : List El
  ec : Nat := 0
  natoms : Nat := 0
  /-- `atom_to_bond`, top first -/
  stack : List Int := [-1]
  atoms : List Str := []
  descs : List PDesc := []
deriving Repr, Inhabited

/-- the second loop of `SmilesToken.__init__` (token.py:121-195) -/
def bind (offset : Nat) : Nat → BindSt → PR BindSt
  | 0, _ => .error .diverge
  | f + 1, s =>
    match s.els[s.ec]? with
    | none => .ok s
    | some (El.atom t) =>
      match s.stack with
      | _ :: rest => bind offset f { s with ec := s.ec + 1, natoms := s.natoms + 1, atoms := s.atoms ++ [t], stack := (s.natoms : Int) :: rest }
      | [] => .error .pyIndex
    | some (El.bond _) => bind offset f { s with ec := s.ec + 1 }
    | some (El.str e) =>
      if hasDescChar e then
        let iOpen := find e ['[']
        let iClose := find e [']']
        if iOpen < 0 then .error .tokMalformed else
        if iClose ≤ 0 then .error .tokMalformed else
        let elA := slice e none (some iOpen)
        let bondText := slice e (some iOpen) (some (iClose + 1))
        let elB := slice e (some (iClose + 1)) none
        match pushPop elA s.stack with
        | .error err => .error err
        | .ok st =>
          if elA.contains '.' then .error .tokDot else
          let top : Int := st.headD (-1)
          let atomTo : Nat := if top < 0 then 0 else top.toNat
          let twoAtoms := s.ec != 0 && s.ec != s.els.length - 1 && !elB.contains ')' && !elB.contains '.'
          if twoAtoms then .error .tokTwoAtoms else
          let pre0 : Str := if elA.contains '(' then slice elA (some (find elA ['('] + 1)) none else elA
          let pre : Str := if elB.contains ')' then pre0 ++ slice elB none (some (find elB [')'])) else pre0 ++ elB
          match parseDesc bondText (s.descs.length + offset) pre (some atomTo) with
          | .error err => .error err
          | .ok pd =>
            let k := s.descs.length
            let mid : List El := (if elA.isEmpty then [] else [El.str elA]) ++ [El.bond k] ++ (if elB.isEmpty then [] else [El.str elB])
            bind offset f { s with els := s.els.take s.ec ++ mid ++ s.els.drop (s.ec + 1), ec := s.ec + 1, stack := st,
                                   descs := s.descs ++ [pd] }
      else
        match pushPop e s.stack with
        | .error err => .error err
        | .ok st => bind offset f { s with ec := s.ec + 1, stack := st }

/-- `SmilesToken(big_smiles_ext, bond_id_offset, res_id)` -/
def parseToken (valid : Str → Bool) (text : Str) (offset resId : Nat) : PR PToken :=
  let raw := strip text
  if count text '(' != count text ')' then .error .tokUnbalanced else
  match scan valid (raw.length + 2) raw [] [] with
  | .error e => .error e
  | .ok els =>
    match bind offset (3 * raw.length + 8) { els := els } with
    | .error e => .error e
    | .ok s => .ok { els := s.els, atoms := s.atoms, descs := s.descs, resId := resId }

def elText (t : PToken) (ext : Bool) : El → Str
  | .atom a => a
  | .str s => s
  | .bond k => match t.descs[k]? with | some p => printDesc p ext | none => []

/-- `SmilesToken.generate_string(extension)` -/
def printToken (t : PToken) (ext : Bool) : Str := strip (t.els.map (elText t ext)).flatten

def isBondSym (c : Char) : Bool := c == '-' || c == '=' || c == '#' || c == ':'

/-- `re.sub(r"[-=#:]+\.", ".", s)` then `re.sub(r"\.[-=#:]+", ".", s)` -/
def dropBondSymsAroundDot (s : Str) : Str :=
  let before : Str := (s.foldr (fun c (acc : Str × Bool) =>
      -- acc.2: the text to the right starts with '.' possibly after removed bond symbols
      if c == '.' then (c :: acc.1, true)
      else if isBondSym c && acc.2 then (acc.1, true)
      else (c :: acc.1, false)) ([], false)).1
  (before.foldl (fun (acc : Str × Bool) c =>
      if c == '.' then (acc.1 ++ [c], true)
      else if isBondSym c && acc.2 then (acc.1, true)
      else (acc.1 ++ [c], false)) ([], false)).1

/-- `SmilesToken.generate_smiles_fragment()` -/
def fragment (t : PToken) : Str :=
  let s := (t.els.map (fun e => match e with | .atom a => a | .str x => x | .bond _ => ['.'])).flatten
  let s := dropBondSymsAroundDot s
  let s := replace s "(.)".toList []
  let s := replace s ".)".toList [')']
  stripChars ['.'] s

/-! ## distributions (text level), mixtures -/

structure PDist where
  fam : FamilyName
  params : List Rat
deriving DecidableEq, Repr, Inhabited

/-- value of a Python literal expression made of numbers, signs, parentheses and tuples -/
inductive PyVal | num (q : Rat) | tup (l : List PyVal)
deriving Repr, Inhabited

def isNumChar (c : Char) : Bool := c.isDigit || c.isAlpha || c == '.' || c == '_'

/-- the characters of one numeric token: digits, letters, `.`, `_`, and a sign directly after an exponent letter -/
def takeNumber : Str → Str → Str × Str
  | acc, [] => (acc.reverse, [])
  | acc, c :: cs =>
    if isNumChar c then takeNumber (c :: acc) cs
    else if (c == '+' || c == '-') && (match acc with | e :: d :: _ => (e == 'e' || e == 'E') && (d.isDigit || d == '.' || d == '_') | _ => false) then takeNumber (c :: acc) cs
    else (acc.reverse, c :: cs)

/-- one numeric literal: `01` is a SyntaxError although `float("01")` is fine -/
def numberLit (u : Str) : PR Rat :=
  if u.length > 1 && u.all (fun c => c.isDigit || c == '_') && u.head? == some '0' && u.any (fun c => c != '0' && c != '_') then .error .distTuple else
  if u.head? == some '_' || u.head? == some '+' || u.head? == some '-' then .error .distTuple else
  match parseFloat u with | .ok q => .ok q | .nonFinite => .error .nonFinite | .bad => .error .distTuple

def skipWs (s : Str) : Str := s.dropWhile isWs

mutual
/-- `sign* ( '(' items ')' | number )` -/
def pyValue : Nat → Str → PR (PyVal × Str)
  | 0, _ => .error .distTuple
  | f + 1, s =>
    match skipWs s with
    | '-' :: r =>
      match pyValue f r with
      | .ok (.num q, rest) => .ok (.num (-q), rest)
      | .ok (.tup _, _) => .error .distTuple
      | .error e => .error e
    | '+' :: r =>
      match pyValue f r with
      | .ok (.num q, rest) => .ok (.num q, rest)
      | .ok (.tup _, _) => .error .distTuple
      | .error e => .error e
    | '(' :: r =>
      match skipWs r with
      | ')' :: rest => .ok (.tup [], rest)
      | _ =>
        match pyItems f r [] false with
        | .error e => .error e
        | .ok (items, comma, rest) =>
          if comma then .ok (.tup items, rest)
          else match items with
            | [v] => .ok (v, rest)
            | _ => .error .distTuple
    | t =>
      let (tok, rest) := takeNumber [] t
      if tok.isEmpty then .error .distTuple else
      match numberLit tok with
      | .error e => .error e
      | .ok q => .ok (.num q, rest)
/-- `value (',' value)* [','] ')'` -/
def pyItems : Nat → Str → List PyVal → Bool → PR (List PyVal × Bool × Str)
  | 0, _, _, _ => .error .distTuple
  | f + 1, s, acc, comma =>
    match pyValue f s with
    | .error e => .error e
    | .ok (v, rest) =>
      match skipWs rest with
      | ')' :: rest' => .ok (acc ++ [v], comma, rest')
      | ',' :: rest' =>
        match skipWs rest' with
        | ')' :: rest'' => .ok (acc ++ [v], true, rest'')
        | _ => pyItems f rest' (acc ++ [v]) true
      | _ => .error .distTuple
end

/-- `ast.literal_eval` restricted to what a distribution's argument text can denote: numbers, signs, redundant parentheses,
tuples, surrounding white space and a trailing `#` comment.  Returns the numbers and whether the value is a tuple. -/
def parseTuple (s : Str) : PR (List Rat × Bool) :=
  let noComment := s.takeWhile (· != '#')
  -- the top level may be a tuple without parentheses (`428.0,1.5`): read it as the items of one parenthesised group
  match pyItems (2 * noComment.length + 6) (noComment ++ [')']) [] false with
  | .error e => .error e
  | .ok (items, comma, rest) =>
    if !rest.isEmpty then .error .distTuple else
    let v : PR PyVal := if comma then .ok (.tup items) else match items with | [x] => .ok x | _ => .error .distTuple
    match v with
    | .error e => .error e
    | .ok (.num q) => .ok ([q], false)
    | .ok (.tup l) =>
      match l.mapM (m := PR) (fun x => match x with | .num q => .ok q | .tup _ => .error .distTuple) with
      | .error e => .error e
      | .ok qs => .ok (qs, true)

def famText : FamilyName → String
  | .florySchulz => "flory_schulz" | .gauss => "gauss" | .uniform => "uniform" | .schulzZimm => "schulz_zimm"
  | .logNormal => "log_normal" | .poisson => "poisson"

def famArity : FamilyName → Nat
  | .florySchulz => 1 | .poisson => 1 | _ => 2

/-- truncation of `int(x)` -/
def truncRat (q : Rat) : Rat := if q ≥ 0 then (q.floor : Rat) else -((-q).floor : Rat)

/-- `get_distribution(text)` followed by the class constructor -/
def parseDist (text : Str) : PR PDist :=
  match distDispatch.find? (fun p => contains text p.1.toList) with
  | none => .error .unknownDist
  | some (_, fam) =>
    let raw := stripChars "| \t\n".toList text
    let name := (famText fam).toList
    if !startsWith raw name then .error .distPrefix else
    let rest := raw.drop name.length
    if fam == .poisson then
      -- float(raw[len("poisson") + 1 : -1])
      match floatOf (slice raw (some (name.length + 1)) (some (-1))) with
      | .error e => .error e
      | .ok q => .ok { fam := fam, params := [q] }
    else
      match parseTuple rest with
      | .error e => .error e
      | .ok (ps, isTuple) =>
        if ps.length != famArity fam then .error .distTuple else
        -- `float(make_tuple(…))` needs a parenthesised number, `a, b = make_tuple(…)` a tuple
        if isTuple != (famArity fam == 2) then .error .distTuple else
        -- `z = Mn / (Mw - Mn)` in `SchulzZimm.__init__`: ZeroDivisionError for equal averages
        if fam == .schulzZimm && (match ps with | [a, b] => a == b | _ => false) then .error .pyValue else
        if fam == .uniform then .ok { fam := fam, params := ps.map truncRat } else .ok { fam := fam, params := ps }

def intStr (q : Rat) : Str :=
  let n := q.floor
  if n < 0 then '-' :: Nat.toDigits 10 n.natAbs else Nat.toDigits 10 n.toNat

/-- `Distribution.generate_string(True)` -/
def printDist (d : PDist) : Str :=
  let name := (famText d.fam).toList
  match d.fam, d.params with
  | .uniform, [a, b] => ['|'] ++ name ++ ['('] ++ intStr a ++ ", ".toList ++ intStr b ++ ")|".toList
  | .schulzZimm, [a, b] => ['|'] ++ name ++ ['('] ++ numStr a ++ ", ".toList ++ numStr b ++ ")|".toList
  | _, [a, b] => ['|'] ++ name ++ ['('] ++ numStr a ++ ", ".toList ++ numStr b ++ ")|".toList
  | _, [a] => ['|'] ++ name ++ ['('] ++ numStr a ++ ")|".toList
  | _, _ => []

structure PMix where
  abs : Option Rat := none
  rel : Option Rat := none
deriving DecidableEq, Repr, Inhabited

/-- `Mixture(raw_text)` -/
def parseMixture (raw : Str) : PR PMix :=
  match raw with
  | [] => .error .pyIndex
  | c :: _ =>
    if c != '.' then .error .mixStart else
    if raw.contains '%' then
      match parseFloat (stripChars ".|%".toList raw) with
      | .ok q => if q < 0 ∨ q > 100 then .error .mixRange else .ok { rel := some q }
      | .nonFinite => .error .nonFinite
      | .bad => .error .pyValue
    else
      match parseFloat (stripChars ".|".toList raw) with
      | .ok q => if q < 0 then .error .mixNegative else .ok { abs := some q }
      | .nonFinite => .error .nonFinite
      | .bad => .ok {}

/-! ## stochastic objects -/

structure PStoch where
  left : PDesc
  right : PDesc
  repeats : List PToken
  ends : List PToken
  dist : Option PDist
deriving DecidableEq, Repr, Inhabited

def PStoch.allDescs (o : PStoch) : List PDesc := (o.repeats.map (·.descs)).flatten ++ (o.ends.map (·.descs)).flatten

def bondPrefixChars : Str := ".-=#$:/\\@".toList

/-- parse the comma separated tokens of one group, numbering descriptors and residues consecutively -/
def parseGroup (valid : Str → Bool) (parts : List Str) (offset resId : Nat) : PR (List PToken × Nat × Nat) :=
  parts.foldlM (fun (acc : List PToken × Nat × Nat) part =>
    let ru := strip part
    if ru.isEmpty then .ok acc else
    match parseToken valid ru acc.2.1 acc.2.2 with
    | .error e => .error e
    | .ok t => .ok (acc.1 ++ [t], acc.2.1 + t.descs.length, acc.2.2 + 1)) ([], offset, resId)

/-- `Stochastic._validate`: every transition list has one entry per descriptor of the object -/
def validateStoch (o : PStoch) : PR PStoch :=
  if (o.allDescs ++ [o.left, o.right]).any (fun p => match p.d.trans with | some l => l.length != o.allDescs.length | none => false)
  then .error .transitionLength else .ok o

/-- `Stochastic.__init__` up to (not including) `_validate` -/
def parseStochRaw (valid : Str → Bool) (text : Str) (resPrefix : Nat) : PR PStoch :=
  let raw := strip text
  match raw with
  | [] => .error .pyIndex
  | c :: _ =>
    if c != '{' then .error .stochStart else
    if rfind raw ['}'] < 0 then .error .stochEnd else
    let middle := slice raw (some 1) (some (rfind raw ['}']))
    match index middle (find middle [']'] + 1) with
    | none => .error .pyIndex
    | some ch =>
      if ch == '}' then .error .stochEmpty else
      if find middle [']'] 1 ≤ 0 then .error .stochLeft else
      let leftText := slice middle (some (find middle ['['])) (some (find middle [']'] 1 + 1))
      let leftPre := slice middle none (some (find middle ['[']))
      match parseDesc leftText 0 leftPre none with
      | .error e => .error e
      | .ok left =>
        let i0 := rfind middle ['[']
        let rightText := slice middle (some i0) (some (findI middle [']'] i0 + 1))
        -- while i > 0 and middle[i] in ".-=#$:/\@": i -= 1
        let rec back (fuel : Nat) (i : Int) : Int :=
          match fuel with
          | 0 => i
          | f + 1 => if i > 0 && (match index middle i with | some c => bondPrefixChars.contains c | none => false) then back f (i - 1) else i
        let i1 := back (middle.length + 1) i0
        let rightPre := slice middle (some i1) (some (findI middle ['['] i1))
        let (repText, endText) : Str × Str :=
          if middle.contains ';' then
            (slice middle (some (find middle [']'] 1 + 1)) (some (find middle [';'])),
             slice middle (some (find middle [';'] + 1)) (some (rfind middle ['['])))
          else (slice middle (some (find middle [']'] 1 + 1)) (some (rfind middle ['['])), [])
        match parseGroup valid (splitOn ',' repText) 0 resPrefix with
        | .error e => .error e
        | .ok (reps, nd, rid) =>
          match parseGroup valid (splitOn ',' endText) nd rid with
          | .error e => .error e
          | .ok (ends, nd2, _) =>
            match parseDesc rightText nd2 rightPre none with
            | .error e => .error e
            | .ok right =>
              let endT := slice raw (some (find raw ['}'] + 1)) none
              let distText := if find endT ".|".toList ≥ 0 then strip (slice endT none (some (find endT ".|".toList))) else strip endT
              let distR : PR (Option PDist) := if distText.length > 1 then (parseDist distText).map some else .ok none
              match distR with
              | .error e => .error e
              | .ok dist =>
                .ok { left := left, right := right, repeats := reps, ends := ends, dist := dist }

/-- `Stochastic(big_smiles_ext, res_id_prefix)` -/
def parseStoch (valid : Str → Bool) (text : Str) (resPrefix : Nat) : PR PStoch :=
  match parseStochRaw valid text resPrefix with
  | .error e => .error e
  | .ok o => validateStoch o

def joinTokens (ts : List PToken) (ext : Bool) : Str :=
  -- `string += token + ", "` for every token, then `string = string[:-2]`
  let s := (ts.map (fun t => printToken t ext ++ ", ".toList)).flatten
  s.take (s.length - 2)

/-- `Stochastic.generate_string(extension)` (note `string[:-2]` also bites into `{[…]` when there is no repeat unit) -/
def printStoch (o : PStoch) (ext : Bool) : Str :=
  let s0 : Str := ['{'] ++ printDesc o.left ext ++ (o.repeats.map (fun t => printToken t ext ++ ", ".toList)).flatten
  let s1 := s0.take (s0.length - 2)
  let s2 := if o.ends.isEmpty then s1 else
    let t := s1 ++ "; ".toList ++ (o.ends.map (fun t => printToken t ext ++ ", ".toList)).flatten
    t.take (t.length - 2)
  let s3 := s2 ++ printDesc o.right ext ++ ['}']
  let s4 := match o.dist with | some d => if ext then s3 ++ printDist d else s3 | none => s3
  strip s4

/-! ## molecules and systems -/

inductive PElem | tok (t : PToken) | stoch (o : PStoch)
deriving DecidableEq, Repr, Inhabited

structure PMol where
  elems : List PElem
  mix : Option PMix
deriving DecidableEq, Repr, Inhabited

def PElem.nres : PElem → Nat
  | .tok _ => 1
  | .stoch o => o.repeats.length + o.ends.length

def lastDescOf : PElem → Option PDesc
  | .tok t => t.descs.getLast?
  | .stoch o => some o.right

structure MolSt where
  text : Str
  elems : List PElem := []
  rid : Nat := 0

inductive StepRes (σ α : Type)
  | done (a : α)
  | next (s : σ)
  | fail (e : PErr)

/-- a `while` loop with fuel: running out of fuel is the distinct outcome `diverge` -/
def iter {σ α : Type} (step : σ → StepRes σ α) : Nat → σ → PR α
  | 0, _ => .error .diverge
  | f + 1, s =>
    match step s with
    | .done a => .ok a
    | .fail e => .error e
    | .next s' => iter step f s'

/-- end of the stochastic object that starts `text1`: after the `}` and, when a distribution follows, after its closing `|` -/
def molEndPos (text1 : Str) : Int :=
  let endPos0 : Int := find text1 ['}'] + 1
  if endPos0 < text1.length && index text1 endPos0 == some '|' then find text1 ['|'] ((endPos0 + 2).toNat) + 1 else endPos0

/-- second half of one iteration: the stochastic object at the start of `text1`, the (possibly completed) prefix token, the rest -/
def molStepTail (valid : Str → Bool) (resPrefix : Nat) (s : MolSt) (text1 : Str) (pre : Option (PToken × Str)) (rid1 : Nat) :
    StepRes MolSt MolSt :=
  let endPos := molEndPos text1
  match parseStoch valid (slice text1 none (some endPos)) (resPrefix + rid1) with
  | .error e => .fail e
  | .ok o =>
    let rid2 := rid1 + o.repeats.length + o.ends.length
    let addPre : PR (List PElem × Nat) :=
      match pre with
      | none => .ok ([], rid2)
      | some (t, txt) =>
        let minExpected := if s.elems.isEmpty then 1 else 2
        if t.descs.length < minExpected then
          let bt := compatText o.left
          let txt2 := txt ++ (bt.take (bt.length - 1)) ++ "|0|]".toList
          match parseToken valid txt2 0 (resPrefix + rid2) with
          | .error e => .error e
          | .ok t2 => .ok ([PElem.tok t2], rid2 + 1)
        else .ok ([PElem.tok t], rid2)
    match addPre with
    | .error e => .fail e
    | .ok (preEls, rid3) =>
      .next { text := strip (slice text1 (some endPos) none), elems := s.elems ++ preEls ++ [PElem.stoch o], rid := rid3 }

/-- the prefix / connector token in front of the next stochastic object (`preTok0`, stripped), with the automatic insertion of the
descriptor that connects it to the previous element -/
def molPrefix (valid : Str → Bool) (resPrefix : Nat) (s : MolSt) (preTok0 : Str) : PR (Option (PToken × Str) × Nat) :=
  if preTok0.isEmpty then .ok (none, s.rid) else
  match parseToken valid preTok0 0 (resPrefix + s.rid) with
  | .error e => .error e
  | .ok t0 =>
    let rid1 := s.rid + 1
    match s.elems.getLast? with
    | none => .ok (some (t0, preTok0), rid1)
    | some lastEl =>
      if t0.descs.length > 0 then
        -- a written descriptor has to print like the one the automatic insertion would write
        match lastDescOf lastEl with
        | none => .error .pyIndex
        | some other =>
          match parseDesc (compatText other) 0 [] none with
          | .error e => .error e
          | .ok expected =>
            if t0.descs.any (fun bd => printDesc bd false == printDesc expected false) then .ok (some (t0, preTok0), rid1)
            else .error .molIncompatible
      else
        match lastDescOf lastEl with
        | none => .error .pyIndex
        | some other =>
          let txt := compatText other ++ preTok0
          match parseToken valid txt 0 (resPrefix + rid1) with
          | .error e => .error e
          | .ok t1 => .ok (some (t1, txt), rid1 + 1)

/-- one iteration of the `while stochastic_text.find("{") >= 0` loop of `Molecule.__init__` -/
def molStep (valid : Str → Bool) (resPrefix : Nat) (s : MolSt) : StepRes MolSt MolSt :=
  let iBrace := find s.text ['{']
  if iBrace < 0 then .done s else
  match molPrefix valid resPrefix s (strip (slice s.text none (some iBrace))) with
  | .error e => .fail e
  | .ok (pre, rid1) => molStepTail valid resPrefix s (strip (slice s.text (some iBrace) none)) pre rid1

/-- the `while stochastic_text.find("{") >= 0` loop of `Molecule.__init__`; running out of fuel is the distinct outcome `diverge` -/
def molLoop (valid : Str → Bool) (resPrefix : Nat) (fuel : Nat) (s : MolSt) : PR MolSt := iter (molStep valid resPrefix) fuel s

/-- `Molecule(big_smiles_ext, res_id_prefix)` -/
def parseMol (valid : Str → Bool) (text : Str) (resPrefix : Nat) : PR PMol :=
  let raw := strip text
  let mixR : PR (Str × Option PMix) :=
    let start := find raw ".|".toList
    if start ≥ 0 then
      let stop := find raw ['|'] (start + 3).toNat + 1
      let mixText := slice raw (some start) (some stop)
      let endText := strip (slice raw (some stop) none)
      if endText.length > 0 then .error .molTrailing else
      match parseMixture mixText with
      | .error e => .error e
      | .ok m => .ok (slice raw none (some start), some m)
    else .ok (raw, none)
  match mixR with
  | .error e => .error e
  | .ok (body, mix) =>
    match molLoop valid resPrefix (body.length + 2) { text := body } with
    | .error e => .error e
    | .ok s =>
      if s.text.length > 0 then
        match parseToken valid s.text 0 (resPrefix + s.rid) with
        | .error e => .error e
        | .ok t =>
          match s.elems.getLast? with
          | some lastEl =>
            if t.descs.length == 0 then
              match lastDescOf lastEl with
              | none => .error .pyIndex
              | some other =>
                match parseToken valid (compatText other ++ s.text) 0 (resPrefix + s.rid) with
                | .error e => .error e
                | .ok t2 => .ok { elems := s.elems ++ [PElem.tok t2], mix := mix }
            else .ok { elems := s.elems ++ [PElem.tok t], mix := mix }
          | none => .ok { elems := [PElem.tok t], mix := mix }
      else .ok { elems := s.elems, mix := mix }

def printElem (ext : Bool) : PElem → Str
  | .tok t => printToken t ext
  | .stoch o => printStoch o ext

/-- `Mixture.generate_string` -/
def printMix (m : PMix) (ext : Bool) : Str :=
  if ext then
    match m.abs with
    | none => ".|".toList ++ (match m.rel with | some r => numStr r | none => "None".toList) ++ "%|".toList
    | some a => ".|".toList ++ numStr a ++ ['|']
  else ['.']

/-- `Molecule.generate_string(extension)` -/
def printMol (m : PMol) (ext : Bool) : Str :=
  (m.elems.map (printElem ext)).flatten ++ (match m.mix with | some x => printMix x ext | none => [])

def PMol.nres (m : PMol) : Nat := (m.elems.map PElem.nres).sum

/-- one iteration of the `while text.find(".|") >= 0` loop of `System.__init__` -/
def sysStep (valid : Str → Bool) (st : Str × Nat × List PMol) : StepRes (Str × Nat × List PMol) (Str × List PMol) :=
  let text := st.1
  let i := find text ".|".toList
  if i < 0 then .done (text, st.2.2) else
  let endPos := find text ['|'] (i + 2).toNat + 1
  if endPos ≤ 0 then .fail .sysUnterminated else
  match parseMol valid (slice text none (some endPos)) st.2.1 with
  | .error e => .fail e
  | .ok m => .next (strip (slice text (some endPos) none), st.2.1 + m.nres, st.2.2 ++ [m])

def sysLoop (valid : Str → Bool) (fuel : Nat) (text : Str) (rid : Nat) (acc : List PMol) : PR (Str × List PMol) :=
  iter (sysStep valid) fuel (text, rid, acc)

/-- `System(big_smiles_ext)`: the molecules (the mixture bookkeeping is `GBS.estimate`) -/
def parseSystem (valid : Str → Bool) (text : Str) : PR (List PMol) :=
  let raw := strip text
  match sysLoop valid (raw.length + 2) raw 0 [] with
  | .error e => .error e
  | .ok (rest, ms) =>
    if rest.length > 0 then
      match parseMol valid rest 0 with
      | .error e => .error e
      | .ok m => .ok (ms ++ [m])
    else .ok ms

end GBS.P
