/-!
# Python `str` primitives used by the parsers, on `List Char`

`find`, `rfind`, slicing with negative / clamped indices, `strip`, `split`, `count`, `in` — as documented for
CPython (trusted base: DESIGN.md section 3).  The parser's quirks live in exactly these details (`slice` with
index −1 coming from a failed `find`), so they are reproduced literally.
-/
namespace GBS.Py

abbrev Str := List Char

def isPrefix : Str → Str → Bool
  | [], _ => true
  | _ :: _, [] => false
  | p :: ps, c :: cs => p == c && isPrefix ps cs

/-- `s.find(pat)` from position 0 of `s`, result relative to `s`; `none` = -1 -/
def findFrom (pat : Str) : Str → Nat → Option Nat
  | [], i => if pat.isEmpty then some i else none
  | c :: cs, i => if isPrefix pat (c :: cs) then some i else findFrom pat cs (i + 1)

/-- `s.find(pat, start)` as a Python int (−1 when absent) -/
def find (s pat : Str) (start : Nat := 0) : Int :=
  if start > s.length then -1 else
  match findFrom pat (s.drop start) start with
  | some i => i
  | none => -1

/-- `s.find(pat, start)` with a Python int start (negative counts from the end) -/
def findI (s pat : Str) (start : Int) : Int :=
  let st : Int := if start < 0 then (if start + s.length < 0 then 0 else start + s.length) else start
  find s pat st.toNat

/-- `s.rfind(pat)` -/
def rfind (s pat : Str) : Int :=
  let rec go (rest : Str) (i : Nat) (best : Int) : Int :=
    match rest with
    | [] => if pat.isEmpty then i else best
    | c :: cs => go cs (i + 1) (if isPrefix pat (c :: cs) then i else best)
  go s 0 (-1)

def contains (s pat : Str) : Bool := find s pat != -1

def count (s : Str) (c : Char) : Nat := (s.filter (· == c)).length

/-- clamp a Python index into `[0, n]` -/
def clampIdx (n : Nat) (i : Int) : Nat :=
  let j := if i < 0 then i + n else i
  if j < 0 then 0 else if j > n then n else j.toNat

/-- `s[i:j]` (`none` = omitted bound) -/
def slice (s : Str) (i j : Option Int) : Str :=
  let n := s.length
  let a := match i with | none => 0 | some i => clampIdx n i
  let b := match j with | none => n | some j => clampIdx n j
  (s.drop a).take (b - a)

/-- `s[i]` (IndexError = `none`) -/
def index (s : Str) (i : Int) : Option Char :=
  let j := if i < 0 then i + s.length else i
  if j < 0 then none else s[j.toNat]?

def isWs (c : Char) : Bool := c == ' ' || c == '\t' || c == '\n' || c == '\r' || c == '\x0b' || c == '\x0c'

def lstripBy (p : Char → Bool) (s : Str) : Str := s.dropWhile p
def rstripBy (p : Char → Bool) (s : Str) : Str := (s.reverse.dropWhile p).reverse
def stripBy (p : Char → Bool) (s : Str) : Str := rstripBy p (lstripBy p s)

/-- `s.strip()` -/
def strip (s : Str) : Str := stripBy isWs s
/-- `s.strip(chars)` -/
def stripChars (chars : Str) (s : Str) : Str := stripBy (fun c => chars.contains c) s
def lstripChars (chars : Str) (s : Str) : Str := lstripBy (fun c => chars.contains c) s
def rstripChars (chars : Str) (s : Str) : Str := rstripBy (fun c => chars.contains c) s

/-- `s.split()` (on runs of whitespace, no empty strings) -/
def splitWs (s : Str) : List Str :=
  let rec go (rest : Str) (cur : Str) (acc : List Str) : List Str :=
    match rest with
    | [] => (if cur.isEmpty then acc else cur.reverse :: acc).reverse
    | c :: cs => if isWs c then go cs [] (if cur.isEmpty then acc else cur.reverse :: acc) else go cs (c :: cur) acc
  go s [] []

/-- `s.split(c)` for a single character separator (keeps empty strings) -/
def splitOn (sep : Char) (s : Str) : List Str :=
  let rec go (rest : Str) (cur : Str) (acc : List Str) : List Str :=
    match rest with
    | [] => (cur.reverse :: acc).reverse
    | c :: cs => if c == sep then go cs [] (cur.reverse :: acc) else go cs (c :: cur) acc
  go s [] []

/-- `s.replace(old, new)` (non-overlapping, left to right; `old` non-empty) -/
def replace (s old new : Str) : Str :=
  if old.isEmpty then s else
  let rec go (fuel : Nat) (rest : Str) (acc : Str) : Str :=
    match fuel, rest with
    | 0, _ => acc.reverse ++ rest
    | _, [] => acc.reverse
    | f + 1, c :: cs =>
      if isPrefix old (c :: cs) then go f ((c :: cs).drop old.length) (new.reverse ++ acc)
      else go f cs (c :: acc)
  go (s.length + 1) s []

def startsWith (s pre : Str) : Bool := isPrefix pre s

def join (sep : Str) : List Str → Str
  | [] => []
  | [x] => x
  | x :: xs => x ++ sep ++ join sep xs

end GBS.Py
