import GBS.Model.Gen
/-!
# `Molecule.gen_reaction_graph` (molecule.py:185-346)

Nodes are structural paths: token `t` of element `e`, descriptor `k` of that token (for a stochastic object the repeat
tokens come first, then the end tokens).  The graph is the list of `add_edge` operations in the order the code performs
them; NetworkX's `DiGraph.add_edge` merges the attributes of a repeated `(u, v)` pair, which `merge` reproduces.
-/
namespace GBS

inductive RNode | tok (e t : Nat) | bd (e t k : Nat)
deriving DecidableEq, Repr, Inhabited

inductive RAttr | atom | prob | termProb | transProb
deriving DecidableEq, Repr, Inhabited

structure RAdd where
  src : RNode
  dst : RNode
  attr : RAttr
  val : Rat
deriving DecidableEq, Repr, Inhabited

/-- a descriptor of an element with its position: token index, index in token, on a repeat unit? -/
structure EDesc where
  t : Nat
  k : Nat
  isRepeat : Bool
  d : Desc
deriving DecidableEq, Repr, Inhabited

def tokDescs (tIdx : Nat) (isRep : Bool) (t : Token) : List EDesc :=
  (withIdx t.bds).map fun (k, d) => { t := tIdx, k := k, isRepeat := isRep, d := d }

/-- `element.bond_descriptors` with positions -/
def elemDescs : Element → List EDesc
  | .tok t => tokDescs 0 false t
  | .stoch o =>
    ((withIdx o.repeats).map fun (i, t) => tokDescs i true t).flatten ++
    ((withIdx o.ends).map fun (i, t) => tokDescs (o.repeats.length + i) false t).flatten

def isStoch : Element → Bool | .stoch _ => true | .tok _ => false

/-- first pass: residue → descriptor edges carrying the attachment atom (descriptors of weight ≥ 0) -/
def atomEdges (e : Nat) (el : Element) : List RAdd :=
  (elemDescs el).filterMap fun x =>
    if 0 ≤ x.d.weight then some { src := .tok e x.t, dst := .bd e x.t x.k, attr := .atom, val := x.d.atom } else none

/-- second pass for one descriptor `g` of element `el` -/
def innerEdges (e : Nat) (el : Element) (g : EDesc) : List RAdd :=
  let ds := elemDescs el
  match g.d.trans with
  | some l =>
    if g.d.weight = 0 then [] else
    (withIdx l).filterMap fun (i, w) =>
      match ds[i]? with
      | some o => if 0 ≤ w / g.d.weight then some { src := .bd e g.t g.k, dst := .bd e o.t o.k, attr := .prob, val := w / g.d.weight } else none
      | none => none
  | none =>
    if !isStoch el then [] else
    let comp := ds.filter fun o => isCompatible g.d o.d
    let repW := sumRat ((comp.filter (·.isRepeat)).map (·.d.weight))
    let endW := sumRat ((comp.filter (fun o => !o.isRepeat)).map (·.d.weight))
    (comp.filter fun o => 0 < o.d.weight).map fun o =>
      if o.isRepeat then { src := .bd e g.t g.k, dst := .bd e o.t o.k, attr := .prob, val := o.d.weight / repW }
      else { src := .bd e g.t g.k, dst := .bd e o.t o.k, attr := .termProb, val := o.d.weight / endW }

def leftOf : Element → Option Desc | .stoch o => some o.left | .tok _ => none
def rightOf : Element → Option Desc | .stoch o => some o.right | .tok _ => none

/-- third pass: transitions from descriptor `g` of element `el` (index `e`) into the next element -/
def transEdges (e : Nat) (el nxt : Element) (g : EDesc) : List RAdd :=
  let nd := elemDescs nxt
  let mk := fun (o : EDesc) (v : Rat) => ({ src := .bd e g.t g.k, dst := .bd (e + 1) o.t o.k, attr := .transProb, val := v } : RAdd)
  match el, nxt with
  | .tok _, .tok _ => (nd.filter fun o => isCompatible g.d o.d).map fun o => mk o 1
  | .tok _, .stoch n =>
    let q := nd.filter fun o => isCompatible g.d o.d && isCompatible o.d n.left && o.isRepeat
    let total := sumRat (q.map (·.d.weight))
    let total := if 0 ≤ total ∧ total < 1 / 10000000000000000 then 1 else total
    q.map fun o => mk o (o.d.weight / total)
  | .stoch s, .tok _ =>
    (nd.filter fun o => isCompatible g.d o.d && isCompatible g.d s.right && g.isRepeat && decide (0 < o.d.weight)).map fun o => mk o 1
  | .stoch s, .stoch n =>
    let q := nd.filter fun o => isCompatible g.d o.d && isCompatible o.d n.left && o.isRepeat && isCompatible g.d s.right && g.isRepeat
    let total := sumRat (q.map (·.d.weight))
    let total := if 0 ≤ total ∧ total < 1 / 10000000000000000 then 1 else total
    q.map fun o => mk o (o.d.weight / total)

/-- all `add_edge` operations of `gen_reaction_graph`, in order -/
def reactionAdds (els : List Element) : List RAdd :=
  let idx := withIdx els
  (idx.map fun (e, el) => atomEdges e el).flatten ++
  (idx.map fun (e, el) => ((elemDescs el).map fun g => innerEdges e el g).flatten).flatten ++
  (idx.map fun (e, el) =>
    match els[e + 1]? with
    | some nxt => ((elemDescs el).map fun g => transEdges e el nxt g).flatten
    | none => []).flatten

/-- sum of one attribute over the outgoing edges of a node, after NetworkX's merge (a later `add_edge` on the same pair
overwrites the attribute) -/
def lastVal (adds : List RAdd) (src dst : RNode) (a : RAttr) : Option Rat :=
  ((adds.filter fun x => x.src == src && x.dst == dst && x.attr == a).getLast?).map (·.val)

end GBS
