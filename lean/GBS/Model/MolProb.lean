import GBS.Model.Gen
/-!
# `mol_prob.py` restricted to linear directed chains

For molecules whose stochastic objects are linear chains of a single directed repeat unit the search of
`mol_prob.py:231-412` has exactly one way to continue at every step; it is modelled as the closed computation it performs:
for every start fragment (a prefix token with probability 1; each end group of the first object with probability
weight / Σ weights) that matches an end of the queried chain, the product over the blocks of
`prob_mw(RememberAdd(value, previous))`, where the code accumulates the masses of the matched repeat units of each block —
**and**, at `mol_prob.py:112`, the mass of the start fragment into element 0 (also when element 0 is a stochastic object).
-/
namespace GBS

/-- a start fragment: its probability, its heavy-atom mass, whether it is an end group of a stochastic first element -/
structure StartFrag where
  prob : Rat
  mass : Rat
  intoBlock0 : Bool
deriving DecidableEq, Repr, Inhabited

/-- one block of the queried chain: number of repeat units found and the unit's mass -/
structure ChainBlock where
  n : Nat
  u : Rat
deriving DecidableEq, Repr, Inhabited

/-- the pair `(value, previous)` of the `RememberAdd` of block `i` for a given start -/
def blockPoints (s : StartFrag) (i : Nat) (b : ChainBlock) : Rat × Rat :=
  let off : Rat := if i = 0 ∧ s.intoBlock0 then s.mass else 0
  (off + b.n * b.u, off + (b.n - 1 : Int) * b.u)

/-- `get_starting_tokens` (`mol_prob.py:12-35`): a prefix token starts with probability 1; the end groups of a stochastic first
element start with probability (sum of their descriptors' weights) / (sum over all end groups); only the fragments found at an
end of the queried chain (`matches`) contribute -/
def startFrags (firstIsToken : Bool) (cands : List (Rat × Rat × Bool)) : List StartFrag :=
  if firstIsToken then
    (cands.take 1).filterMap fun (_, m, ok) => if ok then some { prob := 1, mass := m, intoBlock0 := false } else none
  else
    let tot := sumRat (cands.map (·.1))
    cands.filterMap fun (w, m, ok) => if ok then some { prob := w / tot, mass := m, intoBlock0 := true } else none

/-- evaluation points per start: the harness evaluates the (closed-form) CDFs there -/
def chainPoints (starts : List StartFrag) (blocks : List ChainBlock) : List (Rat × List (Rat × Rat)) :=
  starts.map fun s => (s.prob, (withIdx blocks).map fun (i, b) => blockPoints s i b)

/-- the reported probability, for CDFs `F i` of the blocks' distributions -/
def chainProb (F : Nat → Rat → Rat) (starts : List StartFrag) (blocks : List ChainBlock) : Rat :=
  sumRat ((chainPoints starts blocks).map fun (p, pts) =>
    p * ((withIdx pts).map fun (i, (v, pr)) => F i v - F i pr).foldl (· * ·) 1)

end GBS
