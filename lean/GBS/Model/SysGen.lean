import GBS.Model.Gen
/-!
# `system.py:156-186`: ensemble generation

`System.generator` (the `while generated_total_mass < self.system_mass` loop) and `System.generate`.
-/
namespace GBS

/-- one component of a system as generation reads it: its elements, its percentage (`mixture.relative_mass`)
and whether `Molecule.generable` holds -/
structure SysComp where
  els : List Element
  rel : Rat
  generable : Bool := true
deriving Repr, Inhabited

/-- `relative_fractions / np.sum(relative_fractions)` -/
def compProbs (cs : List SysComp) : List Rat := (cs.map (·.rel)).map (· / sumRat (cs.map (·.rel)))

/-- the component pick: `rng.choice(range(len(fractions)), p = fractions / sum)` -/
def pickComp (cs : List SysComp) (ω : Oracle) : G (Nat × Choice × Oracle) :=
  if cs.isEmpty then .error .noCompatible else
  if !probsOk (compProbs cs) (sumRat (cs.map (·.rel))) then .error .choiceValue else
  pickFrom (List.range cs.length) (compProbs cs) ω

/-- a yielded member: which component, and the generated molecule -/
abbrev Member := Nat × Mol

/-- the loop of `System.generator`; `acc` is `generated_total_mass` -/
def sysLoop (fuel : Nat) (cs : List SysComp) (M : Rat) : Nat → Rat → Oracle → G (List Member × Trace × Oracle)
  | 0, acc, ω => if sysContinuesX acc M then .error .outOfFuel else .ok ([], [], ω)
  | n + 1, acc, ω =>
    if ¬ sysContinuesX acc M then .ok ([], [], ω) else
    match pickComp cs ω with
    | .error e => .error e
    | .ok (i, c, ω) =>
      match genMol fuel ((cs.getD i default).els) ω with
      | .error e => .error e
      | .ok (none, _, _) => .error .notFullyGenerated
      | .ok (some m, t, ω) =>
        if !m.opens.isEmpty then .error .notFullyGenerated else
        match sysLoop fuel cs M n (acc + m.mass) ω with
        | .error e => .error e
        | .ok (rest, t2, ω) => .ok ((i, m) :: rest, .choice c :: t ++ t2, ω)

/-- `System.generable` (`system.py:135-142`): the mass estimate succeeded and every component is generable -/
def sysGenerable (estim : Bool) (cs : List SysComp) : Bool := estim && cs.all (·.generable)

/-- `System.generator`: refuses a system that is not generable -/
def sysGenerator (fuel loopFuel : Nat) (generable : Bool) (cs : List SysComp) (M : Rat) (ω : Oracle) :
    G (List Member × Trace × Oracle) :=
  if !generable then .error .notGenerable else sysLoop fuel cs M loopFuel 0 ω

/-- `System.generate`: one member -/
def sysGenerate (fuel : Nat) (cs : List SysComp) (ω : Oracle) : G (Member × Trace × Oracle) :=
  match pickComp cs ω with
  | .error e => .error e
  | .ok (i, c, ω) =>
    if !(cs.getD i default).generable then .error .notGenerable else
    match genMol fuel ((cs.getD i default).els) ω with
    | .error e => .error e
    | .ok (none, _, _) => .error .notFullyGenerated
    | .ok (some m, t, ω) =>
      if !m.opens.isEmpty then .error .notFullyGenerated else .ok ((i, m), .choice c :: t, ω)

end GBS
