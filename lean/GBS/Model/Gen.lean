import GBS.Model.Bond
import GBS.Extracted.Loops
/-!
# Generation: `mol_gen.py`, `core.py:84-122`, `token.py:244-255`, `stochastic.py:164-308`, `molecule.py:147-152`

The random generator is an **oracle**: the list of values returned by successive `rng.choice` calls
(`Event.pick`) and by `distribution.draw_mw` (`Event.draw`).  Every model function that corresponds
to a `choice` call consumes one `pick` and records in the trace the option list and the probability
vector it computed.  RDKit atoms and intra-token bonds are not duplicated in the state: the molecule
denoted by a state is `⊎ instances (token fragment) + bonds` (DESIGN.md 4.4).
-/
namespace GBS

/-- what generation uses of a `SmilesToken` -/
structure Token where
  /-- position in the molecule's table of written tokens (identity of the Python object) -/
  tid : Nat
  natoms : Nat
  /-- `HeavyAtomMolWt` of the token's fragment -/
  mass : Rat
  /-- `token.bond_descriptors`; `atom` is the local atom index -/
  bds : List Desc
deriving DecidableEq, Repr, Inhabited

/-- an open bond descriptor of a partially generated molecule (`MolGen.bond_descriptors[i]`) -/
structure OpenD where
  /-- `atom` is the global atom index -/
  d : Desc
  /-- `node_idx` in the residue graph -/
  node : Nat
  /-- ghost: which descriptor of which residue instance this is -/
  inst : Nat
  k : Nat
deriving DecidableEq, Repr, Inhabited

/-- a bond created by `attach_other` -/
structure IBond where
  a : Nat
  b : Nat
  order : Order
  /-- residue-graph edge -/
  na : Nat
  nb : Nat
  /-- ghost: the two descriptors (instance, index in token) consumed -/
  ia : Nat
  ka : Nat
  ib : Nat
  kb : Nat
deriving DecidableEq, Repr, Inhabited

/-- a residue instance: the token copied and the offset of its atoms -/
structure Inst where
  tok : Token
  off : Nat
deriving DecidableEq, Repr, Inhabited

/-- `MolGen` -/
structure Mol where
  insts : List Inst
  natoms : Nat
  bonds : List IBond
  opens : List OpenD
deriving DecidableEq, Repr, Inhabited

inductive Err
  | notGenerable | prefixOpenCount | prefixMissing | prefixMismatch | endGroupArity
  | noCompatible | choiceValue | attachIndex | attachIncompatible | tokenIndex
  | badOracle | outOfOracle | outOfFuel | notFullyGenerated
deriving DecidableEq, Repr, Inhabited

abbrev G := Except Err

def sumRat (l : List Rat) : Rat := l.foldr (· + ·) 0

/-- `MolGen.weight` (HeavyAtomMolWt of the combined molecule = sum over residues, RDKit assumption) -/
def Mol.mass (m : Mol) : Rat := sumRat (m.insts.map (·.tok.mass))

def Desc.generable (d : Desc) : Bool := decide (0 ≤ d.weight)
def Token.generable (t : Token) : Bool := t.bds.all Desc.generable

/-- enumerate with ghost index -/
def withIdx {α} (l : List α) : List (Nat × α) := l.zipIdx.map (fun p => (p.2, p.1))

/-- `MolGen(token)` shifted: the descriptors of a fresh copy placed at atom offset `off`, node `node`, instance `inst` -/
def Token.opens (t : Token) (off node inst : Nat) : List OpenD :=
  (withIdx t.bds).map fun (k, d) => { d := { d with atom := d.atom + off }, node := node, inst := inst, k := k }

def newMol (t : Token) : G Mol :=
  if t.generable then .ok { insts := [⟨t, 0⟩], natoms := t.natoms, bonds := [], opens := t.opens 0 0 0 }
  else .error .notGenerable

/-- `self.attach_other(i, MolGen(tok), j)` -/
def attach (s : Mol) (i : Nat) (t : Token) (j : Nat) : G Mol :=
  if !t.generable then .error .notGenerable else
  match s.opens[i]?, t.bds[j]? with
  | some o, some d =>
    if !isCompatible d o.d then .error .attachIncompatible else
    let inst := s.insts.length
    let fresh := t.opens s.natoms inst inst
    .ok { insts := s.insts ++ [⟨t, s.natoms⟩]
          natoms := s.natoms + t.natoms
          bonds := s.bonds ++ [{ a := o.d.atom, b := d.atom + s.natoms, order := o.d.order,
                                 na := o.node, nb := inst, ia := o.inst, ka := o.k, ib := inst, kb := j }]
          opens := s.opens.eraseIdx i ++ fresh.eraseIdx j }
  | _, _ => .error .attachIndex

inductive Event | pick (v : Nat) | draw (x : Rat)
deriving DecidableEq, Repr, Inhabited

abbrev Oracle := List Event

/-- one recorded call of `rng.choice(a, p=p)` -/
structure Choice where
  opts : List Nat
  probs : List Rat
  res : Nat
deriving DecidableEq, Repr, Inhabited

inductive TraceItem | choice (c : Choice) | drew (x : Rat) | units (n : Nat) | cmp (added target : Rat)
deriving DecidableEq, Repr, Inhabited

abbrev Trace := List TraceItem

/-- the weights handed to `rng.choice` by `choose_compatible_weight`: the "+1" trick, then normalisation -/
def trick (ws : List Rat) : List Rat :=
  match ws with
  | [] => []
  | w :: _ => if ws.all (· == w) then ws.map (· + 1) else ws

def chooseProbs (ws : List Rat) : List Rat :=
  (trick ws).map (· / sumRat (trick ws))

/-- validity of a probability vector as far as `Generator.choice` checks it (non-negative, not NaN) -/
def probsOk (ps : List Rat) (total : Rat) : Bool := decide (total ≠ 0) && ps.all (fun p => decide (0 ≤ p))

/-- position of `v` in `opts` -/
def posOf (v : Nat) : List Nat → Option Nat
  | [] => none
  | o :: os => if o = v then some 0 else (posOf v os).map (· + 1)

/-- consume one `pick` event for `rng.choice(opts, p=probs)` -/
def pickFrom (opts : List Nat) (probs : List Rat) (ω : Oracle) : G (Nat × Choice × Oracle) :=
  match ω with
  | .pick v :: ω' =>
    match posOf v opts with
    | some k => if 0 < probs.getD k 0 then .ok (v, ⟨opts, probs, v⟩, ω') else .error .badOracle
    | none => .error .badOracle
  | .draw _ :: _ => .error .badOracle
  | [] => .error .outOfOracle

/-- `choose_compatible_weight(bds, b, rng)` -/
def choose (bds : List Desc) (b : Option Desc) (ω : Oracle) : G (Nat × Choice × Oracle) :=
  let ids := compatibleIds bds b
  let ws := ids.map fun i => (bds.getD i default).weight
  if ids.isEmpty then .error .noCompatible else
  if !probsOk (chooseProbs ws) (sumRat (trick ws)) then .error .choiceValue else
  pickFrom ids (chooseProbs ws) ω

/-- `rng.choice(range(len(prob)), p = transitions / weight)` -/
def chooseList (trans : List Rat) (weight : Rat) (ω : Oracle) : G (Nat × Choice × Oracle) :=
  let ps := trans.map (· / weight)
  if trans.isEmpty then .error .noCompatible else
  if !probsOk ps weight then .error .choiceValue else
  pickFrom (List.range trans.length) ps ω

/-- `SmilesToken.generate(prefix, rng)` -/
def genToken (t : Token) (pre : Option Mol) (ω : Oracle) : G (Mol × Trace × Oracle) :=
  if !t.generable then .error .notGenerable else
  match pre with
  | none =>
    match newMol t with
    | .error e => .error e
    | .ok m => .ok (m, [], ω)
  | some p =>
    match p.opens with
    | [o] =>
      match choose t.bds (some o.d) ω with
      | .error e => .error e
      | .ok (j, c, ω) =>
        match attach p 0 t j with
        | .error e => .error e
        | .ok m => .ok (m, [.choice c], ω)
    | _ => .error .prefixOpenCount

/-- a parsed `Stochastic` object, as far as generation reads it -/
structure Stoch where
  left : Desc
  right : Desc
  repeats : List Token
  ends : List Token
  hasDist : Bool
deriving DecidableEq, Repr, Inhabited

/-- flat descriptor lists with their owning token and index inside it (`repeat_bonds`, `repeat_bond_token_idx`) -/
def flatBonds (ts : List Token) : List (Token × Nat × Desc) :=
  ts.flatMap fun t => (withIdx t.bds).map fun (k, d) => (t, k, d)

def Stoch.repeatBonds (o : Stoch) := flatBonds o.repeats
def Stoch.endBonds (o : Stoch) := flatBonds o.ends

def Stoch.generable (o : Stoch) : Bool :=
  o.repeats.all Token.generable && o.ends.all Token.generable && o.hasDist

def symOfChar : Char → Sym
  | '$' => .dollar | '<' => .lt | '>' => .gt | _ => .none

/-- `BondDescriptor(_create_compatible_bond_text(r), 0, "", None)`: same symbol and id as `r`, always a single bond -/
def invertTerminal (r : Desc) : Desc :=
  { sym := symOfChar (compatSymbolOfText (match r.sym.toChar? with | some c => [c] | none => [])),
    id := r.id, order := .single }

/-- one end group attached to one open descriptor (body of the capping loop, `stochastic.py:283-295`) -/
def capOne (o : Stoch) (s : Mol) (ω : Oracle) : G (Mol × Trace × Oracle) :=
  match choose (s.opens.map (·.d)) none ω with
  | .error e => .error e
  | .ok (i, c1, ω) =>
    match choose (o.endBonds.map (·.2.2)) (some (s.opens.getD i default).d) ω with
    | .error e => .error e
    | .ok (c, c2, ω) =>
      match o.endBonds[c]? with
      | some (tok, k, _) =>
        match attach s i tok k with
        | .error e => .error e
        | .ok s' => .ok (s', [.choice c1, .choice c2], ω)
      | none => .error .tokenIndex

def capAll (o : Stoch) : Nat → Mol → Oracle → G (Mol × Trace × Oracle)
  | 0, s, ω => if s.opens.isEmpty then .ok (s, [], ω) else .error .outOfFuel
  | f + 1, s, ω =>
    if s.opens.isEmpty then .ok (s, [], ω) else
      match capOne o s ω with
      | .error e => .error e
      | .ok (s1, t1, ω) =>
        match capAll o f s1 ω with
        | .error e => .error e
        | .ok (s2, t2, ω) => .ok (s2, t1 ++ t2, ω)

/-- `finalize_mol` (on the deep copy) -/
def finalize (o : Stoch) (fuel : Nat) (s : Mol) (ω : Oracle) : G (Mol × Trace × Oracle) :=
  if o.right.sym ≠ .none then
    match choose (s.opens.map (·.d)) (some (invertTerminal o.right)) ω with
    | .error e => .error e
    | .ok (k, c, ω) =>
      match capAll o fuel { s with opens := s.opens.eraseIdx k } ω with
      | .error e => .error e
      | .ok (s', t, ω) => .ok ({ s' with opens := s'.opens ++ [s.opens.getD k default] }, .choice c :: t, ω)
  else
    capAll o fuel s ω

/-- the partner pick of `add_repeat_unit`: by the explicit transition list of the open descriptor when it has one
(over **all** descriptors of the object), otherwise among the compatible repeat-unit descriptors -/
def pickPartner (o : Stoch) (start : Desc) (ω : Oracle) : G (Nat × Choice × Oracle) :=
  match start.trans with
  | some l => chooseList l start.weight ω
  | none => choose (o.repeatBonds.map (·.2.2)) (some start) ω

/-- which token / descriptor the picked index denotes: repeat units first, then end groups -/
def Stoch.entry (o : Stoch) (c : Nat) : Option (Token × Nat × Desc) :=
  if c < o.repeatBonds.length then o.repeatBonds[c]? else o.endBonds[c - o.repeatBonds.length]?

/-- `add_repeat_unit` -/
def addUnit (o : Stoch) (s : Mol) (ω : Oracle) : G (Mol × Trace × Oracle) :=
  match choose (s.opens.map (·.d)) none ω with
  | .error e => .error e
  | .ok (i, c1, ω) =>
    match pickPartner o (s.opens.getD i default).d ω with
    | .error e => .error e
    | .ok (c, c2, ω) =>
      match o.entry c with
      | some (tok, k, _) =>
        match attach s i tok k with
        | .error e => .error e
        | .ok s' => .ok (s', [.choice c1, .choice c2], ω)
      | none => .error .tokenIndex

/-- the `while True` loop of `generate_repeat_units_and_finalize`; `n` counts the units added so far -/
def growLoop (o : Stoch) (start target : Rat) : Nat → Nat → Mol → Oracle → G (Mol × Trace × Oracle)
  | 0, _, _, _ => .error .outOfFuel
  | f + 1, n, s, ω =>
    match addUnit o s ω with
    | .error e => .error e
    | .ok (s1, t1, ω) =>
      if s1.opens.isEmpty then .ok (s1, t1 ++ [.units (n + 1)], ω) else
      match finalize o (f + 1) s1 ω with
      | .error e => .error e
      | .ok (fin, t2, ω) =>
        if growStopsX (s1.mass - start) target then
          .ok (fin, t1 ++ t2 ++ [.cmp (s1.mass - start) target, .units (n + 1)], ω)
        else
          match growLoop o start target f (n + 1) s1 ω with
          | .error e => .error e
          | .ok (r, t3, ω) => .ok (r, t1 ++ t2 ++ [.cmp (s1.mass - start) target] ++ t3, ω)

/-- `get_start` -/
def getStart (o : Stoch) (pre : Option Mol) (ω : Oracle) : G (Mol × Trace × Oracle) :=
  match pre with
  | none =>
    if o.left.sym ≠ .none then .error .prefixMissing else
      match choose (o.endBonds.map (·.2.2)) none ω with
      | .error e => .error e
      | .ok (c, ch, ω) =>
        match o.endBonds[c]? with
        | some (tok, _, _) =>
          if tok.bds.length ≠ 1 then .error .endGroupArity else
            match newMol tok with
            | .error e => .error e
            | .ok m => .ok (m, [.choice ch], ω)
        | none => .error .tokenIndex
  | some p =>
    match p.opens with
    | [op] =>
      if op.d.sym ≠ o.left.sym ∨ op.d.id ≠ o.left.id then .error .prefixMismatch else
      .ok ({ p with opens := [{ op with d := { op.d with trans := o.left.trans, weight := o.left.weight } }] }, [], ω)
    | _ => .error .prefixOpenCount

/-- the check of `BigSMILESbase.generate`: a prefix must have exactly one open descriptor -/
def prefixOk : Option Mol → Bool
  | some p => p.opens.length == 1
  | none => true

/-- `Stochastic.generate(prefix, rng)` -/
def genStoch (o : Stoch) (fuel : Nat) (pre : Option Mol) (ω : Oracle) : G (Mol × Trace × Oracle) :=
  if !o.generable then .error .notGenerable else
  if !prefixOk pre then .error .prefixOpenCount else
  match getStart o pre ω with
  | .error e => .error e
  | .ok (s, t0, ω) =>
    match ω with
    | .draw target :: ω =>
      match growLoop o s.mass target fuel 0 s ω with
      | .error e => .error e
      | .ok (r, t, ω) => .ok (r, t0 ++ [.drew target] ++ t, ω)
    | [] => .error .outOfOracle
    | .pick _ :: _ => .error .badOracle

inductive Element | tok (t : Token) | stoch (o : Stoch)
deriving DecidableEq, Repr, Inhabited

def genElement (fuel : Nat) (e : Element) (pre : Option Mol) (ω : Oracle) : G (Mol × Trace × Oracle) :=
  match e with
  | .tok t => genToken t pre ω
  | .stoch o => genStoch o fuel pre ω

/-- `Molecule.generate(prefix=None, rng)`: the elements in written order, each receiving the previous result -/
def genElems (fuel : Nat) : List Element → Option Mol → Oracle → G (Option Mol × Trace × Oracle)
  | [], m, ω => .ok (m, [], ω)
  | e :: es, m, ω =>
    match genElement fuel e m ω with
    | .error e => .error e
    | .ok (m', t1, ω) =>
      match genElems fuel es (some m') ω with
      | .error e => .error e
      | .ok (r, t2, ω) => .ok (r, t1 ++ t2, ω)

def genMol (fuel : Nat) (es : List Element) (ω : Oracle) : G (Option Mol × Trace × Oracle) := genElems fuel es none ω

end GBS
