import GBS.Model.PyStr
/-!
# Python number syntax: `float(str)`, `int(str)`, `repr(float)`

`parseFloat` implements the grammar CPython documents for `float()` (sign, digits with `_`, `.`, exponent, `inf`/`nan`).
The value of a literal is kept as an exact rational.  `reprFloat` prints a decimal the way `repr(float)` does
(`float_repr_style = 'short'`): fixed notation when `-4 < decpt ≤ 16`, otherwise scientific; it is only defined for
decimals of at most 15 significant digits, for which `repr(float(d))` is the normalised decimal itself
(DBL_DIG = 15; CPython assumption of DESIGN.md section 3).
-/
namespace GBS.Num
open GBS.Py

inductive FloatRes
  | ok (q : Rat)
  | nonFinite          -- inf / nan: accepted by Python, outside the model's domain
  | bad                -- ValueError
deriving DecidableEq, Repr, Inhabited

def digitVal (c : Char) : Nat := c.toNat - '0'.toNat

/-- `digit (["_"] digit)*` → value and number of digits; `none` if malformed or empty -/
def digitPart (s : Str) : Option (Nat × Nat) :=
  let rec go (rest : Str) (v n : Nat) (prevDigit : Bool) : Option (Nat × Nat) :=
    match rest with
    | [] => if prevDigit then some (v, n) else none
    | c :: cs =>
      if c.isDigit then go cs (10 * v + digitVal c) (n + 1) true
      else if c == '_' && prevDigit && (match cs with | d :: _ => d.isDigit | [] => false) then go cs v n false
      else none
  match s with
  | [] => none
  | _ => go s 0 0 false

def pow10 (n : Nat) : Rat := (10 ^ n : Nat)

def lower (s : Str) : Str := s.map Char.toLower

/-- unsigned `floatnumber | digitpart` with optional exponent -/
def unsignedFloat (s : Str) : FloatRes :=
  let ls := lower s
  if ls == "inf".toList || ls == "infinity".toList || ls == "nan".toList then .nonFinite else
  -- split exponent
  let (mant, expo) : Str × Option Str :=
    match s.findIdx? (fun c => c == 'e' || c == 'E') with
    | some i => (s.take i, some (s.drop (i + 1)))
    | none => (s, none)
  let expVal : Option Int :=
    match expo with
    | none => some 0
    | some e =>
      let (neg, body) := match e with
        | '-' :: r => (true, r)
        | '+' :: r => (false, r)
        | r => (false, r)
      (digitPart body).map (fun p => if neg then -(p.1 : Int) else (p.1 : Int))
  let mantVal : Option Rat :=
    match mant.findIdx? (· == '.') with
    | none => (digitPart mant).map (fun p => (p.1 : Rat))
    | some i =>
      let ip := mant.take i
      let fp := mant.drop (i + 1)
      match ip, fp with
      | [], [] => none
      | _, [] => (digitPart ip).map (fun p => (p.1 : Rat))
      | [], _ => (digitPart fp).map (fun p => (p.1 : Rat) / pow10 p.2)
      | _, _ =>
        match digitPart ip, digitPart fp with
        | some a, some b => some ((a.1 : Rat) + (b.1 : Rat) / pow10 b.2)
        | _, _ => none
  match mantVal, expVal with
  | some m, some e => .ok (if e ≥ 0 then m * pow10 e.toNat else m / pow10 (-e).toNat)
  | _, _ => .bad

/-- `float(s)` -/
def parseFloat (s : Str) : FloatRes :=
  let t := strip s
  match t with
  | '-' :: r => (match unsignedFloat r with | .ok q => .ok (-q) | x => x)
  | '+' :: r => unsignedFloat r
  | r => unsignedFloat r

/-- `int(s)` for decimal literals -/
def parseInt (s : Str) : Option Int :=
  let t := strip s
  match t with
  | '-' :: r => (digitPart r).map (fun p => -(p.1 : Int))
  | '+' :: r => (digitPart r).map (fun p => (p.1 : Int))
  | r => (digitPart r).map (fun p => (p.1 : Int))

/-- decimal digits of a positive natural number -/
def natDigits (n : Nat) : Str := (Nat.toDigits 10 n)

/-- for a positive rational that is a finite decimal: (digits without trailing zeros, decpt) with value = 0.DIGITS × 10^decpt;
`none` when the denominator is not of the form 2^a 5^b or more than `maxExp` decimal places would be needed -/
def decimalOf (q : Rat) (maxPlaces : Nat := 400) : Option (Str × Int) :=
  let rec scale (fuel : Nat) (num den : Nat) (k : Nat) : Option (Nat × Nat) :=
    match fuel with
    | 0 => none
    | f + 1 => if num % den == 0 then some (num / den, k) else scale f (num * 10) den (k + 1)
  if q ≤ 0 then none else
  match scale maxPlaces q.num.toNat q.den 0 with
  | none => none
  | some (n, k) =>
    -- value = n / 10^k ; strip trailing zeros of n
    let ds := natDigits n
    let trimmed := rstripBy (· == '0') ds
    let removed := ds.length - trimmed.length
    -- n = trimmedValue * 10^removed ; value = 0.trimmed × 10^(len(trimmed) + removed - k)
    some (trimmed, (trimmed.length + removed : Int) - k)

def pad2 (n : Nat) : Str := if n < 10 then '0' :: natDigits n else natDigits n

/-- `repr(x)` for the double nearest to the decimal `q` (≤ 15 significant digits) -/
def reprFloat (q : Rat) : Option Str :=
  if q == 0 then some "0.0".toList else
  let neg := decide (q < 0)
  let a := if neg then -q else q
  match decimalOf a with
  | none => none
  | some (ds, decpt) =>
    if ds.length > 15 then none else
    let sign : Str := if neg then ['-'] else []
    if decpt ≤ -4 ∨ decpt > 16 then
      -- scientific: d[.ddd]e±XX
      let e := decpt - 1
      let mant : Str := match ds with
        | [d] => [d]
        | d :: rest => d :: '.' :: rest
        | [] => []
      let es : Str := (if e < 0 then '-' else '+') :: pad2 e.natAbs
      some (sign ++ mant ++ ['e'] ++ es)
    else if decpt ≤ 0 then
      some (sign ++ "0.".toList ++ List.replicate (-decpt).toNat '0' ++ ds)
    else
      let dp := decpt.toNat
      if ds.length ≤ dp then some (sign ++ ds ++ List.replicate (dp - ds.length) '0' ++ ".0".toList)
      else some (sign ++ ds.take dp ++ ['.'] ++ ds.drop dp)

end GBS.Num
