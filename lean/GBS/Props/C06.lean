import GBS.Props.C05
import GBS.Lemmas.Progress
import GBS.Lemmas.Termination
import Mathlib.Data.List.Perm.Subperm
import Mathlib.Data.List.Perm.Lattice
/-!
# C06 — well-posed molecules generate to completion, in the written element order

Proved here for every molecule description and every oracle (no well-posedness hypothesis needed):

* `C06_every_descriptor_once`: when generation returns a molecule with no open descriptor, **every descriptor of every
  residue instance has formed exactly one bond**: the list of descriptor origins consumed by the bonds is a permutation of
  the list of all descriptors of all instances (counting invariant + C04's no-reuse invariant).
* `C06_open_accounting`: in general, `2·|bonds| + |open| = Σ descriptors of the instances`.

* `C06_certified_generates` (soundness of the decidable certificate check, `GBS/Lemmas/Progress.lean`): when `certify es`
  returns a certificate, then **for every fuel and every oracle** `genMol` raises none of the implementation's errors (the only
  failures left are "the oracle / the fuel ran out or does not fit", which the implementation does not have) and every run
  that returns has **no open descriptor**.  The proof goes step by step through `choose`, `attach`, `capOne`/`capAll`,
  `addUnit`, `finalize`, `growLoop`, `getStart`, `genStoch`, `genToken`, `genElems` with the invariant "every open descriptor
  is a copy of a class of the certificate's set `R`" (plus "exactly one open" for chains and "a descriptor for the right
  terminal exists after every unit").

* `C06_growth_terminates` (`GBS/Lemmas/Termination.lean`): for a certified object whose repeat units weigh at least `mmin > 0` and
  whose transition lists stay inside the repeat units, `Stochastic.generate` never stops for lack of fuel once the fuel exceeds
  `1 + (⌊target / mmin⌋ + 1)·(maxDescs + 1)` for the targets the oracle supplies: the `while True` loop ends by itself after at
  most `⌊target / mmin⌋ + 1` units, every capping round after at most as many steps as there are open descriptors.

* `C06_generation_terminates`: the same for whole molecules (the remaining oracle is part of the given one through every step:
  `genElems_fuel`): for a certified molecule with those mass bounds and the fuel above every object's bound, the only errors
  `genMol` can still return are `badOracle` / `outOfOracle` — with a long enough fitting random history generation completes.

`C06_partial`: (i) `maxDescs`, `mmin` and the no-list-into-end-group condition are hypotheses of the termination theorems (decidable, not
part of `certify`); (ii) the older syntactic analysis `wellPosed` (Appendix A.2) is kept as the wider classifier of
the check; `certify` is what the theorem covers.  The check evaluates both in the model for every generated instance, requires
the implementation to complete on every oracle tried whenever either says so, and reports how many well-posed instances carry a
certificate.
-/
namespace GBS

def descCount (insts : List Inst) : Nat := (insts.map (·.tok.bds.length)).sum

def Count (s : Mol) (R : List OpenD) : Prop := 2 * s.bonds.length + s.opens.length + R.length = descCount s.insts

theorem descCount_append (a b : List Inst) : descCount (a ++ b) = descCount a + descCount b := by
  simp [descCount]

theorem length_eraseIdx_of_lt {α} (l : List α) (i : Nat) (h : i < l.length) : (l.eraseIdx i).length = l.length - 1 := by
  rw [List.length_eraseIdx]; simp [h]

def Full (s : Mol) (R : List OpenD) : Prop := Struct s R ∧ Count s R

theorem Full_closed : Closed Full where
  new := by
    intro t m h
    refine ⟨Struct_closed.new t m h, ?_⟩
    obtain ⟨-, rfl⟩ := newMol_ok h
    simp [Count, descCount, Token.opens_length]
  attach := by
    intro s R i t j s' ⟨hS, hC⟩ h
    refine ⟨Struct_closed.attach s R i t j s' hS h, ?_⟩
    obtain ⟨-, o, d, ho, hd, -, rfl⟩ := attach_ok h
    have hi : i < s.opens.length := by
      cases hl : decide (i < s.opens.length) with
      | true => exact of_decide_eq_true hl
      | false =>
        have : ¬ i < s.opens.length := of_decide_eq_false hl
        rw [List.getElem?_eq_none (by omega)] at ho; cases ho
    have hj : j < t.bds.length := by
      cases hl : decide (j < t.bds.length) with
      | true => exact of_decide_eq_true hl
      | false =>
        have : ¬ j < t.bds.length := of_decide_eq_false hl
        rw [List.getElem?_eq_none (by omega)] at hd; cases hd
    unfold Count at hC ⊢
    simp only [List.length_append, List.length_singleton, descCount_append]
    rw [length_eraseIdx_of_lt _ _ hi, length_eraseIdx_of_lt _ _ (by rw [Token.opens_length]; exact hj), Token.opens_length]
    simp only [descCount, List.map_cons, List.map_nil, List.sum_cons, List.sum_nil] at hC ⊢
    omega
  setWT := by
    intro s R op tr w ⟨hS, hC⟩ hop
    refine ⟨Struct_closed.setWT s R op tr w hS hop, ?_⟩
    unfold Count at hC ⊢
    simp only [hop, List.length_singleton] at hC ⊢
    exact hC
  reserve := by
    intro s k o ⟨hS, hC⟩ hk
    refine ⟨Struct_closed.reserve s k o hS hk, ?_⟩
    have hlt : k < s.opens.length := by
      cases hl : decide (k < s.opens.length) with
      | true => exact of_decide_eq_true hl
      | false =>
        have : ¬ k < s.opens.length := of_decide_eq_false hl
        rw [List.getElem?_eq_none (by omega)] at hk; cases hk
    unfold Count at hC ⊢
    simp only [length_eraseIdx_of_lt _ _ hlt, List.length_singleton, List.length_nil] at hC ⊢
    omega
  release := by
    intro s o ⟨hS, hC⟩
    refine ⟨Struct_closed.release s o hS, ?_⟩
    unfold Count at hC ⊢
    simp only [List.length_append, List.length_singleton, List.length_nil] at hC ⊢
    omega

/-- **C06 (accounting)**: descriptors are either used by a bond (two per bond) or still open -/
theorem C06_open_accounting {fuel : Nat} (es : List Element) {ω ω' : Oracle} {tr : Trace} {m : Mol}
    (h : genMol fuel es ω = .ok (some m, tr, ω')) : 2 * m.bonds.length + m.opens.length = descCount m.insts := by
  have := (genMol_pres Full_closed es h).2
  simpa [Count] using this

/-- all descriptors of all residue instances, as (instance, position in token) -/
def allOrigins (insts : List Inst) : List (Nat × Nat) :=
  (withIdx insts).flatMap fun (i, inst) => (List.range inst.tok.bds.length).map fun k => (i, k)

theorem allOrigins_length (insts : List Inst) : (allOrigins insts).length = descCount insts := by
  unfold allOrigins descCount withIdx
  simp only [List.length_flatMap, List.map_map]
  congr 1
  apply List.ext_getElem
  · simp
  · intro n h1 h2
    simp

theorem mem_allOrigins {insts : List Inst} {i k : Nat} {inst : Inst} (hi : insts[i]? = some inst) (hk : k < inst.tok.bds.length) :
    (i, k) ∈ allOrigins insts := by
  unfold allOrigins
  rw [List.mem_flatMap]
  refine ⟨(i, inst), ?_, ?_⟩
  · have := withIdx_getElem? insts i
    rw [hi] at this
    exact List.mem_of_getElem? this
  · simp only [List.mem_map, List.mem_range]
    exact ⟨k, hk, rfl⟩

theorem lt_of_getElem?_some {α} {l : List α} {i : Nat} {a : α} (h : l[i]? = some a) : i < l.length := by
  cases hl : decide (i < l.length) with
  | true => exact of_decide_eq_true hl
  | false =>
    have : ¬ i < l.length := of_decide_eq_false hl
    rw [List.getElem?_eq_none (by omega)] at h; cases h

/-- **C06 (fully generated ⇒ every descriptor formed exactly one bond)** -/
theorem C06_every_descriptor_once {fuel : Nat} (es : List Element) {ω ω' : Oracle} {tr : Trace} {m : Mol}
    (h : genMol fuel es ω = .ok (some m, tr, ω')) (hfull : m.opens = []) :
    (m.bonds.flatMap IBond.origins).Perm (allOrigins m.insts) := by
  obtain ⟨⟨hI, -, -⟩, hC⟩ := genMol_pres Full_closed es h
  have hnd : (m.bonds.flatMap IBond.origins).Nodup := by
    have := hI.nodup
    simp only [hfull, List.append_nil, List.map_nil] at this
    exact this
  have hsub : m.bonds.flatMap IBond.origins ⊆ allOrigins m.insts := by
    intro x hx
    rw [List.mem_flatMap] at hx
    obtain ⟨b, hb, hxb⟩ := hx
    obtain ⟨ia, ib, da, db, h1, h2, h3, h4, -⟩ := hI.bonds b hb
    simp only [IBond.origins, List.mem_cons, List.mem_nil_iff, or_false] at hxb
    rcases hxb with rfl | rfl
    · exact mem_allOrigins h1 (lt_of_getElem?_some h3)
    · exact mem_allOrigins h2 (lt_of_getElem?_some h4)
  have hlen : (allOrigins m.insts).length ≤ (m.bonds.flatMap IBond.origins).length := by
    rw [allOrigins_length]
    have hc : 2 * m.bonds.length = descCount m.insts := by
      simpa [Count, hfull] using hC
    have : (m.bonds.flatMap IBond.origins).length = 2 * m.bonds.length := by
      induction m.bonds with
      | nil => rfl
      | cons b bs ih => simp only [List.flatMap_cons, List.length_append, ih, IBond.origins, List.length_cons, List.length_nil]; omega
    omega
  exact (List.subperm_of_subset hnd hsub).perm_of_length_le hlen


/-- **C06 (certified molecules generate to completion)** -/
theorem C06_certified_generates (es : List Element) (cs : List ElemCert) (h : certify es = some cs) (fuel : Nat) (ω : Oracle) :
    (∀ e, genMol fuel es ω = .error e → e = .badOracle ∨ e = .outOfOracle ∨ e = .outOfFuel) ∧
    (∀ r t ω', genMol fuel es ω = .ok (r, t, ω') → ∃ m, r = some m ∧ m.opens = []) := by
  unfold certify at h
  simp only at h
  split at h
  · rename_i hc
    simp only [Bool.and_eq_true, Bool.not_eq_true', decide_eq_true_eq] at hc
    injection h with h
    subst h
    have hne : es ≠ [] := by
      intro h0; rw [h0] at hc; simp at hc
    exact certified_generates es _ hne hc.2 fuel ω
  · cases h

/-- **C06 (growth terminates)** -/
theorem C06_growth_terminates {o : Stoch} {m : Mode} {R : List Desc} {inc : Option Desc} {mmin : Rat} (hok : StochOK o m R inc)
    (ht : TermOK o (startClasses o inc) R mmin) (fuel : Nat) {pre : Option Mol} (hpre : PreOK pre inc) (ω : Oracle)
    (hfuel : ∀ x, Event.draw x ∈ ω → 1 + unitsBound x mmin * (maxDescs o + 1) ≤ fuel) :
    genStoch o fuel pre ω ≠ .error .outOfFuel :=
  genStoch_fuel hok ht fuel hpre ω hfuel

/-- **C06 (generation terminates)**: certified, repeat units of at least `ms` mass, lists inside the repeat units, fuel above every
object's bound for the targets of the oracle: only the oracle can make generation fail -/
theorem C06_generation_terminates (es : List Element) (cs : List ElemCert) (ms : List Rat) (h : certify es = some cs)
    (hterm : ElemsTerm es cs ms none) (fuel : Nat) (ω : Oracle) (hfuel : FuelOK fuel es ms ω) :
    ∀ e, genMol fuel es ω = .error e → e = .badOracle ∨ e = .outOfOracle := by
  intro e he
  have hok : ElemsOK es cs none := by
    unfold certify at h
    simp only at h
    split at h
    · rename_i hc
      simp only [Bool.and_eq_true, Bool.not_eq_true', decide_eq_true_eq] at hc
      injection h with h; subst h; exact hc.2
    · cases h
  rcases (C06_certified_generates es cs h fuel ω).1 e he with h1 | h1 | h1
  · exact Or.inl h1
  · exact Or.inr h1
  · subst h1
    exact absurd he (genElems_fuel fuel es cs ms none none ω trivial hok hterm hfuel)

/-! non-vacuity: `C{[>][<]CC[>][<]}C`-like chain (prefix, two-descriptor unit, suffix) and an end-capped object are certified -/
namespace C06Example
def dL : Desc := { sym := .lt, id := none, order := .single }
def dR : Desc := { sym := .gt, id := none, order := .single }
def dN : Desc := { sym := .none, id := none, order := .single }
def tPre : Token := { tid := 0, natoms := 1, mass := 12, bds := [{ dR with atom := 0 }] }
def tRep : Token := { tid := 1, natoms := 2, mass := 24, bds := [dL, { dR with atom := 1 }] }
def tSuf : Token := { tid := 2, natoms := 1, mass := 12, bds := [dL] }
def tEndL : Token := { tid := 3, natoms := 1, mass := 16, bds := [dL] }
def tEndR : Token := { tid := 4, natoms := 1, mass := 14, bds := [dR] }
/-- `C{[>][<]CC[>][<]}|…|C` -/
def chain : List Element := [.tok tPre, .stoch { left := dR, right := dL, repeats := [tRep], ends := [], hasDist := true }, .tok tSuf]
/-- `{[][<]CC[>]; [<]O, [>]N []}|…|` -/
def capped : List Element := [.stoch { left := dN, right := dN, repeats := [tRep], ends := [tEndL, tEndR], hasDist := true }]
example : (certify chain).isSome = true := by decide +kernel
example : (certify capped).isSome = true := by decide +kernel
/-- an object whose chain end cannot be capped (no `[<]` end group) is not certified -/
example : (certify [.stoch { left := dN, right := dN, repeats := [tRep], ends := [tEndR], hasDist := true }]).isSome = false := by
  decide +kernel
/-- the hypotheses of `C06_growth_terminates` are met by the chain's object (handed the prefix's `>` descriptor), `mmin = 24` -/
def chainObj : Stoch := { left := dR, right := dL, repeats := [tRep], ends := [], hasDist := true }
def chainCert : ElemCert := guessStoch chainObj (some dR)
example : StochOK chainObj chainCert.1 chainCert.2 (some dR) := by decide +kernel
example : TermOK chainObj (startClasses chainObj (some dR)) chainCert.2 24 := by
  refine ⟨by decide +kernel, ?_, ?_⟩
  · intro tok htok
    have : tok = tRep := by simpa [chainObj] using htok
    subst this; decide +kernel
  · have hnone : ∀ x ∈ startClasses chainObj (some dR) ++ chainCert.2, x.trans = none := by decide +kernel
    intro x hx l hl
    rw [hnone x hx] at hl
    cases hl
end C06Example

end GBS
