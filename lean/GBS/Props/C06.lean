import GBS.Props.C05
import Mathlib.Data.List.Perm.Subperm
import Mathlib.Data.List.Perm.Lattice
/-!
# C06 — well-posed molecules generate to completion, in the written element order

Proved here for every molecule description and every oracle (no well-posedness hypothesis needed):

* `C06_every_descriptor_once`: when generation returns a molecule with no open descriptor, **every descriptor of every
  residue instance has formed exactly one bond**: the list of descriptor origins consumed by the bonds is a permutation of
  the list of all descriptors of all instances (counting invariant + C04's no-reuse invariant).
* `C06_open_accounting`: in general, `2·|bonds| + |open| = Σ descriptors of the instances`.

`C06_partial`: that a molecule which the closability analysis `wellPosed` accepts *always* reaches the state "no open
descriptor" (no error, termination within the explicit bound) is **not** proved; the check evaluates `wellPosed` in the model
for every generated instance and requires the implementation to complete on every oracle tried (recorded and enumerated)
whenever the model says well-posed, and reports the coverage.
-/
namespace GBS

def descCount (insts : List Inst) : Nat := (insts.map (·.tok.bds.length)).sum

def Count (s : Mol) (R : List OpenD) : Prop := 2 * s.bonds.length + s.opens.length + R.length = descCount s.insts

theorem descCount_append (a b : List Inst) : descCount (a ++ b) = descCount a + descCount b := by
  simp [descCount]

theorem length_eraseIdx_of_lt {α} (l : List α) (i : Nat) (h : i < l.length) : (l.eraseIdx i).length = l.length - 1 := by
  rw [List.length_eraseIdx]; simp [h]

def Full (s : Mol) (R : List OpenD) : Prop := Struct s R ∧ Count s R

theorem Full_closed : Closed Full where
  new := by
    intro t m h
    refine ⟨Struct_closed.new t m h, ?_⟩
    obtain ⟨-, rfl⟩ := newMol_ok h
    simp [Count, descCount, Token.opens_length]
  attach := by
    intro s R i t j s' ⟨hS, hC⟩ h
    refine ⟨Struct_closed.attach s R i t j s' hS h, ?_⟩
    obtain ⟨-, o, d, ho, hd, -, rfl⟩ := attach_ok h
    have hi : i < s.opens.length := by
      cases hl : decide (i < s.opens.length) with
      | true => exact of_decide_eq_true hl
      | false =>
        have : ¬ i < s.opens.length := of_decide_eq_false hl
        rw [List.getElem?_eq_none (by omega)] at ho; cases ho
    have hj : j < t.bds.length := by
      cases hl : decide (j < t.bds.length) with
      | true => exact of_decide_eq_true hl
      | false =>
        have : ¬ j < t.bds.length := of_decide_eq_false hl
        rw [List.getElem?_eq_none (by omega)] at hd; cases hd
    unfold Count at hC ⊢
    simp only [List.length_append, List.length_singleton, descCount_append]
    rw [length_eraseIdx_of_lt _ _ hi, length_eraseIdx_of_lt _ _ (by rw [Token.opens_length]; exact hj), Token.opens_length]
    simp only [descCount, List.map_cons, List.map_nil, List.sum_cons, List.sum_nil] at hC ⊢
    omega
  setWT := by
    intro s R op tr w ⟨hS, hC⟩ hop
    refine ⟨Struct_closed.setWT s R op tr w hS hop, ?_⟩
    unfold Count at hC ⊢
    simp only [hop, List.length_singleton] at hC ⊢
    exact hC
  reserve := by
    intro s k o ⟨hS, hC⟩ hk
    refine ⟨Struct_closed.reserve s k o hS hk, ?_⟩
    have hlt : k < s.opens.length := by
      cases hl : decide (k < s.opens.length) with
      | true => exact of_decide_eq_true hl
      | false =>
        have : ¬ k < s.opens.length := of_decide_eq_false hl
        rw [List.getElem?_eq_none (by omega)] at hk; cases hk
    unfold Count at hC ⊢
    simp only [length_eraseIdx_of_lt _ _ hlt, List.length_singleton, List.length_nil] at hC ⊢
    omega
  release := by
    intro s o ⟨hS, hC⟩
    refine ⟨Struct_closed.release s o hS, ?_⟩
    unfold Count at hC ⊢
    simp only [List.length_append, List.length_singleton, List.length_nil] at hC ⊢
    omega

/-- **C06 (accounting)**: descriptors are either used by a bond (two per bond) or still open -/
theorem C06_open_accounting {fuel : Nat} (es : List Element) {ω ω' : Oracle} {tr : Trace} {m : Mol}
    (h : genMol fuel es ω = .ok (some m, tr, ω')) : 2 * m.bonds.length + m.opens.length = descCount m.insts := by
  have := (genMol_pres Full_closed es h).2
  simpa [Count] using this

/-- all descriptors of all residue instances, as (instance, position in token) -/
def allOrigins (insts : List Inst) : List (Nat × Nat) :=
  (withIdx insts).flatMap fun (i, inst) => (List.range inst.tok.bds.length).map fun k => (i, k)

theorem allOrigins_length (insts : List Inst) : (allOrigins insts).length = descCount insts := by
  unfold allOrigins descCount withIdx
  simp only [List.length_flatMap, List.map_map]
  congr 1
  apply List.ext_getElem
  · simp
  · intro n h1 h2
    simp

theorem mem_allOrigins {insts : List Inst} {i k : Nat} {inst : Inst} (hi : insts[i]? = some inst) (hk : k < inst.tok.bds.length) :
    (i, k) ∈ allOrigins insts := by
  unfold allOrigins
  rw [List.mem_flatMap]
  refine ⟨(i, inst), ?_, ?_⟩
  · have := withIdx_getElem? insts i
    rw [hi] at this
    exact List.mem_of_getElem? this
  · simp only [List.mem_map, List.mem_range]
    exact ⟨k, hk, rfl⟩

theorem lt_of_getElem?_some {α} {l : List α} {i : Nat} {a : α} (h : l[i]? = some a) : i < l.length := by
  cases hl : decide (i < l.length) with
  | true => exact of_decide_eq_true hl
  | false =>
    have : ¬ i < l.length := of_decide_eq_false hl
    rw [List.getElem?_eq_none (by omega)] at h; cases h

/-- **C06 (fully generated ⇒ every descriptor formed exactly one bond)** -/
theorem C06_every_descriptor_once {fuel : Nat} (es : List Element) {ω ω' : Oracle} {tr : Trace} {m : Mol}
    (h : genMol fuel es ω = .ok (some m, tr, ω')) (hfull : m.opens = []) :
    (m.bonds.flatMap IBond.origins).Perm (allOrigins m.insts) := by
  obtain ⟨⟨hI, -, -⟩, hC⟩ := genMol_pres Full_closed es h
  have hnd : (m.bonds.flatMap IBond.origins).Nodup := by
    have := hI.nodup
    simp only [hfull, List.append_nil, List.map_nil] at this
    exact this
  have hsub : m.bonds.flatMap IBond.origins ⊆ allOrigins m.insts := by
    intro x hx
    rw [List.mem_flatMap] at hx
    obtain ⟨b, hb, hxb⟩ := hx
    obtain ⟨ia, ib, da, db, h1, h2, h3, h4, -⟩ := hI.bonds b hb
    simp only [IBond.origins, List.mem_cons, List.mem_nil_iff, or_false] at hxb
    rcases hxb with rfl | rfl
    · exact mem_allOrigins h1 (lt_of_getElem?_some h3)
    · exact mem_allOrigins h2 (lt_of_getElem?_some h4)
  have hlen : (allOrigins m.insts).length ≤ (m.bonds.flatMap IBond.origins).length := by
    rw [allOrigins_length]
    have hc : 2 * m.bonds.length = descCount m.insts := by
      simpa [Count, hfull] using hC
    have : (m.bonds.flatMap IBond.origins).length = 2 * m.bonds.length := by
      induction m.bonds with
      | nil => rfl
      | cons b bs ih => simp only [List.flatMap_cons, List.length_append, ih, IBond.origins, List.length_cons, List.length_nil]; omega
    omega
  exact (List.subperm_of_subset hnd hsub).perm_of_length_le hlen

end GBS
