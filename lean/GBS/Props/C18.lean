import GBS.Model.AtomGen
import GBS.Lemmas.AtomGenInv
import GBS.Props.C17
/-!
# C18 — atom-graph generation (`graph_generate.py`)

The state machine `atomGenerate` is compared with `AtomGraph.generate()` on recorded random histories (node list with
`stochastic_node`, edge list with `bond_type`, the per-element mass list, every `rng.choice` call).  Proved here:

* `C18_deterministic`: the result is a function of the stochastic atom graph and the oracle — equal seeds give equal
  molecules, given a deterministic generator;
* `C18_available_edges`: the edge lists a generated atom carries (from which every later stochastic / termination / transition
  bond of that atom is picked) contain only edges of the stochastic atom graph that leave its stochastic node and are of the
  respective kind; an atom created as the *target* of such a bond carries none (it cannot react again: no ring, no double use);
* `C18_pick_in_range`: a pick outside the option list is rejected (`badOracle`), never defaulted.
* `C18_bonds_follow_graph` (invariant by induction over all three nested loops, for every oracle and fuel): every bond of a
  generated molecule joins two generated atoms and carries either the bond type of the static edge between their stochastic
  nodes (a bond inside a residue, copied by `_fill_static_edges`) or the bond type of a non-static edge of the stochastic atom
  graph between their stochastic nodes (a bond between residues); `C18_edge_lists` : every edge list an atom of the result still
  carries consists of graph edges leaving its stochastic node.  Side condition `fillClosed g` (the depth-first search of a residue
  is closed under static adjacency, i.e. its fuel suffices): executable, evaluated by the driver for every graph of the
  correspondence run and required to be `true` there.
* `C18_bonds_join_compatible_descriptors` (C18 ∘ C17): for the stochastic atom graph of a description, every bond of a generated
  molecule is the copy of a token's internal bond or joins the copies of the attachment atoms of two **compatible bond descriptors**
  with the bond order the descriptor prescribes (every non-static graph edge comes from `_add_stochastic_bonds` /
  `_add_transition_bonds`: `SAG_nonstatic_edge`).
`C18_partial`: that residues are *whole*, the tree shape and termination (bounded number of oracle events) are **not** theorems here; the
oracle checks them on every generated graph (whole residues along consecutive node ids, every inter-residue bond along a
non-static graph edge of the same order, tree, `to_mol()` sanitises and is connected, equal seeds ⇒ equal graphs).
-/
namespace GBS

theorem C18_deterministic (g g' : SAG) (fuel : Nat) (ω ω' : Oracle) (h1 : g = g') (h2 : ω = ω') :
    atomGenerate g fuel ω = atomGenerate g' fuel ω' := by rw [h1, h2]

theorem mem_outEdges (g : SAG) (n : Nat) (e : AEdge) (h : e ∈ outEdges g n) : e ∈ g.edges ∧ e.src = n := by
  unfold outEdges at h
  simp only [List.mem_flatMap, List.mem_filter] at h
  obtain ⟨d, -, ⟨he, hs⟩, -⟩ := h
  exact ⟨he, by simpa using hs⟩

/-- **C18 (available edges)** -/
theorem C18_available_edges (g : SAG) (s : AG) (node : Nat) (tr te st : Bool) :
    let r := addNode g s node tr te st
    r.2 = s.nodes.length ∧ r.1.nodes.length = s.nodes.length + 1 ∧
    ∀ gn, r.1.nodes[s.nodes.length]? = some gn →
      gn.stoch = node ∧
      (∀ e ∈ gn.stochE, st = true ∧ e ∈ g.edges ∧ e.src = node ∧ e.stochastic ≠ 0) ∧
      (∀ e ∈ gn.termE, te = true ∧ e ∈ g.edges ∧ e.src = node ∧ e.termination ≠ 0) ∧
      (∀ e ∈ gn.transE, tr = true ∧ e ∈ g.edges ∧ e.src = node ∧ e.transition ≠ 0) := by
  simp only [addNode]
  refine ⟨trivial, by simp, ?_⟩
  intro gn hgn
  simp only [List.getElem?_append_right (Nat.le_refl _), Nat.sub_self, List.getElem?_cons_zero, Option.some.injEq] at hgn
  subst hgn
  refine ⟨rfl, ?_, ?_, ?_⟩
  · intro e he
    by_cases hst : st = true
    · simp only [hst, if_true, List.mem_filter] at he
      obtain ⟨h1, h2⟩ := mem_outEdges g node e he.1
      exact ⟨hst, h1, h2, by simpa using he.2⟩
    · simp [hst] at he
  · intro e he
    by_cases hte : te = true
    · simp only [hte, if_true, List.mem_filter] at he
      obtain ⟨h1, h2⟩ := mem_outEdges g node e he.1
      exact ⟨hte, h1, h2, by simpa using he.2⟩
    · simp [hte] at he
  · intro e he
    by_cases htr : tr = true
    · simp only [htr, if_true, List.mem_filter] at he
      obtain ⟨h1, h2⟩ := mem_outEdges g node e he.1
      exact ⟨htr, h1, h2, by simpa using he.2⟩
    · simp [htr] at he

/-- **C18 (no default)**: an index outside the option list is an error -/
theorem C18_pick_in_range (ws : List Rat) (v : Nat) (ω : Oracle) (h : ¬ v < ws.length) :
    pickIdx ws (.pick v :: ω) = .error .badOracle := by
  simp [pickIdx, h]

/-- **C18 (bonds follow the graph)** -/
theorem C18_bonds_follow_graph (g : SAG) (hcl : fillClosed g = true) (fuel : Nat) (ω : Oracle) (r : AG) (t : Trace) (ω' : Oracle)
    (h : atomGenerate g fuel ω = .ok (r, t, ω')) (a b bond : Nat) (he : (a, b, bond) ∈ r.edges) :
    ∃ u v, (r.nodes.map (·.stoch))[a]? = some u ∧ (r.nodes.map (·.stoch))[b]? = some v ∧
      (bond = staticBond g u v ∨
       (∃ ge ∈ g.edges, ((ge.src = u ∧ ge.dst = v) ∨ (ge.src = v ∧ ge.dst = u)) ∧ ge.bond = bond ∧
          (ge.stochastic ≠ 0 ∨ ge.termination ≠ 0 ∨ ge.transition ≠ 0))) := by
  have hi := atomGenerate_inv g (fillClosed_all g hcl) fuel ω r t ω' h
  obtain ⟨u, v, h1, h2, h3⟩ := hi.edges _ he
  refine ⟨u, v, h1, h2, ?_⟩
  rcases h3 with h3 | ⟨ge, hg, hs, hd, hb, hk⟩ | ⟨ge, hg, hs, hd, hb, hk⟩
  · exact Or.inl h3
  · exact Or.inr ⟨ge, hg, Or.inl ⟨hs, hd⟩, hb, hk⟩
  · exact Or.inr ⟨ge, hg, Or.inr ⟨hs, hd⟩, hb, hk⟩

/-- **C18 (edge lists)**: what an atom of the result may still react along are graph edges leaving its stochastic node -/
theorem C18_edge_lists (g : SAG) (hcl : fillClosed g = true) (fuel : Nat) (ω : Oracle) (r : AG) (t : Trace) (ω' : Oracle)
    (h : atomGenerate g fuel ω = .ok (r, t, ω')) (n : GNode) (hn : n ∈ r.nodes) (e : AEdge) (he : e ∈ n.stochE ++ n.termE ++ n.transE) :
    e ∈ g.edges ∧ e.src = n.stoch := by
  have hi := atomGenerate_inv g (fillClosed_all g hcl) fuel ω r t ω' h
  obtain ⟨h1, h2, h3⟩ := hi.nodes n hn
  simp only [List.mem_append] at he
  rcases he with (he | he) | he
  · exact ⟨(h1 e he).1, (h1 e he).2.1⟩
  · exact ⟨(h2 e he).1, (h2 e he).2.1⟩
  · exact ⟨(h3 e he).1, (h3 e he).2.1⟩

theorem tokenStatic_static (off : Nat) (t : AToken) (e : AEdge) (h : e ∈ tokenStatic off t) :
    e.stochastic = 0 ∧ e.termination = 0 ∧ e.transition = 0 := by
  rw [C17_token_static] at h
  obtain ⟨i, j, b, -, he | he⟩ := h <;> subst he <;> exact ⟨rfl, rfl, rfl⟩

/-- every non-static edge of the stochastic atom graph of a molecule comes from `_add_stochastic_bonds` of one element or from
`_add_transition_bonds` of two consecutive elements -/
theorem SAG_nonstatic_edge (els : List AElem) (wd : Bool) (ge : AEdge) (hge : ge ∈ (stochAtomGraph els wd).edges)
    (hk : ge.stochastic ≠ 0 ∨ ge.termination ≠ 0 ∨ ge.transition ≠ 0) :
    (∃ e off, ge ∈ stochasticEdges (elemDescsA off e)) ∨ (∃ l r ol orr, ge ∈ transitionEdges l r ol orr) := by
  unfold stochAtomGraph at hge
  simp only [List.mem_append, List.mem_flatten, List.mem_map, List.mem_flatMap] at hge
  rcases hge with ⟨es, ⟨p, ⟨⟨e, off⟩, -, rfl⟩, rfl⟩, hm⟩ | ⟨⟨⟨l, ol⟩, ⟨r, orr⟩⟩, -, hm⟩
  · left
    unfold elemNodesEdges at hm
    cases e with
    | tok t =>
      simp only at hm
      obtain ⟨h1, h2, h3⟩ := tokenStatic_static off t ge hm
      rcases hk with hk | hk | hk
      · exact absurd h1 hk
      · exact absurd h2 hk
      · exact absurd h3 hk
    | stoch lft rgt reps ends mn mw =>
      simp only [List.mem_append, List.mem_flatten, List.mem_map] at hm
      rcases hm with ⟨l', ⟨⟨t, o⟩, -, rfl⟩, hm⟩ | hm
      · obtain ⟨h1, h2, h3⟩ := tokenStatic_static o t ge hm
        rcases hk with hk | hk | hk
        · exact absurd h1 hk
        · exact absurd h2 hk
        · exact absurd h3 hk
      · exact ⟨_, _, hm⟩
  · right
    exact ⟨l, r, ol, orr, hm⟩

/-- **C18 ∘ C17**: every bond of a molecule generated from the stochastic atom graph of a description is either the copy of a token's
internal bond, or joins the copies of the attachment atoms of two *compatible bond descriptors* of the description, with the
bond order the descriptor prescribes -/
theorem C18_bonds_join_compatible_descriptors (els : List AElem) (wd : Bool) (hcl : fillClosed (stochAtomGraph els wd) = true)
    (fuel : Nat) (ω : Oracle) (r : AG) (t : Trace) (ω' : Oracle)
    (h : atomGenerate (stochAtomGraph els wd) fuel ω = .ok (r, t, ω')) (a b bond : Nat) (he : (a, b, bond) ∈ r.edges) :
    ∃ u v, (r.nodes.map (·.stoch))[a]? = some u ∧ (r.nodes.map (·.stoch))[b]? = some v ∧
      (bond = staticBond (stochAtomGraph els wd) u v ∨
       ∃ (x y : ADesc), isCompatible x.d y.d = true ∧ bond = bondNat x.d.order ∧
         ((u = x.off + x.d.atom ∧ v = y.off + y.d.atom) ∨ (v = x.off + x.d.atom ∧ u = y.off + y.d.atom))) := by
  obtain ⟨u, v, h1, h2, h3⟩ := C18_bonds_follow_graph _ hcl fuel ω r t ω' h a b bond he
  refine ⟨u, v, h1, h2, ?_⟩
  rcases h3 with h3 | ⟨ge, hg, hends, hb, hk⟩
  · exact Or.inl h3
  · right
    rcases SAG_nonstatic_edge els wd ge hg hk with ⟨e, off, hm⟩ | ⟨l, rr, ol, orr, hm⟩
    · obtain ⟨g, -, o, -, -, hc, hs, hd, hbo, -⟩ := C17_stochastic_edges _ ge hm
      refine ⟨g, o, hc, by rw [← hb, hbo], ?_⟩
      rcases hends with ⟨e1, e2⟩ | ⟨e1, e2⟩
      · left; exact ⟨by rw [← e1, hs], by rw [← e2, hd]⟩
      · right; exact ⟨by rw [← e1, hs], by rw [← e2, hd]⟩
    · obtain ⟨x, -, y, -, -, -, hc, -, -, hs, hd, hbo, -⟩ := C17_transition_edges l rr ol orr ge hm
      refine ⟨x, y, hc, by rw [← hb, hbo], ?_⟩
      rcases hends with ⟨e1, e2⟩ | ⟨e1, e2⟩
      · left; exact ⟨by rw [← e1, hs], by rw [← e2, hd]⟩
      · right; exact ⟨by rw [← e1, hs], by rw [← e2, hd]⟩


/-! non-vacuity: a concrete graph (`C{[>][<]CC[>];[<]C[]}`-like: prefix atom, two-atom repeat unit, one-atom end group) meets the side
condition, and a concrete oracle generates a molecule whose bonds are the transition bond and the unit's static bond -/
namespace C18Example
def cAtom : AAtom := { z := 6, charge := 0, arom := false }
def dL : Desc := { sym := .lt, id := none, order := .single, weight := 1, trans := none, atom := 0 }
def dR : Desc := { sym := .gt, id := none, order := .single, weight := 1, trans := none, atom := 1 }
def dNone : Desc := { sym := .none, id := none, order := .single, weight := 1, trans := none, atom := 0 }
def tPre : AToken := { atoms := [cAtom], inner := [], mass := 12, bds := [{ dR with atom := 0 }] }
def tRep : AToken := { atoms := [cAtom, cAtom], inner := [(0, 1, 1)], mass := 24, bds := [dL, dR] }
def tEnd : AToken := { atoms := [cAtom], inner := [], mass := 12, bds := [dL] }
def exG : SAG := stochAtomGraph [.tok tPre, .stoch { dR with atom := 0 } dNone [tRep] [tEnd] (some 100) (some 120)] true
def exω : Oracle := [.pick 0, .pick 0, .pick 0, .draw 20, .pick 0]

example : fillClosed exG = true := by decide +kernel
example : (atomGenerate exG 30 exω).toOption.map (fun r => (r.1.edges, r.1.nodes.map (·.stoch), r.2.2)) =
    some ([(0, 1, 1), (1, 2, 1)], [0, 1, 2], []) := by decide +kernel
end C18Example

end GBS
