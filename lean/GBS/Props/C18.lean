import GBS.Model.AtomGen
/-!
# C18 — atom-graph generation (`graph_generate.py`)

The state machine `atomGenerate` is compared with `AtomGraph.generate()` on recorded random histories (node list with
`stochastic_node`, edge list with `bond_type`, the per-element mass list, every `rng.choice` call).  Proved here:

* `C18_deterministic`: the result is a function of the stochastic atom graph and the oracle — equal seeds give equal
  molecules, given a deterministic generator;
* `C18_available_edges`: the edge lists a generated atom carries (from which every later stochastic / termination / transition
  bond of that atom is picked) contain only edges of the stochastic atom graph that leave its stochastic node and are of the
  respective kind; an atom created as the *target* of such a bond carries none (it cannot react again: no ring, no double use);
* `C18_pick_in_range`: a pick outside the option list is rejected (`badOracle`), never defaulted.
`C18_partial`: whole residues, the tree shape and termination (bounded number of oracle events) are **not** theorems here; the
oracle checks them on every generated graph (whole residues along consecutive node ids, every inter-residue bond along a
non-static graph edge of the same order, tree, `to_mol()` sanitises and is connected, equal seeds ⇒ equal graphs).
-/
namespace GBS

theorem C18_deterministic (g g' : SAG) (fuel : Nat) (ω ω' : Oracle) (h1 : g = g') (h2 : ω = ω') :
    atomGenerate g fuel ω = atomGenerate g' fuel ω' := by rw [h1, h2]

theorem mem_outEdges (g : SAG) (n : Nat) (e : AEdge) (h : e ∈ outEdges g n) : e ∈ g.edges ∧ e.src = n := by
  unfold outEdges at h
  simp only [List.mem_flatMap, List.mem_filter] at h
  obtain ⟨d, -, ⟨he, hs⟩, -⟩ := h
  exact ⟨he, by simpa using hs⟩

/-- **C18 (available edges)** -/
theorem C18_available_edges (g : SAG) (s : AG) (node : Nat) (tr te st : Bool) :
    let r := addNode g s node tr te st
    r.2 = s.nodes.length ∧ r.1.nodes.length = s.nodes.length + 1 ∧
    ∀ gn, r.1.nodes[s.nodes.length]? = some gn →
      gn.stoch = node ∧
      (∀ e ∈ gn.stochE, st = true ∧ e ∈ g.edges ∧ e.src = node ∧ e.stochastic ≠ 0) ∧
      (∀ e ∈ gn.termE, te = true ∧ e ∈ g.edges ∧ e.src = node ∧ e.termination ≠ 0) ∧
      (∀ e ∈ gn.transE, tr = true ∧ e ∈ g.edges ∧ e.src = node ∧ e.transition ≠ 0) := by
  simp only [addNode]
  refine ⟨trivial, by simp, ?_⟩
  intro gn hgn
  simp only [List.getElem?_append_right (Nat.le_refl _), Nat.sub_self, List.getElem?_cons_zero, Option.some.injEq] at hgn
  subst hgn
  refine ⟨rfl, ?_, ?_, ?_⟩
  · intro e he
    by_cases hst : st = true
    · simp only [hst, if_true, List.mem_filter] at he
      obtain ⟨h1, h2⟩ := mem_outEdges g node e he.1
      exact ⟨hst, h1, h2, by simpa using he.2⟩
    · simp [hst] at he
  · intro e he
    by_cases hte : te = true
    · simp only [hte, if_true, List.mem_filter] at he
      obtain ⟨h1, h2⟩ := mem_outEdges g node e he.1
      exact ⟨hte, h1, h2, by simpa using he.2⟩
    · simp [hte] at he
  · intro e he
    by_cases htr : tr = true
    · simp only [htr, if_true, List.mem_filter] at he
      obtain ⟨h1, h2⟩ := mem_outEdges g node e he.1
      exact ⟨htr, h1, h2, by simpa using he.2⟩
    · simp [htr] at he

/-- **C18 (no default)**: an index outside the option list is an error -/
theorem C18_pick_in_range (ws : List Rat) (v : Nat) (ω : Oracle) (h : ¬ v < ws.length) :
    pickIdx ws (.pick v :: ω) = .error .badOracle := by
  simp [pickIdx, h]

end GBS
