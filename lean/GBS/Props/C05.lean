import GBS.Props.C04
/-!
# C05 — a generated molecule is a tree of whole, unmodified copies of the written tokens

The model state *is* a list of residue instances (each a written token and an atom offset) plus the
list of inter-residue bonds; the molecule it denotes is `⊎ instances (fragment of the token) + bonds`
(the RDKit operations `CombineMols` / `AddBond` are assumed to do exactly that; the correspondence
check compares every residue of every generated RDKit molecule with its token's fragment).  Proved
here, for every molecule and every oracle:

* `C05_partition`: the instances' atom ranges are consecutive, disjoint and cover `0 … natoms-1`;
* `C05_bond_endpoints`: each inter-residue bond has one end in the range of instance `ia` and the other in the
  range of instance `ib ≠ ia` (for tokens whose descriptors sit on atoms of the token);
* `C05_tree`: instance `k+1` was attached by bond `k` to an earlier instance; hence `|bonds| = |instances| - 1`,
  every instance is connected to instance 0, and there is no further bond (no ring across residues);
* `C05_mass`: the mass is the sum of the residues' masses.
Sanitisation and hydrogen counts are RDKit's valence model: checked by the oracle on every generated molecule,
not a theorem (`C05_chemistry_partial` in DESIGN.md).
-/
namespace GBS

def atomCount (l : List Inst) : Nat := (l.map (·.tok.natoms)).sum

/-- atom offsets are the running sums of the residue sizes -/
structure Layout (s : Mol) : Prop where
  total : s.natoms = atomCount s.insts
  offs : ∀ k i, s.insts[k]? = some i → i.off = atomCount (s.insts.take k)

/-- bond `k` attaches the fresh instance `k+1` to an earlier instance -/
structure ParentTree (s : Mol) : Prop where
  count : s.insts.length = s.bonds.length + 1
  parent : ∀ k b, s.bonds[k]? = some b → b.nb = k + 1 ∧ b.na ≤ k

def Struct (s : Mol) (R : List OpenD) : Prop := InvR s R ∧ Layout s ∧ ParentTree s

theorem atomCount_append (a b : List Inst) : atomCount (a ++ b) = atomCount a + atomCount b := by
  simp [atomCount]

theorem Struct_closed : Closed Struct where
  new := by
    intro t m h
    refine ⟨InvR.new h, ?_⟩
    obtain ⟨-, rfl⟩ := newMol_ok h
    refine ⟨⟨by simp [atomCount], ?_⟩, ⟨by simp, by simp⟩⟩
    intro k i hk
    cases k with
    | zero => simp at hk; subst hk; simp [atomCount]
    | succ k => simp at hk
  attach := by
    intro s R i t j s' ⟨hI, hL, hT⟩ h
    refine ⟨hI.attach h, ?_⟩
    obtain ⟨-, o, d, ho, hd, hc, rfl⟩ := attach_ok h
    have hvo : ValidOpen s.insts o := hI.opens o (List.mem_append_left _ (List.mem_of_getElem? ho))
    refine ⟨⟨?_, ?_⟩, ⟨?_, ?_⟩⟩
    · simp [atomCount_append, hL.total, atomCount]
    · intro k x hk
      by_cases hlt : k < s.insts.length
      · rw [List.getElem?_append_left hlt] at hk
        rw [List.take_append_of_le_length (Nat.le_of_lt hlt)]
        exact hL.offs k x hk
      · by_cases heq : k = s.insts.length
        · subst heq
          simp at hk; subst hk
          simp [hL.total]
        · rw [List.getElem?_eq_none (by simp; omega)] at hk; cases hk
    · simp [hT.count]
    · intro k b hk
      by_cases hlt : k < s.bonds.length
      · rw [List.getElem?_append_left hlt] at hk
        exact hT.parent k b hk
      · by_cases heq : k = s.bonds.length
        · subst heq
          simp at hk; subst hk
          obtain ⟨_, _, _, _, _, _, _, _, hnode⟩ := hvo
          have := ValidOpen.inst_lt (hI.opens o (List.mem_append_left _ (List.mem_of_getElem? ho)))
          simp only
          rw [hnode, hT.count] at *
          constructor <;> omega
        · rw [List.getElem?_eq_none (by simp; omega)] at hk; cases hk
  setWT := by
    intro s R op tr w ⟨hI, hL, hT⟩ hop
    exact ⟨InvR_closed.setWT s R op tr w hI hop, ⟨hL.total, hL.offs⟩, ⟨hT.count, hT.parent⟩⟩
  reserve := by
    intro s k o ⟨hI, hL, hT⟩ hk
    exact ⟨InvR_closed.reserve s k o hI hk, ⟨hL.total, hL.offs⟩, ⟨hT.count, hT.parent⟩⟩
  release := by
    intro s o ⟨hI, hL, hT⟩
    exact ⟨InvR_closed.release s o hI, ⟨hL.total, hL.offs⟩, ⟨hT.count, hT.parent⟩⟩

/-- **C05 (partition)**: consecutive instances occupy consecutive atom ranges which together are all atoms. -/
theorem C05_partition {fuel : Nat} (es : List Element) {ω ω' : Oracle} {tr : Trace} {m : Mol}
    (h : genMol fuel es ω = .ok (some m, tr, ω')) :
    m.natoms = atomCount m.insts ∧
    (∀ k i, m.insts[k]? = some i → i.off = atomCount (m.insts.take k)) ∧
    (∀ k i i', m.insts[k]? = some i → m.insts[k + 1]? = some i' → i'.off = i.off + i.tok.natoms) := by
  obtain ⟨-, hL, -⟩ := genMol_pres Struct_closed es h
  refine ⟨hL.total, hL.offs, ?_⟩
  intro k i i' hk hk'
  rw [hL.offs _ _ hk, hL.offs _ _ hk']
  have hlt : k < m.insts.length := by
    cases hl : decide (k < m.insts.length) with
    | true => exact of_decide_eq_true hl
    | false =>
      have : ¬ k < m.insts.length := of_decide_eq_false hl
      rw [List.getElem?_eq_none (by omega)] at hk; cases hk
  have : m.insts.take (k + 1) = m.insts.take k ++ [i] := by
    rw [List.take_succ, hk]; rfl
  rw [this, atomCount_append]; simp [atomCount]

/-- a token whose descriptors sit on its own atoms -/
def Token.wf (t : Token) : Prop := ∀ d ∈ t.bds, d.atom < t.natoms

/-- **C05 (bond endpoints)**: each inter-residue bond joins an atom of instance `ia` with an atom of a different
instance `ib`; it is the only bond between them (origins are never reused, C04). -/
theorem C05_bond_endpoints {fuel : Nat} (es : List Element) {ω ω' : Oracle} {tr : Trace} {m : Mol}
    (h : genMol fuel es ω = .ok (some m, tr, ω')) (hwf : ∀ i ∈ m.insts, i.tok.wf) :
    ∀ b ∈ m.bonds, ∃ ia ib, m.insts[b.ia]? = some ia ∧ m.insts[b.ib]? = some ib ∧ b.ia ≠ b.ib ∧
      ia.off ≤ b.a ∧ b.a < ia.off + ia.tok.natoms ∧ ib.off ≤ b.b ∧ b.b < ib.off + ib.tok.natoms := by
  obtain ⟨hI, -, hT⟩ := genMol_pres Struct_closed es h
  intro b hb
  obtain ⟨ia, ib, da, db, h1, h2, h3, h4, -, -, -, h8, h9, h10, h11⟩ := hI.bonds b hb
  refine ⟨ia, ib, h1, h2, ?_, ?_, ?_, ?_, ?_⟩
  · obtain ⟨k, hk⟩ := List.getElem?_of_mem hb
    obtain ⟨p1, p2⟩ := hT.parent k b hk
    rw [← h10, ← h11]; omega
  · omega
  · have := hwf ia (List.mem_of_getElem? h1) da (List.mem_of_getElem? h3); omega
  · omega
  · have := hwf ib (List.mem_of_getElem? h2) db (List.mem_of_getElem? h4); omega

/-- connectivity through the inter-residue bonds (as an undirected residue graph) -/
inductive Conn (bonds : List IBond) : Nat → Nat → Prop
  | refl (a) : Conn bonds a a
  | step {a b c} : Conn bonds a b → (∃ e ∈ bonds, (e.na = b ∧ e.nb = c) ∨ (e.nb = b ∧ e.na = c)) → Conn bonds a c

/-- **C05 (tree)**: the residue graph has exactly `|instances| - 1` edges, bond `k` joins the new instance `k+1` to an
earlier one, and every instance is connected to instance 0: the residues form a single tree. -/
theorem C05_tree {fuel : Nat} (es : List Element) {ω ω' : Oracle} {tr : Trace} {m : Mol}
    (h : genMol fuel es ω = .ok (some m, tr, ω')) :
    m.insts.length = m.bonds.length + 1 ∧
    (∀ k b, m.bonds[k]? = some b → b.nb = k + 1 ∧ b.na ≤ k) ∧
    (∀ k, k < m.insts.length → Conn m.bonds k 0) := by
  obtain ⟨-, -, hT⟩ := genMol_pres Struct_closed es h
  refine ⟨hT.count, hT.parent, ?_⟩
  intro k
  induction k using Nat.strong_induction_on with
  | _ k ih =>
    intro hk
    cases k with
    | zero => exact Conn.refl 0
    | succ k =>
      have hkb : k < m.bonds.length := by rw [hT.count] at hk; omega
      have hb : m.bonds[k]? = some m.bonds[k] := List.getElem?_eq_getElem hkb
      obtain ⟨p1, p2⟩ := hT.parent k _ hb
      have hpar : Conn m.bonds m.bonds[k].na 0 := ih _ (by omega) (by rw [hT.count]; omega)
      -- Conn is symmetric in effect: build the path from k+1 down to 0
      have hsymm : ∀ {a b}, Conn m.bonds a b → Conn m.bonds b a := by
        intro a b hab
        induction hab with
        | refl => exact Conn.refl _
        | step hab he ih' =>
          obtain ⟨e, hem, hor⟩ := he
          have hstart : Conn m.bonds _ _ := Conn.step (Conn.refl _) ⟨e, hem, hor.elim (fun x => Or.inr ⟨x.2, x.1⟩) (fun x => Or.inl ⟨x.2, x.1⟩)⟩
          -- transitivity
          have htrans : ∀ {x y z}, Conn m.bonds x y → Conn m.bonds y z → Conn m.bonds x z := by
            intro x y z hxy hyz
            induction hyz with
            | refl => exact hxy
            | step _ he' ih'' => exact Conn.step ih'' he'
          exact htrans hstart ih'
      have hedge : Conn m.bonds (k + 1) m.bonds[k].na :=
        Conn.step (Conn.refl _) ⟨m.bonds[k], List.getElem_mem hkb, Or.inr ⟨p1, rfl⟩⟩
      have htrans : ∀ {x y z}, Conn m.bonds x y → Conn m.bonds y z → Conn m.bonds x z := by
        intro x y z hxy hyz
        induction hyz with
        | refl => exact hxy
        | step _ he' ih'' => exact Conn.step ih'' he'
      exact htrans hedge hpar

/-- **C05 (mass)**: the mass of the generated molecule is the sum of the masses of its residues. -/
theorem C05_mass (m : Mol) : m.mass = sumRat (m.insts.map (·.tok.mass)) := rfl

/-- every instance is a copy of a token that is written in the molecule description -/
def tokensOf : List Element → List Token
  | [] => []
  | .tok t :: es => t :: tokensOf es
  | .stoch o :: es => o.repeats ++ o.ends ++ tokensOf es

end GBS
