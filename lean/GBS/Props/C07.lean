import GBS.Lemmas.GenClosed
import Mathlib.Tactic.Linarith
import Mathlib.Tactic.Ring
/-!
# C07 — a stochastic object stops growing at the first unit that exceeds its drawn mass

About `growLoop` (the `while True` loop of `generate_repeat_units_and_finalize`), for every start state,
target `T`, fuel and oracle.
-/
namespace GBS

/-- consecutive states, each obtained from the previous one by one `add_repeat_unit` (for some stretch of oracle) -/
inductive UnitChain (o : Stoch) : Mol → List Mol → Prop
  | nil (s) : UnitChain o s []
  | cons {s s1 rest} (ω : Oracle) (t : Trace) (ω' : Oracle) :
      addUnit o s ω = .ok (s1, t, ω') → UnitChain o s1 rest → UnitChain o s (s1 :: rest)

/-- one `add_repeat_unit` appends exactly one residue instance (a repeat unit, or an end group reached through a
transition list), so the mass grows by exactly that token's mass -/
theorem addUnit_one_instance {o : Stoch} {s s1 : Mol} {ω ω' : Oracle} {t : Trace}
    (h : addUnit o s ω = .ok (s1, t, ω')) :
    ∃ tok, (∃ c k d, o.entry c = some (tok, k, d)) ∧ s1.insts = s.insts ++ [⟨tok, s.natoms⟩] ∧
      s1.mass = s.mass + tok.mass := by
  unfold addUnit at h
  split at h
  · cases h
  · split at h
    · cases h
    · split at h
      · rename_i tok k d hent
        split at h
        · cases h
        · rename_i ha
          ok_inj h; obtain ⟨rfl, -, -⟩ := h
          obtain ⟨-, o', d', -, -, -, rfl⟩ := attach_ok ha
          refine ⟨tok, ⟨_, _, _, hent⟩, rfl, ?_⟩
          simp [Mol.mass, sumRat_append, sumRat_singleton]
      · cases h

/-- **C07 (stop rule)**: the loop returns after `k ≥ 1` units; after each of the first `k-1` units there was still an
open descriptor and the mass added by this object did **not** exceed the target; after unit `k` either no open
descriptor is left (the state is returned as it is) or the added mass exceeds the target, and the result is the
*finalised copy* of that state — the capping end groups never enter the comparison, and the mass before this object
(`start`) is subtracted. -/
theorem C07_stop_rule (o : Stoch) (start T : Rat) (f n : Nat) (s : Mol) (ω : Oracle) (r : Mol) (tr : Trace) (ω' : Oracle)
    (h : growLoop o start T f n s ω = .ok (r, tr, ω')) :
    ∃ (us : List Mol) (u : Mol),
      UnitChain o s (us ++ [u]) ∧
      (∀ x ∈ us, x.opens ≠ [] ∧ x.mass - start ≤ T) ∧
      ((u.opens = [] ∧ r = u) ∨
       (u.opens ≠ [] ∧ u.mass - start > T ∧ ∃ fu ω1 t2 ω2, finalize o fu u ω1 = .ok (r, t2, ω2))) ∧
      tr.getLast? = some (.units (n + us.length + 1)) := by
  induction f generalizing n s ω r tr ω' with
  | zero => unfold growLoop at h; cases h
  | succ f ih =>
    unfold growLoop at h
    split at h
    · cases h
    · rename_i s1 t1 ω1 h1
      split at h
      · rename_i hemp
        ok_inj h; obtain ⟨rfl, rfl, -⟩ := h
        refine ⟨[], s1, ?_, by simp, Or.inl ⟨by simpa using hemp, rfl⟩, by simp⟩
        exact UnitChain.cons _ _ _ h1 (UnitChain.nil _)
      · rename_i hne
        split at h
        · cases h
        · rename_i fin t2 ω2 h2
          split at h
          · rename_i hgt
            ok_inj h; obtain ⟨rfl, rfl, -⟩ := h
            refine ⟨[], s1, UnitChain.cons _ _ _ h1 (UnitChain.nil _), by simp, Or.inr ⟨by simpa using hne, hgt, _, _, _, _, h2⟩, ?_⟩
            simp [List.getLast?_append]
          · rename_i hle
            split at h
            · cases h
            · rename_i r' t3 ω3 h3
              ok_inj h; obtain ⟨rfl, rfl, -⟩ := h
              obtain ⟨us, u, hch, hall, hend, hlast⟩ := ih (n + 1) s1 _ _ _ _ h3
              refine ⟨s1 :: us, u, UnitChain.cons _ _ _ h1 hch, ?_, hend, ?_⟩
              · intro x hx
                simp only [List.mem_cons] at hx
                rcases hx with rfl | hx
                · exact ⟨by simpa using hne, Rat.not_lt.mp hle⟩
                · exact hall x hx
              · have hne3 : t3 ≠ [] := by
                  intro h0; subst h0; simp at hlast
                have : (t1 ++ t2 ++ [TraceItem.cmp (s1.mass - start) T] ++ t3).getLast? = t3.getLast? := by
                  cases t3 with
                  | nil => exact absurd rfl hne3
                  | cons a l =>
                    rw [List.getLast?_append, List.getLast?_cons]; simp
                rw [this, hlast]
                simp only [List.length_cons]
                congr 2; omega

/-- at least one unit is always added (also for targets ≤ 0, e.g. negative gaussian draws) -/
theorem C07_at_least_one_unit (o : Stoch) (start T : Rat) (f n : Nat) (s : Mol) (ω : Oracle) (r : Mol) (tr : Trace) (ω' : Oracle)
    (h : growLoop o start T f n s ω = .ok (r, tr, ω')) :
    ∃ s1 ω0 t ω1, addUnit o s ω0 = .ok (s1, t, ω1) := by
  obtain ⟨us, u, hch, -⟩ := C07_stop_rule o start T f n s ω r tr ω' h
  cases hch' : us ++ [u] with
  | nil => simp at hch'
  | cons a rest =>
    rw [hch'] at hch
    cases hch with
    | cons ω0 t ω1 h1 _ => exact ⟨a, ω0, t, ω1, h1⟩

def isDrew : TraceItem → Bool
  | .drew _ => true
  | _ => false

theorem capOne_noDrew {o : Stoch} {s s' : Mol} {ω ω' : Oracle} {t : Trace}
    (h : capOne o s ω = .ok (s', t, ω')) : t.countP isDrew = 0 := by
  unfold capOne at h
  split at h
  · cases h
  · split at h
    · cases h
    · split at h
      · split at h
        · cases h
        · ok_inj h; obtain ⟨-, rfl, -⟩ := h; simp [isDrew]
      · cases h

theorem capAll_noDrew {o : Stoch} (f : Nat) {s s' : Mol} {ω ω' : Oracle} {t : Trace}
    (h : capAll o f s ω = .ok (s', t, ω')) : t.countP isDrew = 0 := by
  induction f generalizing s s' ω ω' t with
  | zero =>
    unfold capAll at h
    split at h
    · ok_inj h; obtain ⟨-, rfl, -⟩ := h; simp
    · cases h
  | succ f ih =>
    unfold capAll at h
    split at h
    · ok_inj h; obtain ⟨-, rfl, -⟩ := h; simp
    · split at h
      · cases h
      · rename_i h1
        split at h
        · cases h
        · rename_i h2
          ok_inj h; obtain ⟨-, rfl, -⟩ := h
          simp [List.countP_append, capOne_noDrew h1, ih h2]

theorem finalize_noDrew {o : Stoch} (f : Nat) {s s' : Mol} {ω ω' : Oracle} {t : Trace}
    (h : finalize o f s ω = .ok (s', t, ω')) : t.countP isDrew = 0 := by
  unfold finalize at h
  split at h
  · split at h
    · cases h
    · split at h
      · cases h
      · rename_i h1
        ok_inj h; obtain ⟨-, rfl, -⟩ := h
        simp [List.countP_cons, isDrew, capAll_noDrew f h1]
  · exact capAll_noDrew f h

theorem addUnit_noDrew {o : Stoch} {s s' : Mol} {ω ω' : Oracle} {t : Trace}
    (h : addUnit o s ω = .ok (s', t, ω')) : t.countP isDrew = 0 := by
  unfold addUnit at h
  split at h
  · cases h
  · split at h
    · cases h
    · split at h
      · split at h
        · cases h
        · ok_inj h; obtain ⟨-, rfl, -⟩ := h; simp [isDrew]
      · cases h

theorem growLoop_noDrew {o : Stoch} {start T : Rat} (f : Nat) {n : Nat} {s s' : Mol} {ω ω' : Oracle} {t : Trace}
    (h : growLoop o start T f n s ω = .ok (s', t, ω')) : t.countP isDrew = 0 := by
  induction f generalizing n s s' ω ω' t with
  | zero => unfold growLoop at h; cases h
  | succ f ih =>
    unfold growLoop at h
    split at h
    · cases h
    · rename_i h1
      split at h
      · ok_inj h; obtain ⟨-, rfl, -⟩ := h
        simp [List.countP_append, addUnit_noDrew h1, isDrew]
      · split at h
        · cases h
        · rename_i h2
          split at h
          · ok_inj h; obtain ⟨-, rfl, -⟩ := h
            simp [List.countP_append, addUnit_noDrew h1, finalize_noDrew _ h2, isDrew]
          · split at h
            · cases h
            · rename_i h3
              ok_inj h; obtain ⟨-, rfl, -⟩ := h
              simp [List.countP_append, addUnit_noDrew h1, finalize_noDrew _ h2, ih h3, isDrew]

theorem getStart_noDrew {o : Stoch} {pre : Option Mol} {s' : Mol} {ω ω' : Oracle} {t : Trace}
    (h : getStart o pre ω = .ok (s', t, ω')) : t.countP isDrew = 0 := by
  unfold getStart at h
  split at h
  · split at h
    · cases h
    · split at h
      · cases h
      · split at h
        · split at h
          · cases h
          · split at h
            · cases h
            · ok_inj h; obtain ⟨-, rfl, -⟩ := h; simp [isDrew]
        · cases h
  · split at h
    · split at h
      · cases h
      · ok_inj h; obtain ⟨-, rfl, -⟩ := h; simp
    · cases h

/-- **C07 (one draw)**: generating one stochastic object consumes exactly one draw from its distribution, after the
start has been fixed and before the first unit is added; that value is the target of the whole loop. -/
theorem C07_one_draw (o : Stoch) (fuel : Nat) (pre : Option Mol) (ω : Oracle) (r : Mol) (tr : Trace) (ω' : Oracle)
    (h : genStoch o fuel pre ω = .ok (r, tr, ω')) :
    tr.countP isDrew = 1 ∧
    ∃ s t0 ω0 T ω1 t, getStart o pre ω = .ok (s, t0, ω0) ∧ ω0 = .draw T :: ω1 ∧
      growLoop o s.mass T fuel 0 s ω1 = .ok (r, t, ω') ∧ tr = t0 ++ [.drew T] ++ t := by
  unfold genStoch at h
  split at h
  · cases h
  · split at h
    · cases h
    · split at h
      · cases h
      · rename_i s t0 ω0 hst
        split at h
        · rename_i T ω1
          split at h
          · cases h
          · rename_i r' t ω2 hg
            ok_inj h; obtain ⟨rfl, rfl, rfl⟩ := h
            refine ⟨?_, s, t0, _, T, ω1, t, hst, rfl, hg, rfl⟩
            have hg0 := growLoop_noDrew _ hg
            simp [List.countP_append, List.countP_cons, getStart_noDrew hst, hg0, isDrew]
        · cases h
        · cases h

-- non-vacuity: target 30, unit mass 24: two units (24 ≤ 30 < 48), then the copy is capped
private def uTok (tid : Nat) (bds : List Desc) : Token := { tid := tid, natoms := 2, mass := 24, bds := bds }
private def exS : Stoch :=
  { left := { sym := .none, id := none, order := .unspecified }, right := { sym := .none, id := none, order := .unspecified },
    repeats := [uTok 0 [{ sym := .lt, id := none, order := .single, atom := 0 }, { sym := .gt, id := none, order := .single, atom := 1 }]],
    ends := [uTok 1 [{ sym := .lt, id := none, order := .single, atom := 0 }], uTok 2 [{ sym := .gt, id := none, order := .single, atom := 1 }]],
    hasDist := true }
example : (match genStoch exS 10 none [.pick 0, .draw 30, .pick 0, .pick 1, .pick 0, .pick 1, .pick 0, .pick 1, .pick 0, .pick 1] with
    | .ok (m, tr, []) => m.insts.length == 4 && tr.getLast? == some (.units 2)
    | _ => false) = true := by decide +kernel

/-- along a chain of `add_repeat_unit` steps every state has gained at least `mmin` per step -/
theorem unitChain_mass {o : Stoch} {mmin : Rat} (hm : ∀ c tok k d, o.entry c = some (tok, k, d) → mmin ≤ tok.mass)
    {s : Mol} {l : List Mol} (h : UnitChain o s l) :
    ∀ i (hi : i < l.length), s.mass + ((i + 1 : Nat) : Rat) * mmin ≤ (l[i]'hi).mass := by
  induction h with
  | nil s => intro i hi; simp at hi
  | cons ω t ω' hadd _ ih =>
    rename_i s s1 rest
    obtain ⟨tok, ⟨c, k, d, hent⟩, -, hmass⟩ := addUnit_one_instance hadd
    have htok := hm c tok k d hent
    intro i hi
    cases i with
    | zero => simp only [List.getElem_cons_zero]; push_cast; linarith
    | succ j =>
      simp only [List.getElem_cons_succ]
      have := ih j (by simpa using hi)
      push_cast at this ⊢
      linarith

/-- **C07 (block size bound)**: an object whose reachable tokens weigh at least `mmin > 0` grows by at most `⌊T / mmin⌋ + 1` units:
if the loop returned after `k` units (`k = |us| + 1` in the stop rule) then `(k − 1)·mmin ≤ T` -/
theorem C07_block_size_bound (o : Stoch) (mmin : Rat) (hm : ∀ c tok k d, o.entry c = some (tok, k, d) → mmin ≤ tok.mass)
    (T : Rat) (f n : Nat) (s : Mol) (ω : Oracle) (r : Mol) (tr : Trace) (ω' : Oracle)
    (h : growLoop o s.mass T f n s ω = .ok (r, tr, ω')) :
    ∃ k : Nat, 1 ≤ k ∧ tr.getLast? = some (.units (n + k)) ∧ (2 ≤ k → ((k - 1 : Nat) : Rat) * mmin ≤ T) := by
  obtain ⟨us, u, hch, hall, -, hlast⟩ := C07_stop_rule o s.mass T f n s ω r tr ω' h
  refine ⟨us.length + 1, by omega, by rw [hlast]; congr 2, ?_⟩
  intro hk
  have hpos : 0 < us.length := by omega
  have hi : us.length - 1 < (us ++ [u]).length := by simp; omega
  have hm1 := unitChain_mass hm hch (us.length - 1) hi
  have hget : (us ++ [u])[us.length - 1]'hi = us[us.length - 1]'(by omega) := by
    rw [List.getElem_append_left]
  rw [hget] at hm1
  have hle := (hall _ (List.getElem_mem (by omega : us.length - 1 < us.length))).2
  have hc : us.length - 1 + 1 = us.length + 1 - 1 := by omega
  rw [hc] at hm1
  linarith


end GBS
