import GBS.Model.AtomGraph
/-!
# C17 — the stochastic atom graph

About `stochAtomGraph`, the model of `stochastic_atom_graph.py` (compared node by node and edge by edge with the code).
-/
namespace GBS

/-- **C17 (stochastic / termination edges)**: inside an object every such edge leaves the attachment atom of a *repeat-unit*
descriptor `g`, goes to the attachment atom of a descriptor `o` compatible with it, and has `g`'s bond order; without a
transition list it is a stochastic edge carrying `o`'s (positive) weight when `o` sits on a repeat unit and a termination
edge carrying it when `o` sits on an end group. -/
theorem C17_stochastic_edges (ds : List ADesc) (e : AEdge) (he : e ∈ stochasticEdges ds) :
    ∃ g ∈ ds, ∃ o ∈ ds, g.isRepeat = true ∧ isCompatible g.d o.d = true ∧
      e.src = g.off + g.d.atom ∧ e.dst = o.off + o.d.atom ∧ e.bond = bondNat g.d.order ∧ e.static = 0 ∧ e.transition = 0 ∧
      (g.d.trans = none → 0 < o.d.weight ∧
        ((o.isRepeat = true ∧ e.stochastic = o.d.weight ∧ e.termination = 0) ∨
         (o.isRepeat = false ∧ e.termination = o.d.weight ∧ e.stochastic = 0))) := by
  unfold stochasticEdges at he
  rw [List.mem_flatMap] at he
  obtain ⟨g, hg, he⟩ := he
  rw [List.mem_filter] at hg
  obtain ⟨hgm, hgr⟩ := hg
  cases htr : g.d.trans with
  | some l =>
    simp only [htr] at he
    rw [List.mem_flatMap] at he
    obtain ⟨⟨o, p⟩, hop, he⟩ := he
    rw [List.mem_filter] at hop
    obtain ⟨hz, hcp⟩ := hop
    simp only [Bool.and_eq_true, decide_eq_true_eq] at hcp
    have hom : o ∈ ds := (List.of_mem_zip hz).1
    simp only [List.mem_cons, List.mem_nil_iff, or_false] at he
    rcases he with rfl | rfl
    · exact ⟨g, hgm, o, hom, hgr, hcp.1, rfl, rfl, rfl, rfl, rfl, fun h => by rw [htr] at h; cases h⟩
    · exact ⟨g, hgm, o, hom, hgr, hcp.1, rfl, rfl, rfl, rfl, rfl, fun h => by rw [htr] at h; cases h⟩
  | none =>
    simp only [htr] at he
    rw [List.mem_map] at he
    obtain ⟨o, ho, rfl⟩ := he
    rw [List.mem_filter] at ho
    obtain ⟨hom, hcp⟩ := ho
    simp only [Bool.and_eq_true, decide_eq_true_eq] at hcp
    refine ⟨g, hgm, o, hom, hgr, hcp.1, ?_, ?_, ?_, ?_, ?_, ?_⟩
    all_goals (by_cases hr : o.isRepeat = true <;> simp [hr])
    · intro _; exact hcp.2
    · intro _; exact hcp.2

/-- **C17 (transition edges, no edge leaves an end group)**: a transition edge between consecutive elements joins the
attachment atoms of two compatible descriptors, both on repeat units (or on plain tokens), admitted by the terminal descriptors
between the two elements, with the source's bond order and the target's weight.  After the `fix:` commit the source is never
an end group (on the pinned tree `{[][<]CC[>]; [<]O, [>]N [<]}…{[>][<]CS[>]; [<]F []}…` had the edge `N → C`). -/
theorem C17_transition_edges (lhs rhs : AElem) (offL offR : Nat) (e : AEdge) (he : e ∈ transitionEdges lhs rhs offL offR) :
    ∃ a ∈ elemDescsA offL lhs, ∃ b ∈ elemDescsA offR rhs,
      a.isRepeat = true ∧ b.isRepeat = true ∧ isCompatible a.d b.d = true ∧
      (∀ l, leftA rhs = some l → isCompatible (invertTerminal l) b.d = true) ∧
      (∀ r, rightA lhs = some r → isCompatible (invertTerminal r) a.d = true) ∧
      e.src = a.off + a.d.atom ∧ e.dst = b.off + b.d.atom ∧ e.bond = bondNat a.d.order ∧ e.transition = b.d.weight ∧
      e.static = 0 ∧ e.stochastic = 0 ∧ e.termination = 0 := by
  unfold transitionEdges at he
  rw [List.mem_flatMap] at he
  obtain ⟨a, ha, he⟩ := he
  rw [List.mem_filterMap] at he
  obtain ⟨b, hb, he⟩ := he
  by_cases hc : isCompatible a.d b.d = true
  · simp only [hc, Bool.not_true, Bool.false_eq_true, if_false] at he
    by_cases hok : (admitL rhs b.d && admitR lhs a.d) = true
    · simp only [hok, Bool.not_true, Bool.false_eq_true, if_false] at he
      by_cases hrep : (b.isRepeat && a.isRepeat) = true
      · simp only [hrep, Bool.not_true, Bool.false_eq_true, if_false, Option.some.injEq] at he
        subst he
        simp only [Bool.and_eq_true] at hok hrep
        refine ⟨a, ha, b, hb, hrep.2, hrep.1, hc, ?_, ?_, rfl, rfl, rfl, rfl, rfl, rfl, rfl⟩
        · intro l hl; have := hok.1; simp only [admitL, hl] at this; exact this
        · intro r hr; have := hok.2; simp only [admitR, hr] at this; exact this
      · simp [hrep] at he
    · simp [hok] at he
  · simp [hc] at he

/-- the empty terminal `[]` is read by `_create_compatible_bond_text` as `$` (no symbol found in its text): the model
reproduces this quirk, so `[]` admits `$` descriptors only -/
theorem C17_empty_terminal_reads_as_dollar (r : Desc) (h : r.sym = .none) : (invertTerminal r).sym = .dollar := by
  simp [invertTerminal, h, Sym.toChar?, compatSymbolOfText, symOfChar]

/-- number of nodes = number of atoms of all tokens -/
theorem C17_token_nodes (off : Nat) (t : AToken) (mn mw : Option Rat) :
    (tokenNodes off t mn mw).map (·.id) = (List.range t.atoms.length).map (off + ·) ∧
    (tokenNodes off t mn mw).map (·.atom) = t.atoms := by
  unfold tokenNodes withIdx
  constructor
  · apply List.ext_getElem
    · simp
    · intro i h1 h2; simp
  · apply List.ext_getElem
    · simp
    · intro i h1 h2; simp

/-- static edges reproduce each inner bond of the token, in both directions, with its bond order -/
theorem C17_token_static (off : Nat) (t : AToken) (e : AEdge) :
    e ∈ tokenStatic off t ↔ ∃ i j b, (i, j, b) ∈ t.inner ∧
      (e = { src := off + i, dst := off + j, bond := b, static := 1 } ∨ e = { src := off + j, dst := off + i, bond := b, static := 1 }) := by
  unfold tokenStatic
  rw [List.mem_flatMap]
  constructor
  · rintro ⟨⟨i, j, b⟩, hm, he⟩
    simp only [List.mem_cons, List.mem_nil_iff, or_false] at he
    exact ⟨i, j, b, hm, he⟩
  · rintro ⟨i, j, b, hm, he⟩
    exact ⟨(i, j, b), hm, by simpa using he⟩

/-- **C17 (no stochastic / termination edge is missing)**: without a transition list, every compatible descriptor of positive
weight is reached from every repeat-unit descriptor: by a stochastic edge when it sits on a repeat unit, by a termination edge
when it sits on an end group -/
theorem C17_stochastic_edges_complete (ds : List ADesc) (g o : ADesc) (hg : g ∈ ds) (ho : o ∈ ds) (hrep : g.isRepeat = true)
    (hnone : g.d.trans = none) (hc : isCompatible g.d o.d = true) (hw : 0 < o.d.weight) :
    (if o.isRepeat then ({ src := g.off + g.d.atom, dst := o.off + o.d.atom, bond := bondNat g.d.order, stochastic := o.d.weight } : AEdge)
     else { src := g.off + g.d.atom, dst := o.off + o.d.atom, bond := bondNat g.d.order, termination := o.d.weight }) ∈ stochasticEdges ds := by
  unfold stochasticEdges
  rw [List.mem_flatMap]
  refine ⟨g, List.mem_filter.2 ⟨hg, hrep⟩, ?_⟩
  simp only [hnone]
  rw [List.mem_map]
  exact ⟨o, List.mem_filter.2 ⟨ho, by simp [hc, hw]⟩, rfl⟩

/-- **C17 (no transition edge is missing)**: between consecutive elements, every pair of compatible repeat-unit (or plain token)
descriptors admitted by the terminals in between is joined -/
theorem C17_transition_edges_complete (lhs rhs : AElem) (offL offR : Nat) (a b : ADesc)
    (ha : a ∈ elemDescsA offL lhs) (hb : b ∈ elemDescsA offR rhs) (hc : isCompatible a.d b.d = true)
    (hl : admitL rhs b.d = true) (hr : admitR lhs a.d = true) (hra : a.isRepeat = true) (hrb : b.isRepeat = true) :
    ({ src := a.off + a.d.atom, dst := b.off + b.d.atom, bond := bondNat a.d.order, transition := b.d.weight } : AEdge) ∈
      transitionEdges lhs rhs offL offR := by
  unfold transitionEdges
  rw [List.mem_flatMap]
  refine ⟨a, ha, ?_⟩
  rw [List.mem_filterMap]
  exact ⟨b, hb, by simp [hc, hl, hr, hra, hrb]⟩

theorem tokenNodes_ids (off : Nat) (t : AToken) (mn mw : Option Rat) :
    (tokenNodes off t mn mw).map (·.id) = List.range' off t.atoms.length := by
  rw [(C17_token_nodes off t mn mw).1]
  apply List.ext_getElem
  · simp
  · intro i h1 h2; simp

theorem tokens_ids (toks : List AToken) (off : Nat) (mn mw : Option Rat) :
    (((toks.zip (tokenOffsets off toks)).map fun (t, o) => tokenNodes o t mn mw).flatten).map (·.id) =
      List.range' off ((toks.map (·.atoms.length)).sum) := by
  induction toks generalizing off with
  | nil => simp [tokenOffsets]
  | cons t ts ih =>
    simp only [tokenOffsets, List.zip_cons_cons, List.map_cons, List.flatten_cons, List.map_append, List.sum_cons]
    rw [tokenNodes_ids, ih, ← List.range'_append_1]

theorem elem_ids (off : Nat) (e : AElem) : ((elemNodesEdges off e).1).map (·.id) = List.range' off (elemSize e) := by
  cases e with
  | tok t =>
    simp only [elemNodesEdges, elemSize, elemTokens, List.map_cons, List.map_nil, List.sum_cons, List.sum_nil, Nat.add_zero]
    exact tokenNodes_ids off t _ _
  | stoch l r reps ends mn mw =>
    simp only [elemNodesEdges, elemSize, elemTokens]
    rw [tokens_ids]
    congr 1
    simp [List.map_append, List.map_map, Function.comp_def]

theorem elems_ids (els : List AElem) (off : Nat) :
    ((((els.zip (elemOffsets off els)).map fun (e, o) => elemNodesEdges o e).map (·.1)).flatten).map (·.id) =
      List.range' off ((els.map elemSize).sum) := by
  induction els generalizing off with
  | nil => simp [elemOffsets]
  | cons e es ih =>
    simp only [elemOffsets, List.zip_cons_cons, List.map_cons, List.flatten_cons, List.map_append, List.sum_cons]
    rw [elem_ids, ih, ← List.range'_append_1]

/-- **C17 (one node per atom, globally)**: the nodes of the stochastic atom graph are numbered `0, 1, …, N−1` in written order, `N`
being the number of atoms of all tokens of all elements: exactly one node per atom, no id twice -/
theorem C17_nodes_one_per_atom (els : List AElem) (wd : Bool) :
    (stochAtomGraph els wd).nodes.map (·.id) = List.range ((els.map elemSize).sum) := by
  unfold stochAtomGraph
  simp only
  have h := elems_ids els 0
  rw [List.range_eq_range']
  split
  · exact h
  · rw [List.map_map]
    have : ((fun (n : ANode) => n.id) ∘ fun (n : ANode) => ({ n with mn := none, mw := none } : ANode)) = fun n => n.id := by
      funext n; rfl
    rw [this]; exact h


end GBS
