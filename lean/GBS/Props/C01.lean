import GBS.Lemmas.ReprNat
import GBS.Extracted.Mixture
import GBS.Model.Parse
import GBS.Lemmas.DistRoundTrip
import GBS.Lemmas.RoundTrip
/-!
# C01 — canonical notation round-trips (model-level part)

What is proved here is the *erasure* half at the level of the printers: the extension-free form of a descriptor, token,
stochastic object, mixture and molecule does not depend on any weight, transition list, distribution or mixture mass (it is
a function of the erased structure only), and contains the same tokens / descriptors / terminals in the same order.
At the level of **characters**, for bond descriptors (`GBS/Lemmas/RoundTrip.lean`): `C01_desc_plain_roundtrip` (the text printed
without extensions parses back to the same symbol, id and bond order, weight 1, no list), `C01_desc_weight_roundtrip` (`[sym id |w|]`
parses back to the same descriptor, for every weight whose printed form reads back — `NumTextOK`, decidable),
`C01_desc_list_roundtrip` (`[sym id |w1 … wn|]`, n ≥ 2, weight = sum) and
`C01_desc_empty_roundtrip` (`[]`).  The fixed-point and same-object halves for tokens, objects and molecules (`str ∘ parse` on
characters) are tied to the code by the correspondence check and decided on the implementation by the round-trip oracle
(fallback announced in DESIGN.md 7/C01); the binding and weight laws they rest on are `C02_binding_simulation` and
`C02_weight_law`.
-/
namespace GBS.P
open GBS GBS.Py

/-- forget every extension of a descriptor -/
def PDesc.erase (p : PDesc) : PDesc := { p with d := { p.d with weight := 1, trans := none } }

/-- the extension-free form of a descriptor is `[symbol id]`, whatever its weight or list -/
theorem C01_desc_noext (p : PDesc) : printDesc p false = strip (['['] ++ symStr p.d.sym ++ idStr p.d.id ++ [']']) := by
  simp [printDesc]

theorem C01_desc_noext_erase (p : PDesc) : printDesc p false = printDesc p.erase false := by
  simp [printDesc, PDesc.erase]

/-- a descriptor without extensions prints the same with and without extensions (nothing to erase) -/
theorem C01_desc_erased_fixed (p : PDesc) : printDesc p.erase true = printDesc p false := by
  simp [printDesc, PDesc.erase]

def PToken.erase (t : PToken) : PToken := { t with descs := t.descs.map PDesc.erase }

theorem elText_erase (t : PToken) (e : El) : elText t.erase false e = elText t false e := by
  cases e with
  | atom a => rfl
  | str s => rfl
  | bond k =>
    simp only [elText, PToken.erase, List.getElem?_map]
    cases t.descs[k]? with
    | none => rfl
    | some p => simp [← C01_desc_noext_erase]

/-- the extension-free form of a token depends on the erased token only; atoms, text segments and descriptor positions
are kept as they are -/
theorem C01_token_noext_erase (t : PToken) : printToken t false = printToken t.erase false := by
  unfold printToken
  have : t.erase.els = t.els := rfl
  rw [this]
  congr 2
  apply List.map_congr_left
  intro e _
  exact (elText_erase t e).symm

/-- the extension-free form of a mixture specifier is the bare `.` -/
theorem C01_mix_noext (x : PMix) : printMix x false = ['.'] := rfl

/-- the extension-free form of a stochastic object never mentions its distribution -/
theorem C01_stoch_noext_no_dist (o : PStoch) : printStoch o false = printStoch { o with dist := none } false := by
  unfold printStoch
  cases o.dist <;> simp

/-- the extension-free molecule is the concatenation of its elements' extension-free forms plus `.` for a mixture -/
theorem C01_mol_noext (m : PMol) :
    printMol m false = (m.elems.map (printElem false)).flatten ++ (match m.mix with | some _ => ['.'] | none => []) := by
  unfold printMol
  cases m.mix <;> rfl


/-- **C01 (descriptor, plain form, characters)** -/
theorem C01_desc_plain_roundtrip (p : PDesc) (hs : p.d.sym ≠ .none) (hst : stereoRejected p.pre = false) (atom : Option Nat) :
    parseDesc (printDesc p false) p.num p.pre atom =
      .ok { d := { sym := p.d.sym, id := p.d.id, order := orderOfPrefix p.pre, weight := 1, trans := none, atom := atom.getD 0 },
            pre := p.pre, num := p.num, noAtom := atom.isNone } :=
  desc_plain_roundtrip p hs hst atom

/-- **C01 (descriptor with a weight, characters)** -/
theorem C01_desc_weight_roundtrip (p : PDesc) (hs : p.d.sym ≠ .none) (hst : stereoRejected p.pre = false) (atom : Option Nat)
    (htr : p.d.trans = none) (hw1 : p.d.weight ≠ 1) (hnum : NumTextOK p.d.weight) :
    parseDesc (printDesc p true) p.num p.pre atom =
      .ok { d := { sym := p.d.sym, id := p.d.id, order := orderOfPrefix p.pre, weight := p.d.weight, trans := none, atom := atom.getD 0 },
            pre := p.pre, num := p.num, noAtom := atom.isNone } :=
  desc_weight_roundtrip p hs hst atom htr hw1 hnum

/-- **C01 (descriptor with a transition list, characters)**: `[sym id |w1 … wn|]`, n ≥ 2, weight = sum of the list -/
theorem C01_desc_list_roundtrip (p : PDesc) (hs : p.d.sym ≠ .none) (hst : stereoRejected p.pre = false) (atom : Option Nat)
    (l : List Rat) (htr : p.d.trans = some l) (hlen : 2 ≤ l.length) (hsum : p.d.weight = sumQ l) (hnum : NumsTextOK l) :
    parseDesc (printDesc p true) p.num p.pre atom =
      .ok { d := { sym := p.d.sym, id := p.d.id, order := orderOfPrefix p.pre, weight := p.d.weight, trans := some l, atom := atom.getD 0 },
            pre := p.pre, num := p.num, noAtom := atom.isNone } :=
  desc_list_roundtrip p hs hst atom l htr hlen hsum hnum

/-- **C01 (empty terminal, characters)** -/
theorem C01_desc_empty_roundtrip (p : PDesc) (hs : p.d.sym = .none) (hid : p.d.id = none) (ext : Bool)
    (hw : p.d.trans = none ∧ p.d.weight = 1) (num : Nat) (pre : Str) (atom : Option Nat) :
    parseDesc (printDesc p ext) num pre atom =
      .ok { d := { sym := .none, id := none, order := .unspecified, weight := 1, trans := none, atom := 0 }, pre := pre, num := num, noAtom := true } :=
  desc_empty_roundtrip p hs hid ext hw num pre atom

/-- non-vacuity of `NumTextOK`: the printed forms of 2.5, 0 and 12.75 read back and contain neither `|` nor white space -/
example : NumTextOK (5 / 2) ∧ NumTextOK 0 ∧ NumTextOK (51 / 4) := by
  refine ⟨⟨?_, ?_, ?_⟩, ⟨?_, ?_, ?_⟩, ⟨?_, ?_, ?_⟩⟩ <;> decide +kernel

/-- `[>|0 2.5 0 12.75|]` -/
example : parseDesc (printDesc { d := { sym := .gt, id := none, order := .single, weight := 61 / 4, trans := some [0, 5 / 2, 0, 51 / 4] }, pre := [], num := 1 } true) 1 [] (some 0) =
    .ok { d := { sym := .gt, id := none, order := .single, weight := 61 / 4, trans := some [0, 5 / 2, 0, 51 / 4], atom := 0 }, pre := [], num := 1 } := by
  decide +kernel

/-- `[<12|2.5|]` -/
example : parseDesc (printDesc { d := { sym := .lt, id := some 12, order := .single, weight := 5 / 2 }, pre := [], num := 3 } true) 3 [] (some 4) =
    .ok { d := { sym := .lt, id := some 12, order := .single, weight := 5 / 2, atom := 4 }, pre := [], num := 3 } := by
  decide +kernel

/-- **C01 (mixture specifier, absolute mass, characters)**: the canonical text `.|m|` reads back as the mass `m` (through
`strip(".|")`, `float`), for every non-negative mass whose printed form satisfies the decidable side condition `MixNumOK`
(reads back as the number; no `|`, `%`, white space; neither starts nor ends with `.`) — also for masses that Python prints with
a signed exponent (`2.5e-05`) -/
theorem C01_mixture_abs_roundtrip (a : Rat) (rel : Option Rat) (h0 : 0 ≤ a) (hok : MixNumOK a) :
    parseMixture (printMix { abs := some a, rel := rel } true) = .ok { abs := some a } :=
  mixture_abs_roundtrip a rel h0 hok

/-- **C01 (mixture specifier, percentage, characters)**: `.|p%|` reads back as the percentage `p`, 0 ≤ p ≤ 100 -/
theorem C01_mixture_rel_roundtrip (r : Rat) (h0 : 0 ≤ r) (h100 : r ≤ 100) (hok : MixNumOK r) :
    parseMixture (printMix { abs := none, rel := some r } true) = .ok { rel := some r } :=
  mixture_rel_roundtrip r h0 h100 hok

/-- **C01 / C11 (the text form of a distribution reproduces its parameters, characters)**: for each of the six families the printed form
reads back as the same family with the same parameters — through the substring dispatch of `get_distribution`, `strip`, `startswith`
and, per family, the model of `ast.literal_eval` (tuple or parenthesised number), `float` of a slice (poisson) or integer bounds
(uniform) — for all parameters whose printed forms satisfy the decidable side condition `TokOK text value` (the text reads back as the
value through the literal syntax; digits, `.`, `e`, sign only; starts with a digit); `DistNumOK w` is `TokOK (repr w) w`. -/
theorem C01_distribution_roundtrip (a b : Rat) (ha : DistNumOK a) (hb : DistNumOK b) :
    parseDist (printDist { fam := .gauss, params := [a, b] }) = .ok { fam := .gauss, params := [a, b] } ∧
    parseDist (printDist { fam := .logNormal, params := [a, b] }) = .ok { fam := .logNormal, params := [a, b] } ∧
    (a ≠ b → parseDist (printDist { fam := .schulzZimm, params := [a, b] }) = .ok { fam := .schulzZimm, params := [a, b] }) ∧
    parseDist (printDist { fam := .florySchulz, params := [a] }) = .ok { fam := .florySchulz, params := [a] } ∧
    (Num.parseFloat (numStr a) = Num.FloatRes.ok a → parseDist (printDist { fam := .poisson, params := [a] }) = .ok { fam := .poisson, params := [a] }) :=
  ⟨dist_gauss_roundtrip a b ha hb, dist_logNormal_roundtrip a b ha hb, fun hab => dist_schulzZimm_roundtrip a b hab ha hb,
   dist_florySchulz_roundtrip a ha, fun hpf => dist_poisson_roundtrip a ha hpf⟩

/-- **C01 / C11 (uniform)**: whole-number bounds printed as integers read back as the same bounds -/
theorem C01_uniform_roundtrip (a b : Rat) (ha : TokOK (intStr a) a) (hb : TokOK (intStr b) b) (hta : truncRat a = a) (htb : truncRat b = b) :
    parseDist (printDist { fam := .uniform, params := [a, b] }) = .ok { fam := .uniform, params := [a, b] } :=
  dist_uniform_roundtrip a b ha hb hta htb

/-- **C01 / C12 (tie by translation: the printed mixture)**: `printMixX` is regenerated on every run from the if-chain and the f-strings of
`Mixture.generate_string` (mixture.py:89-94); it is the model's `printMix`, the text the mixture round-trip theorems above are about. -/
theorem C01_translated_printMix (m : PMix) (ext : Bool) : printMixX m ext = printMix m ext := by
  unfold printMixX printMix
  cases ext <;> cases ha : m.abs <;> simp <;> rfl

/-- **C01 / C11 (uniform, unconditional for whole-number bounds)**: `uniform(m, n)` printed from natural bounds reads back as the same
bounds — no side condition left -/
theorem C01_uniform_roundtrip_nat (m n : Nat) :
    parseDist (printDist { fam := .uniform, params := [(m : Rat), (n : Rat)] }) = .ok { fam := .uniform, params := [(m : Rat), (n : Rat)] } := by
  refine C01_uniform_roundtrip _ _ ?_ ?_ (truncRat_nat m) (truncRat_nat n)
  · rw [intStr_nat]; exact TokOK_nat m
  · rw [intStr_nat]; exact TokOK_nat n

/-- **C01 / C11 (the text form reproduces the parameters — unconditional for whole-number parameters)**: for all whole numbers `1 ≤ a, b < 10^15`
(printed `ddd.0` by `repr`) the printed distribution reads back as the same family with the same parameters; nothing is assumed about the
printed text any more: `reprFloat_nat` computes it and `TokOK_decimal` reads it. -/
theorem C01_distribution_roundtrip_nat (a b : Nat) (ha : 0 < a) (hb : 0 < b) (ha' : a < 10 ^ 15) (hb' : b < 10 ^ 15) :
    parseDist (printDist { fam := .gauss, params := [(a : Rat), (b : Rat)] }) = .ok { fam := .gauss, params := [(a : Rat), (b : Rat)] } ∧
    parseDist (printDist { fam := .logNormal, params := [(a : Rat), (b : Rat)] }) = .ok { fam := .logNormal, params := [(a : Rat), (b : Rat)] } ∧
    (a ≠ b → parseDist (printDist { fam := .schulzZimm, params := [(a : Rat), (b : Rat)] }) = .ok { fam := .schulzZimm, params := [(a : Rat), (b : Rat)] }) ∧
    parseDist (printDist { fam := .florySchulz, params := [(a : Rat)] }) = .ok { fam := .florySchulz, params := [(a : Rat)] } ∧
    parseDist (printDist { fam := .poisson, params := [(a : Rat)] }) = .ok { fam := .poisson, params := [(a : Rat)] } := by
  have hla : (Nat.toDigits 10 a).length ≤ 15 := (Nat.length_toDigits_le_iff (by omega) (by omega)).mpr ha'
  have hlb : (Nat.toDigits 10 b).length ≤ 15 := (Nat.length_toDigits_le_iff (by omega) (by omega)).mpr hb'
  obtain ⟨h1, h2, h3, h4, h5⟩ := C01_distribution_roundtrip (a : Rat) (b : Rat) (DistNumOK_nat a ha hla) (DistNumOK_nat b hb hlb)
  exact ⟨h1, h2, fun hne => h3 (by exact_mod_cast hne), h4, h5 (parseFloat_numStr_nat a ha hla)⟩

/-- e.g. `gauss(5000.0, 50.0)`, `schulz_zimm(1500.0, 1400.0)`, `poisson(65.0)` -/
example : (0 < 5000 ∧ 5000 < 10 ^ 15) ∧ numStr (5000 : Nat) = "5000.0".toList := ⟨by omega, by decide +kernel⟩


/-- **C01 (mixture specifiers — unconditional for whole numbers)**: `.|m|` reads back as the mass `m` for every whole number `1 ≤ m < 10^15`,
and `.|p%|` as the percentage `p` for every whole `1 ≤ p ≤ 100`; **descriptor weights** likewise for whole weights from 2 -/
theorem C01_mixture_roundtrip_nat (m p : Nat) (hm : 0 < m) (hm' : m < 10 ^ 15) (hp : 0 < p) (hp' : p ≤ 100) (rel : Option Rat) :
    parseMixture (printMix { abs := some (m : Rat), rel := rel } true) = .ok { abs := some (m : Rat) } ∧
    parseMixture (printMix { abs := none, rel := some (p : Rat) } true) = .ok { rel := some (p : Rat) } := by
  have hlm : (Nat.toDigits 10 m).length ≤ 15 := (Nat.length_toDigits_le_iff (by omega) (by omega)).mpr hm'
  have hlp : (Nat.toDigits 10 p).length ≤ 15 := (Nat.length_toDigits_le_iff (by omega) (by omega)).mpr (by omega)
  exact ⟨C01_mixture_abs_roundtrip _ rel (by exact_mod_cast Nat.zero_le m) (MixNumOK_nat m hm hlm),
         C01_mixture_rel_roundtrip _ (by exact_mod_cast Nat.zero_le p) (by exact_mod_cast hp') (MixNumOK_nat p hp hlp)⟩

theorem C01_desc_weight_roundtrip_nat (p : PDesc) (w : Nat) (hw : p.d.weight = (w : Rat)) (hw2 : 2 ≤ w) (hw' : w < 10 ^ 15)
    (hs : p.d.sym ≠ .none) (hst : stereoRejected p.pre = false) (atom : Option Nat) (htr : p.d.trans = none) :
    parseDesc (printDesc p true) p.num p.pre atom =
      .ok { d := { sym := p.d.sym, id := p.d.id, order := orderOfPrefix p.pre, weight := p.d.weight, trans := none, atom := atom.getD 0 },
            pre := p.pre, num := p.num, noAtom := atom.isNone } := by
  have hl : (Nat.toDigits 10 w).length ≤ 15 := (Nat.length_toDigits_le_iff (by omega) (by omega)).mpr hw'
  refine C01_desc_weight_roundtrip p hs hst atom htr ?_ ?_
  · rw [hw]; intro h; have : w = 1 := by exact_mod_cast h
    omega
  · rw [hw]; exact NumTextOK_nat w (by omega) hl

end GBS.P
