import GBS.Model.Parse
/-!
# C01 — canonical notation round-trips (model-level part)

What is proved here is the *erasure* half at the level of the printers: the extension-free form of a descriptor, token,
stochastic object, mixture and molecule does not depend on any weight, transition list, distribution or mixture mass (it is
a function of the erased structure only), and contains the same tokens / descriptors / terminals in the same order.
The fixed-point and same-object halves (`str ∘ parse` on characters) are tied to the code by the correspondence check and
decided on the implementation by the round-trip oracle (fallback announced in DESIGN.md 7/C01); the binding and weight
laws they rest on are `C02_binding_simulation` and `C02_weight_law`.
-/
namespace GBS.P
open GBS GBS.Py

/-- forget every extension of a descriptor -/
def PDesc.erase (p : PDesc) : PDesc := { p with d := { p.d with weight := 1, trans := none } }

/-- the extension-free form of a descriptor is `[symbol id]`, whatever its weight or list -/
theorem C01_desc_noext (p : PDesc) : printDesc p false = strip (['['] ++ symStr p.d.sym ++ idStr p.d.id ++ [']']) := by
  simp [printDesc]

theorem C01_desc_noext_erase (p : PDesc) : printDesc p false = printDesc p.erase false := by
  simp [printDesc, PDesc.erase]

/-- a descriptor without extensions prints the same with and without extensions (nothing to erase) -/
theorem C01_desc_erased_fixed (p : PDesc) : printDesc p.erase true = printDesc p false := by
  simp [printDesc, PDesc.erase]

def PToken.erase (t : PToken) : PToken := { t with descs := t.descs.map PDesc.erase }

theorem elText_erase (t : PToken) (e : El) : elText t.erase false e = elText t false e := by
  cases e with
  | atom a => rfl
  | str s => rfl
  | bond k =>
    simp only [elText, PToken.erase, List.getElem?_map]
    cases t.descs[k]? with
    | none => rfl
    | some p => simp [← C01_desc_noext_erase]

/-- the extension-free form of a token depends on the erased token only; atoms, text segments and descriptor positions
are kept as they are -/
theorem C01_token_noext_erase (t : PToken) : printToken t false = printToken t.erase false := by
  unfold printToken
  have : t.erase.els = t.els := rfl
  rw [this]
  congr 2
  apply List.map_congr_left
  intro e _
  exact (elText_erase t e).symm

/-- the extension-free form of a mixture specifier is the bare `.` -/
theorem C01_mix_noext (x : PMix) : printMix x false = ['.'] := rfl

/-- the extension-free form of a stochastic object never mentions its distribution -/
theorem C01_stoch_noext_no_dist (o : PStoch) : printStoch o false = printStoch { o with dist := none } false := by
  unfold printStoch
  cases o.dist <;> simp

/-- the extension-free molecule is the concatenation of its elements' extension-free forms plus `.` for a mixture -/
theorem C01_mol_noext (m : PMol) :
    printMol m false = (m.elems.map (printElem false)).flatten ++ (match m.mix with | some _ => ['.'] | none => []) := by
  unfold printMol
  cases m.mix <;> rfl

end GBS.P
