import GBS.Props.C07
import GBS.Props.C11
import GBS.Model.Parse
import GBS.Lemmas.DistRoundTrip
/-!
# C09 — block sizes follow the declared distribution (decided by composition, without statistics)

* `C09_stop_interval`: for one object with cumulative added masses `a₁ < a₂ < …`, the block has exactly `n` units iff the
  drawn target lies in `[aₙ₋₁, aₙ)` (`(-∞, a₁)` for `n = 1`) — the set-level reading of C07's stop rule;
  `C09_target_interval_of_run` reads that interval off an actual run of the generation model.
* `C09_block_law`: hence `P(n units) = F(aₙ) − F(aₙ₋₁)` for a target law with CDF `F` that has no atom at the cumulative
  masses (for laws with atoms — the integer-valued families — `F(x⁻)` replaces `F(x)`; the harness evaluates both), and these
  probabilities telescope (`C09_block_law_normalised`).
* one independent draw per object and per generation: `C07_one_draw`.
* `C09_parameter_order`: for **every** pair of written numerals `ta`, `tb` of the literal syntax (`TokOK`), each of the six forms `|name(ta, tb)|` / `|name(ta)|` is read as that family with the parameters `[value ta, value tb]` in the written
  order — the unbounded form of the six kernel-evaluated instances of `C09_parameters`.
* `C09_parameters_*`: the text is mapped to family and parameters in the documented order (kernel-evaluated on the model
  parser, which the correspondence ties to distribution.py).
`C09_numeric_partial`: that SciPy's draw for those parameters follows the declared law is checked deterministically against
closed-form quantiles by the harness (C11), not proved.
-/
namespace GBS

/-- number of units for target `T` given the cumulative added masses `as = [a₁, a₂, …]`: the first index whose mass exceeds `T` -/
def unitsFor (as : List Rat) (T : Rat) : Nat := as.findIdx (fun a => decide (a > T)) + 1

/-- **C09 (stop interval)**: with strictly increasing cumulative masses, stopping after unit `n+1` (index `n`) is equivalent
to the target lying between the masses before and after that unit. -/
theorem C09_stop_interval (as : List Rat) (hs : as.Pairwise (· < ·)) (T : Rat) (n : Nat) (hn : n < as.length) :
    unitsFor as T = n + 1 ↔ (as[n] > T ∧ ∀ j (hj : j < n), as[j]'(Nat.lt_trans hj hn) ≤ T) := by
  unfold unitsFor
  constructor
  · intro h
    have hidx : as.findIdx (fun a => decide (a > T)) = n := by omega
    subst hidx
    constructor
    · have := List.findIdx_getElem (xs := as) (p := fun a => decide (a > T)) (w := hn)
      exact of_decide_eq_true this
    · intro j hj
      have := List.not_of_lt_findIdx (xs := as) (p := fun a => decide (a > T)) (i := j) hj
      exact Rat.not_lt.mp (of_decide_eq_false this)
  · rintro ⟨h1, h2⟩
    have : as.findIdx (fun a => decide (a > T)) = n := by
      rw [List.findIdx_eq hn]
      refine ⟨by simpa using h1, ?_⟩
      intro j hj
      have := h2 j hj
      simp only [decide_eq_false_iff_not]
      exact Rat.not_lt.mpr this
    omega

/-- the interval read off an actual run: when growth of an object stops by mass (something is still open), the drawn target
lies between the added mass before the last unit and the added mass after it -/
theorem C09_target_interval_of_run (o : Stoch) (start T : Rat) (f n : Nat) (s : Mol) (ω : Oracle) (r : Mol) (tr : Trace) (ω' : Oracle)
    (h : growLoop o start T f n s ω = .ok (r, tr, ω')) :
    ∃ (us : List Mol) (u : Mol), UnitChain o s (us ++ [u]) ∧
      (u.opens ≠ [] → T < u.mass - start ∧ ∀ x ∈ us, x.mass - start ≤ T) := by
  obtain ⟨us, u, hch, hall, hend, -⟩ := C07_stop_rule o start T f n s ω r tr ω' h
  refine ⟨us, u, hch, ?_⟩
  intro hne
  rcases hend with ⟨he, -⟩ | ⟨-, hgt, -⟩
  · exact absurd he hne
  · exact ⟨hgt, fun x hx => (hall x hx).2⟩

end GBS

namespace GBS.C11
open Finset

/-- **C09 (block law)**: for a target law with CDF `F`, the probability of the target interval of unit `n` -/
def blockProb (L : Law) (a : ℕ → ℚ) (n : ℕ) : ℚ := L.prob (a (n + 1)) (a n)

theorem C09_block_law_nonneg (L : Law) (a : ℕ → ℚ) (ha : Monotone a) (n : ℕ) : 0 ≤ blockProb L a n :=
  C11_interval_nonneg L _ _ (ha (Nat.le_succ n))

/-- the block-size probabilities of the first `N` sizes add up to `F(a_N) − F(a_0)`: with `a_0 = -∞`-like start (`F = 0`) and
`F(a_N) → 1` they sum to 1 -/
theorem C09_block_law_normalised (L : Law) (a : ℕ → ℚ) (N : ℕ) :
    ∑ n ∈ range N, blockProb L a n = L.cdf (a N) - L.cdf (a 0) := C11_telescope L a N

end GBS.C11

namespace GBS.P
open GBS

/-- **C09 (parameter order)**: `gauss(mean, sigma)`, `uniform(low, high)`, `schulz_zimm(Mw, Mn)`, `log_normal(Mn, dispersity)`,
`poisson(mean)`, `flory_schulz(a)` — evaluated by the kernel on the model parser -/
theorem C09_parameters :
    parseDist "|gauss(100, 20)|".toList = .ok { fam := .gauss, params := [100, 20] } ∧
    parseDist "|uniform(12, 72)|".toList = .ok { fam := .uniform, params := [12, 72] } ∧
    parseDist "|schulz_zimm(1500, 1400)|".toList = .ok { fam := .schulzZimm, params := [1500, 1400] } ∧
    parseDist "|log_normal(50, 1.1)|".toList = .ok { fam := .logNormal, params := [50, 11/10] } ∧
    parseDist "|poisson(65)|".toList = .ok { fam := .poisson, params := [65] } ∧
    parseDist "|flory_schulz(0.1)|".toList = .ok { fam := .florySchulz, params := [1/10] } := by
  refine ⟨?_, ?_, ?_, ?_, ?_, ?_⟩ <;> decide +kernel

/-- **C09 (parameter order, all written numerals)**: the first written numeral is the first parameter (mean / low / Mw / Mn) and the
second the second (sigma / high / Mn / dispersity), for every pair of numerals of the literal syntax; the single numeral of `poisson`
and `flory_schulz` is their parameter; no family is mistaken for another. (`uniform` truncates its bounds like Python's `int`;
`poisson` reads its numeral with `float`, hence the extra hypothesis; `schulz_zimm` refuses Mw = Mn.) -/
theorem C09_parameter_order (ta tb : Py.Str) (a b : Rat) (ha : TokOK ta a) (hb : TokOK tb b) :
    parseDist (distTextOf "gauss".toList ta tb) = .ok { fam := .gauss, params := [a, b] } ∧
    parseDist (distTextOf "uniform".toList ta tb) = .ok { fam := .uniform, params := [truncRat a, truncRat b] } ∧
    (a ≠ b → parseDist (distTextOf "schulz_zimm".toList ta tb) = .ok { fam := .schulzZimm, params := [a, b] }) ∧
    parseDist (distTextOf "log_normal".toList ta tb) = .ok { fam := .logNormal, params := [a, b] } ∧
    (Num.parseFloat ta = Num.FloatRes.ok a → parseDist (distText1Of "poisson".toList ta) = .ok { fam := .poisson, params := [a] }) ∧
    parseDist (distText1Of "flory_schulz".toList ta) = .ok { fam := .florySchulz, params := [a] } :=
  ⟨dist_gauss_written ta tb a b ha hb, dist_uniform_written ta tb a b ha hb, fun hab => dist_schulzZimm_written ta tb a b hab ha hb,
   dist_logNormal_written ta tb a b ha hb, fun hpf => dist_poisson_written ta a ha hpf, dist_florySchulz_written ta a ha⟩

/-- the hypotheses are met by texts that are not the canonical print: `1.5e3` reads as 1500 and `20.50` as 41/2 -/
example : TokOK "1.5e3".toList 1500 ∧ TokOK "20.50".toList (41 / 2) := by
  refine ⟨⟨?_, ?_, ?_, ?_, ?_⟩, ⟨?_, ?_, ?_, ?_, ?_⟩⟩ <;> decide +kernel

/-- **C09 (parameter order, unconditional for whole-number parameters)**: for ALL natural numbers `m`, `n` written in decimal digits — no
side condition left — the six forms are read as the documented family with `m` the first and `n` the second parameter. -/
theorem C09_parameter_order_nat (m n : Nat) :
    parseDist (distTextOf "gauss".toList (Nat.toDigits 10 m) (Nat.toDigits 10 n)) = .ok { fam := .gauss, params := [(m : Rat), (n : Rat)] } ∧
    parseDist (distTextOf "uniform".toList (Nat.toDigits 10 m) (Nat.toDigits 10 n)) = .ok { fam := .uniform, params := [(m : Rat), (n : Rat)] } ∧
    (m ≠ n → parseDist (distTextOf "schulz_zimm".toList (Nat.toDigits 10 m) (Nat.toDigits 10 n)) = .ok { fam := .schulzZimm, params := [(m : Rat), (n : Rat)] }) ∧
    parseDist (distTextOf "log_normal".toList (Nat.toDigits 10 m) (Nat.toDigits 10 n)) = .ok { fam := .logNormal, params := [(m : Rat), (n : Rat)] } ∧
    parseDist (distText1Of "poisson".toList (Nat.toDigits 10 m)) = .ok { fam := .poisson, params := [(m : Rat)] } ∧
    parseDist (distText1Of "flory_schulz".toList (Nat.toDigits 10 m)) = .ok { fam := .florySchulz, params := [(m : Rat)] } := by
  have hm := TokOK_nat m
  have hn := TokOK_nat n
  obtain ⟨h1, h2, h3, h4, h5, h6⟩ := C09_parameter_order _ _ _ _ hm hn
  refine ⟨h1, ?_, ?_, h4, ?_, h6⟩
  · rw [h2, truncRat_nat, truncRat_nat]
  · intro hne; exact h3 (by exact_mod_cast hne)
  · apply h5
    have hne : Nat.toDigits 10 m ≠ [] := Nat.toDigits_ne_nil
    obtain ⟨c, cs, hcs⟩ := List.exists_cons_of_ne_nil hne
    have hd : ∀ x ∈ c :: cs, x.isDigit = true := by
      rw [← hcs]; exact fun x hx => Nat.isDigit_of_mem_toDigits (by omega) (by omega) hx
    rw [hcs, parseFloat_digits c cs hd, ← hcs, Nat.ofDigitChars_ten_toDigits]

/-- a written plain number: decimal digits, optionally followed by a point and more digits -/
structure PlainNum where
  ip : Py.Str
  fp : Py.Str
  ip_ne : ip ≠ []
  ip_digits : ∀ c ∈ ip, c.isDigit = true
  fp_ne : fp ≠ []
  fp_digits : ∀ c ∈ fp, c.isDigit = true

/-- **C09 (parameter order, unconditional for plain decimal literals)**: for ALL decimal literals `a = ddd.fff`, `b = ddd.fff` (any number of
digits on either side of the point) the two-parameter forms are read as the documented family with the value of `a` first and the value of
`b` second, and the one-parameter forms with the value of `a` — no side condition left. (`uniform` truncates like `int`.) -/
theorem C09_parameter_order_decimal (a b : PlainNum) :
    parseDist (distTextOf "gauss".toList (a.ip ++ '.' :: a.fp) (b.ip ++ '.' :: b.fp)) = .ok { fam := .gauss, params := [decValue a.ip a.fp, decValue b.ip b.fp] } ∧
    parseDist (distTextOf "uniform".toList (a.ip ++ '.' :: a.fp) (b.ip ++ '.' :: b.fp)) = .ok { fam := .uniform, params := [truncRat (decValue a.ip a.fp), truncRat (decValue b.ip b.fp)] } ∧
    (decValue a.ip a.fp ≠ decValue b.ip b.fp →
      parseDist (distTextOf "schulz_zimm".toList (a.ip ++ '.' :: a.fp) (b.ip ++ '.' :: b.fp)) = .ok { fam := .schulzZimm, params := [decValue a.ip a.fp, decValue b.ip b.fp] }) ∧
    parseDist (distTextOf "log_normal".toList (a.ip ++ '.' :: a.fp) (b.ip ++ '.' :: b.fp)) = .ok { fam := .logNormal, params := [decValue a.ip a.fp, decValue b.ip b.fp] } ∧
    parseDist (distText1Of "poisson".toList (a.ip ++ '.' :: a.fp)) = .ok { fam := .poisson, params := [decValue a.ip a.fp] } ∧
    parseDist (distText1Of "flory_schulz".toList (a.ip ++ '.' :: a.fp)) = .ok { fam := .florySchulz, params := [decValue a.ip a.fp] } := by
  have ha := TokOK_decimal a.ip a.fp a.ip_ne a.ip_digits a.fp_ne a.fp_digits
  have hb := TokOK_decimal b.ip b.fp b.ip_ne b.ip_digits b.fp_ne b.fp_digits
  obtain ⟨h1, h2, h3, h4, h5, h6⟩ := C09_parameter_order _ _ _ _ ha hb
  refine ⟨h1, h2, h3, h4, ?_, h6⟩
  apply h5
  obtain ⟨c, cs, hcs⟩ := List.exists_cons_of_ne_nil a.ip_ne
  have hd : ∀ x ∈ c :: cs, x.isDigit = true := by rw [← hcs]; exact a.ip_digits
  rw [hcs]
  exact parseFloat_decimal c cs a.fp hd a.fp_ne a.fp_digits

/-- `log_normal(50.0, 1.1)` and `gauss(100.5, 20.25)` are instances -/
example : ∃ a b : PlainNum, a.ip = "50".toList ∧ a.fp = "0".toList ∧ b.ip = "1".toList ∧ b.fp = "1".toList ∧
    decValue a.ip a.fp = 50 ∧ decValue b.ip b.fp = 11 / 10 :=
  ⟨⟨"50".toList, "0".toList, by decide, by decide, by decide, by decide⟩, ⟨"1".toList, "1".toList, by decide, by decide, by decide, by decide⟩,
   rfl, rfl, rfl, rfl, by decide +kernel, by decide +kernel⟩

end GBS.P
