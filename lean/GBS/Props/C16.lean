import GBS.Model.ReactGraph
import GBS.Props.C08
/-!
# C16 — the reaction graph states the generator's probabilities, normalised at every node
-/
namespace GBS

/-- **C16 (nodes / atom edges)**: a residue → descriptor edge exists exactly for the descriptors of weight ≥ 0 and carries
the attachment atom -/
theorem C16_atom_edges (e : Nat) (el : Element) (a : RAdd) :
    a ∈ atomEdges e el ↔ ∃ x ∈ elemDescs el, 0 ≤ x.d.weight ∧
      a = { src := .tok e x.t, dst := .bd e x.t x.k, attr := .atom, val := x.d.atom } := by
  unfold atomEdges
  simp only [List.mem_filterMap]
  constructor
  · rintro ⟨x, hx, h⟩
    by_cases hw : 0 ≤ x.d.weight
    · simp only [hw, if_true, Option.some.injEq] at h; exact ⟨x, hx, hw, h.symm⟩
    · simp [hw] at h
  · rintro ⟨x, hx, hw, rfl⟩
    exact ⟨x, hx, by simp [hw]⟩

/-- **C16 (weight edges join compatible descriptors only)** -/
theorem C16_weight_edges_compatible (e : Nat) (el : Element) (g : EDesc) (hn : g.d.trans = none) (a : RAdd)
    (ha : a ∈ innerEdges e el g) :
    ∃ o ∈ elemDescs el, isCompatible g.d o.d = true ∧ 0 < o.d.weight ∧ a.dst = .bd e o.t o.k ∧ a.src = .bd e g.t g.k := by
  unfold innerEdges at ha
  simp only [hn] at ha
  split at ha
  · cases ha
  · simp only [List.mem_map, List.mem_filter] at ha
    obtain ⟨o, ⟨⟨ho, hc⟩, hw⟩, rfl⟩ := ha
    refine ⟨o, ho, hc, by simpa using hw, ?_, ?_⟩ <;> split <;> rfl

theorem sumRat_filter_pos (l : List Rat) (h : ∀ w ∈ l, 0 ≤ w) : sumRat (l.filter fun w => 0 < w) = sumRat l := by
  induction l with
  | nil => rfl
  | cons x xs ih =>
    have hx := h x (by simp)
    have ih' := ih (fun w hw => h w (by simp [hw]))
    by_cases hp : 0 < x
    · simp only [List.filter_cons, hp, decide_true, if_true, sumRat, List.foldr_cons] at ih' ⊢
      rw [ih']
    · have h0 : x = 0 := by linarith
      simp only [List.filter_cons, hp, decide_false, Bool.false_eq_true, if_false, sumRat, List.foldr_cons] at ih' ⊢
      rw [ih', h0]; simp

/-- **C16 (normalisation, weight rule)**: over the compatible descriptors of one group (repeat units for `prob`, end groups
for `term_prob`) the probabilities `w / Σ w` of the positive-weight entries sum to 1 whenever some weight is positive (and
there is no such edge at all when all are zero). -/
theorem C16_normalised_weight_rule (ws : List Rat) (h : ∀ w ∈ ws, 0 ≤ w) (hpos : sumRat ws ≠ 0) :
    sumRat ((ws.filter fun w => 0 < w).map (· / sumRat ws)) = 1 := by
  rw [sumRat_map_div, sumRat_filter_pos ws h]
  field_simp

/-- **C16 (normalisation, explicit list)**: the listed probabilities `listᵢ / weight` sum to 1 (`weight` is the sum of the
list, C02_weight_law). -/
theorem C16_normalised_list (l : List Rat) (hpos : sumRat l ≠ 0) : sumRat (l.map (· / sumRat l)) = 1 := by
  rw [sumRat_map_div]; field_simp

/-- **C16 (equals the generator's law)**: when the compatible weights are not all equal the probability written on the edge,
`w / Σ w`, is entry for entry the vector `choose_compatible_weight` hands to the generator (C08_choose_proportional); when
they are all equal and positive both are `1/k`. -/
theorem C16_equals_generator_law (ws : List Rat) (h : allEq ws = false) :
    chooseProbs ws = ws.map (· / sumRat ws) := C08_choose_proportional ws h

theorem C16_equals_generator_law_equal (w : Rat) (k : Nat) (hw : 0 < w) :
    chooseProbs (List.replicate (k + 1) w) = (List.replicate (k + 1) w).map (· / sumRat (List.replicate (k + 1) w)) := by
  have hne : List.replicate (k + 1) w ≠ [] := by simp
  have hall : allEq (List.replicate (k + 1) w) = true := by
    simp [allEq, List.replicate_succ]
  rw [C08_choose_uniform _ hne hall (by intro x hx; rw [List.mem_replicate] at hx; rw [hx.2]; exact le_of_lt hw)]
  rw [sumRat_replicate]
  simp only [List.length_replicate, List.map_replicate]
  congr 1
  have hk : (0 : Rat) < ((k + 1 : Nat) : Rat) := by positivity
  field_simp

/-- the code's own validation only looks at the sums of the *last* node it visited: a graph whose first node violates
normalisation passes it.  (Witness on the model of `validate_graph`.) -/
def validateLastOnly (nodeSums : List (Rat × Rat × Rat)) : Bool :=
  match nodeSums.getLast? with
  | none => true
  | some (p, t, r) =>
    let ok := fun (x : Rat) => decide (absQ (x - 1) < 1 / 1000000) || decide (absQ x < 1 / 1000000)
    ok p && ok t && ok r
where absQ (x : Rat) : Rat := if x < 0 then -x else x

theorem C16_validation_is_last_node_only : validateLastOnly [(1/2, 0, 0), (1, 0, 0)] = true := by decide +kernel

end GBS
