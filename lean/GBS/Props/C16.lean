import GBS.Model.ReactGraph
import GBS.Props.C08
import GBS.Lemmas.GraphVals
/-!
# C16 — the reaction graph states the generator's probabilities, normalised at every node
-/
namespace GBS

/-- **C16 (nodes / atom edges)**: a residue → descriptor edge exists exactly for the descriptors of weight ≥ 0 and carries
the attachment atom -/
theorem C16_atom_edges (e : Nat) (el : Element) (a : RAdd) :
    a ∈ atomEdges e el ↔ ∃ x ∈ elemDescs el, 0 ≤ x.d.weight ∧
      a = { src := .tok e x.t, dst := .bd e x.t x.k, attr := .atom, val := x.d.atom } := by
  unfold atomEdges
  simp only [List.mem_filterMap]
  constructor
  · rintro ⟨x, hx, h⟩
    by_cases hw : 0 ≤ x.d.weight
    · simp only [hw, if_true, Option.some.injEq] at h; exact ⟨x, hx, hw, h.symm⟩
    · simp [hw] at h
  · rintro ⟨x, hx, hw, rfl⟩
    exact ⟨x, hx, by simp [hw]⟩

/-- **C16 (weight edges join compatible descriptors only)** -/
theorem C16_weight_edges_compatible (e : Nat) (el : Element) (g : EDesc) (hn : g.d.trans = none) (a : RAdd)
    (ha : a ∈ innerEdges e el g) :
    ∃ o ∈ elemDescs el, isCompatible g.d o.d = true ∧ 0 < o.d.weight ∧ a.dst = .bd e o.t o.k ∧ a.src = .bd e g.t g.k := by
  unfold innerEdges at ha
  simp only [hn] at ha
  split at ha
  · cases ha
  · simp only [List.mem_map, List.mem_filter] at ha
    obtain ⟨o, ⟨⟨ho, hc⟩, hw⟩, rfl⟩ := ha
    refine ⟨o, ho, hc, by simpa using hw, ?_, ?_⟩ <;> split <;> rfl

theorem sumRat_filter_pos (l : List Rat) (h : ∀ w ∈ l, 0 ≤ w) : sumRat (l.filter fun w => 0 < w) = sumRat l := by
  induction l with
  | nil => rfl
  | cons x xs ih =>
    have hx := h x (by simp)
    have ih' := ih (fun w hw => h w (by simp [hw]))
    by_cases hp : 0 < x
    · simp only [List.filter_cons, hp, decide_true, if_true, sumRat, List.foldr_cons] at ih' ⊢
      rw [ih']
    · have h0 : x = 0 := by linarith
      simp only [List.filter_cons, hp, decide_false, Bool.false_eq_true, if_false, sumRat, List.foldr_cons] at ih' ⊢
      rw [ih', h0]; simp

/-- **C16 (normalisation, weight rule)**: over the compatible descriptors of one group (repeat units for `prob`, end groups
for `term_prob`) the probabilities `w / Σ w` of the positive-weight entries sum to 1 whenever some weight is positive (and
there is no such edge at all when all are zero). -/
theorem C16_normalised_weight_rule (ws : List Rat) (h : ∀ w ∈ ws, 0 ≤ w) (hpos : sumRat ws ≠ 0) :
    sumRat ((ws.filter fun w => 0 < w).map (· / sumRat ws)) = 1 := by
  rw [sumRat_map_div, sumRat_filter_pos ws h]
  field_simp

/-- **C16 (normalisation, explicit list)**: the listed probabilities `listᵢ / weight` sum to 1 (`weight` is the sum of the
list, C02_weight_law). -/
theorem C16_normalised_list (l : List Rat) (hpos : sumRat l ≠ 0) : sumRat (l.map (· / sumRat l)) = 1 := by
  rw [sumRat_map_div]; field_simp

/-- **C16 (normalised at every node, on the graph model)**: from every descriptor node `g` of a stochastic object that carries no
transition list, the `prob` values written by `gen_reaction_graph` sum to 1 whenever the compatible repeat-unit weights are
non-negative and not all zero — and likewise the `term_prob` values over the compatible end groups. -/
theorem C16_inner_normalised (e : Nat) (o : Stoch) (g : EDesc) (hn : g.d.trans = none)
    (hw : ∀ x ∈ elemDescs (.stoch o), 0 ≤ x.d.weight) :
    (sumRat ((((elemDescs (.stoch o)).filter fun x => isCompatible g.d x.d).filter (·.isRepeat)).map (·.d.weight)) ≠ 0 →
      sumRat (attrVals .prob (innerEdges e (.stoch o) g)) = 1) ∧
    (sumRat ((((elemDescs (.stoch o)).filter fun x => isCompatible g.d x.d).filter (fun x => !x.isRepeat)).map (·.d.weight)) ≠ 0 →
      sumRat (attrVals .termProb (innerEdges e (.stoch o) g)) = 1) := by
  constructor
  · intro h
    rw [innerEdges_prob_vals e o g hn]
    refine C16_normalised_weight_rule _ ?_ h
    intro w hw'
    simp only [List.mem_map, List.mem_filter] at hw'
    obtain ⟨x, ⟨⟨hx, -⟩, -⟩, rfl⟩ := hw'
    exact hw x hx
  · intro h
    rw [innerEdges_term_vals e o g hn]
    refine C16_normalised_weight_rule _ ?_ h
    intro w hw'
    simp only [List.mem_map, List.mem_filter] at hw'
    obtain ⟨x, ⟨⟨hx, -⟩, -⟩, rfl⟩ := hw'
    exact hw x hx

/-- and when those weights are all zero there is no such edge at all ("or are absent") -/
theorem C16_inner_absent (e : Nat) (o : Stoch) (g : EDesc) (hn : g.d.trans = none)
    (hw : ∀ x ∈ elemDescs (.stoch o), isCompatible g.d x.d = true → x.d.weight ≤ 0) :
    innerEdges e (.stoch o) g = [] := by
  unfold innerEdges
  simp only [hn, isStoch, Bool.not_true, Bool.false_eq_true, if_false, List.map_eq_nil_iff, List.filter_eq_nil_iff]
  intro x hx
  simp only [List.mem_filter] at hx
  have := hw x hx.1 hx.2
  simp only [decide_eq_true_eq, not_lt]
  exact this

/-- **C16 (normalised at every node: listed transition weights)**: a descriptor that lists one non-negative weight per descriptor
of its object (the list is not longer than the descriptor list), and whose weight is the positive sum of that list (C02's weight
law), has `prob` values summing to 1. -/
theorem C16_list_normalised (e : Nat) (el : Element) (g : EDesc) (l : List Rat) (hl : g.d.trans = some l)
    (hlen : l.length ≤ (elemDescs el).length) (hnn : ∀ w ∈ l, 0 ≤ w) (hsum : g.d.weight = sumRat l) (hpos : 0 < sumRat l) :
    sumRat (attrVals .prob (innerEdges e el g)) = 1 := by
  unfold innerEdges
  simp only [hl]
  have hne : g.d.weight ≠ 0 := by rw [hsum]; exact ne_of_gt hpos
  simp only [hne, if_false, withIdx]
  refine Eq.trans (congrArg sumRat (listEdges_vals (elemDescs el) e g g.d.weight l 0 (by omega))) ?_
  have hall : l.filter (fun w => decide (0 ≤ w / g.d.weight)) = l := by
    rw [List.filter_eq_self]
    intro w hw
    simp only [decide_eq_true_eq]
    rw [hsum]
    exact div_nonneg (hnn w hw) (le_of_lt hpos)
  rw [hall, hsum]
  exact C16_normalised_list l (ne_of_gt hpos)

/-- **C16 (normalised at every node: transitions into a stochastic object)**: from a descriptor of a plain token or of a
stochastic object, the `trans_prob` values towards the next stochastic object are `w / Σ w` over the admissible repeat-unit
descriptors of that object and sum to 1 whenever that total is at least the code's threshold 1e-16 (below it the code divides
by 1 instead). -/
theorem C16_trans_normalised (e : Nat) (el : Element) (n : Stoch) (g : EDesc) :
    ∃ ws : List Rat, attrVals .transProb (transEdges e el (.stoch n) g) =
        ws.map (· / (if 0 ≤ sumRat ws ∧ sumRat ws < 1 / 10000000000000000 then 1 else sumRat ws)) ∧
      (¬ (0 ≤ sumRat ws ∧ sumRat ws < 1 / 10000000000000000) → sumRat ws ≠ 0 →
        sumRat (attrVals .transProb (transEdges e el (.stoch n) g)) = 1) := by
  cases el with
  | tok t =>
    refine ⟨((elemDescs (.stoch n)).filter fun o => isCompatible g.d o.d && isCompatible o.d n.left && o.isRepeat).map (·.d.weight), ?_, ?_⟩
    · unfold transEdges
      simp only [attrVals_trans_map, List.map_map]
      rfl
    · intro hth hne
      unfold transEdges
      simp only [attrVals_trans_map]
      simp only [hth, if_false]
      have := C16_normalised_list _ hne
      simpa [List.map_map, Function.comp_def] using this
  | stoch s =>
    refine ⟨((elemDescs (.stoch n)).filter fun o => isCompatible g.d o.d && isCompatible o.d n.left && o.isRepeat && isCompatible g.d s.right && g.isRepeat).map (·.d.weight), ?_, ?_⟩
    · unfold transEdges
      simp only [attrVals_trans_map, List.map_map]
      rfl
    · intro hth hne
      unfold transEdges
      simp only [attrVals_trans_map]
      simp only [hth, if_false]
      have := C16_normalised_list _ hne
      simpa [List.map_map, Function.comp_def] using this

/-- `{[][<|2|]CC[>], [<|6|]C(N)C[>]; [<]O, [>|3|]F []}`: two repeat units whose `[<]` descriptors weigh 2 and 6, end groups weighing 1 and 3 -/
private def exObj : Stoch :=
  { left := { sym := .none, id := none, order := .single }, right := { sym := .none, id := none, order := .single },
    repeats := [{ tid := 0, natoms := 2, mass := 24, bds := [{ sym := .lt, id := none, order := .single, weight := 2 }, { sym := .gt, id := none, order := .single, atom := 1 }] },
                { tid := 1, natoms := 3, mass := 38, bds := [{ sym := .lt, id := none, order := .single, weight := 6 }, { sym := .gt, id := none, order := .single, atom := 2 }] }],
    ends := [{ tid := 2, natoms := 1, mass := 16, bds := [{ sym := .lt, id := none, order := .single }] },
             { tid := 3, natoms := 1, mass := 19, bds := [{ sym := .gt, id := none, order := .single, weight := 3 }] }],
    hasDist := true }

/-- the `[>]` descriptor of the first repeat unit (token 0, descriptor 1) -/
private def exG : EDesc := (elemDescs (.stoch exObj))[1]!

/-- non-vacuity of `C16_inner_normalised` and the values it is about: from `[>]` the graph offers the two `[<]` repeat descriptors with
2/8 and 6/8 and the one compatible end group with 1 -/
example : exG.d.trans = none ∧ (∀ x ∈ elemDescs (.stoch exObj), 0 ≤ x.d.weight) ∧
    attrVals .prob (innerEdges 0 (.stoch exObj) exG) = [1 / 4, 3 / 4] ∧
    attrVals .termProb (innerEdges 0 (.stoch exObj) exG) = [1] := by
  refine ⟨by decide +kernel, by decide +kernel, by decide +kernel, by decide +kernel⟩

/-- **C16 (equals the generator's law)**: when the compatible weights are not all equal the probability written on the edge,
`w / Σ w`, is entry for entry the vector `choose_compatible_weight` hands to the generator (C08_choose_proportional); when
they are all equal and positive both are `1/k`. -/
theorem C16_equals_generator_law (ws : List Rat) (h : allEq ws = false) :
    chooseProbs ws = ws.map (· / sumRat ws) := C08_choose_proportional ws h

theorem C16_equals_generator_law_equal (w : Rat) (k : Nat) (hw : 0 < w) :
    chooseProbs (List.replicate (k + 1) w) = (List.replicate (k + 1) w).map (· / sumRat (List.replicate (k + 1) w)) := by
  have hne : List.replicate (k + 1) w ≠ [] := by simp
  have hall : allEq (List.replicate (k + 1) w) = true := by
    simp [allEq, List.replicate_succ]
  rw [C08_choose_uniform _ hne hall (by intro x hx; rw [List.mem_replicate] at hx; rw [hx.2]; exact le_of_lt hw)]
  rw [sumRat_replicate]
  simp only [List.length_replicate, List.map_replicate]
  congr 1
  have hk : (0 : Rat) < ((k + 1 : Nat) : Rat) := by positivity
  field_simp

/-- the code's own validation only looks at the sums of the *last* node it visited: a graph whose first node violates
normalisation passes it.  (Witness on the model of `validate_graph`.) -/
def validateLastOnly (nodeSums : List (Rat × Rat × Rat)) : Bool :=
  match nodeSums.getLast? with
  | none => true
  | some (p, t, r) =>
    let ok := fun (x : Rat) => decide (absQ (x - 1) < 1 / 1000000) || decide (absQ x < 1 / 1000000)
    ok p && ok t && ok r
where absQ (x : Rat) : Rat := if x < 0 then -x else x

theorem C16_validation_is_last_node_only : validateLastOnly [(1/2, 0, 0), (1, 0, 0)] = true := by decide +kernel

end GBS
