import GBS.Lemmas.GenClosed
import GBS.Extracted.Choose
import GBS.Props.C03
import Mathlib.Tactic.Ring
import Mathlib.Tactic.FieldSimp
import Mathlib.Tactic.Linarith
import Mathlib.Algebra.Order.Field.Rat
/-!
# C08 — every random decision follows the weights written in the notation

The law of `choose_compatible_weight` (including the `+1` trick for equal weights), what each kind of
pick hands to `rng.choice`, and the normalisation of every decision node.
-/
namespace GBS

theorem sumRat_eq_sum (l : List Rat) : sumRat l = l.sum := by
  induction l with
  | nil => rfl
  | cons x xs ih => simp [sumRat] at ih ⊢; rw [ih]

theorem sumRat_map_div (l : List Rat) (c : Rat) : sumRat (l.map (· / c)) = sumRat l / c := by
  induction l with
  | nil => simp [sumRat]
  | cons x xs ih =>
    simp only [sumRat, List.map_cons, List.foldr_cons] at ih ⊢
    rw [ih]; ring

theorem sumRat_map_add_one (l : List Rat) : sumRat (l.map (· + 1)) = sumRat l + l.length := by
  induction l with
  | nil => simp [sumRat]
  | cons x xs ih =>
    simp only [sumRat, List.map_cons, List.foldr_cons, List.length_cons] at ih ⊢
    rw [ih]; push_cast; ring

theorem sumRat_nonneg (l : List Rat) (h : ∀ w ∈ l, 0 ≤ w) : 0 ≤ sumRat l := by
  induction l with
  | nil => simp [sumRat]
  | cons x xs ih =>
    simp only [sumRat, List.foldr_cons] at ih ⊢
    have := h x (by simp)
    have := ih (fun w hw => h w (by simp [hw]))
    linarith

theorem sumRat_replicate (n : Nat) (w : Rat) : sumRat (List.replicate n w) = n * w := by
  induction n with
  | zero => simp [sumRat]
  | succ n ih =>
    simp only [sumRat, List.replicate_succ, List.foldr_cons] at ih ⊢
    rw [ih]; push_cast; ring

/-- all entries equal the head -/
def allEq (ws : List Rat) : Bool := match ws with | [] => true | w :: _ => ws.all (· == w)

theorem allEq_replicate {ws : List Rat} {w : Rat} (h : (w :: ws).all (· == w) = true) :
    w :: ws = List.replicate (ws.length + 1) w := by
  have : ∀ x ∈ w :: ws, x = w := by
    intro x hx
    have := List.all_eq_true.1 h x hx
    simpa using this
  exact List.eq_replicate_iff.2 ⟨by simp, this⟩

/-- **C08 (choose law, normalisation)**: for non-negative weights over `k ≥ 1` compatible descriptors the vector handed
to `rng.choice` sums to 1. -/
theorem C08_choose_sums_to_one (ws : List Rat) (hne : ws ≠ []) (hpos : ∀ w ∈ ws, 0 ≤ w) :
    sumRat (chooseProbs ws) = 1 := by
  unfold chooseProbs
  rw [sumRat_map_div]
  have hs : sumRat (trick ws) ≠ 0 := by
    cases ws with
    | nil => exact absurd rfl hne
    | cons w rest =>
      unfold trick
      by_cases hall : (w :: rest).all (· == w) = true
      · simp only [hall, if_true]
        rw [sumRat_map_add_one]
        have := sumRat_nonneg (w :: rest) hpos
        have hl : (0 : Rat) < ((w :: rest).length : Rat) := by simp; positivity
        linarith
      · simp only [hall]
        -- not all equal and all ≥ 0: some entry is positive
        have hnn := sumRat_nonneg (w :: rest) hpos
        intro h0
        -- if the sum is 0 every entry is 0, hence all equal
        have hz : ∀ x ∈ (w :: rest), x = 0 := by
          have : ∀ (l : List Rat), (∀ x ∈ l, 0 ≤ x) → sumRat l = 0 → ∀ x ∈ l, x = 0 := by
            intro l
            induction l with
            | nil => simp
            | cons a l ih =>
              intro hp hsum x hx
              simp only [sumRat, List.foldr_cons] at hsum ih
              have ha := hp a (by simp)
              have hl := sumRat_nonneg l (fun y hy => hp y (by simp [hy]))
              simp only [sumRat] at hl
              have ha0 : a = 0 := by linarith
              have hl0 : List.foldr (fun x1 x2 => x1 + x2) 0 l = 0 := by linarith
              simp only [List.mem_cons] at hx
              rcases hx with rfl | hx
              · exact ha0
              · exact ih (fun y hy => hp y (by simp [hy])) hl0 x hx
          exact this _ hpos (by simpa using h0)
        apply hall
        rw [List.all_eq_true]
        intro x hx
        have := hz x hx
        have hw := hz w (by simp)
        simp [this, hw]
  field_simp

/-- **C08 (choose law, proportional case)**: weights that are not all equal are used as written: `pᵢ = wᵢ / Σ w`. -/
theorem C08_choose_proportional (ws : List Rat) (h : allEq ws = false) :
    chooseProbs ws = ws.map (· / sumRat ws) := by
  cases ws with
  | nil => simp [allEq] at h
  | cons w rest =>
    simp only [allEq] at h
    simp [chooseProbs, trick, h]

/-- **C08 (choose law, equal weights)**: equal weights — including all zero — mean a uniform pick: `pᵢ = 1/k`. -/
theorem C08_choose_uniform (ws : List Rat) (hne : ws ≠ []) (h : allEq ws = true) (hpos : ∀ w ∈ ws, 0 ≤ w) :
    chooseProbs ws = List.replicate ws.length (1 / (ws.length : Rat)) := by
  cases ws with
  | nil => exact absurd rfl hne
  | cons w rest =>
    simp only [allEq] at h
    have hrep := allEq_replicate h
    have hw : 0 ≤ w := hpos w (by simp)
    simp only [chooseProbs, trick, h, if_true]
    rw [sumRat_map_add_one, hrep, sumRat_replicate]
    simp only [List.map_replicate, List.length_replicate]
    congr 1
    have hk : (0 : Rat) < ((rest.length + 1 : Nat) : Rat) := by positivity
    have : ((rest.length + 1 : Nat) : Rat) * w + ((rest.length + 1 : Nat) : Rat) = ((rest.length + 1 : Nat) : Rat) * (w + 1) := by ring
    rw [this]
    have hw1 : w + 1 ≠ 0 := by linarith
    field_simp

/-- **C08 (what `choose_compatible_weight` hands to the generator)**: the options are exactly the compatible indices, the
probabilities are the law above applied to their weights, the returned index is one of the options, has positive
probability (an option with probability zero is never taken), and exactly one `pick` event was consumed. -/
theorem C08_choose_spec {bds : List Desc} {b : Option Desc} {ω ω' : Oracle} {v : Nat} {c : Choice}
    (h : choose bds b ω = .ok (v, c, ω')) :
    c.opts = compatibleIds bds b ∧
    c.probs = chooseProbs ((compatibleIds bds b).map fun i => (bds.getD i default).weight) ∧
    c.res = v ∧ v ∈ compatibleIds bds b ∧ ω = .pick v :: ω' ∧
    (∃ k, posOf v c.opts = some k ∧ 0 < c.probs.getD k 0) := by
  unfold choose at h
  simp only at h
  split at h
  · cases h
  · split at h
    · cases h
    · unfold pickFrom at h
      split at h
      · rename_i w rest
        split at h
        · rename_i k hp
          split at h
          · rename_i hk
            ok_inj h
            obtain ⟨rfl, rfl, rfl⟩ := h
            exact ⟨rfl, rfl, rfl, posOf_mem hp, rfl, k, hp, hk⟩
          · cases h
        · cases h
      · cases h
      · cases h

/-- an empty option list is an error (`ValueError` from `Generator.choice`), never a default -/
theorem C08_no_option_is_error (bds : List Desc) (b : Option Desc) (ω : Oracle) (h : compatibleIds bds b = []) :
    choose bds b ω = .error .noCompatible := by
  simp [choose, h]

/-- **C08 (explicit transition list)**: when the open descriptor carries a list, the partner index is drawn over *all*
descriptors of the object (`0 … len-1`, repeat units first, then end groups) with `listᵢ / weight`. -/
theorem C08_list_spec {l : List Rat} {w : Rat} {ω ω' : Oracle} {v : Nat} {c : Choice}
    (h : chooseList l w ω = .ok (v, c, ω')) :
    c.opts = List.range l.length ∧ c.probs = l.map (· / w) ∧ c.res = v ∧ v < l.length ∧ ω = .pick v :: ω' ∧
    0 < (l.getD v 0) / w := by
  unfold chooseList at h
  simp only at h
  split at h
  · cases h
  · split at h
    · cases h
    · unfold pickFrom at h
      split at h
      · rename_i x rest
        split at h
        · rename_i k hp
          split at h
          · rename_i hk
            ok_inj h
            obtain ⟨rfl, rfl, rfl⟩ := h
            have hm := posOf_mem hp
            have hlt : x < l.length := by simpa using hm
            -- position of x in range is x
            have hpos : ∀ (n s : Nat) (k : Nat), posOf x ((List.range' s n)) = some k → x = s + k := by
              intro n
              induction n with
              | zero => intro s k hk; simp [posOf] at hk
              | succ n ih =>
                intro s k hk
                rw [List.range'_succ] at hk
                unfold posOf at hk
                by_cases hs : s = x
                · simp [hs] at hk; omega
                · simp only [hs, if_false] at hk
                  cases hq : posOf x (List.range' (s + 1) n) with
                  | none => simp [hq] at hk
                  | some k' =>
                    simp [hq] at hk
                    have := ih (s + 1) k' hq
                    omega
            have hk' : x = k := by
              have := hpos l.length 0 k (by rw [← List.range_eq_range']; exact hp)
              omega
            subst hk'
            refine ⟨rfl, rfl, rfl, hlt, rfl, ?_⟩
            simpa [List.getD_eq_getElem?_getD, List.getElem?_map, List.getElem?_eq_getElem hlt] using hk
          · cases h
        · cases h
      · cases h
      · cases h

/-- **C08 (growth)**: the partner of an open descriptor is picked by its explicit list when it has one, otherwise among
the repeat-unit descriptors compatible with it, by their weights. -/
theorem C08_growth_partner (o : Stoch) (start : Desc) (ω : Oracle) :
    pickPartner o start ω =
      match start.trans with
      | some l => chooseList l start.weight ω
      | none => choose (o.repeatBonds.map (·.2.2)) (some start) ω := rfl

/-- **C08 (transfer)**: before the first pick the prefix's single open descriptor takes weight and list of the left
terminal. -/
theorem C08_transfer (o : Stoch) (p : Mol) (op : OpenD) (ω : Oracle) (hop : p.opens = [op])
    (hs : op.d.sym = o.left.sym) (hi : op.d.id = o.left.id) :
    getStart o (some p) ω =
      .ok ({ p with opens := [{ op with d := { op.d with trans := o.left.trans, weight := o.left.weight } }] }, [], ω) := by
  simp [getStart, hop, hs, hi]

/-- **C08 (start)**: without a prefix the start end group is picked among *all* end-group descriptors by weight. -/
theorem C08_start {o : Stoch} {ω ω' : Oracle} {m : Mol} {t : Trace} (h : getStart o none ω = .ok (m, t, ω')) :
    o.left.sym = .none ∧ ∃ c ch tok k d, choose (o.endBonds.map (·.2.2)) none ω = .ok (c, ch, ω') ∧
      o.endBonds[c]? = some (tok, k, d) ∧ tok.bds.length = 1 ∧ newMol tok = .ok m ∧ t = [.choice ch] := by
  unfold getStart at h
  simp only at h
  split at h
  · cases h
  · rename_i hl
    split at h
    · cases h
    · rename_i c ch ω1 hc
      split at h
      · rename_i tok k d he
        split at h
        · cases h
        · rename_i hlen
          split at h
          · cases h
          · rename_i m' hm
            ok_inj h; obtain ⟨rfl, rfl, rfl⟩ := h
            exact ⟨by simpa using hl, c, ch, tok, k, d, hc, he, by simpa using hlen, hm, rfl⟩
      · cases h

/-- **C08 (hand-over)**: a token element following a prefix picks, among its own descriptors compatible with the prefix's
open descriptor, by weight (the auto-inserted `|0|` descriptor is therefore never picked when another compatible
descriptor has positive weight, and is picked with certainty when it is the only one). -/
theorem C08_handover {t : Token} {p : Mol} {ω ω' : Oracle} {m : Mol} {tr : Trace}
    (h : genToken t (some p) ω = .ok (m, tr, ω')) :
    ∃ op j c, p.opens = [op] ∧ choose t.bds (some op.d) ω = .ok (j, c, ω') ∧ attach p 0 t j = .ok m ∧ tr = [.choice c] := by
  unfold genToken at h
  split at h
  · cases h
  · simp only at h
    split at h
    · rename_i op hop
      split at h
      · cases h
      · rename_i j c ω1 hc
        split at h
        · cases h
        · rename_i m' hm
          ok_inj h; obtain ⟨rfl, rfl, rfl⟩ := h
          exact ⟨op, j, c, hop, hc, hm, rfl⟩
    · cases h

-- non-vacuity
example : chooseProbs [2, 6] = [1/4, 3/4] := by decide +kernel
example : chooseProbs [0, 0, 0] = [1/3, 1/3, 1/3] := by decide +kernel
example : chooseProbs [5, 5] = [1/2, 1/2] := by decide +kernel

/-! ## the translated `choose_compatible_weight` -/

theorem chooseSumX_eq (l : List Rat) : chooseSumX l = sumRat l := rfl

/-- the indices (from `n` on) of the entries that satisfy `P` -/
def idsWhere (P : Desc × Nat → Bool) : Nat → List Desc → List Nat
  | _, [] => []
  | n, o :: os => if P (o, n) then n :: idsWhere P (n + 1) os else idsWhere P (n + 1) os

/-- a `for i, x in enumerate(l): if P: acc.append(i)` loop collects exactly the indices where `P` holds, in increasing order -/
theorem foldl_append_idx (P : Desc × Nat → Bool) (bds : List Desc) (n : Nat) (acc : List Nat) :
    (bds.zipIdx n).foldl (fun acc p => if P p then acc ++ [p.2] else acc) acc = acc ++ idsWhere P n bds := by
  induction bds generalizing n acc with
  | nil => simp [idsWhere]
  | cons o os ih =>
    simp only [List.zipIdx_cons, List.foldl_cons, idsWhere]
    rw [ih]
    by_cases h : P (o, n) = true <;> simp [h]

set_option linter.unusedSimpArgs false in
/-- **C08 / C03 (tie by translation: the compatible indices)**: `compatIdsX` is regenerated on every run from the loop of
`get_compatible_bond_descriptor_ids` (core.py); it is the model's `compatibleIds`, the option list of every pick of the generation model
(`choose`): the `bond is None` case and the index order are those of the code as written now; receiver and argument of `is_compatible` may
stand either way round (the relation is symmetric, `C03_symm`). -/
theorem C08_translated_compatIds (bds : List Desc) (b : Option Desc) : compatIdsX bds b = compatibleIds bds b := by
  unfold compatIdsX compatibleIds
  refine (foldl_append_idx _ bds 0 []).trans ?_
  simp only [List.nil_append]
  generalize 0 = n
  cases b with
  | none =>
    simp only [Option.isNone_none, Bool.true_or]
    induction bds generalizing n with
    | nil => rfl
    | cons o os ih => simp [idsWhere, compatibleIdsFrom, ih]
  | some bond =>
    simp only [Option.isNone_some, Bool.false_or]
    induction bds generalizing n with
    | nil => rfl
    | cons o os ih =>
      have hs := C03_symm o bond
      by_cases hc : isCompatible bond o = true <;> simp [idsWhere, compatibleIdsFrom, ih, hc, hs]

/-- **C08 (tie by translation)**: `chooseWeightsX` is regenerated on every run from the source of `choose_compatible_weight`
(`Extracted/Choose.lean`: the statements between the collection of the compatible descriptors' weights and the call of
`rng.choice`).  The vector it hands to `rng.choice` is the model's `chooseProbs`, about which the choice laws above are proved:
they hold of the code as it is written now, not only of the hand-written model. -/
theorem C08_translated_choose (ws : List Rat) : chooseWeightsX ws = chooseProbs ws := by
  cases ws with
  | nil => simp [chooseWeightsX, chooseProbs, trick]
  | cons w t => simp [chooseWeightsX, chooseProbs, trick, chooseSumX_eq]

end GBS
