import GBS.Model.Mixture
import GBS.Extracted.Mixture
import Mathlib.Tactic.Ring
import Mathlib.Tactic.FieldSimp
import Mathlib.Tactic.Linarith
import Mathlib.Algebra.Order.Field.Rat
/-!
# C12 — mixture bookkeeping

About `estimate`, the line-by-line model of `_estimate_system_molecular_weight` and the `Mixture` setters
(exact rationals; the code's `1e-6` tolerances are exact comparisons).
-/
namespace GBS

/-- what `Mixture.system_mass = w` does to one mixture -/
theorem setSys_spec {m m' : Mix} {w : Rat} (h : setSys m w = .ok m') :
    0 ≤ w ∧ m'.sys = some w ∧
    (∀ p, m.rel = some p → m'.rel = some p ∧ m'.abs = some (p / 100 * w)) ∧
    (m.rel = none → ∀ a, m.abs = some a → w ≠ 0 ∧ m'.abs = some a ∧ m'.rel = some (100 * a / w)) ∧
    (m.rel = none → m.abs = none → m'.rel = none ∧ m'.abs = none) := by
  obtain ⟨a, r, s⟩ := m
  unfold setSys at h
  by_cases hw : w < 0
  · simp [hw] at h
  · have hw' : 0 ≤ w := Rat.not_lt.mp hw
    simp only [hw, if_false] at h
    cases r with
    | some r =>
      simp only at h
      injection h with h; subst h
      refine ⟨hw', rfl, ?_, ?_, ?_⟩
      · intro p hp; simp at hp; subst hp; exact ⟨rfl, rfl⟩
      · intro hn; simp at hn
      · intro hn; simp at hn
    | none =>
      cases a with
      | some a =>
        simp only at h
        by_cases hz : w = 0
        · simp [hz] at h
        · simp only [hz, if_false] at h
          injection h with h; subst h
          refine ⟨hw', rfl, ?_, ?_, ?_⟩
          · intro p hp; simp at hp
          · intro _ a' ha'; simp at ha'; subst ha'; exact ⟨hz, rfl, rfl⟩
          · intro _ hn; simp at hn
      | none =>
        simp only at h
        injection h with h; subst h
        refine ⟨hw', rfl, ?_, ?_, ?_⟩
        · intro p hp; simp at hp
        · intro _ a' ha'; simp at ha'
        · intro _ _; exact ⟨rfl, rfl⟩

/-- after `system_mass = w`: a component that has both a fraction `p` and an absolute mass `a` satisfies `a = p % of w` -/
theorem setSys_consistent {m m' : Mix} {w : Rat} (h : setSys m w = .ok m') :
    ∀ p a, m'.rel = some p → m'.abs = some a → a = p / 100 * w := by
  obtain ⟨-, -, h1, h2, h3⟩ := setSys_spec h
  intro p a hp ha
  cases hr : m.rel with
  | some r =>
    obtain ⟨e1, e2⟩ := h1 r hr
    rw [e1] at hp; rw [e2] at ha
    injection hp with hp; injection ha with ha; subst hp; subst ha; rfl
  | none =>
    cases hab : m.abs with
    | some a0 =>
      obtain ⟨hz, e1, e2⟩ := h2 hr a0 hab
      rw [e2] at hp; rw [e1] at ha
      injection hp with hp; injection ha with ha; subst hp; subst ha
      field_simp
    | none =>
      obtain ⟨e1, -⟩ := h3 hr hab
      rw [e1] at hp; cases hp

/-- the final loop sets the same system mass on every component -/
theorem setAll_true {w : Rat} {ms r : List (Option Mix)} (h : setAll w ms = .ok (true, r)) :
    ∀ x ∈ r, ∃ m m', x = some m' ∧ setSys m w = .ok m' := by
  induction ms generalizing r with
  | nil =>
    unfold setAll at h
    injection h with h; injection h with h1 h2; subst h2
    intro x hx; cases hx
  | cons x xs ih =>
    cases x with
    | none => unfold setAll at h; injection h with h; injection h with h1 h2; cases h1
    | some m =>
      unfold setAll at h
      split at h
      · cases h
      · rename_i m' hm
        split at h
        · cases h
        · rename_i b r' hr
          injection h with h; injection h with h1 h2; subst h1; subst h2
          intro y hy
          simp only [List.mem_cons] at hy
          rcases hy with rfl | hy
          · exact ⟨m, m', rfl, hm⟩
          · exact ih hr y hy

/-- the system mass that the final loop uses is the first estimate: the caller's value when there is one -/
theorem est_head_caller (M : Option Rat) (l1 l2 : List Rat) (w : Rat) (rest : List Rat)
    (h : (if truthy M then [M.getD 0] else []) ++ l1 ++ l2 = w :: rest) (hM : truthy M = true) : M = some w := by
  cases M with
  | none => simp [truthy] at hM
  | some x =>
    simp only [hM, if_true, Option.getD_some, List.cons_append, List.nil_append, List.cons.injEq] at h
    rw [h.1]

theorem finishAll_true {w : Rat} {ms r : List (Option Mix)} (h : finishAll w ms = .ok (true, r)) :
    (∀ x ∈ r, ∃ m, x = some m ∧ m.sys = some w ∧ 0 ≤ w ∧ ∀ p a, m.rel = some p → m.abs = some a → a = p / 100 * w) ∧
    (∀ fs, allRel r = some fs → fs ≠ [] → absR (sumQ fs - 100) ≤ tol) := by
  unfold finishAll at h
  split at h
  · cases h
  · injection h with h; injection h with h1 h2; cases h1
  · rename_i r' hall
    have key : ∀ x ∈ r', ∃ m, x = some m ∧ m.sys = some w ∧ 0 ≤ w ∧
        ∀ p a, m.rel = some p → m.abs = some a → a = p / 100 * w := by
      intro x hx
      obtain ⟨m, m', rfl, hs⟩ := setAll_true hall x hx
      exact ⟨m', rfl, (setSys_spec hs).2.1, (setSys_spec hs).1, setSys_consistent hs⟩
    split at h
    · rename_i fs hfs
      split at h
      · cases h
      · rename_i hchk
        injection h with h; injection h with h1 h2; subst h2
        refine ⟨key, ?_⟩
        intro fs' hfs' hne
        rw [hfs] at hfs'; injection hfs' with hfs'; subst hfs'
        by_cases hgt : absR (sumQ fs - 100) > tol
        · exact absurd ⟨hne, hgt⟩ hchk
        · exact Rat.not_lt.mp hgt
    · rename_i hnone
      injection h with h; injection h with h1 h2; subst h2
      refine ⟨key, ?_⟩
      intro fs' hfs' _
      rw [hnone] at hfs'; cases hfs'

/-- **C12 (consistency)**: when the system is reported generable there is one system mass `w` such that every component
carries it and every component's absolute mass is its percentage of `w`; the percentages of the components sum to 100
(within the code's 1e-6); and `w` is the caller's value when the caller supplied one. -/
theorem C12_consistent (ms : List (Option Mix)) (M : Option Rat) (r : List (Option Mix))
    (h : estimate ms M = .ok (true, r)) :
    ∃ w,
      (∀ x ∈ r, ∃ m, x = some m ∧ m.sys = some w ∧ 0 ≤ w ∧ ∀ p a, m.rel = some p → m.abs = some a → a = p / 100 * w) ∧
      (∀ fs, allRel r = some fs → fs ≠ [] → absR (sumQ fs - 100) ≤ tol) ∧
      (truthy M = true → M = some w) := by
  unfold estimate at h
  split at h
  · cases h
  · rename_i nf tf ms1 hstep
    unfold finish at h
    split at h
    · cases h
    · split at h
      · cases h
      · split at h
        · injection h with h; injection h with h1 h2; cases h1
        · rename_i w rest hest
          obtain ⟨k1, k2⟩ := finishAll_true h
          exact ⟨w, k1, k2, fun hM => est_head_caller M _ _ w rest hest hM⟩

/-- **C12 (under-determined)**: without any candidate for the system mass the answer is "not generable", never masses. -/
theorem C12_underdetermined (ms : List (Option Mix)) (M : Option Rat) (b : Bool) (r : List (Option Mix))
    (h : estimate ms M = .ok (b, r))
    (hno : ∀ nf tf ms', step1 (tally ms).1 (tally ms).2.1 ms = .ok (nf, tf, ms') →
      estList M ms' (tally ms).2.2.1 (tally ms).2.2.2 = []) : b = false := by
  unfold estimate at h
  split at h
  · cases h
  · rename_i nf tf ms1 hstep
    have he := hno nf tf ms1 hstep
    unfold finish at h
    split at h
    · cases h
    · split at h
      · cases h
      · rw [he] at h
        simp only at h
        injection h with h; injection h with h1 h2; exact h1.symm

/-- **C12 (rejects)**: once all fractions are known, fractions that do not sum to 100 are never accepted — this is
the fixed behaviour (`fix:` commit in /repo): before it, `estimate [30 %, 100, 200] (some 1000)` was generable with
fractions 30 / 10 / 20. -/
theorem C12_formerly_accepted_now_rejected :
    estimate [some { rel := some 30 }, some { abs := some 100 }, some { abs := some 200 }] (some 1000)
      = .error .fractionsAfter := by decide +kernel

/-- percentages that sum to more than 100 (all components given in percent) are rejected -/
theorem C12_rejects_over_100 : estimate [some { rel := some 70 }, some { rel := some 50 }] none = .error .fractionSum := by
  decide +kernel

/-- a negative remainder for the one unspecified component is rejected -/
theorem C12_rejects_negative_remainder :
    estimate [some { rel := some 70 }, some { rel := some 50 }, none] none = .error .badWeight := by decide +kernel

/-- a caller mass that contradicts the sum of absolute masses is rejected -/
theorem C12_rejects_contradicting_caller_mass :
    estimate [some { abs := some 100 }, some { abs := some 200 }] (some 1000) = .error .inconsistent := by decide +kernel

/-- **C12 (under-determined)**: only percentages and no caller mass: nothing fixes the scale; reported not generable. -/
theorem C12_underdetermined_example :
    (estimate [some { rel := some 30 }, some { rel := some 70 }] none).map (·.1) = .ok false := by decide +kernel

/-- **C12 (completeness fails — recorded finding `determined-but-refused`)**: `[30 %, 100, 200]` without caller mass has
the unique solution `M = 3000/7`, yet the code reports it not generable; `[100, unspecified]` with caller mass 400
likewise (second component 300). -/
theorem C12_refused_counterexample :
    (estimate [some { rel := some 30 }, some { abs := some 100 }, some { abs := some 200 }] none).map (·.1) = .ok false ∧
    (estimate [some { abs := some 100 }, none] (some 400)).map (·.1) = .ok false := by
  constructor <;> decide +kernel

-- non-vacuity of `C12_consistent`: the README system `90 %` + `50000`
example : (match estimate [some { rel := some 90 }, some { abs := some 50000 }] none with
    | .ok (true, [some a, some b]) => a.abs == some 450000 && b.rel == some 10 && a.sys == some 500000
    | _ => false) = true := by decide +kernel

/-! ## what the user wrote is preserved -/

/-- the percentage a user wrote on a component is still there -/
def KeepRel (x y : Option Mix) : Prop := ∀ m, x = some m → ∃ m', y = some m' ∧ ∀ p, m.rel = some p → m'.rel = some p

theorem KeepRel.refl (x : Option Mix) : KeepRel x x := fun m h => ⟨m, h, fun _ hp => hp⟩

theorem KeepRel.trans {x y z : Option Mix} (h1 : KeepRel x y) (h2 : KeepRel y z) : KeepRel x z := by
  intro m hm
  obtain ⟨m', hy, k1⟩ := h1 m hm
  obtain ⟨m'', hz, k2⟩ := h2 m' hy
  exact ⟨m'', hz, fun p hp => k2 p (k1 p hp)⟩

theorem forall₂_refl (l : List (Option Mix)) : List.Forall₂ KeepRel l l := by
  induction l with
  | nil => exact .nil
  | cons x xs ih => exact .cons (KeepRel.refl x) ih

theorem forall₂_trans {a b c : List (Option Mix)} (h1 : List.Forall₂ KeepRel a b) (h2 : List.Forall₂ KeepRel b c) :
    List.Forall₂ KeepRel a c := by
  induction h1 generalizing c with
  | nil => cases h2; exact .nil
  | cons hxy _ ih =>
    cases h2 with
    | cons hyz htl => exact .cons (hxy.trans hyz) (ih htl)

theorem setSys_keepRel {m m' : Mix} {w : Rat} (h : setSys m w = .ok m') : ∀ p, m.rel = some p → m'.rel = some p := by
  intro p hp
  exact ((setSys_spec h).2.2.1 p hp).1

theorem inferRel_keepRel (weight : Rat) : ∀ (ms r : List (Option Mix)), inferRel weight ms = .ok r → List.Forall₂ KeepRel ms r := by
  intro ms
  induction ms with
  | nil => intro r h; simp [inferRel] at h; subst h; exact .nil
  | cons x xs ih =>
    intro r h
    cases x with
    | none =>
      simp only [inferRel] at h
      split at h
      · cases h
      · rename_i r' hr'
        cases h
        exact .cons (fun m hm => by cases hm) (ih _ hr')
    | some m =>
      simp only [inferRel] at h
      split at h
      · cases h
      · rename_i m' hm'
        split at h
        · cases h
        · rename_i r' hr'
          cases h
          refine .cons ?_ (ih _ hr')
          intro m0 hm0
          cases hm0
          refine ⟨m', rfl, ?_⟩
          intro p hp
          rw [hp] at hm'
          simp at hm'
          cases hm'
          exact hp

theorem setAll_keepRel (w : Rat) : ∀ (ms r : List (Option Mix)) (b : Bool), setAll w ms = .ok (b, r) → List.Forall₂ KeepRel ms r := by
  intro ms
  induction ms with
  | nil => intro r b h; simp [setAll] at h; obtain ⟨-, rfl⟩ := h; exact .nil
  | cons x xs ih =>
    intro r b h
    cases x with
    | none =>
      simp only [setAll] at h
      cases h
      exact forall₂_refl _
    | some m =>
      simp only [setAll] at h
      split at h
      · cases h
      · rename_i m' hm'
        split at h
        · cases h
        · rename_i b' r' hr'
          cases h
          refine .cons ?_ (ih _ _ hr')
          intro m0 hm0
          cases hm0
          exact ⟨m', rfl, setSys_keepRel hm'⟩

/-- **C12 (every percentage the user wrote is preserved)**, whatever the answer (generable or not): position by position,
a component that carried a percentage carries the same percentage after the bookkeeping. -/
theorem C12_percentages_preserved (ms : List (Option Mix)) (M : Option Rat) (b : Bool) (r : List (Option Mix))
    (h : estimate ms M = .ok (b, r)) : List.Forall₂ KeepRel ms r := by
  unfold estimate at h
  split at h
  · cases h
  · rename_i nf tf ms1 hstep
    have h1 : List.Forall₂ KeepRel ms ms1 := by
      unfold step1 at hstep
      split at hstep
      · split at hstep
        · cases hstep
        · split at hstep
          · cases hstep
          · rename_i ms' hinf
            cases hstep
            exact inferRel_keepRel _ _ _ hinf
      · cases hstep; exact forall₂_refl _
    refine forall₂_trans h1 ?_
    unfold finish at h
    split at h
    · cases h
    · split at h
      · cases h
      · split at h
        · cases h; exact forall₂_refl _
        · unfold finishAll at h
          split at h
          · cases h
          · rename_i r' hset
            cases h
            exact setAll_keepRel _ _ _ _ hset
          · rename_i r' hset
            split at h
            · split at h
              · cases h
              · cases h; exact setAll_keepRel _ _ _ _ hset
            · cases h; exact setAll_keepRel _ _ _ _ hset


/-- the absolute mass a user wrote on a component without percentage is still there -/
def KeepAbs (x y : Option Mix) : Prop := ∀ m, x = some m → m.rel = none → ∃ m', y = some m' ∧ m'.abs = m.abs

theorem setAll_keepAbs (w : Rat) : ∀ (ms r : List (Option Mix)) (b : Bool), setAll w ms = .ok (b, r) → List.Forall₂ KeepAbs ms r := by
  intro ms
  induction ms with
  | nil => intro r b h; simp [setAll] at h; obtain ⟨-, rfl⟩ := h; exact .nil
  | cons x xs ih =>
    intro r b h
    cases x with
    | none =>
      simp only [setAll] at h
      cases h
      refine .cons (fun m hm => by cases hm) ?_
      clear ih
      induction xs with
      | nil => exact .nil
      | cons y ys ih2 => exact .cons (fun m hm _ => ⟨m, hm, rfl⟩) ih2
    | some m =>
      simp only [setAll] at h
      split at h
      · cases h
      · rename_i m' hm'
        split at h
        · cases h
        · rename_i b' r' hr'
          cases h
          refine .cons ?_ (ih _ _ hr')
          intro m0 hm0 hrel
          cases hm0
          refine ⟨m', rfl, ?_⟩
          obtain ⟨-, -, -, h2, h3⟩ := setSys_spec hm'
          cases hab : m.abs with
          | some a => exact (h2 hrel a hab).2.1
          | none => exact (h3 hrel hab).2

/-- **C12 (absolute masses preserved)**: when no percentage is inferred (the number of components with a percentage is
not all-but-one), a component written with an absolute mass only keeps exactly that mass.  (When the one missing
percentage is inferred, or when the user wrote both, the absolute mass is re-derived as the percentage of the system mass
and `C12_consistent` bounds it through the consistency of the estimates.) -/
theorem C12_absolute_preserved (ms : List (Option Mix)) (M : Option Rat) (b : Bool) (r : List (Option Mix))
    (hni : (tally ms).1 + 1 ≠ ms.length) (h : estimate ms M = .ok (b, r)) : List.Forall₂ KeepAbs ms r := by
  have hrefl : ∀ l : List (Option Mix), List.Forall₂ KeepAbs l l := by
    intro l
    induction l with
    | nil => exact .nil
    | cons y ys ih => exact .cons (fun m hm _ => ⟨m, hm, rfl⟩) ih
  unfold estimate at h
  split at h
  · cases h
  · rename_i nf tf ms1 hstep
    unfold step1 at hstep
    simp only [hni, if_false] at hstep
    cases hstep
    unfold finish at h
    split at h
    · cases h
    · split at h
      · cases h
      · split at h
        · cases h; exact hrefl _
        · unfold finishAll at h
          split at h
          · cases h
          · rename_i r' hset
            cases h
            exact setAll_keepAbs _ _ _ _ hset
          · rename_i r' hset
            split at h
            · split at h
              · cases h
              · cases h; exact setAll_keepAbs _ _ _ _ hset
            · cases h; exact setAll_keepAbs _ _ _ _ hset

-- non-vacuity: `[30 %, 100, unspecified]` with caller mass 1000: 30 % and the mass 100 are still there
example : (match estimate [some { rel := some 30 }, some { abs := some 100 }, none] (some 1000) with
    | .ok (_, [some a, some b, _]) => a.rel == some 30 && b.abs == some 100
    | _ => false) = true := by decide +kernel

/-- **C12 (tie by translation: the linked setters)**: `setSysX` and `setRelX` are regenerated on every run from the statements of
`Mixture.system_mass.setter` and `Mixture.relative_mass.setter` (mixture.py:61-84; `Extracted/Mixture.lean`).  They are the model's
`setSys` and `setRel`, on which `estimate` and every theorem above is built: the link absolute = relative/100 × system is proved of the
setters as they are written now. -/
theorem C12_translated_setSys (m : Mix) (mass : Rat) : setSysX m mass = setSys m mass := by
  unfold setSysX setSys
  split
  · rfl
  · cases hr : m.rel <;> cases ha : m.abs <;> simp

theorem C12_translated_setRel (m : Mix) (f : Rat) : setRelX m f = setRel m f := by
  unfold setRelX setRel
  split
  · rfl
  · cases ha : m.abs with
    | none => simp [truthy]
    | some a =>
      by_cases h0 : a = 0
      · simp [truthy, h0]
      · simp [truthy, h0, C12_translated_setSys]

end GBS
