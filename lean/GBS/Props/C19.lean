import GBS.Model.MolProb
import GBS.Props.C11
import GBS.Props.C09
import GBS.Lemmas.GenBasic
import Mathlib.Tactic.Ring
import Mathlib.Tactic.FieldSimp
/-!
# C19 — ensemble probability of linear directed chains

* `C19_equals_generation_prefix` / `C19_equals_generation_endgroups`: the reported value `chainProb` equals the generation
  probability `genProb` (the product over blocks of `F(n·u) − F((n−1)·u)`) for a prefix-token start, and for an end-group start
  whose end groups are massless (`[H]`) and all found at the ends of the chain (their start probabilities add up to one);
  `chainProb_no_offset`: in general (no start mass inside a block) it is the sum of the matching start probabilities times that product;
* `C19_block_factor`: without start-fragment mass inside a block, the factor of a block with `n` units of mass `u` is
  `F(n·u) − F((n−1)·u)`: the probability that the drawn target falls in the stop interval of unit `n` (C07 / C09) when the law
  has no atom at the cumulative masses;
* `C19_sums_to_one`: these factors telescope: over `n = 1 … N` they add up to `F(N·u) − F(0)` (→ `1 − F(0)`; `F(0)` is the
  probability of a non-positive draw, e.g. for `gauss`);
* `C19_start_mass_counterexample`: the code adds the start end group's mass to block 0, so for a chain started by an end group of
  positive mass the factor is `F(m + n·u) − F(m + (n−1)·u)` and the sum over lengths is `F(m + N·u) − F(m)`: the mass below `m` is
  lost.  **Recorded finding** (`end-group-start-mass-counted`): repairing it changes the value pinned by the existing test
  `test_mol_prob[{[][<]C(N)C[>]; [<][H], [>]CO []}|uniform(500, 600)|-0.38029-2]`, so it is not a fix a commit may make here.
-/
namespace GBS
open GBS.C11 Finset

/-- **C19 (block factor)** -/
theorem C19_block_factor (s : StartFrag) (i : Nat) (b : ChainBlock) (h : ¬ (i = 0 ∧ s.intoBlock0 = true)) :
    blockPoints s i b = ((b.n : Rat) * b.u, ((b.n : Int) - 1 : Int) * b.u) := by
  unfold blockPoints
  have : (if i = 0 ∧ s.intoBlock0 = true then s.mass else 0) = 0 := by simp [h]
  simp only [this, zero_add]

/-- **C19 (sums to one)**: block factors over all lengths telescope -/
theorem C19_sums_to_one (L : Law) (u : ℚ) (N : ℕ) :
    ∑ n ∈ range N, L.prob (((n + 1 : ℕ) : ℚ) * u) ((n : ℚ) * u) = L.cdf ((N : ℚ) * u) - L.cdf 0 := by
  have := C11_telescope L (fun k => (k : ℚ) * u) N
  simpa using this

/-- with a start mass `m` inside block 0 the lengths add up to `F(m + N u) − F(m)` only -/
theorem C19_start_mass_sum (L : Law) (u m : ℚ) (N : ℕ) :
    ∑ n ∈ range N, L.prob (m + ((n + 1 : ℕ) : ℚ) * u) (m + (n : ℚ) * u) = L.cdf (m + (N : ℚ) * u) - L.cdf m := by
  have := C11_telescope L (fun k => m + (k : ℚ) * u) N
  simpa using this

/-- **C19 (counterexample)**: uniform(0, 500), start end group of mass 72, unit mass 43: the reported probabilities of all chain
lengths up to 20 add up to `1 − 72/500` instead of 1 -/
theorem C19_start_mass_counterexample :
    ∑ n ∈ range 20, (uniformLaw 0 500 (by norm_num)).prob (72 + ((n + 1 : ℕ) : ℚ) * 43) (72 + (n : ℚ) * 43) = 1 - 72 / 500 := by
  rw [C19_start_mass_sum]
  simp only [uniformLaw, uniformCdf]
  norm_num

/-- **C19 (mass at or below zero)**: the generator produces one unit exactly for the targets below the first cumulative mass
(`C09_stop_interval` at index 0: no lower bound), while the reported factor of a one-unit block is `F(u) − F(0)`: they differ by
`F(0)`.  **Recorded finding** (`mass-at-or-below-zero-not-counted`) for laws with `F(0) > 0`. -/
theorem C19_one_unit_targets (as : List Rat) (hs : as.Pairwise (· < ·)) (T : Rat) (h0 : 0 < as.length) :
    unitsFor as T = 1 ↔ as[0] > T := by
  have := C09_stop_interval as hs T 0 h0
  simpa using this

theorem C19_one_unit_factor_gap (L : Law) (u : ℚ) : L.cdf u - L.prob u 0 = L.cdf 0 := by
  unfold Law.prob; ring

/-- the model marks exactly the start fragments that are end groups of a stochastic first element -/
theorem C19_model_offset (s : StartFrag) (b : ChainBlock) (h : s.intoBlock0 = true) :
    (blockPoints s 0 b).1 = s.mass + b.n * b.u := by
  simp [blockPoints, h]

end GBS

namespace GBS

/-- start probabilities of the matched end groups of a stochastic first element are the weight shares -/
theorem C19_start_probability (cands : List (Rat × Rat × Bool)) (s : StartFrag) (h : s ∈ startFrags false cands) :
    ∃ c ∈ cands, c.2.2 = true ∧ s.prob = c.1 / sumRat (cands.map (·.1)) ∧ s.mass = c.2.1 ∧ s.intoBlock0 = true := by
  unfold startFrags at h
  simp only [Bool.false_eq_true, if_false, List.mem_filterMap] at h
  obtain ⟨⟨w, m, ok⟩, hc, hs⟩ := h
  refine ⟨(w, m, ok), hc, ?_⟩
  cases ok <;> simp at hs
  subst hs
  exact ⟨rfl, rfl, rfl, rfl⟩

/-- a prefix token starts with probability 1 and its mass never enters a block -/
theorem C19_prefix_start (cands : List (Rat × Rat × Bool)) (s : StartFrag) (h : s ∈ startFrags true cands) :
    s.prob = 1 ∧ s.intoBlock0 = false := by
  unfold startFrags at h
  simp only [if_true, List.mem_filterMap] at h
  obtain ⟨⟨w, m, ok⟩, -, hs⟩ := h
  cases ok <;> simp at hs
  subst hs
  exact ⟨rfl, rfl⟩

/-- non-vacuity / worked example: the pinned test molecule `{[][<]C(N)C[>]; [<][H], [>]CO []}`, 14 units -/
example : chainPoints (startFrags false [(1, 0, true), (1, 2801/100, true)]) [{ n := 14, u := 38029/1000 }] =
    [(1/2, [(532406/1000, 494377/1000)]), (1/2, [(2801/100 + 532406/1000, 2801/100 + 494377/1000)])] := by decide +kernel


/-- the factor of block `i` in the generation probability: the law's mass between the cumulative block masses before and after
the last unit -/
def blockFactor (F : Nat → Rat → Rat) (i : Nat) (b : ChainBlock) : Rat := F i (b.n * b.u) - F i ((b.n - 1 : Int) * b.u)

/-- probability that generation gives these block sizes -/
def genProb (F : Nat → Rat → Rat) (blocks : List ChainBlock) : Rat :=
  ((withIdx blocks).map fun (i, b) => blockFactor F i b).foldl (· * ·) 1

theorem withIdx_map_withIdx {α β} (l : List α) (g : Nat × α → β) :
    withIdx ((withIdx l).map g) = (withIdx l).map fun p => (p.1, g p) := by
  apply List.ext_getElem?
  intro k
  rw [withIdx_getElem?, List.getElem?_map, List.getElem?_map, withIdx_getElem?]
  cases l[k]? <;> simp

theorem blockPoints_zero (s : StartFrag) (h : s.intoBlock0 = false ∨ s.mass = 0) (i : Nat) (b : ChainBlock) :
    blockPoints s i b = ((b.n : Rat) * b.u, ((b.n : Int) - 1 : Int) * b.u) := by
  unfold blockPoints
  have : (if i = 0 ∧ s.intoBlock0 = true then s.mass else 0) = 0 := by
    rcases h with h | h
    · simp [h]
    · split <;> simp [h]
  simp only [this, zero_add]

theorem start_term (F : Nat → Rat → Rat) (s : StartFrag) (h : s.intoBlock0 = false ∨ s.mass = 0) (blocks : List ChainBlock) :
    ((withIdx ((withIdx blocks).map fun (i, b) => blockPoints s i b)).map fun (i, (v, pr)) => F i v - F i pr).foldl (· * ·) 1 =
      genProb F blocks := by
  unfold genProb
  rw [withIdx_map_withIdx, List.map_map]
  congr 1
  apply List.map_congr_left
  intro p _
  obtain ⟨i, b⟩ := p
  simp only [Function.comp, blockPoints_zero s h i b, blockFactor]

theorem sumRat_map_mul_right (l : List Rat) (c : Rat) : sumRat (l.map (· * c)) = sumRat l * c := by
  induction l with
  | nil => simp [sumRat]
  | cons a l ih =>
    simp only [List.map_cons, sumRat, List.foldr_cons] at ih ⊢
    rw [ih]; ring

/-- without start mass inside a block, the reported value is (sum of the start probabilities) × the generation probability -/
theorem chainProb_no_offset (F : Nat → Rat → Rat) (starts : List StartFrag) (blocks : List ChainBlock)
    (h : ∀ s ∈ starts, s.intoBlock0 = false ∨ s.mass = 0) :
    chainProb F starts blocks = sumRat (starts.map (·.prob)) * genProb F blocks := by
  unfold chainProb chainPoints
  rw [List.map_map]
  have : (starts.map ((fun (x : Rat × List (Rat × Rat)) => x.1 * ((withIdx x.2).map fun (i, (v, pr)) => F i v - F i pr).foldl (· * ·) 1) ∘
      fun s => (s.prob, (withIdx blocks).map fun (i, b) => blockPoints s i b))) = (starts.map (·.prob)).map (· * genProb F blocks) := by
    rw [List.map_map]
    apply List.map_congr_left
    intro s hs
    simp only [Function.comp]
    rw [start_term F s (h s hs) blocks]
  rw [this, sumRat_map_mul_right]


theorem sumRat_map_div_const (l : List Rat) (c : Rat) : sumRat (l.map (· / c)) = sumRat l / c := by
  induction l with
  | nil => simp [sumRat]
  | cons a l ih =>
    simp only [List.map_cons, sumRat, List.foldr_cons] at ih ⊢
    rw [ih]; ring

theorem filterMap_all_ok (l : List (Rat × Rat × Bool)) (tot : Rat) (hall : ∀ c ∈ l, c.2.2 = true) :
    (l.filterMap fun (x : Rat × Rat × Bool) =>
      if x.2.2 = true then some ({ prob := x.1 / tot, mass := x.2.1, intoBlock0 := true } : StartFrag) else none) =
    l.map fun x => ({ prob := x.1 / tot, mass := x.2.1, intoBlock0 := true } : StartFrag) := by
  induction l with
  | nil => rfl
  | cons a l ih =>
    have ha := hall a (by simp)
    simp only [List.filterMap_cons, ha, if_true, List.map_cons]
    rw [ih (fun c hc => hall c (by simp [hc]))]

/-- when every end group of the first object matches an end of the chain, the start probabilities add up to one -/
theorem startFrags_probs (cands : List (Rat × Rat × Bool)) (hall : ∀ c ∈ cands, c.2.2 = true)
    (htot : sumRat (cands.map (·.1)) ≠ 0) : sumRat ((startFrags false cands).map (·.prob)) = 1 := by
  unfold startFrags
  simp only [Bool.false_eq_true, if_false]
  rw [filterMap_all_ok cands _ hall, List.map_map]
  have h2 : (cands.map ((fun (s : StartFrag) => s.prob) ∘ fun x => ({ prob := x.1 / sumRat (cands.map (·.1)), mass := x.2.1, intoBlock0 := true } : StartFrag))) =
      (cands.map (·.1)).map (· / sumRat (cands.map (·.1))) := by
    rw [List.map_map]; rfl
  rw [h2, sumRat_map_div_const]
  field_simp

/-- **C19 (equals the generation probability)**, end-group start: all end groups of the first object are massless (`[H]`) and sit
at the ends of the chain: the reported value is the product of the block factors -/
theorem C19_equals_generation_endgroups (F : Nat → Rat → Rat) (cands : List (Rat × Rat × Bool)) (blocks : List ChainBlock)
    (hall : ∀ c ∈ cands, c.2.2 = true ∧ c.2.1 = 0) (htot : sumRat (cands.map (·.1)) ≠ 0) :
    chainProb F (startFrags false cands) blocks = genProb F blocks := by
  rw [chainProb_no_offset, startFrags_probs cands (fun c hc => (hall c hc).1) htot, one_mul]
  intro s hs
  right
  unfold startFrags at hs
  simp only [Bool.false_eq_true, if_false, List.mem_filterMap] at hs
  obtain ⟨c, hc, hs⟩ := hs
  split at hs
  · injection hs with hs; subst hs; exact (hall c hc).2
  · cases hs

/-- **C19 (equals the generation probability)**, prefix start: the prefix token starts with probability 1 and its mass enters no block -/
theorem C19_equals_generation_prefix (F : Nat → Rat → Rat) (w m : Rat) (blocks : List ChainBlock) :
    chainProb F (startFrags true [(w, m, true)]) blocks = genProb F blocks := by
  have hs : startFrags true [(w, m, true)] = [{ prob := 1, mass := m, intoBlock0 := false }] := by
    simp [startFrags]
  rw [hs, chainProb_no_offset]
  · simp [sumRat]
  · intro s hs'; simp at hs'; subst hs'; left; rfl


end GBS
