import GBS.Lemmas.GenClosed
import Mathlib.Data.List.Nodup
import Mathlib.Data.List.Range
/-!
# C04 — generation only ever bonds compatible, unused descriptors with their bond order

`InvR s R`: every bond of the partially generated molecule `s` is *justified* by two descriptors written
on the tokens of the two residue instances it joins — mutually compatible, prescribing the bond's
order, sitting on the two bonded atoms — and no descriptor (identified by residue instance and position
in its token) is used twice or is both used and still open.  `R` are descriptors temporarily set aside
(the one reserved for the right terminal during capping).

The invariant holds of a fresh `MolGen(token)`, is preserved by `attach_other` and by the four other
ways the generator touches the state, hence (generic theorem `genMol_pres`) of every molecule that
generation returns: for every molecule description, **every** sequence of random choices, every path
(prefix attachment, growth, explicit transition lists, capping, hand-over).
-/
namespace GBS

def IBond.origins (b : IBond) : List (Nat × Nat) := [(b.ia, b.ka), (b.ib, b.kb)]
def OpenD.origin (o : OpenD) : Nat × Nat := (o.inst, o.k)

/-- the bond `b` joins the attachment atoms of descriptor `ka` of instance `ia` and descriptor `kb` of instance `ib`,
which are compatible and prescribe its order -/
def Justified (insts : List Inst) (b : IBond) : Prop :=
  ∃ ia ib da db, insts[b.ia]? = some ia ∧ insts[b.ib]? = some ib ∧
    ia.tok.bds[b.ka]? = some da ∧ ib.tok.bds[b.kb]? = some db ∧
    isCompatible db da = true ∧ b.order = da.order ∧ b.order = db.order ∧
    b.a = da.atom + ia.off ∧ b.b = db.atom + ib.off ∧ b.na = b.ia ∧ b.nb = b.ib

/-- an open descriptor is (up to the weights the left terminal may have transferred onto it) a descriptor written
on the token of its residue instance, shifted to that instance's atoms -/
def ValidOpen (insts : List Inst) (o : OpenD) : Prop :=
  ∃ i d, insts[o.inst]? = some i ∧ i.tok.bds[o.k]? = some d ∧
    o.d.sym = d.sym ∧ o.d.id = d.id ∧ o.d.order = d.order ∧ o.d.atom = d.atom + i.off ∧ o.node = o.inst

structure InvR (s : Mol) (R : List OpenD) : Prop where
  bonds : ∀ b ∈ s.bonds, Justified s.insts b
  opens : ∀ o ∈ s.opens ++ R, ValidOpen s.insts o
  nodup : (s.bonds.flatMap IBond.origins ++ (s.opens ++ R).map OpenD.origin).Nodup

theorem getElem?_append_some {α} {l : List α} {i : Nat} {a : α} (x : List α) (h : l[i]? = some a) :
    (l ++ x)[i]? = some a := by
  have hi : i < l.length := by
    cases hl : decide (i < l.length) with
    | true => exact of_decide_eq_true hl
    | false =>
      have : ¬ i < l.length := of_decide_eq_false hl
      rw [List.getElem?_eq_none (by omega)] at h; cases h
  rw [List.getElem?_append_left hi]; exact h

theorem Justified.mono {insts : List Inst} {b : IBond} (x : List Inst) (h : Justified insts b) :
    Justified (insts ++ x) b := by
  obtain ⟨ia, ib, da, db, h1, h2, h3⟩ := h
  exact ⟨ia, ib, da, db, getElem?_append_some x h1, getElem?_append_some x h2, h3⟩

theorem ValidOpen.mono {insts : List Inst} {o : OpenD} (x : List Inst) (h : ValidOpen insts o) :
    ValidOpen (insts ++ x) o := by
  obtain ⟨i, d, h1, h2⟩ := h
  exact ⟨i, d, getElem?_append_some x h1, h2⟩

theorem ValidOpen.inst_lt {insts : List Inst} {o : OpenD} (h : ValidOpen insts o) : o.inst < insts.length := by
  obtain ⟨i, d, h1, -⟩ := h
  cases hl : decide (o.inst < insts.length) with
  | true => exact of_decide_eq_true hl
  | false =>
    have : ¬ o.inst < insts.length := of_decide_eq_false hl
    rw [List.getElem?_eq_none (by omega)] at h1; cases h1

/-- the origins of a fresh copy placed as instance `n` -/
theorem fresh_origins (t : Token) (off node n : Nat) :
    (t.opens off node n).map OpenD.origin = (List.range t.bds.length).map (fun k => (n, k)) := by
  apply List.ext_getElem?
  intro k
  simp only [List.getElem?_map, Token.opens_getElem?, List.getElem?_range]
  by_cases hk : k < t.bds.length
  · simp [List.getElem?_eq_getElem hk, OpenD.origin, hk]
  · simp [List.getElem?_eq_none (Nat.le_of_not_lt hk), hk]

theorem InvR.new {t : Token} {m : Mol} (h : newMol t = .ok m) : InvR m [] := by
  obtain ⟨-, rfl⟩ := newMol_ok h
  refine ⟨by simp, ?_, ?_⟩
  · intro o ho
    simp only [List.append_nil] at ho
    obtain ⟨k, hk⟩ := List.getElem?_of_mem ho
    rw [Token.opens_getElem?] at hk
    cases hd : t.bds[k]? with
    | none => simp [hd] at hk
    | some d =>
      simp only [hd, Option.map_some, Option.some.injEq] at hk
      subst hk
      exact ⟨⟨t, 0⟩, d, by simp, hd, rfl, rfl, rfl, rfl, rfl⟩
  · simp only [List.flatMap_nil, List.nil_append, List.append_nil]
    rw [fresh_origins]
    exact (List.nodup_range (n := t.bds.length)).map (fun a b hab => by simpa using hab)

theorem InvR.attach {s : Mol} {R : List OpenD} {i : Nat} {t : Token} {j : Nat} {s' : Mol}
    (hs : InvR s R) (h : GBS.attach s i t j = .ok s') : InvR s' R := by
  obtain ⟨-, o, d, ho, hd, hc, rfl⟩ := attach_ok h
  have hmem : o ∈ s.opens := List.mem_of_getElem? ho
  have hvo : ValidOpen s.insts o := hs.opens o (List.mem_append_left _ hmem)
  have hperm : s.opens.Perm (o :: s.opens.eraseIdx i) := perm_cons_eraseIdx ho
  obtain ⟨n, hn⟩ : ∃ n, n = s.insts.length := ⟨_, rfl⟩
  obtain ⟨fresh, hfresh⟩ : ∃ fresh, fresh = t.opens s.natoms n n := ⟨_, rfl⟩
  rw [← hn, ← hfresh]
  have hfj : fresh[j]? = some { d := { d with atom := d.atom + s.natoms }, node := n, inst := n, k := j } := by
    simp [hfresh, Token.opens_getElem?, hd]
  have hpermf : fresh.Perm (_ :: fresh.eraseIdx j) := perm_cons_eraseIdx hfj
  refine ⟨?_, ?_, ?_⟩
  · -- bonds
    intro b hb
    simp only [List.mem_append, List.mem_singleton] at hb
    rcases hb with hb | rfl
    · exact (hs.bonds b hb).mono _
    · obtain ⟨io, dO, h1, h2, h3, h4, h5, h6, h7⟩ := hvo
      refine ⟨io, ⟨t, s.natoms⟩, dO, d, getElem?_append_some _ h1, by simp [hn], h2, hd, ?_, h5, ?_, h6, rfl, h7, rfl⟩
      · rw [← isCompatible_congr_right d o.d dO h3 h4 h5]; exact hc
      · have := (C03_iff d o.d).1 hc
        exact this.2.2.2.1.symm
  · -- opens
    intro x hx
    simp only [List.mem_append] at hx
    rcases hx with (hx | hx) | hx
    · exact (hs.opens x (List.mem_append_left _ (mem_of_mem_eraseIdx hx))).mono _
    · have hx' : x ∈ fresh := mem_of_mem_eraseIdx hx
      obtain ⟨k, hk⟩ := List.getElem?_of_mem hx'
      rw [hfresh, Token.opens_getElem?] at hk
      cases hdk : t.bds[k]? with
      | none => simp [hdk] at hk
      | some dk =>
        simp only [hdk, Option.map_some, Option.some.injEq] at hk
        subst hk
        exact ⟨⟨t, s.natoms⟩, dk, by simp [hn], hdk, rfl, rfl, rfl, rfl, rfl⟩
    · exact (hs.opens x (List.mem_append_right _ hx)).mono _
  · -- no descriptor used twice
    have hold := hs.nodup
    -- the new list is a permutation of (old list) ++ (origins of the fresh copy)
    have hp : (((s.bonds ++ [({ a := o.d.atom, b := d.atom + s.natoms, order := o.d.order, na := o.node, nb := n, ia := o.inst, ka := o.k, ib := n, kb := j } : IBond)]).flatMap IBond.origins ++
              ((s.opens.eraseIdx i ++ fresh.eraseIdx j) ++ R).map OpenD.origin)).Perm
          ((s.bonds.flatMap IBond.origins ++ (s.opens ++ R).map OpenD.origin) ++ fresh.map OpenD.origin) := by
      have e1 : (s.opens.map OpenD.origin).Perm ((o.inst, o.k) :: (s.opens.eraseIdx i).map OpenD.origin) := by
        simpa [OpenD.origin] using hperm.map OpenD.origin
      have e2 : (fresh.map OpenD.origin).Perm ((n, j) :: (fresh.eraseIdx j).map OpenD.origin) := by
        simpa [OpenD.origin] using hpermf.map OpenD.origin
      obtain ⟨B, hB⟩ : ∃ B, B = s.bonds.flatMap IBond.origins := ⟨_, rfl⟩
      obtain ⟨O, hO⟩ : ∃ O, O = s.opens.map OpenD.origin := ⟨_, rfl⟩
      obtain ⟨E, hE⟩ : ∃ E, E = (s.opens.eraseIdx i).map OpenD.origin := ⟨_, rfl⟩
      obtain ⟨F, hF⟩ : ∃ F, F = fresh.map OpenD.origin := ⟨_, rfl⟩
      obtain ⟨Fe, hFe⟩ : ∃ Fe, Fe = (fresh.eraseIdx j).map OpenD.origin := ⟨_, rfl⟩
      obtain ⟨Rm, hRm⟩ : ∃ Rm, Rm = R.map OpenD.origin := ⟨_, rfl⟩
      rw [← hO, ← hE] at e1
      rw [← hF, ← hFe] at e2
      have lhs : ((s.bonds ++ [({ a := o.d.atom, b := d.atom + s.natoms, order := o.d.order, na := o.node, nb := n, ia := o.inst, ka := o.k, ib := n, kb := j } : IBond)]).flatMap IBond.origins ++
              ((s.opens.eraseIdx i ++ fresh.eraseIdx j) ++ R).map OpenD.origin)
            = B ++ ((o.inst, o.k) :: (n, j) :: (E ++ Fe ++ Rm)) := by
        simp [IBond.origins, hB, hE, hFe, hRm]
      have rhs : (s.bonds.flatMap IBond.origins ++ (s.opens ++ R).map OpenD.origin) ++ fresh.map OpenD.origin
            = B ++ (O ++ Rm ++ F) := by
        simp [hB, hO, hRm, hF]
      rw [lhs, rhs]
      apply List.Perm.append_left
      have step1 : (O ++ Rm ++ F).Perm (((o.inst, o.k) :: E) ++ Rm ++ ((n, j) :: Fe)) :=
        (e1.append_right Rm).append e2
      refine List.Perm.trans ?_ step1.symm
      simp only [List.cons_append]
      refine List.Perm.cons _ ?_
      have step2 : (E ++ Rm ++ (n, j) :: Fe).Perm ((n, j) :: (E ++ Rm ++ Fe)) := List.perm_middle
      refine List.Perm.trans ?_ step2.symm
      refine List.Perm.cons _ ?_
      simp only [List.append_assoc]
      exact List.Perm.append_left E List.perm_append_comm
    refine (List.Perm.nodup_iff hp).2 ?_
    rw [List.nodup_append]
    refine ⟨hold, ?_, ?_⟩
    · rw [hfresh, fresh_origins]
      exact (List.nodup_range (n := t.bds.length)).map (fun a b hab => by simpa using hab)
    · -- fresh origins are new: every old origin has an instance index < n
      intro a ha b hb hab
      subst hab
      rw [hfresh, fresh_origins] at hb
      obtain ⟨k, -, rfl⟩ := List.mem_map.1 hb
      simp only [List.mem_append, List.mem_flatMap, List.mem_map] at ha
      rcases ha with ⟨bd, hbd, hin⟩ | ⟨x, hx, hxe⟩
      · obtain ⟨ia, ib, da, db, h1, h2, -⟩ := hs.bonds bd hbd
        simp only [IBond.origins, List.mem_cons, Prod.mk.injEq, List.mem_nil_iff, or_false] at hin
        rcases hin with ⟨e, -⟩ | ⟨e, -⟩
        · rw [← e, hn, List.getElem?_eq_none (Nat.le_refl _)] at h1; cases h1
        · rw [← e, hn, List.getElem?_eq_none (Nat.le_refl _)] at h2; cases h2
      · have hv := hs.opens x (by simpa [List.mem_append] using hx)
        have hlt := hv.inst_lt
        simp only [OpenD.origin, Prod.mk.injEq] at hxe
        omega

theorem InvR_closed : Closed InvR where
  new := fun _ _ h => InvR.new h
  attach := fun _ _ _ _ _ _ hs h => hs.attach h
  setWT := by
    intro s R op tr w hs hop
    refine ⟨hs.bonds, ?_, ?_⟩
    · intro x hx
      simp only [List.cons_append, List.nil_append, List.mem_cons] at hx
      rcases hx with rfl | hx
      · obtain ⟨i, d, h⟩ := hs.opens op (by simp [hop])
        exact ⟨i, d, h⟩
      · exact hs.opens x (by simp [hop, hx])
    · have := hs.nodup
      simpa [hop, OpenD.origin] using this
  reserve := by
    intro s k o hs hk
    have hperm : s.opens.Perm (o :: s.opens.eraseIdx k) := perm_cons_eraseIdx hk
    refine ⟨hs.bonds, ?_, ?_⟩
    · intro x hx
      simp only [List.mem_append, List.mem_singleton] at hx
      rcases hx with hx | rfl
      · exact hs.opens x (by simpa using mem_of_mem_eraseIdx hx)
      · exact hs.opens _ (by simpa using List.mem_of_getElem? hk)
    · have hn := hs.nodup
      simp only [List.append_nil] at hn
      refine (List.Perm.nodup_iff ?_).2 hn
      apply List.Perm.append_left
      refine List.Perm.map _ ?_
      exact (List.perm_append_comm (l₁ := s.opens.eraseIdx k)).trans (by simpa using hperm.symm)
  release := by
    intro s o hs
    refine ⟨hs.bonds, ?_, ?_⟩
    · intro x hx; exact hs.opens x (by simpa using hx)
    · simpa using hs.nodup

/-- what `attach_other` does when it succeeds: it bonds the attachment atoms of the chosen open descriptor and of
the chosen descriptor of the new residue, which are compatible, with the open descriptor's bond order, and removes
exactly these two descriptors from the open list. -/
theorem C04_attach_sound {s : Mol} {i : Nat} {t : Token} {j : Nat} {s' : Mol} (h : attach s i t j = .ok s') :
    ∃ o d, s.opens[i]? = some o ∧ t.bds[j]? = some d ∧ isCompatible d o.d = true ∧ isCompatible o.d d = true ∧
      o.d.order = d.order ∧
      s'.bonds = s.bonds ++ [{ a := o.d.atom, b := d.atom + s.natoms, order := o.d.order, na := o.node, nb := s.insts.length, ia := o.inst, ka := o.k, ib := s.insts.length, kb := j }] ∧
      s'.opens = s.opens.eraseIdx i ++ (t.opens s.natoms s.insts.length s.insts.length).eraseIdx j := by
  obtain ⟨-, o, d, ho, hd, hc, rfl⟩ := attach_ok h
  refine ⟨o, d, ho, hd, hc, by rw [C03_symm]; exact hc, ?_, rfl, rfl⟩
  exact ((C03_iff d o.d).1 hc).2.2.2.1.symm

/-- **C04 (main)**: in every molecule generation returns — whatever the oracle — every inter-residue bond is justified
by two compatible descriptors of that bond order sitting on the two bonded atoms, and no descriptor is used twice
or both used and still open. -/
theorem C04_invariant {fuel : Nat} (es : List Element) {ω ω' : Oracle} {tr : Trace} {m : Mol}
    (h : genMol fuel es ω = .ok (some m, tr, ω')) :
    (∀ b ∈ m.bonds, Justified m.insts b) ∧ (∀ o ∈ m.opens, ValidOpen m.insts o) ∧
    (m.bonds.flatMap IBond.origins ++ m.opens.map OpenD.origin).Nodup := by
  have := genMol_pres InvR_closed es h
  exact ⟨this.bonds, fun o ho => this.opens o (by simpa using ho), by simpa using this.nodup⟩

/-- a positive transition weight on an incompatible descriptor leads to an error, never to a bond: whatever index a
partner pick returns, `attach_other` refuses an incompatible pair. -/
theorem C04_incompatible_is_error (s : Mol) (i : Nat) (t : Token) (j : Nat) (o : OpenD) (d : Desc)
    (ho : s.opens[i]? = some o) (hd : t.bds[j]? = some d) (hg : t.generable = true)
    (hc : isCompatible d o.d = false) : attach s i t j = .error .attachIncompatible := by
  simp [attach, hg, ho, hd, hc]

-- non-vacuity: a concrete generation (prefix token, one repeat unit, capping) satisfies the hypotheses
private def exTok (tid : Nat) (bds : List Desc) : Token := { tid := tid, natoms := 2, mass := 24, bds := bds }
private def exMol : List Element :=
  [.stoch { left := { sym := .none, id := none, order := .unspecified }, right := { sym := .none, id := none, order := .unspecified },
            repeats := [exTok 0 [{ sym := .lt, id := none, order := .single, atom := 0 }, { sym := .gt, id := none, order := .single, atom := 1 }]],
            ends := [exTok 1 [{ sym := .lt, id := none, order := .single, atom := 0 }], exTok 2 [{ sym := .gt, id := none, order := .single, atom := 1 }]],
            hasDist := true }]
example : (match genMol 10 exMol [.pick 0, .draw 10, .pick 0, .pick 1, .pick 0, .pick 1] with
    | .ok (some m, _, []) => m.bonds.length == 2 && m.opens.isEmpty
    | _ => false) = true := by decide +kernel

end GBS

