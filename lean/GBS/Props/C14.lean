import GBS.Model.SysGen
import GBS.Lemmas.GenClosed
import Mathlib.Algebra.BigOperators.Field
import Mathlib.Algebra.BigOperators.Fin
import Mathlib.Tactic.Ring
import Mathlib.Tactic.FieldSimp
import Mathlib.Tactic.Linarith
import Mathlib.Algebra.Order.Field.Rat
import Mathlib.Algebra.Order.BigOperators.Ring.Finset
import Mathlib.Topology.Algebra.Field
import Mathlib.Topology.Algebra.Monoid
import Mathlib.Topology.Instances.Real.Lemmas
/-!
# C14 — generated ensembles and the declared composition by mass

`C14_impl_law`: the component pick uses `pᵢ = relᵢ / Σ rel` (the declared percentage), independent of the molecules'
masses.  With mean molecule masses `m̄ᵢ > 0` the expected mass contributed per pick by component `i` is `pᵢ m̄ᵢ`, so
the long-run mass share is `sᵢ = pᵢ m̄ᵢ / Σ pⱼ m̄ⱼ` (the passage from the expectation per pick to the almost-sure
limit of the realised share is split in two: `C14_realised_share_tendsto` proves, for **every** realised sequence of
picks and molecule masses, that if the pick frequencies tend to `pᵢ` and the sample mean masses to `m̄ᵢ` then the realised
mass share tends to `pᵢ m̄ᵢ / Σ pⱼ m̄ⱼ`; that those two hypotheses hold almost surely for independent picks is the strong
law of large numbers, which is cited, not formalised — `C14_partial`).
`C14_fair_iff`: the shares equal the declared fractions iff `pᵢ ∝ fᵢ / m̄ᵢ`; for the implemented law (`p = f`) iff all
mean masses are equal.  So the property fails on the pinned tree whenever component masses differ: recorded finding
`mass-share-differs-when-molecule-masses-differ`.
-/
namespace GBS
open Finset

/-- **C14 (implemented law)**: what the component pick hands to the generator -/
theorem C14_impl_law {cs : List SysComp} {ω ω' : Oracle} {i : Nat} {c : Choice}
    (h : pickComp cs ω = .ok (i, c, ω')) :
    c.opts = List.range cs.length ∧ c.probs = (cs.map (·.rel)).map (· / sumRat (cs.map (·.rel))) ∧ c.res = i := by
  unfold pickComp at h
  split at h
  · cases h
  · split at h
    · cases h
    · obtain ⟨-, rfl⟩ := pickFrom_mem h
      exact ⟨rfl, rfl, rfl⟩

variable {n : Nat}

/-- long-run mass share of component `i` under selection probabilities `p` and mean molecule masses `m` -/
noncomputable def share (p m : Fin n → ℚ) (i : Fin n) : ℚ := p i * m i / ∑ j, p j * m j

/-- **C14 (fairness criterion)**: for positive mean masses and declared fractions summing to 1, the mass shares equal the
declared fractions iff the selection probabilities are proportional to `fᵢ / m̄ᵢ`. -/
theorem C14_fair_iff (p m f : Fin n → ℚ) (hm : ∀ i, 0 < m i) (hp : ∀ i, 0 ≤ p i) (hS : 0 < ∑ j, p j * m j)
    (hf : ∑ i, f i = 1) :
    (∀ i, share p m i = f i) ↔ ∃ c : ℚ, c ≠ 0 ∧ ∀ i, p i = c * f i / m i := by
  constructor
  · intro h
    refine ⟨∑ j, p j * m j, ne_of_gt hS, ?_⟩
    intro i
    have := h i
    unfold share at this
    have hmi := ne_of_gt (hm i)
    have hs := ne_of_gt hS
    field_simp at this ⊢
    linarith
  · rintro ⟨c, hc, h⟩ i
    have hsum : ∑ j, p j * m j = c := by
      have : ∀ j, p j * m j = c * f j := by
        intro j; rw [h j]; have := ne_of_gt (hm j); field_simp
      simp only [this, ← Finset.mul_sum, hf, mul_one]
    unfold share
    rw [hsum, h i]
    have := ne_of_gt (hm i)
    field_simp

/-- **C14 (the implemented law is fair iff all mean masses are equal)**: with `p = f` (all fractions positive). -/
theorem C14_impl_fair_iff (m f : Fin n → ℚ) (hm : ∀ i, 0 < m i) (hfpos : ∀ i, 0 < f i) (hf : ∑ i, f i = 1) :
    (∀ i, share f m i = f i) ↔ ∀ i j, m i = m j := by
  have hS : 0 < ∑ j, f j * m j := by
    by_cases hn : n = 0
    · subst hn; simp at hf
    · obtain ⟨k, rfl⟩ := Nat.exists_eq_succ_of_ne_zero hn
      apply Finset.sum_pos
      · intro i _; exact mul_pos (hfpos i) (hm i)
      · exact ⟨0, Finset.mem_univ _⟩
  constructor
  · intro h
    have key : ∀ i, m i = ∑ j, f j * m j := by
      intro i
      have := h i
      unfold share at this
      have hs := ne_of_gt hS
      have hfi := ne_of_gt (hfpos i)
      field_simp at this
      exact this
    intro i j; rw [key i, key j]
  · intro h i
    by_cases hn : n = 0
    · subst hn; exact i.elim0
    · have hsum : ∑ j, f j * m j = m i := by
        have : ∀ j, f j * m j = f j * m i := by intro j; rw [h j i]
        simp only [this, ← Finset.sum_mul, hf, one_mul]
      unfold share
      rw [hsum]
      have := ne_of_gt (hm i)
      field_simp

/-- **C14 (counterexample on the pinned tree)**: declared fractions 90 % / 10 %, mean molecule masses 72.15 and 5000
(pentane and a polymer of mass 5000, as in tests/test_system.py): the light component, declared 90 % of the mass, ends
up with about 11.5 % of it. -/
theorem C14_counterexample :
    share (n := 2) ![9/10, 1/10] ![7215/100, 5000] 0 = 12987/112987 ∧ (12987 : ℚ)/112987 < 12/100 := by
  constructor
  · simp [share, Fin.sum_univ_two]; norm_num
  · norm_num

/-! ## from the realised sequence to the limit share -/
section Limit
open Filter Topology

/-- **C14 (realised share)**: `N i t` = number of molecules of component `i` among the first `t` picks, `M i t` = their
total mass.  Whenever the pick frequencies converge to `p` (all positive) and the sample mean masses to `m`, the realised
mass share of every component converges to `pᵢ mᵢ / Σ pⱼ mⱼ` — for every realisation, no probability involved. -/
theorem C14_realised_share_tendsto {n : Nat} (N M : Fin n → ℕ → ℝ) (p m : Fin n → ℝ)
    (hN : ∀ i, Tendsto (fun t : ℕ => N i t / (t : ℝ)) atTop (𝓝 (p i)))
    (hM : ∀ i, Tendsto (fun t : ℕ => M i t / N i t) atTop (𝓝 (m i)))
    (hp : ∀ i, 0 < p i) (hS : 0 < ∑ j, p j * m j) (i : Fin n) :
    Tendsto (fun t : ℕ => M i t / ∑ j, M j t) atTop (𝓝 (p i * m i / ∑ j, p j * m j)) := by
  have hper : ∀ j, Tendsto (fun t : ℕ => M j t / (t : ℝ)) atTop (𝓝 (p j * m j)) := by
    intro j
    have hmul := (hN j).mul (hM j)
    refine hmul.congr' ?_
    have hpos : ∀ᶠ t : ℕ in atTop, 0 < N j t / (t : ℝ) := (hN j).eventually (lt_mem_nhds (hp j))
    filter_upwards [hpos] with t ht
    have hNt : N j t ≠ 0 := by
      intro h0; rw [h0, zero_div] at ht; exact lt_irrefl _ ht
    field_simp
  have hsum : Tendsto (fun t : ℕ => ∑ j, M j t / (t : ℝ)) atTop (𝓝 (∑ j, p j * m j)) :=
    tendsto_finsetSum _ (fun j _ => hper j)
  have hdiv := (hper i).div hsum (ne_of_gt hS)
  refine hdiv.congr' ?_
  filter_upwards [eventually_gt_atTop 0] with t ht
  have : (t : ℝ) ≠ 0 := by exact_mod_cast (Nat.pos_iff_ne_zero.1 ht)
  simp only [Pi.div_apply]
  rw [← Finset.sum_div]
  field_simp

/-- the implemented pick law (`p = f`) with two components of different mean masses: the realised share of the first
tends to a value different from its declared fraction (non-vacuity of the hypotheses: constant sequences
`N i t = f i * t`, `M i t = f i * m i * t`) -/
example : Tendsto (fun t : ℕ => ((9/10 : ℝ) * 72 * t) / ∑ j : Fin 2, (![(9/10 : ℝ) * 72 * t, (1/10 : ℝ) * 5000 * t] j))
    atTop (𝓝 ((9/10 : ℝ) * 72 / ∑ j : Fin 2, ![(9/10 : ℝ), 1/10] j * ![(72 : ℝ), 5000] j)) := by
  have := C14_realised_share_tendsto (n := 2)
    (fun i t => ![(9/10 : ℝ), 1/10] i * t) (fun i t => ![(9/10 : ℝ), 1/10] i * ![(72 : ℝ), 5000] i * t)
    ![(9/10 : ℝ), 1/10] ![(72 : ℝ), 5000]
    (by
      intro i
      refine tendsto_const_nhds.congr' ?_
      filter_upwards [eventually_gt_atTop 0] with t ht
      have : (t : ℝ) ≠ 0 := by exact_mod_cast (Nat.pos_iff_ne_zero.1 ht)
      field_simp)
    (by
      intro i
      refine tendsto_const_nhds.congr' ?_
      filter_upwards [eventually_gt_atTop 0] with t ht
      have : (t : ℝ) ≠ 0 := by exact_mod_cast (Nat.pos_iff_ne_zero.1 ht)
      have hf : (![(9/10 : ℝ), 1/10] i) ≠ 0 := by fin_cases i <;> norm_num
      field_simp)
    (by intro i; fin_cases i <;> norm_num)
    (by simp [Fin.sum_univ_two]; norm_num) 0
  simpa using this

end Limit

end GBS
