import GBS.Model.FF
import Mathlib.Data.List.Basic
/-!
# C20 — force-field typing: cache, assignment, data tables
-/
namespace GBS

/-- the cache remembers the two names it was built from -/
def CacheInv (s : FFCache) : Prop := s.cached = none ∨ s.cached = some (s.gSmarts, s.gNb)

theorem ffCacheStep_inv (s : FFCache) (a b : FName) (h : CacheInv s) : CacheInv (ffCacheStep s a b) := by
  unfold ffCacheStep
  split
  · right; rfl
  · exact h

/-- one call: the object returned is the one built from exactly the two files named in this call -/
theorem ffCacheStep_returns (s : FFCache) (a b : FName) (h : CacheInv s) : (ffCacheStep s a b).cached = some (a, b) := by
  unfold ffCacheStep
  split
  · rfl
  · rename_i hc
    simp only [Bool.or_eq_true, Option.isNone_iff_eq_none, bne_iff_ne, ne_eq, not_or, not_not] at hc
    obtain ⟨⟨h1, h2⟩, h3⟩ := hc
    rcases h with h | h
    · exact absurd h h1
    · rw [h, h2, h3]

/-- **C20 (history-free)**: for every history of typing calls, each call returns the assignment object built from exactly
the rule file and the parameter file named in *that* call (`none` = the bundled default), whatever was called before.
This is the repaired behaviour (`fix:` commit): on the pinned tree the history `[(None, None), (opls.par, ffnonbonded.itp)]`
made the parameter reader open the rule file. -/
theorem C20_cache_refines_pure (calls : List (FName × FName)) (s : FFCache) (h : CacheInv s) :
    (ffRun s calls).2 = calls.map some := by
  induction calls generalizing s with
  | nil => rfl
  | cons c rest ih =>
    obtain ⟨a, b⟩ := c
    simp only [ffRun, List.map_cons, List.cons.injEq]
    exact ⟨ffCacheStep_returns s a b h, ih _ (ffCacheStep_inv s a b h)⟩

theorem C20_cache_from_start (calls : List (FName × FName)) : (ffRun {} calls).2 = calls.map some :=
  C20_cache_refines_pure calls {} (Or.inl rfl)

/-- **C20 (total or error)**: the assignment either has exactly one entry for every atom `0 … n-1`, in order, or it is the
error that carries exactly the partial assignment (the atoms that have a matching rule). -/
theorem C20_assignment_total_or_error (dict : List (Rule × TypeName)) (m : Rule → List Nat) (n : Nat) :
    (∃ d, assign dict m n = .ok d ∧ d.map (·.1) = List.range n ∧ ∀ a t, (a, t) ∈ d → typeOf dict m a = some t) ∨
    (∃ d, assign dict m n = .error d ∧ d.length < n ∧ (∀ a t, (a, t) ∈ d ↔ a < n ∧ typeOf dict m a = some t)) := by
  unfold assign
  simp only
  have hmem : ∀ a t, (a, t) ∈ (List.range n).filterMap (fun a => (typeOf dict m a).map (fun t => (a, t))) ↔
      a < n ∧ typeOf dict m a = some t := by
    intro a t
    simp only [List.mem_filterMap, List.mem_range, Option.map_eq_some_iff, Prod.mk.injEq]
    constructor
    · rintro ⟨a', ha', t', ht', rfl, rfl⟩; exact ⟨ha', ht'⟩
    · rintro ⟨ha, ht⟩; exact ⟨a, ha, t, ht, rfl, rfl⟩
  have hle : ((List.range n).filterMap (fun a => (typeOf dict m a).map (fun t => (a, t)))).length ≤ n := by
    have := List.length_filterMap_le (fun a => (typeOf dict m a).map (fun t => (a, t))) (List.range n)
    simpa using this
  by_cases hlen : ((List.range n).filterMap (fun a => (typeOf dict m a).map (fun t => (a, t)))).length = n
  · left
    refine ⟨_, by simp [hlen], ?_, fun a t h => ((hmem a t).1 h).2⟩
    -- full length: nothing was dropped, so the first components are exactly range n
    have hsub : ((List.range n).filterMap (fun a => (typeOf dict m a).map (fun t => (a, t)))).map (·.1)
        = (List.range n).filter (fun a => (typeOf dict m a).isSome) := by
      induction (List.range n) with
      | nil => rfl
      | cons x xs ih =>
        cases hx : typeOf dict m x with
        | none => simp [List.filterMap_cons, hx, ih]
        | some t => simp [List.filterMap_cons, hx, ih]
    rw [hsub]
    have hl2 : ((List.range n).filter (fun a => (typeOf dict m a).isSome)).length = (List.range n).length := by
      rw [← hsub, List.length_map, hlen, List.length_range]
    exact List.filter_eq_self.2 (List.length_filter_eq_length_iff.1 hl2)
  · right
    refine ⟨_, by simp [hlen], by omega, hmem⟩

/-- **C20 (numbering-free)**: if a renumbering `π` of the atoms carries the match relation along, every atom keeps its type:
ties between equally long rules are broken by the order of the rule file, never by atom numbers. -/
theorem C20_renumbering (dict : List (Rule × TypeName)) (m m' : Rule → List Nat) (π : Nat → Nat)
    (h : ∀ r a, (m r).contains a = (m' r).contains (π a)) (a : Nat) :
    typeOf dict m a = typeOf dict m' (π a) := by
  unfold typeOf rulesFor
  have : (dict.filter fun p => (m p.1).contains a) = dict.filter fun p => (m' p.1).contains (π a) := by
    congr 1; funext p; exact h p.1 a
  rw [this]

/-- the parameter row a rule refers to names the element of the rule's leading atom primitive, with that element's mass
(±0.02): (type exists in ffnonbonded.itp, last row wins) ∧ (leading primitive parses) ∧ (row's atomic number is one of its
alternatives) ∧ (row mass = mass of that element) -/
def massOfZ (z : Nat) : Option Rat := (atomicMasses.find? (·.1 == z)).map (·.2)

def ruleOK (p : TypeName × Rule) : Bool :=
  match lookupLast nbParams p.1 with
  | none => false
  | some (z, mass5) =>
    let lz := leadingZ p.2
    lz.all (·.isSome) && lz.any (· == some z) &&
    (match massOfZ z with
     | some mz => decide ((mass5 : Rat) / 100000 - mz ≤ 2 / 100) && decide (mz - (mass5 : Rat) / 100000 ≤ 2 / 100)
     | none => false)

/-- **C20 (data tables)**: every rule of the extracted `opls.par` refers to an existing row of `ffnonbonded.itp` whose
atomic number is that of the rule's leading atom primitive and whose mass is that element's mass (±0.02).  Re-checked by
the kernel against the files as they are now. -/
theorem C20_table : (oplsRules.filter (fun p => !ruleOK p)).map (fun p => (typeNames.getD p.1 "", p.2)) = [("opls_420", "[$([S-][CH3D4])]".toList)] := by decide +kernel

/-- the one exception is a typo in the bundled data (ELE `O`, symbol `OH`, but the SMARTS starts with `[S-]`): a thiolate
sulfur typed by this rule alone would get oxygen parameters.  Latent: for `C[S-]` a longer sulfur rule wins. -/
theorem C20_table_exception : (typeNames.idxOf? "opls_420").bind (lookupLast nbParams) = some (8, 1599940) ∧
    leadingZ "[$([S-][CH3D4])]".toList = [some 16] := by decide +kernel

/-- every name of the name→id dictionary is found again under its id in the id→name dictionary -/
def idsRoundTrip (tt : List (TypeName × Nat) × List (Nat × TypeName) × Nat) : Bool :=
  tt.1.all (fun p => ((tt.2.1.find? (·.1 == p.2)).map (·.2)) == some p.1)

/-- **C20 (type ids are a faithful indirection)**: on the bundled rule table, going from a rule to its type name, to the
numeric id and back to a name returns the rule's own type (the last line with that rule text): the id tables built by
`_read_smarts_rules` never confuse two types.  (A change that lets two types share an id — e.g. numbering types by the number of
distinct rules read so far — makes Li+ / Na+ come out as K+.) -/
theorem C20_type_ids_roundtrip : idsRoundTrip (readTypes (oplsRules.map (·.1))) = true := by
  decide +kernel

/-- the two rules whose leading primitive is an alternation (`[o,s]`) are typed as oxygen: a sulfur atom matched by them
alone would receive an oxygen mass — not decided by the table (the oracle checks typed molecules) -/
theorem C20_alternation_rules :
    (oplsRules.filter (fun p => (leadingZ p.2).length > 1)).map (fun p => typeNames.getD p.1 "") = ["opls_571", "opls_579"] := by decide +kernel

end GBS

