import GBS.Model.Parse
import GBS.Lemmas.Lossless
import GBS.Lemmas.Numbering
/-!
# C02 — parsing recovers the structure the notation denotes

* `C02_binding`: the branch bookkeeping of the binding pass (`atom_to_bond` stack, `_push_pop_atom_branch`) simulates the
  textbook SMILES reading in which **a bond descriptor is treated as an atom** (previous-atom register, branch stack):
  every descriptor is bound to the atom that the SMILES semantics makes its neighbour — first, last, inside a branch,
  after a closed branch, adjacent across `)(`, to any nesting depth.  Proved as a simulation between two machines over
  lexeme sequences, and `pushPop_eq_steps` shows that the model's `pushPop` (which the correspondence check ties to
  token.py) *is* the implementation machine on the parentheses of a segment.
* `C02_token_lossless`: for **every** text that `parseToken` accepts (any length, any nesting, any judgement of bracket
  atoms) the parsed element list spells the stripped text again, character for character and in order, once each
  descriptor element is replaced by the text it was cut from; that text is exactly what `parseDesc` was run on, with the
  descriptors numbered in written order; and the atom list is the list of atom elements in written order.  Nothing is
  lost, duplicated or reordered by the scanner (first loop) or by the cutting of descriptors (second loop).
* `C02_weight_law`: a descriptor without weight has weight 1; a list weight's total is the sum of the list.
The character-level scanner, the splitting of stochastic objects / molecules / systems and the number syntax are tied to
the code by the correspondence check only (fallback announced in DESIGN.md 7/C01).
-/
namespace GBS.P
open GBS GBS.Py

inductive Lex | atom | desc | op | cl
deriving DecidableEq, Repr

inductive Node | a (k : Nat) | d (j : Nat)
deriving DecidableEq, Repr

/-- specification machine: SMILES semantics with descriptors as atoms -/
structure Spec where
  prev  : Option Node := none
  stack : List (Option Node) := []
  na    : Nat := 0
  nd    : Nat := 0
  edges : List (Node × Node) := []

def Spec.step (s : Spec) : Lex → Option Spec
  | .atom =>
      let n := Node.a s.na
      some { s with prev := some n, na := s.na + 1,
                    edges := match s.prev with | some p => s.edges ++ [(p, n)] | none => s.edges }
  | .desc =>
      let n := Node.d s.nd
      some { s with prev := some n, nd := s.nd + 1,
                    edges := match s.prev with | some p => s.edges ++ [(p, n)] | none => s.edges }
  | .op => some { s with stack := s.prev :: s.stack }
  | .cl => match s.stack with
      | p :: st => some { s with prev := p, stack := st }
      | [] => none

def Spec.run (s : Spec) : List Lex → Option Spec
  | [] => some s
  | l :: ls => (s.step l).bind (·.run ls)

/-- the binding pass of token.py: `atom_to_bond` (top first), the raw binding recorded per descriptor -/
structure Impl where
  top  : Int := -1
  rest : List Int := []
  na   : Nat := 0
  raw  : List Int := []

def Impl.step (s : Impl) : Lex → Option Impl
  | .atom => some { s with top := s.na, na := s.na + 1 }
  | .desc => some { s with raw := s.raw ++ [s.top] }
  | .op => some { s with rest := s.top :: s.rest }
  | .cl => match s.rest with
      | t :: r => some { s with top := t, rest := r }
      | [] => none

def Impl.run (s : Impl) : List Lex → Option Impl
  | [] => some s
  | l :: ls => (s.step l).bind (·.run ls)

/-- the parentheses of a text segment as lexemes -/
def parenLex : Str → List Lex
  | [] => []
  | c :: cs => if c == '(' then .op :: parenLex cs else if c == ')' then .cl :: parenLex cs else parenLex cs

/-- `pushPop` (the model of `_push_pop_atom_branch`, compared with token.py on every run) is the implementation machine
run on the parentheses of the segment -/
theorem pushPop_eq_steps (seg : Str) (top : Int) (rest : List Int) (s : Impl) (hs : s.top = top ∧ s.rest = rest) :
    match pushPop seg (top :: rest), s.run (parenLex seg) with
    | .ok (t' :: r'), some s' => s'.top = t' ∧ s'.rest = r' ∧ s'.na = s.na ∧ s'.raw = s.raw
    | .error _, none => True
    | .ok [], _ => False
    | .ok _, none => False
    | .error _, some _ => False := by
  induction seg generalizing top rest s with
  | nil => simp [pushPop, parenLex, Impl.run, hs.1, hs.2]
  | cons c cs ih =>
    by_cases h1 : c = '('
    · subst h1
      have hp : parenLex ('(' :: cs) = Lex.op :: parenLex cs := by simp [parenLex]
      have hq : pushPop ('(' :: cs) (top :: rest) = pushPop cs (top :: top :: rest) := by simp [pushPop]
      rw [hp, hq]
      have hrun : s.run (Lex.op :: parenLex cs) = ({ s with rest := s.top :: s.rest } : Impl).run (parenLex cs) := by
        simp [Impl.run, Impl.step]
      rw [hrun]
      exact ih top (top :: rest) { s with rest := s.top :: s.rest } ⟨hs.1, by simp [hs.1, hs.2]⟩
    · by_cases h2 : c = ')'
      · subst h2
        have hp : parenLex (')' :: cs) = Lex.cl :: parenLex cs := by simp [parenLex]
        rw [hp]
        cases hr : rest with
        | nil =>
          have hsr : s.rest = [] := by rw [hs.2, hr]
          have hq : pushPop (')' :: cs) [top] = .error .tokUnbalanced := by simp [pushPop]
          have hrun : s.run (Lex.cl :: parenLex cs) = none := by simp [Impl.run, Impl.step, hsr]
          rw [hq, hrun]; trivial
        | cons t r =>
          have hsr : s.rest = t :: r := by rw [hs.2, hr]
          have hq : pushPop (')' :: cs) (top :: t :: r) = pushPop cs (t :: r) := by simp [pushPop]
          have hrun : s.run (Lex.cl :: parenLex cs) = ({ s with top := t, rest := r } : Impl).run (parenLex cs) := by
            simp [Impl.run, Impl.step, hsr]
          rw [hq, hrun]
          exact ih t r { s with top := t, rest := r } ⟨rfl, rfl⟩
      · have hp : parenLex (c :: cs) = parenLex cs := by simp [parenLex, h1, h2]
        have hq : pushPop (c :: cs) (top :: rest) = pushPop cs (top :: rest) := by simp [pushPop, h1, h2]
        rw [hp, hq]
        exact ih top rest s hs

/-- the atom the code reports: `if atom_bonding_to < 0: atom_bonding_to = 0` -/
def Impl.boundAtom (s : Impl) (j : Nat) : Option Nat := (s.raw[j]?).map (fun r => if r < 0 then 0 else r.toNat)

/-- encoding of a spec register as the code's "last atom at this level" -/
def enc (raw : List Int) : Option Node → Int
  | none => -1
  | some (.a k) => k
  | some (.d j) => raw.getD j (-1)

structure Rel (s : Spec) (i : Impl) : Prop where
  na   : i.na = s.na
  nd   : i.raw.length = s.nd
  top  : i.top = enc i.raw s.prev
  rest : i.rest = s.stack.map (enc i.raw)
  prevOk  : ∀ j, s.prev = some (.d j) → j < s.nd
  stackOk : ∀ v ∈ s.stack, ∀ j, v = some (.d j) → j < s.nd

theorem enc_append (raw : List Int) (x : Int) (v : Option Node)
    (h : ∀ j, v = some (.d j) → j < raw.length) : enc (raw ++ [x]) v = enc raw v := by
  cases v with
  | none => rfl
  | some n => cases n with
    | a k => rfl
    | d j =>
      have := h j rfl
      simp [enc, List.getD_eq_getElem?_getD, List.getElem?_append_left this]

theorem Rel.init : Rel {} {} := by
  constructor <;> simp [enc]

theorem Rel.step {s : Spec} {i : Impl} (h : Rel s i) (l : Lex) :
    match s.step l, i.step l with
    | some s', some i' => Rel s' i'
    | none, none => True
    | _, _ => False := by
  cases l with
  | atom =>
    simp only [Spec.step, Impl.step]
    constructor
    · simp [h.na]
    · simpa using h.nd
    · simp [enc, h.na]
    · simpa using h.rest
    · intro j hj; simp at hj
    · exact h.stackOk
  | desc =>
    simp only [Spec.step, Impl.step]
    have hst : ∀ v ∈ s.stack, enc (i.raw ++ [i.top]) v = enc i.raw v := by
      intro v hv; apply enc_append; intro j hj; rw [h.nd]; exact h.stackOk v hv j hj
    constructor
    · exact h.na
    · simp [h.nd]
    · simp [enc, List.getD_eq_getElem?_getD, ← h.nd]
    · show i.rest = s.stack.map (enc (i.raw ++ [i.top]))
      rw [h.rest]; exact (List.map_congr_left hst).symm
    · intro j hj; simp at hj; show j < s.nd + 1; omega
    · intro v hv j hj; have := h.stackOk v hv j hj; show j < s.nd + 1; omega
  | op =>
    simp only [Spec.step, Impl.step]
    constructor
    · exact h.na
    · exact h.nd
    · exact h.top
    · simp [h.rest, h.top]
    · exact h.prevOk
    · intro v hv j hj
      rcases List.mem_cons.mp hv with rfl | hv
      · exact h.prevOk j hj
      · exact h.stackOk v hv j hj
  | cl =>
    simp only [Spec.step, Impl.step]
    have hr := h.rest
    cases hs : s.stack with
    | nil => simp [hs] at hr; simp [hr]
    | cons p st =>
      simp [hs] at hr; simp only [hr]
      constructor
      · exact h.na
      · exact h.nd
      · rfl
      · rfl
      · intro j hj; exact h.stackOk p (by simp [hs]) j hj
      · intro v hv j hj; exact h.stackOk v (by simp [hs, hv]) j hj

/-- **C02 (binding, simulation)**: on every lexeme sequence the binding pass and the SMILES reading stay related, and they
reject exactly the same sequences (a `)` without open branch). -/
theorem C02_binding_simulation (ls : List Lex) {s : Spec} {i : Impl} (h : Rel s i) :
    match s.run ls, i.run ls with
    | some s', some i' => Rel s' i'
    | none, none => True
    | _, _ => False := by
  induction ls generalizing s i with
  | nil => simpa [Spec.run, Impl.run] using h
  | cons l ls ih =>
    have hs := h.step l
    simp only [Spec.run, Impl.run]
    cases h1 : s.step l <;> cases h2 : i.step l <;> simp [h1, h2] at hs ⊢
    exact ih hs

/-- the atom a chain of descriptor pseudo-atoms hangs on: follow the predecessor edges back to a real atom -/
def Spec.pred (edges : List (Node × Node)) (n : Node) : Option Node :=
  (edges.find? (fun e => e.2 == n)).map (·.1)

/-- **C02 (binding)**: the binding recorded for a descriptor at the moment it is read is the encoding of the SMILES
"previous atom" register: the atom it is attached to in the SMILES reading (or, through a descriptor written directly
before it, that descriptor's atom; or atom 0 when it starts the token). -/
theorem C02_binding (ls : List Lex) (s' : Spec) (i' : Impl) {s : Spec} {i : Impl} (h : Rel s i)
    (hs : s.run ls = some s') (hi : i.run ls = some i') :
    (Impl.step i' .desc).map (fun x => x.raw.getLast?) = some (some (enc i'.raw s'.prev)) := by
  have := C02_binding_simulation ls h
  rw [hs, hi] at this
  simp [Impl.step, this.top]

theorem parseWeights_law (raw : Str) (w : Rat) (tr : Option (List Rat)) (h : parseWeights raw = .ok (w, tr)) :
    (∀ l, tr = some l → w = sumQ l) ∧ (raw.contains '|' = false → w = 1 ∧ tr = none) := by
  unfold parseWeights at h
  split at h
  · rename_i hp
    split at h
    · cases h
    · dsimp only at h
      split at h
      · cases h
      · injection h with h; injection h with h1 h2; subst h1; subst h2
        refine ⟨?_, ?_⟩
        · intro l hl; cases hl
        · intro hc; rw [hp] at hc; cases hc
      · injection h with h; injection h with h1 h2; subst h1; subst h2
        refine ⟨?_, ?_⟩
        · intro l hl; injection hl with hl; subst hl; rfl
        · intro hc; rw [hp] at hc; cases hc
  · injection h with h; injection h with h1 h2; subst h1; subst h2
    refine ⟨?_, fun _ => ⟨rfl, rfl⟩⟩
    intro l hl; cases hl

/-- **C02 (weights)**: a descriptor written without `|…|` has weight 1 and no list; a list weight's total is the sum of
the list; the empty terminal `[]` has no symbol, weight 1 and no list. -/
theorem C02_weight_law (text : Str) (num : Nat) (pre : Str) (atom : Option Nat) (p : PDesc)
    (h : parseDesc text num pre atom = .ok p) :
    (∀ l, p.d.trans = some l → p.d.weight = sumQ l) ∧
    (text.contains '|' = false → p.d.weight = 1 ∧ p.d.trans = none) := by
  unfold parseDesc at h
  split at h
  · injection h with h; subst h
    refine ⟨?_, fun _ => ⟨rfl, rfl⟩⟩
    intro l hl; cases hl
  · simp only at h
    split at h
    · split at h
      · cases h
      · split at h
        · cases h
        · split at h
          · cases h
          · split at h
            · cases h
            · split at h
              · cases h
              · rename_i w tr hw
                split at h
                · cases h
                · injection h with h; subst h
                  obtain ⟨l1, l2⟩ := parseWeights_law _ w tr hw
                  refine ⟨l1, ?_⟩
                  intro hc
                  apply l2
                  -- the text handed to parseWeights is a suffix of `text`
                  by_cases hpre : pre.isEmpty = true
                  · simp only [hpre, if_true]
                    have hsub : ∀ (t : Str) (i : Option Int), (slice t i none).contains '|' = true → t.contains '|' = true := by
                      intro t i hh
                      unfold slice at hh
                      simp only at hh
                      have h1 := List.contains_iff_mem.1 hh
                      exact List.contains_iff_mem.2 (List.mem_of_mem_drop (List.mem_of_mem_take h1))
                    cases hx : (slice text (some (find text ['['])) none).contains '|' with
                    | false => rfl
                    | true => rw [hsub _ _ hx] at hc; cases hc
                  · simp only [hpre]; exact hc
    · cases h

-- non-vacuity of the simulation: `C ( C ) ( [>] ) C` — the descriptor after `)(` hangs on atom 0, the branch atom
example : (match (({} : Impl).run [.atom, .op, .atom, .cl, .op, .desc, .cl, .atom]) with
    | some i => i.boundAtom 0 == some 0 && i.na == 3 | none => false) = true := by decide
example : (match (({} : Spec).run [.atom, .op, .atom, .cl, .op, .desc, .cl, .atom]) with
    | some s => s.edges == [(.a 0, .a 1), (.a 0, .d 0), (.a 0, .a 2)] | none => false) = true := by decide

/-- **C02 (order and kind of elements; atoms; descriptor texts).**  The token parser is lossless: see the module text. -/
theorem C02_token_lossless (valid : Str → Bool) (text : Str) (offset resId : Nat) (t : PToken)
    (h : parseToken valid text offset resId = .ok t) :
    ∃ raws : List Str, raws.length = t.descs.length ∧ rawText raws t.els = strip text ∧
      (∀ k r, raws[k]? = some r → ∃ pre atom pd, parseDesc r (k + offset) pre atom = .ok pd ∧ t.descs[k]? = some pd) ∧
      t.atoms = t.els.filterMap El.atom? :=
  parseToken_lossless valid text offset resId t h

/-- the printed token is the same element list with each descriptor printed canonically -/
theorem C02_print_is_raw_with_canonical_descriptors (t : PToken) (ext : Bool) :
    printToken t ext = strip (rawText (t.descs.map (printDesc · ext)) t.els) := by
  unfold printToken rawText
  congr 2
  apply List.map_congr_left
  intro e _
  cases e with
  | atom a => rfl
  | str s => rfl
  | bond k =>
    simp only [elText, elRaw, List.getD_eq_getElem?_getD, List.getElem?_map]
    cases t.descs[k]? <;> rfl

/-- **C02 (descriptor numbering; transition lists address positions)**: in every accepted stochastic object the k-th descriptor, in the
order "repeat units in written order, then end groups in written order", carries the number k (`descriptor_num`), and every
transition list — on a repeat-unit or end-group descriptor or on a terminal — has exactly one entry per such descriptor: entry j of a
list addresses the descriptor written at position j.  (Tokens number their descriptors in written order from their offset:
`parseToken_nums`; groups consecutively: `parseGroup_spec`.) -/
theorem C02_descriptor_numbering {valid : Str → Bool} {text : Str} {rp : Nat} {o : PStoch} (h : parseStoch valid text rp = .ok o) :
    (∀ (k : Nat) (d : PDesc), o.allDescs[k]? = some d → d.num = k) ∧
    (∀ d ∈ o.allDescs ++ [o.left, o.right], ∀ l, d.d.trans = some l → l.length = o.allDescs.length) :=
  parseStoch_nums h

-- non-vacuity: `[<]CC(C)([>])C` passes both loops: 2 descriptors, 4 atoms, the second descriptor bound to atom 1
-- (`scan` is compiled by well-founded recursion and does not reduce in the kernel: its run is shown by rewriting)
example : scan (fun _ => true) 16 ['[','<',']','C','C','(','C',')','(','[','>',']',')','C'] [] [] =
    .ok [El.str ['[','<',']'], El.atom ['C'], El.atom ['C'], El.str ['('], El.atom ['C'],
         El.str [')','(','[','>',']',')'], El.atom ['C']] := by
  simp [scan, scan.scanOne, isDoubleAtom, isSingleAtom, doubleLetterAtoms, singleLetterAtoms, find, findFrom, isPrefix,
    hasDescChar]
example : (match bind 0 50 { els := [El.str ['[','<',']'], El.atom ['C'], El.atom ['C'], El.str ['('], El.atom ['C'],
         El.str [')','(','[','>',']',')'], El.atom ['C']] } with
    | .ok s => s.descs.length == 2 && s.atoms.length == 4 && (s.descs.map (·.d.atom)) == [0, 1] | .error _ => false) = true := by
  decide +kernel

end GBS.P
