import Mathlib.Algebra.BigOperators.Intervals
import Mathlib.Algebra.BigOperators.Ring.Finset
import Mathlib.Algebra.Order.BigOperators.Ring.Finset
import Mathlib.Algebra.Order.Field.Rat
import Mathlib.Algebra.Order.Ring.Rat
import Mathlib.Tactic.Ring
import Mathlib.Tactic.FieldSimp
import Mathlib.Tactic.Linarith
import Mathlib.Tactic.Positivity
import Mathlib.Order.Monotone.Basic
/-!
# C11 — each molecular-weight distribution is one coherent probability law (algebraic part)

`prob_mw(interval) = cdf(value) − cdf(previous)` for an abstract monotone CDF: non-negativity and telescoping
(`C11_interval_nonneg`, `C11_telescope`); the closed form of the Flory–Schulz CDF the code's `a² k (1−a)^(k−1)` sums to,
its bounds and its limit behaviour (`C11_flory_schulz_cdf`, `…_lt_one`, `…_nonneg`, `…_tail`); the uniform law.
`C11_numeric_partial`: that SciPy's binary64 evaluation (`cdf`, `pmf`, the quantile search, `rvs`) realises these laws —
finite draws inside the support, the documented means, normalisation of gauss / Poisson / Schulz–Zimm / log-normal — is
checked numerically by the harness against closed forms on quantile and interval grids; it is not a theorem.
-/
namespace GBS.C11
open Finset

/-- an abstract law: a monotone cumulative distribution function -/
structure Law where
  cdf : ℚ → ℚ
  mono : Monotone cdf

/-- `prob_mw(RememberAdd(value, previous))` -/
def Law.prob (L : Law) (value previous : ℚ) : ℚ := L.cdf value - L.cdf previous

/-- **C11 (interval)**: the probability given to a mass interval is the difference of the CDF at its ends: non-negative -/
theorem C11_interval_nonneg (L : Law) (value previous : ℚ) (h : previous ≤ value) : 0 ≤ L.prob value previous := by
  unfold Law.prob; have := L.mono h; linarith

/-- **C11 (telescoping)**: consecutive intervals add up to the interval between the outer ends -/
theorem C11_telescope (L : Law) (a : ℕ → ℚ) (n : ℕ) :
    ∑ k ∈ range n, L.prob (a (k + 1)) (a k) = L.cdf (a n) - L.cdf (a 0) := by
  unfold Law.prob
  exact Finset.sum_range_sub (fun k => L.cdf (a k)) n

/-- Flory–Schulz probability mass `a² k (1−a)^(k−1)` (distribution.py `flory_schulz_gen._pmf`) -/
def fsPmf (a : ℚ) (k : ℕ) : ℚ := a ^ 2 * k * (1 - a) ^ (k - 1)

/-- **C11 (Flory–Schulz CDF, closed form)**: `Σ_{k=1}^{n} a² k (1−a)^{k−1} = 1 − (1−a)^n (1 + a n)` for all `a`, `n` -/
theorem C11_flory_schulz_cdf (a : ℚ) (n : ℕ) :
    ∑ k ∈ range n, fsPmf a (k + 1) = 1 - (1 - a) ^ n * (1 + a * n) := by
  induction n with
  | zero => simp
  | succ n ih =>
    rw [Finset.sum_range_succ, ih]
    simp only [fsPmf, Nat.add_sub_cancel]
    push_cast
    ring

/-- for `0 < a < 1` the masses are non-negative -/
theorem C11_flory_schulz_pmf_nonneg (a : ℚ) (h0 : 0 < a) (h1 : a < 1) (k : ℕ) : 0 ≤ fsPmf a k := by
  unfold fsPmf
  have : 0 ≤ 1 - a := by linarith
  positivity

/-- … the CDF stays strictly below 1 … -/
theorem C11_flory_schulz_cdf_lt_one (a : ℚ) (h0 : 0 < a) (h1 : a < 1) (n : ℕ) :
    ∑ k ∈ range n, fsPmf a (k + 1) < 1 := by
  rw [C11_flory_schulz_cdf]
  have hp : 0 < (1 - a) ^ n := pow_pos (by linarith) n
  have hq : 0 < 1 + a * (n : ℚ) := by positivity
  have := mul_pos hp hq
  linarith

/-- … and is non-negative and non-decreasing in `n` -/
theorem C11_flory_schulz_cdf_mono (a : ℚ) (h0 : 0 < a) (h1 : a < 1) (n : ℕ) :
    0 ≤ ∑ k ∈ range n, fsPmf a (k + 1) ∧
    ∑ k ∈ range n, fsPmf a (k + 1) ≤ ∑ k ∈ range (n + 1), fsPmf a (k + 1) := by
  constructor
  · exact Finset.sum_nonneg (fun k _ => C11_flory_schulz_pmf_nonneg a h0 h1 (k + 1))
  · rw [Finset.sum_range_succ]
    have := C11_flory_schulz_pmf_nonneg a h0 h1 (n + 1)
    linarith

/-- the missing mass after `n` terms is exactly `(1−a)^n (1 + a n)` (it tends to 0: the total mass is 1) -/
theorem C11_flory_schulz_tail (a : ℚ) (n : ℕ) :
    1 - ∑ k ∈ range n, fsPmf a (k + 1) = (1 - a) ^ n * (1 + a * n) := by
  rw [C11_flory_schulz_cdf]; ring

/-- uniform law on `[low, high]` (`stats.uniform(loc=low, scale=high−low)`) -/
def uniformCdf (low high x : ℚ) : ℚ :=
  if x < low then 0 else if high < x then 1 else (x - low) / (high - low)

theorem C11_uniform_monotone (low high : ℚ) (h : low < high) : Monotone (uniformCdf low high) := by
  intro x y hxy
  unfold uniformCdf
  have hd : 0 < high - low := by linarith
  by_cases h1 : x < low
  · simp only [h1, if_true]
    by_cases h2 : y < low
    · simp [h2]
    · simp only [h2, if_false]
      by_cases h3 : high < y
      · simp [h3]
      · simp only [h3, if_false]
        apply div_nonneg <;> linarith
  · have h2 : ¬ y < low := by intro hh; apply h1; linarith
    simp only [h1, h2, if_false]
    by_cases h3 : high < x
    · have h4 : high < y := by linarith
      simp [h3, h4]
    · simp only [h3, if_false]
      by_cases h4 : high < y
      · simp only [h4, if_true]
        rw [div_le_one hd]; linarith
      · simp only [h4, if_false]
        apply div_le_div_of_nonneg_right _ (le_of_lt hd)
        linarith

/-- support: no mass below `low`, all mass at `high` -/
theorem C11_uniform_support (low high : ℚ) (h : low < high) :
    (∀ x, x ≤ low → uniformCdf low high x = 0) ∧ (∀ x, high ≤ x → uniformCdf low high x = 1) := by
  have hd : high - low ≠ 0 := by linarith
  constructor
  · intro x hx
    unfold uniformCdf
    by_cases h1 : x < low
    · simp [h1]
    · have : x = low := by linarith
      subst this
      simp [h1, not_lt.mpr (le_of_lt h)]
  · intro x hx
    unfold uniformCdf
    have h1 : ¬ x < low := by intro hh; linarith
    by_cases h2 : high < x
    · simp [h1, h2]
    · have : x = high := by linarith
      subst this
      simp only [h1, h2, if_false]
      field_simp

/-- the uniform law as a `Law` -/
def uniformLaw (low high : ℚ) (h : low < high) : Law := ⟨uniformCdf low high, C11_uniform_monotone low high h⟩

/-- `prob_mw` of an interval inside the support is its length over the width -/
theorem C11_uniform_interval (low high : ℚ) (h : low < high) (p v : ℚ) (hp : low ≤ p) (hv : v ≤ high) (hpv : p ≤ v) :
    (uniformLaw low high h).prob v p = (v - p) / (high - low) := by
  unfold Law.prob uniformLaw uniformCdf
  have h1 : ¬ p < low := not_lt.mpr hp
  have h2 : ¬ v < low := by intro hh; linarith
  have h3 : ¬ high < v := not_lt.mpr hv
  have h4 : ¬ high < p := by intro hh; linarith
  simp only [h1, h2, h3, h4, if_false]
  ring

-- non-vacuity
example : ∑ k ∈ range 3, fsPmf (1/2) (k + 1) = 11/16 := by
  simp [Finset.sum_range_succ, fsPmf]; norm_num

end GBS.C11
