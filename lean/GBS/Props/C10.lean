import GBS.Model.Heap
import GBS.Model.Gen
/-!
# C10 — generation is a pure, reproducible function of string and supplied generator

Two layers.

1. The functional model `genMol : List Element → Oracle → …` is a *function* of the parsed structure and the oracle: equal
   inputs give equal outputs (`C10_deterministic`), whatever was computed before.  What this abstracts away is aliasing:
   that the Python code never writes into the parsed objects.
2. The heap model (`GBS.Heap`): an API call is a sequence of `deepcopy`s and in-place writes.  `C10_frame`: a call that
   writes only into cells it allocated itself leaves every cell that existed before the call unchanged, and the heap only
   grows; `C10_history_frame`: hence for **every history** of such calls, every cell of every parsed object keeps the value
   it had after parsing — so each call reads exactly what a fresh parse of the same string would give.
The correspondence check verifies the discipline on the real objects (digest of every mutable field reachable from the
parsed objects before and after every call, object identity of descriptors) and compares every output with a baseline
computed in a fresh interpreter.
-/
namespace GBS.Heap

theorem deepCopy_frame (h : Heap) (addrs : List Addr) (a : Addr) (ha : a < h.length) :
    (deepCopy h addrs).1[a]? = h[a]? := by
  simp [deepCopy, List.getElem?_append_left ha]

theorem deepCopy_fresh (h : Heap) (addrs : List Addr) : ∀ b ∈ (deepCopy h addrs).2, h.length ≤ b := by
  intro b hb
  simp only [deepCopy, List.mem_map, List.mem_range] at hb
  obtain ⟨k, -, rfl⟩ := hb
  omega

/-- invariant of a running call: everything it owns was allocated after the call started -/
def OwnedFresh (base : Nat) (s : CallSt) : Prop := (∀ b ∈ s.owned, base ≤ b) ∧ base ≤ s.heap.length

theorem step_frame (base : Nat) (s : CallSt) (op : Op) (hs : OwnedFresh base s)
    (hd : match op with | .write a _ => a ∈ s.owned | .copy _ => True) (a : Addr) (ha : a < base) :
    (step s op).heap[a]? = s.heap[a]? ∧ OwnedFresh base (step s op) := by
  cases op with
  | copy addrs =>
    have hlt : a < s.heap.length := Nat.lt_of_lt_of_le ha hs.2
    refine ⟨deepCopy_frame s.heap addrs a hlt, ?_, ?_⟩
    · intro b hb
      simp only [step, List.mem_append] at hb
      rcases hb with hb | hb
      · exact hs.1 b hb
      · exact Nat.le_trans hs.2 (deepCopy_fresh s.heap addrs b hb)
    · simp only [step, deepCopy, List.length_append]; have := hs.2; omega
  | write w c =>
    have hw : base ≤ w := hs.1 w hd
    refine ⟨?_, ?_, ?_⟩
    · simp only [step]
      have hne : w ≠ a := by
        intro heq; subst heq; exact absurd ha (Nat.not_lt.mpr hw)
      rw [List.getElem?_set_ne hne]
    · exact hs.1
    · simp only [step, List.length_set]; exact hs.2

/-- **C10 (frame)**: a disciplined call leaves every cell that existed before it unchanged -/
theorem C10_frame (base : Nat) (s : CallSt) (ops : List Op) (hs : OwnedFresh base s) (hd : Disciplined s ops)
    (a : Addr) (ha : a < base) : (run s ops).heap[a]? = s.heap[a]? ∧ OwnedFresh base (run s ops) := by
  induction ops generalizing s with
  | nil => exact ⟨rfl, hs⟩
  | cons op rest ih =>
    cases op with
    | copy addrs =>
      obtain ⟨h1, h2⟩ := step_frame base s (.copy addrs) hs trivial a ha
      have := ih (step s (.copy addrs)) h2 hd
      simp only [run, List.foldl_cons] at this ⊢
      exact ⟨this.1.trans h1, this.2⟩
    | write w c =>
      obtain ⟨hw, hrest⟩ := hd
      obtain ⟨h1, h2⟩ := step_frame base s (.write w c) hs hw a ha
      have := ih (step s (.write w c)) h2 hrest
      simp only [run, List.foldl_cons] at this ⊢
      exact ⟨this.1.trans h1, this.2⟩

/-- one API call started on heap `h`: it owns nothing yet -/
def call (h : Heap) (ops : List Op) : Heap := (run { heap := h, owned := [] } ops).heap

theorem call_frame (h : Heap) (ops : List Op) (hd : Disciplined { heap := h, owned := [] } ops) (a : Addr) (ha : a < h.length) :
    (call h ops)[a]? = h[a]? ∧ h.length ≤ (call h ops).length := by
  have hof : OwnedFresh h.length { heap := h, owned := [] } := by
    refine ⟨?_, Nat.le_refl _⟩
    intro b hb; cases hb
  have := C10_frame h.length { heap := h, owned := [] } ops hof hd a ha
  exact ⟨this.1, this.2.2⟩

/-- a history: calls performed one after the other, each disciplined on the heap it starts from -/
def HistoryOk : Heap → List (List Op) → Prop
  | _, [] => True
  | h, ops :: rest => Disciplined { heap := h, owned := [] } ops ∧ HistoryOk (call h ops) rest

def runHistory : Heap → List (List Op) → Heap
  | h, [] => h
  | h, ops :: rest => runHistory (call h ops) rest

/-- **C10 (history frame)**: whatever sequence of (disciplined) parse / generate / print / graph / typing calls is performed,
every cell that a parsed object owned at some point keeps its value for ever after: later outputs are computed from exactly
the data a fresh parse would produce. -/
theorem C10_history_frame (h : Heap) (hist : List (List Op)) (hok : HistoryOk h hist) (a : Addr) (ha : a < h.length) :
    (runHistory h hist)[a]? = h[a]? := by
  induction hist generalizing h with
  | nil => rfl
  | cons ops rest ih =>
    obtain ⟨hd, hrest⟩ := hok
    obtain ⟨h1, h2⟩ := call_frame h ops hd a ha
    simp only [runHistory]
    rw [ih (call h ops) hrest (Nat.lt_of_lt_of_le ha h2), h1]

-- non-vacuity: MolGen(token) copies two descriptors, shifts the copies; the token's own cells stay
example : (call [{ atom := 0 }, { atom := 1 }] [.copy [0, 1], .write 2 { atom := 5 }, .write 3 { atom := 6 }])[0]? = some { atom := 0 }
    ∧ Disciplined { heap := [{ atom := 0 }, { atom := 1 }], owned := [] } [.copy [0, 1], .write 2 { atom := 5 }, .write 3 { atom := 6 }] := by
  refine ⟨by decide, ?_⟩
  simp [Disciplined, step, deepCopy]

/-- the undisciplined variant (a shallow copy: the "copy" is the token's own cell) does change the parsed object -/
example : (call [{ atom := 0 }, { atom := 1 }] [.write 0 { atom := 5 }])[0]? ≠ some { atom := 0 } := by decide

end GBS.Heap

namespace GBS

/-- **C10 (deterministic)**: the generation model is a function: same description, same fuel, same oracle — same molecule,
same trace, same remaining oracle; in particular independent of anything generated before. -/
theorem C10_deterministic (fuel : Nat) (es es' : List Element) (ω ω' : Oracle) (h1 : es = es') (h2 : ω = ω') :
    genMol fuel es ω = genMol fuel es' ω' := by rw [h1, h2]

end GBS
