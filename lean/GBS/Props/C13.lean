import GBS.Model.SysGen
import GBS.Lemmas.GenClosed
import GBS.Lemmas.Termination
import Mathlib.Tactic.Linarith
/-!
# C13 — ensemble generation yields complete member molecules up to the system mass
-/
namespace GBS

def massOf (l : List Member) : Rat := sumRat (l.map (·.2.mass))

/-- every member is the fully generated result of generating the component whose index the pick chose -/
def IsMember (fuel : Nat) (cs : List SysComp) (x : Member) : Prop :=
  x.1 < cs.length ∧ x.2.opens = [] ∧ ∃ ω t ω', genMol fuel ((cs.getD x.1 default).els) ω = .ok (some x.2, t, ω')

theorem pickComp_lt {cs : List SysComp} {ω ω' : Oracle} {i : Nat} {c : Choice}
    (h : pickComp cs ω = .ok (i, c, ω')) : i < cs.length := by
  unfold pickComp at h
  split at h
  · cases h
  · split at h
    · cases h
    · have := (pickFrom_mem h).1
      simpa using this

/-- **C13 (stop rule and membership)**: the loop yields `x₁ … x_k` such that the mass accumulated *before* each member
was below the system mass, and after the last one it is at least the system mass: it stops exactly at the first molecule
that brings the accumulated mass to the system mass or beyond.  Every member is a fully generated instance of the
component picked. -/
theorem C13_loop (fuel : Nat) (cs : List SysComp) (M : Rat) (n : Nat) (acc : Rat) (ω : Oracle)
    (l : List Member) (t : Trace) (ω' : Oracle) (h : sysLoop fuel cs M n acc ω = .ok (l, t, ω')) :
    (∀ x ∈ l, IsMember fuel cs x) ∧
    (∀ k, k < l.length → acc + massOf (l.take k) < M) ∧
    ¬ (acc + massOf l < M) := by
  induction n generalizing acc ω l t ω' with
  | zero =>
    unfold sysLoop at h
    split at h
    · cases h
    · rename_i hlt
      ok_inj h; obtain ⟨rfl, -, -⟩ := h
      refine ⟨by simp, by simp, ?_⟩
      simpa [massOf, sumRat, Rat.add_zero] using hlt
  | succ n ih =>
    unfold sysLoop at h
    split at h
    · rename_i hlt
      ok_inj h; obtain ⟨rfl, -, -⟩ := h
      refine ⟨by simp, by simp, ?_⟩
      simpa [massOf, sumRat, Rat.add_zero] using hlt
    · rename_i hlt
      have hlt' : acc < M := Classical.not_not.mp hlt
      split at h
      · cases h
      · rename_i i c ω1 hp
        split at h
        · cases h
        · cases h
        · rename_i m t1 ω2 hg
          split at h
          · cases h
          · rename_i hop
            split at h
            · cases h
            · rename_i rest t2 ω3 hr
              ok_inj h; obtain ⟨rfl, -, -⟩ := h
              obtain ⟨h1, h2, h3⟩ := ih _ _ _ _ _ hr
              refine ⟨?_, ?_, ?_⟩
              · intro x hx
                simp only [List.mem_cons] at hx
                rcases hx with rfl | hx
                · exact ⟨pickComp_lt hp, by simpa using hop, _, _, _, hg⟩
                · exact h1 x hx
              · intro k hk
                cases k with
                | zero => simpa [massOf, sumRat, Rat.add_zero] using hlt'
                | succ k =>
                  have := h2 k (by simpa using hk)
                  simp only [List.take_succ_cons, massOf, List.map_cons, sumRat, List.foldr_cons] at this ⊢
                  rw [← Rat.add_assoc]; exact this
              · simp only [massOf, List.map_cons, sumRat, List.foldr_cons] at h3 ⊢
                rw [← Rat.add_assoc]; exact h3

/-- **C13 (generator)**: for a generable system iteration starts from an accumulated mass of 0. -/
theorem C13_stop (fuel lf : Nat) (cs : List SysComp) (M : Rat) (ω : Oracle) (l : List Member) (t : Trace) (ω' : Oracle)
    (h : sysGenerator fuel lf true cs M ω = .ok (l, t, ω')) :
    (∀ x ∈ l, IsMember fuel cs x) ∧ (∀ k, k < l.length → massOf (l.take k) < M) ∧ ¬ (massOf l < M) := by
  unfold sysGenerator at h
  simp only [Bool.not_true, Bool.false_eq_true, if_false] at h
  obtain ⟨h1, h2, h3⟩ := C13_loop fuel cs M lf 0 ω l t ω' h
  refine ⟨h1, ?_, ?_⟩
  · intro k hk; have := h2 k hk; rwa [Rat.zero_add] at this
  · rwa [Rat.zero_add] at h3

/-- nothing is yielded when the system mass is not positive -/
theorem C13_nothing_for_nonpositive_mass (fuel lf : Nat) (cs : List SysComp) (M : Rat) (ω : Oracle) (hM : ¬ (0 < M)) :
    sysGenerator fuel lf true cs M ω = .ok ([], [], ω) := by
  unfold sysGenerator
  simp only [Bool.not_true, Bool.false_eq_true, if_false]
  cases lf with
  | zero => simp [sysLoop, hM]
  | succ n => simp [sysLoop, hM]

/-- **C13 (refusal)**: a system that is not generable refuses to iterate -/
theorem C13_refuses (fuel lf : Nat) (cs : List SysComp) (M : Rat) (ω : Oracle) :
    sysGenerator fuel lf false cs M ω = .error .notGenerable := by
  simp [sysGenerator]

/-- **C13 (refusal, component)**: one component that is not generable (a stochastic object without distribution, a negative
weight) makes the whole system refuse, whatever the other components are -/
theorem C13_refuses_component (fuel lf : Nat) (estim : Bool) (cs : List SysComp) (M : Rat) (ω : Oracle)
    (c : SysComp) (hc : c ∈ cs) (hg : c.generable = false) :
    sysGenerable estim cs = false ∧ sysGenerator fuel lf (sysGenerable estim cs) cs M ω = .error .notGenerable := by
  have h : sysGenerable estim cs = false := by
    unfold sysGenerable
    have : cs.all (·.generable) = false := by
      rw [List.all_eq_false]
      exact ⟨c, hc, by simp [hg]⟩
    simp [this]
  exact ⟨h, by rw [h]; exact C13_refuses fuel lf cs M ω⟩

/-- a failed mass estimate (C12) makes the system refuse as well -/
theorem C13_refuses_estimate (fuel lf : Nat) (cs : List SysComp) (M : Rat) (ω : Oracle) :
    sysGenerator fuel lf (sysGenerable false cs) cs M ω = .error .notGenerable := by
  simp [sysGenerable, sysGenerator]

/-- **C13 (single molecule)**: `System.generate` returns a fully generated instance of the picked component, or an error -/
theorem C13_single (fuel : Nat) (cs : List SysComp) (ω : Oracle) (x : Member) (t : Trace) (ω' : Oracle)
    (h : sysGenerate fuel cs ω = .ok (x, t, ω')) : IsMember fuel cs x ∧ (cs.getD x.1 default).generable = true := by
  unfold sysGenerate at h
  split at h
  · cases h
  · rename_i i c ω1 hp
    split at h
    · cases h
    · rename_i hgen
      split at h
      · cases h
      · cases h
      · rename_i m t1 ω2 hg
        split at h
        · cases h
        · rename_i hop
          ok_inj h; obtain ⟨rfl, -, -⟩ := h
          exact ⟨⟨pickComp_lt hp, by simpa using hop, _, _, _, hg⟩, by simpa using hgen⟩

/-- **C13 (the ensemble loop terminates)**: when every molecule the components can generate weighs at least `μ > 0` and the
generation of a member never stops for lack of its own fuel, `j` further members with `acc + j·μ > M` are enough: with loop fuel
`n ≥ j` the `while generated_total_mass < system_mass` loop never runs out of fuel — it ends after at most `⌊M / μ⌋ + 1` members -/
theorem C13_loop_terminates (fuel : Nat) (cs : List SysComp) (M μ : Rat) (hμ : 0 < μ)
    (hmass : ∀ i ω m t ω', genMol fuel ((cs.getD i default).els) ω = .ok (some m, t, ω') → μ ≤ m.mass)
    (hinner : ∀ i ω, genMol fuel ((cs.getD i default).els) ω ≠ .error .outOfFuel) :
    ∀ (n j : Nat) (acc : Rat) (ω : Oracle), M < acc + j * μ → j ≤ n → sysLoop fuel cs M n acc ω ≠ .error .outOfFuel := by
  intro n
  induction n with
  | zero =>
    intro j acc ω hM hj h
    have : j = 0 := by omega
    subst this
    simp only [Nat.cast_zero, zero_mul, add_zero] at hM
    unfold sysLoop at h
    have : ¬ (acc < M) := by linarith
    simp [this] at h
  | succ n ih =>
    intro j acc ω hM hj h
    unfold sysLoop at h
    split at h
    · cases h
    · rename_i hlt
      have hlt' : acc < M := by simpa using hlt
      split at h
      · rename_i e he
        injection h with h; subst h
        unfold pickComp at he
        split at he
        · cases he
        · split at he
          · cases he
          · exact pickFrom_not_fuel _ _ _ he
      · rename_i i c ω1 hp
        split at h
        · rename_i e he
          injection h with h; subst h
          exact hinner i ω1 he
        · cases h
        · rename_i m t ω2 hg
          split at h
          · cases h
          · split at h
            · rename_i e he
              injection h with h; subst h
              have hm := hmass i ω1 m t ω2 hg
              -- one member more: `j - 1` further members suffice
              have hj1 : 1 ≤ j := by
                by_contra hc
                have : j = 0 := by omega
                subst this
                simp only [Nat.cast_zero, zero_mul, add_zero] at hM
                linarith
              obtain ⟨j', rfl⟩ : ∃ j', j = j' + 1 := ⟨j - 1, by omega⟩
              refine ih j' (acc + m.mass) ω2 ?_ (by omega) he
              push_cast at hM
              linarith
            · cases h


end GBS
