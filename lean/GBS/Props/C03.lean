import GBS.Model.Bond
/-!
# C03 — bond-descriptor compatibility is exactly the BigSMILES conjugation rule

All theorems are about the definitions *regenerated from `/repo/src/gbigsmiles/bond.py`* by the
translator, so they are re-checked against what the code says now.  Ids range over all of ℕ
(stronger than the finite universe of the property's quantifier).
-/
namespace GBS

/-- the conjugation rule on symbols: `$` with `$`, `<` with `>` -/
def conj : Sym → Sym → Bool
  | .dollar, .dollar => true | .lt, .gt => true | .gt, .lt => true | _, _ => false

/-- **C03 (main)**: two descriptors may bond iff both are non-empty, carry the same id (no id counts as
an id of its own), form the same bond order, and their symbols are conjugate. -/
theorem C03_iff (a b : Desc) :
    isCompatible a b = true ↔
      a.sym ≠ .none ∧ b.sym ≠ .none ∧ a.id = b.id ∧ a.order = b.order ∧ conj a.sym b.sym = true := by
  obtain ⟨sa, ia, oa, wa, ta, aa⟩ := a
  obtain ⟨sb, ib, ob, wb, tb, ab⟩ := b
  by_cases h1 : oa = ob <;> by_cases h2 : ia = ib <;> cases sa <;> cases sb <;>
    simp [isCompatible, conj, h1, h2]

/-- the relation is symmetric -/
theorem C03_symm (a b : Desc) : isCompatible a b = isCompatible b a := by
  rw [Bool.eq_iff_iff, C03_iff, C03_iff]
  constructor <;> rintro ⟨h1, h2, h3, h4, h5⟩ <;> refine ⟨h2, h1, h3.symm, h4.symm, ?_⟩ <;>
    revert h5 <;> cases a.sym <;> cases b.sym <;> simp [conj]

/-- the empty terminal descriptor `[]` bonds with nothing (including itself), on either side -/
theorem C03_empty (a b : Desc) (h : a.sym = .none ∨ b.sym = .none) : isCompatible a b = false := by
  cases hc : isCompatible a b
  · rfl
  · have := (C03_iff a b).1 hc
    rcases h with h | h
    · exact absurd h this.1
    · exact absurd h this.2.1

/-- weights, transition lists and the attachment atom never influence compatibility -/
theorem C03_weight_blind (a b : Desc) (w w' : Rat) (t t' : Option (List Rat)) (k k' : Nat) :
    isCompatible { a with weight := w, trans := t, atom := k } { b with weight := w', trans := t', atom := k' }
      = isCompatible a b := by
  simp [isCompatible]

/-- `<` never bonds with `<`, `>` never with `>`, `$` never with `<`/`>` -/
theorem C03_not_same_direction (a b : Desc) (h : isCompatible a b = true) :
    (a.sym = .dollar ↔ b.sym = .dollar) ∧ (a.sym = .lt ↔ b.sym = .gt) ∧ (a.sym = .gt ↔ b.sym = .lt) := by
  have := (C03_iff a b).1 h
  obtain ⟨h1, h2, -, -, h5⟩ := this
  revert h1 h2 h5
  cases a.sym <;> cases b.sym <;> simp [conj]

/-- the bond order a descriptor forms, for each single prefix character the notation uses -/
theorem C03_prefix_order :
    orderOfPrefix [] = .single ∧ orderOfPrefix ['-'] = .single ∧ orderOfPrefix ['='] = .double ∧
    orderOfPrefix ['#'] = .triple ∧ orderOfPrefix [':'] = .oneAndAHalf := by
  decide

/-- in a prefix made only of `-`, `=`, `#`, `:`, `(`, `)` the order is decided by membership alone:
`:` wins over `#` wins over `=`; otherwise single. -/
theorem C03_prefix_order_general (p : List Char) (h : ¬ p.contains '$') :
    orderOfPrefix p =
      if p.contains ':' then .oneAndAHalf else if p.contains '#' then .triple
      else if p.contains '=' then .double else .single := by
  simp only [orderOfPrefix]
  simp only [h]
  by_cases h1 : p.contains ':' <;> by_cases h2 : p.contains '#' <;> by_cases h3 : p.contains '=' <;>
    simp [h1, h2]

/-- the index filter of `core.py:94-99`, with any start index -/
theorem compatibleIdsFrom_spec (b : Option Desc) (bds : List Desc) (s i : Nat) :
    i ∈ compatibleIdsFrom b s bds ↔
      s ≤ i ∧ ∃ h : i - s < bds.length, (match b with | none => True | some b => isCompatible b (bds[i - s]) = true) := by
  induction bds generalizing s with
  | nil => simp [compatibleIdsFrom]
  | cons o os ih =>
    unfold compatibleIdsFrom
    cases b with
    | none =>
      simp only [List.mem_cons, ih, List.length_cons]
      constructor
      · rintro (rfl | ⟨h1, h2, -⟩)
        · exact ⟨Nat.le_refl _, by simp, trivial⟩
        · exact ⟨by omega, by omega, trivial⟩
      · rintro ⟨h1, h2, -⟩
        by_cases h : i = s
        · exact Or.inl h
        · exact Or.inr ⟨by omega, by omega, trivial⟩
    | some b =>
      by_cases hc : isCompatible b o = true
      · simp only [hc, if_true, List.mem_cons, ih, List.length_cons]
        constructor
        · rintro (rfl | ⟨h1, h2, h3⟩)
          · exact ⟨Nat.le_refl _, by simp, by simpa using hc⟩
          · refine ⟨by omega, by omega, ?_⟩
            have : i - s = (i - (s + 1)) + 1 := by omega
            simp only [this, List.getElem_cons_succ]; exact h3
        · rintro ⟨h1, h2, h3⟩
          by_cases h : i = s
          · exact Or.inl h
          · refine Or.inr ⟨by omega, by omega, ?_⟩
            have : i - s = (i - (s + 1)) + 1 := by omega
            simp only [this, List.getElem_cons_succ] at h3; exact h3
      · have hf : isCompatible b o = false := by simpa using hc
        simp only [hf, Bool.false_eq_true, if_false, List.length_cons, ih]
        constructor
        · rintro ⟨h1, h2, h3⟩
          refine ⟨by omega, by omega, ?_⟩
          have : i - s = (i - (s + 1)) + 1 := by omega
          simp only [this, List.getElem_cons_succ]; exact h3
        · rintro ⟨h1, h2, h3⟩
          by_cases h : i = s
          · subst h; simp [hf] at h3
          · refine ⟨by omega, by omega, ?_⟩
            have : i - s = (i - (s + 1)) + 1 := by omega
            simp only [this, List.getElem_cons_succ] at h3; exact h3

/-- **C03 (filter)**: `get_compatible_bond_descriptor_ids` returns exactly the indices of the compatible
descriptors — all indices when no descriptor is given. -/
theorem C03_filter (bds : List Desc) (b : Option Desc) (i : Nat) :
    i ∈ compatibleIds bds b ↔
      ∃ h : i < bds.length, (match b with | none => True | some b => isCompatible b (bds[i]) = true) := by
  simpa [compatibleIds] using compatibleIdsFrom_spec b bds 0 i

/-- the filter's result is strictly increasing (hence duplicate free) -/
theorem compatibleIdsFrom_sorted (b : Option Desc) (bds : List Desc) (s : Nat) :
    (compatibleIdsFrom b s bds).Pairwise (· < ·) := by
  induction bds generalizing s with
  | nil => simp [compatibleIdsFrom]
  | cons o os ih =>
    unfold compatibleIdsFrom
    have hlt : ∀ j ∈ compatibleIdsFrom b (s + 1) os, s < j := by
      intro j hj; have := (compatibleIdsFrom_spec b os (s + 1) j).1 hj; omega
    cases b with
    | none => exact List.pairwise_cons.2 ⟨hlt, ih _⟩
    | some b =>
      by_cases hc : isCompatible b o = true
      · simp only [hc, if_true]; exact List.pairwise_cons.2 ⟨hlt, ih _⟩
      · have hf : isCompatible b o = false := by simpa using hc
        simp only [hf, Bool.false_eq_true, if_false]; exact ih _

theorem C03_filter_sorted (bds : List Desc) (b : Option Desc) :
    (compatibleIds bds b).Pairwise (· < ·) := compatibleIdsFrom_sorted b bds 0

-- non-vacuity: concrete descriptors on both sides of the rule
example : isCompatible { sym := .lt, id := some 12, order := .double, weight := 3 }
                       { sym := .gt, id := some 12, order := .double, trans := some [1, 2] } = true := by decide
example : isCompatible { sym := .lt, id := some 1, order := .single } { sym := .gt, id := none, order := .single } = false := by decide
example : compatibleIds [{ sym := .lt, id := none, order := .single }, { sym := .gt, id := none, order := .single },
                         { sym := .gt, id := none, order := .double }] (some { sym := .lt, id := none, order := .single }) = [1] := by decide

end GBS
