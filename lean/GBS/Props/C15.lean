import GBS.Model.Parse
import GBS.Lemmas.NoDiverge
import GBS.Model.Gen
/-!
# C15 — ill-formed notation and misuse are rejected; parsing terminates

Each validation branch of the parsers is stated as a theorem about the model (whose accept / reject behaviour is compared
with the code on every breaking operator and on byte-level mutations), the generation guards are theorems about `Gen`,
and the system loop — which did not terminate on the pinned tree — is proved to make progress after the `fix:` commit.
-/
namespace GBS.P
open GBS GBS.Py

/-- unbalanced branches are rejected -/
theorem C15_unbalanced_rejected (valid : Str → Bool) (text : Str) (o r : Nat) (h : count text '(' ≠ count text ')') :
    parseToken valid text o r = .error .tokUnbalanced := by
  unfold parseToken
  simp [h]

/-- a `)` that closes a branch that was never opened is rejected (also when the counts happen to balance, e.g. `C)(C`) -/
theorem C15_close_without_open (cs : Str) (top : Int) : pushPop (')' :: cs) [top] = .error .tokUnbalanced := by
  simp [pushPop]

/-- an unknown descriptor symbol is rejected -/
theorem C15_unknown_symbol_rejected (c : Char) (rest : Str) (num : Nat) (pre : Str) (atom : Option Nat)
    (hpre : pre.isEmpty = false) (hc : symOfChar? c = none) (hlast : index ('[' :: c :: rest) (-1) = some ']')
    (hne : ('[' :: c :: rest) ≠ "[]".toList) :
    parseDesc ('[' :: c :: rest) num pre atom = .error .descSyntax := by
  unfold parseDesc
  have h0 : (('[' :: c :: rest) == "[]".toList) = false := by
    simpa using hne
  simp only [h0, Bool.false_eq_true, if_false, hpre]
  have hi0 : index ('[' :: c :: rest) 0 = some '[' := by simp [index]
  have hi1 : index ('[' :: c :: rest) 1 = some c := by simp [index]
  simp [hi0, hlast, hi1, hc]

/-- an unknown distribution name is rejected -/
theorem C15_unknown_distribution_rejected (text : Str)
    (h : ∀ p ∈ distDispatch, contains text p.1.toList = false) : parseDist text = .error .unknownDist := by
  unfold parseDist
  have : distDispatch.find? (fun p => contains text p.1.toList) = none := by
    rw [List.find?_eq_none]
    intro p hp; simp [h p hp]
  simp [this]

/-- a percentage outside 0–100 is rejected -/
theorem C15_percentage_range (cs : Str) (q : Rat) (hpct : ('.' :: cs).contains '%' = true)
    (hq : Num.parseFloat (stripChars ".|%".toList ('.' :: cs)) = .ok q) (hr : q < 0 ∨ q > 100) :
    parseMixture ('.' :: cs) = .error .mixRange := by
  unfold parseMixture
  simp only [bne_self_eq_false, Bool.false_eq_true, if_false, hpct, if_true, hq]
  simp [hr]

/-- a negative absolute mass is rejected -/
theorem C15_negative_mass (cs : Str) (q : Rat) (hpct : ('.' :: cs).contains '%' = false)
    (hq : Num.parseFloat (stripChars ".|".toList ('.' :: cs)) = .ok q) (hr : q < 0) :
    parseMixture ('.' :: cs) = .error .mixNegative := by
  unfold parseMixture
  simp only [bne_self_eq_false, Bool.false_eq_true, if_false, hpct, hq]
  simp [hr]

/-- a mixture specifier has to start with `.` -/
theorem C15_mixture_start (c : Char) (cs : Str) (h : c ≠ '.') : parseMixture (c :: cs) = .error .mixStart := by
  unfold parseMixture
  simp [h]

/-- a transition list whose length differs from the number of descriptors of its stochastic object is rejected -/
theorem C15_transition_length (valid : Str → Bool) (text : Str) (r : Nat) (o : PStoch) (h : parseStoch valid text r = .ok o) :
    ∀ p ∈ o.allDescs ++ [o.left, o.right], ∀ l, p.d.trans = some l → l.length = o.allDescs.length := by
  unfold parseStoch at h
  split at h
  · cases h
  · rename_i o0 _
    unfold validateStoch at h
    split at h
    · cases h
    · rename_i hv
      injection h with h; subst h
      intro p hp l hl
      rw [List.any_eq_true] at hv
      have : ¬ ((match p.d.trans with | some l => l.length != o0.allDescs.length | none => false) = true) :=
        fun hh => hv ⟨p, hp, hh⟩
      simp only [hl, bne_iff_ne, ne_eq] at this
      exact Classical.not_not.mp this

end GBS.P

namespace GBS

/-- a negative weight makes a descriptor, its token and hence the object not generable; generation refuses -/
theorem C15_negative_weight_not_generable (t : Token) (d : Desc) (hd : d ∈ t.bds) (hw : d.weight < 0) :
    t.generable = false ∧ newMol t = .error .notGenerable := by
  have hg : t.generable = false := by
    unfold Token.generable
    rw [List.all_eq_false]
    exact ⟨d, hd, by simp [Desc.generable, Rat.not_le.mpr hw]⟩
  exact ⟨hg, by simp [newMol, hg]⟩

/-- **generation guards**: generating something not generable is an error -/
theorem C15_not_generable_refused (o : Stoch) (fuel : Nat) (pre : Option Mol) (ω : Oracle) (h : o.generable = false) :
    genStoch o fuel pre ω = .error .notGenerable := by
  simp [genStoch, h]

/-- a non-empty left terminal without prefix is an error -/
theorem C15_missing_prefix (o : Stoch) (ω : Oracle) (h : o.left.sym ≠ .none) :
    getStart o none ω = .error .prefixMissing := by
  simp [getStart, h]

/-- a prefix whose open descriptor differs from the left terminal (symbol or id) is an error -/
theorem C15_prefix_mismatch (o : Stoch) (p : Mol) (op : OpenD) (ω : Oracle) (hop : p.opens = [op])
    (h : op.d.sym ≠ o.left.sym ∨ op.d.id ≠ o.left.id) : getStart o (some p) ω = .error .prefixMismatch := by
  simp [getStart, hop, h]

/-- a prefix with other than exactly one open descriptor is an error -/
theorem C15_prefix_open_count (o : Stoch) (fuel : Nat) (p : Mol) (ω : Oracle) (hg : o.generable = true)
    (h : p.opens.length ≠ 1) : genStoch o fuel (some p) ω = .error .prefixOpenCount := by
  simp [genStoch, hg, prefixOk, h]

end GBS

namespace GBS.P
open GBS GBS.Py

theorem length_dropWhile_le_aux (p : Char → Bool) (s : Str) : (List.dropWhile p s).length ≤ s.length := by
  induction s with
  | nil => simp
  | cons c cs ih =>
    simp only [List.dropWhile_cons]
    split
    · simp only [List.length_cons]; omega
    · exact Nat.le_refl _

theorem length_stripBy_le (p : Char → Bool) (s : Str) : (stripBy p s).length ≤ s.length := by
  unfold stripBy rstripBy lstripBy
  have h1 : (List.dropWhile p s).length ≤ s.length := length_dropWhile_le_aux p s
  have h2 : (List.dropWhile p (List.dropWhile p s).reverse).length ≤ (List.dropWhile p s).reverse.length :=
    length_dropWhile_le_aux p _
  simp only [List.length_reverse] at h2 ⊢
  omega

theorem length_slice_from_pos (s : Str) (e : Int) (he : 1 ≤ e) (hs : 1 ≤ s.length) :
    (slice s (some e) none).length ≤ s.length - 1 := by
  unfold slice
  simp only [List.length_take, List.length_drop]
  have hc : 1 ≤ clampIdx s.length e := by
    unfold clampIdx
    have h0 : ¬ e < 0 := by omega
    simp only [h0, if_false]
    split
    · exact hs
    · omega
  omega

/-- one iteration of the system loop either stops or continues on a strictly shorter text -/
theorem sysStep_progress (valid : Str → Bool) (st st' : Str × Nat × List PMol) (h : sysStep valid st = .next st') :
    st'.1.length < st.1.length := by
  unfold sysStep at h
  simp only at h
  split at h
  · cases h
  · rename_i hi
    split at h
    · cases h
    · rename_i hend
      split at h
      · cases h
      · injection h with h; subst h
        simp only
        have hpos : 1 ≤ find st.1 ['|'] (find st.1 ".|".toList + 2).toNat + 1 := by omega
        have hne : 1 ≤ st.1.length := by
          cases hst : st.1 with
          | nil => rw [hst] at hi; simp [find, findFrom] at hi
          | cons c cs => simp
        have h1 := length_slice_from_pos st.1 _ hpos hne
        have h2 := length_stripBy_le isWs (slice st.1 (some (find st.1 ['|'] (find st.1 ".|".toList + 2).toNat + 1)) none)
        unfold strip
        omega

/-- a fuelled loop whose every continuing step decreases a measure below the fuel never runs out of fuel -/
theorem iter_terminates {σ α : Type} (step : σ → StepRes σ α) (μ : σ → Nat)
    (hstep : ∀ s s', step s = .next s' → μ s' < μ s) (fuel : Nat) (s : σ) (hf : μ s < fuel) :
    iter step fuel s ≠ .error .diverge ∨ ∃ s0, step s0 = .fail .diverge := by
  induction fuel generalizing s with
  | zero => omega
  | succ f ih =>
    unfold iter
    cases hs : step s with
    | done a => left; simp
    | fail e =>
      by_cases hd : e = .diverge
      · right; exact ⟨s, by rw [hs, hd]⟩
      · left; simp [hd]
    | next s' =>
      simp only
      exact ih s' (by have := hstep s s' hs; omega)

/-- **C15 (the system loop terminates)**: with fuel `|text| + 1` the loop of `System.__init__` never runs out of fuel: every
iteration either stops, fails (an unterminated `.|` is now one of the failures) or strictly shortens the remaining text; the
only way to see `diverge` is through the parse of one molecule.
On the pinned tree this obligation failed: `find(...) + 1` is never negative, the text stayed the same and the loop ran
forever (`System("CC.|50")`). -/
theorem C15_system_loop_terminates (valid : Str → Bool) (fuel : Nat) (text : Str) (rid : Nat) (acc : List PMol)
    (hf : text.length < fuel) :
    sysLoop valid fuel text rid acc ≠ .error .diverge ∨ ∃ st, sysStep valid st = .fail .diverge :=
  iter_terminates (sysStep valid) (fun st => st.1.length) (sysStep_progress valid) fuel (text, rid, acc) hf

theorem parseStoch_nil (valid : Str → Bool) (r : Nat) : parseStoch valid [] r = .error .pyIndex := by
  simp [parseStoch, parseStochRaw, strip, stripBy, rstripBy, lstripBy]

theorem length_slice_le (s : Str) (i j : Option Int) : (slice s i j).length ≤ s.length := by
  unfold slice
  simp only [List.length_take, List.length_drop]
  omega

theorem slice_to_zero (s : Str) : slice s none (some 0) = [] := by
  unfold slice clampIdx
  simp only [Int.lt_irrefl, if_false, Int.toNat_zero]
  have : ¬ ((0 : Int) > (s.length : Int)) := by omega
  simp [this]

theorem molEndPos_nonneg (text1 : Str) : 0 ≤ molEndPos text1 := by
  unfold molEndPos
  simp only
  have hf : ∀ (s pat : Str) (k : Nat), -1 ≤ find s pat k := by
    intro s pat k
    unfold find
    split
    · omega
    · split <;> omega
  split
  · have := hf text1 ['|'] ((find text1 ['}'] + 1 + 2).toNat); omega
  · have := hf text1 ['}'] 0; omega

/-- the second half of an iteration continues on a strictly shorter text -/
theorem molStepTail_progress (valid : Str → Bool) (rp : Nat) (s s' : MolSt) (text1 : Str) (pre : Option (PToken × Str)) (rid1 : Nat)
    (h : molStepTail valid rp s text1 pre rid1 = .next s') : s'.text.length < text1.length ∨ (text1.length = 0 ∧ False) := by
  unfold molStepTail at h
  simp only at h
  have hnn := molEndPos_nonneg text1
  by_cases hpos : 1 ≤ molEndPos text1
  · by_cases hlen : 1 ≤ text1.length
    · left
      split at h
      · cases h
      · split at h
        · cases h
        · injection h with h
          subst h
          simp only
          have h1 := length_stripBy_le isWs (slice text1 (some (molEndPos text1)) none)
          have h2 := length_slice_from_pos text1 (molEndPos text1) hpos hlen
          unfold strip
          omega
    · have ht : text1 = [] := by
        cases text1 with
        | nil => rfl
        | cons c cs => simp at hlen
      subst ht
      have : slice ([] : Str) none (some (molEndPos [])) = [] := by simp [slice]
      rw [this, parseStoch_nil] at h
      cases h
  · have he : molEndPos text1 = 0 := by omega
    have : slice text1 none (some (molEndPos text1)) = [] := by
      rw [he]; exact slice_to_zero text1
    rw [this, parseStoch_nil] at h
    cases h


/-- one iteration of the molecule loop either stops or continues on a strictly shorter text -/
theorem molStep_progress (valid : Str → Bool) (rp : Nat) (s s' : MolSt) (h : molStep valid rp s = .next s') :
    s'.text.length < s.text.length := by
  unfold molStep at h
  simp only at h
  split at h
  · cases h
  · cases hp : molPrefix valid rp s (strip (slice s.text none (some (find s.text ['{'])))) with
    | error e => rw [hp] at h; cases h
    | ok r =>
      obtain ⟨pre, rid1⟩ := r
      rw [hp] at h
      simp only at h
      rcases molStepTail_progress valid rp s s' _ pre rid1 h with h1 | ⟨-, hf⟩
      · have h2 := length_stripBy_le isWs (slice s.text (some (find s.text ['{'])) none)
        have h3 := length_slice_le s.text (some (find s.text ['{'])) none
        unfold strip at h1
        omega
      · exact hf.elim

/-- **C15 (the molecule loop terminates)**: with fuel above the length of the text, `Molecule.__init__`'s loop over the stochastic
objects never runs out of fuel: parsing a molecule terminates (either with an object or with an error) -/
theorem C15_molecule_loop_terminates (valid : Str → Bool) (rp : Nat) (fuel : Nat) (s : MolSt) (hf : s.text.length < fuel) :
    molLoop valid rp fuel s ≠ .error .diverge ∨ ∃ s0, molStep valid rp s0 = .fail .diverge :=
  iter_terminates (molStep valid rp) (fun st => st.text.length) (molStep_progress valid rp) fuel s hf


/-- the documented inputs that made `System(...)` loop forever are rejected -/
theorem C15_unterminated_rejected :
    (match parseSystem (fun _ => false) "CC.|50".toList with | .error .sysUnterminated => true | _ => false) = true ∧
    (match parseSystem (fun _ => false) "CC.|".toList with | .error .sysUnterminated => true | _ => false) = true := by
  constructor <;> decide +kernel

/-! ## no parser ever runs out of fuel -/

/-- a loop step does not fail with "out of fuel" -/
def NoFail {σ α : Type} (r : StepRes σ α) : Prop := r ≠ .fail .diverge

theorem NoFail.done {σ α : Type} (a : α) : NoFail (.done a : StepRes σ α) := by intro h; cases h
theorem NoFail.next {σ α : Type} (s : σ) : NoFail (.next s : StepRes σ α) := by intro h; cases h
theorem NoFail.fail {σ α : Type} (e : PErr) (h : e ≠ .diverge) : NoFail (.fail e : StepRes σ α) := by
  intro h'; cases h'; exact h rfl
theorem NoFail.of_eq {σ α β : Type} {r : PR β} {e : PErr} (h : NoDiv r) (he : r = .error e) : NoFail (.fail e : StepRes σ α) := by
  intro h'; cases h'; exact h he

theorem molPrefix_noDiv (valid : Str → Bool) (rp : Nat) (s : MolSt) (t : Str) : NoDiv (molPrefix valid rp s t) := by
  unfold molPrefix
  repeat' (first | exact NoDiv.ok _ | (refine NoDiv.err _ ?_; decide) | split | extract_lets)
  all_goals first
    | exact (parseToken_noDiv _ _ _ _).of_eq (by assumption)
    | exact (parseDesc_noDiv _ _ _ _).of_eq (by assumption)

theorem molStepTail_noFail (valid : Str → Bool) (rp : Nat) (s : MolSt) (text1 : Str) (pre : Option (PToken × Str)) (rid1 : Nat) :
    NoFail (molStepTail valid rp s text1 pre rid1) := by
  unfold molStepTail
  extract_lets endPos
  split
  · rename_i e he
    exact NoFail.of_eq (parseStoch_noDiv _ _ _) he
  · extract_lets rid2 bt addPre
    have hadd : NoDiv addPre := by
      unfold addPre
      repeat' (first | exact NoDiv.ok _ | (refine NoDiv.err _ ?_; decide) | split | extract_lets)
      all_goals exact (parseToken_noDiv _ _ _ _).of_eq (by assumption)
    generalize addPre = r at hadd
    split
    · rename_i e
      exact NoFail.of_eq hadd rfl
    · exact NoFail.next _

theorem molStep_noFail (valid : Str → Bool) (rp : Nat) (s : MolSt) : NoFail (molStep valid rp s) := by
  unfold molStep
  extract_lets iBrace
  split
  · exact NoFail.done _
  · split
    · rename_i e he
      exact NoFail.of_eq (molPrefix_noDiv _ _ _ _) he
    · exact molStepTail_noFail _ _ _ _ _ _

theorem molLoop_noDiv (valid : Str → Bool) (rp fuel : Nat) (s : MolSt) (hf : s.text.length < fuel) : NoDiv (molLoop valid rp fuel s) := by
  rcases C15_molecule_loop_terminates valid rp fuel s hf with h | ⟨s0, h⟩
  · exact h
  · exact absurd h (molStep_noFail valid rp s0)

/-- the mixture part of `Molecule.__init__`, with the positions and texts as parameters -/
theorem molMix_noDiv (raw : Str) (start : Int) (mixText endText : Str) :
    NoDiv (if start ≥ 0 then
        (if endText.length > 0 then (.error .molTrailing : PR (Str × Option PMix)) else
          match parseMixture mixText with
          | .error e => .error e
          | .ok m => .ok (slice raw none (some start), some m))
      else .ok (raw, none)) := by
  repeat' (first | exact NoDiv.ok _ | (refine NoDiv.err _ ?_; decide) | split)
  exact (parseMixture_noDiv _).of_eq (by assumption)

theorem molMix_body (raw : Str) (start : Int) (mixText endText : Str) (body : Str) (mix : Option PMix)
    (h : (if start ≥ 0 then
        (if endText.length > 0 then (.error .molTrailing : PR (Str × Option PMix)) else
          match parseMixture mixText with
          | .error e => .error e
          | .ok m => .ok (slice raw none (some start), some m))
      else .ok (raw, none)) = .ok (body, mix)) : body.length ≤ raw.length := by
  split at h
  · split at h
    · cases h
    · split at h
      · cases h
      · cases h; exact length_slice_le _ _ _
  · cases h; exact Nat.le_refl _

theorem molTail_noDiv (valid : Str → Bool) (rp : Nat) (s : MolSt) (mix : Option PMix) :
    NoDiv (if s.text.length > 0 then
        match parseToken valid s.text 0 (rp + s.rid) with
        | .error e => .error e
        | .ok t =>
          match s.elems.getLast? with
          | some lastEl =>
            if t.descs.length == 0 then
              match lastDescOf lastEl with
              | none => .error .pyIndex
              | some other =>
                match parseToken valid (compatText other ++ s.text) 0 (rp + s.rid) with
                | .error e => .error e
                | .ok t2 => .ok { elems := s.elems ++ [PElem.tok t2], mix := mix }
            else .ok { elems := s.elems ++ [PElem.tok t], mix := mix }
          | none => .ok { elems := [PElem.tok t], mix := mix }
      else (.ok { elems := s.elems, mix := mix } : PR PMol)) := by
  repeat' (first | exact NoDiv.ok _ | (refine NoDiv.err _ ?_; decide) | split)
  all_goals exact (parseToken_noDiv _ _ _ _).of_eq (by assumption)

theorem parseMol_noDiv (valid : Str → Bool) (text : Str) (rp : Nat) : NoDiv (parseMol valid text rp) := by
  unfold parseMol
  extract_lets raw start stop mixText endText mixR
  have h1 : NoDiv mixR := molMix_noDiv raw start mixText endText
  have h2 : ∀ body mix, mixR = .ok (body, mix) → body.length ≤ raw.length :=
    fun body mix h => molMix_body raw start mixText endText body mix h
  generalize mixR = r at h1 h2
  generalize raw = r0 at h2
  split
  · rename_i e
    exact h1.of_eq rfl
  · rename_i body mix
    have hb := h2 body mix rfl
    split
    · rename_i e he
      exact (molLoop_noDiv valid rp _ _ (by simp only; omega)).of_eq he
    · exact molTail_noDiv valid rp _ mix

theorem sysStep_noFail (valid : Str → Bool) (st : Str × Nat × List PMol) : NoFail (sysStep valid st) := by
  unfold sysStep
  extract_lets text i endPos
  split
  · exact NoFail.done _
  · split
    · exact NoFail.fail _ (by decide)
    · split
      · rename_i e he
        exact NoFail.of_eq (parseMol_noDiv _ _ _) he
      · exact NoFail.next _

theorem sysLoop_noDiv (valid : Str → Bool) (fuel : Nat) (text : Str) (rid : Nat) (acc : List PMol) (hf : text.length < fuel) :
    NoDiv (sysLoop valid fuel text rid acc) := by
  rcases C15_system_loop_terminates valid fuel text rid acc hf with h | ⟨st, h⟩
  · exact h
  · exact absurd h (sysStep_noFail valid st)

/-- **C15 (parsing any string terminates)** — in the model the `while` loops and scanners carry a fuel argument and "out of
fuel" is the distinct answer `diverge`; with the fuel the parsers pass (a linear function of the length of the text) that
answer is impossible, for every string and every judgement of bracket atoms: a system, a molecule, a stochastic object and
a token are always answered with an object or with one of the error classes. -/
theorem C15_parsing_terminates (valid : Str → Bool) (text : Str) :
    parseSystem valid text ≠ .error .diverge ∧ (∀ rp, parseMol valid text rp ≠ .error .diverge) ∧
    (∀ rp, parseStoch valid text rp ≠ .error .diverge) ∧ (∀ off rid, parseToken valid text off rid ≠ .error .diverge) := by
  refine ⟨?_, fun rp => parseMol_noDiv valid text rp, fun rp => parseStoch_noDiv valid text rp, fun off rid => parseToken_noDiv valid text off rid⟩
  show NoDiv (parseSystem valid text)
  unfold parseSystem
  extract_lets raw
  split
  · rename_i e he
    exact (sysLoop_noDiv valid _ _ _ _ (by omega)).of_eq he
  · split
    · split
      · rename_i e he
        exact (parseMol_noDiv _ _ _).of_eq he
      · exact NoDiv.ok _
    · exact NoDiv.ok _



/-- **C15 (a distribution is only accepted under its own name)**: whatever text `parseDist` accepts starts — after stripping bars and
white space — with the name of the family it is read as; a text in which a known name merely occurs somewhere (`trunc_gauss(…)`,
`xpoisson(…)`) is rejected. -/
theorem C15_distribution_name_is_a_prefix (text : Str) (d : PDist) (h : parseDist text = .ok d) :
    startsWith (stripChars "| \t\n".toList text) (famText d.fam).toList = true := by
  unfold parseDist at h
  split at h
  · cases h
  · rename_i key fam hfind
    extract_lets raw name rest at h
    split at h
    · cases h
    · rename_i hsw
      have hfam : d.fam = fam := by
        repeat' (first | (cases h; done) | split at h)
        all_goals (first | (cases h; rfl) | skip)
      rw [hfam]
      have : startsWith raw name = true := by simpa using hsw
      exact this

example : (match parseDist "|trunc_gauss(100, 10)|".toList with | .error .distPrefix => true | _ => false) = true := by decide +kernel

end GBS.P
