import GBS.Lemmas.Lossless
/-!
# The fuel of the model parsers is never used up

`scan`, `bind` and the `while` loops of `Molecule.__init__` / `System.__init__` are written with a fuel argument, running
out of which is the distinct outcome `diverge`.  The lemmas here show that with the fuel the parsers hand to them this
outcome is impossible — for every text.  (The loops are treated in `Props/C15.lean`.)
-/
namespace GBS.P
open GBS GBS.Py

/-- the result is not "out of fuel" -/
def NoDiv {α : Type} (r : PR α) : Prop := r ≠ .error .diverge

theorem NoDiv.ok {α : Type} (a : α) : NoDiv (.ok a : PR α) := by intro h; cases h

theorem NoDiv.err {α : Type} (e : PErr) (h : e ≠ .diverge) : NoDiv (.error e : PR α) := by
  intro h'; cases h'; exact h rfl

/-! ## first loop: every step consumes at least one character -/

theorem scan_noDiv (valid : Str → Bool) :
    ∀ (f : Nat) (text sub : Str) (acc : List El), text.length < f → NoDiv (scan valid f text sub acc) := by
  intro f
  induction f with
  | zero => intro text sub acc h; omega
  | succ f ih =>
    intro text sub acc hlen
    have one : ∀ (c : Char) (cs : Str) (fl : List El), cs.length < f → NoDiv (scan.scanOne valid f c cs sub acc fl) := by
      intro c cs fl hcs
      unfold scan.scanOne
      split
      · exact ih _ _ _ hcs
      · split
        · split
          · exact NoDiv.err _ (by decide)
          · rename_i k hk
            dsimp only
            have hd : ((c :: cs).drop (k + 1)).length < f := by
              simp only [List.drop_succ_cons, List.length_drop]; omega
            split
            · exact ih _ _ _ hd
            · split
              · exact ih _ _ _ hd
              · exact NoDiv.err _ (by decide)
        · exact ih _ _ _ hcs
    cases text with
    | nil => simp only [scan]; exact NoDiv.ok _
    | cons c cs =>
      simp only [List.length_cons] at hlen
      cases cs with
      | nil => simp only [scan]; exact one c [] _ (by simp; omega)
      | cons c2 rest =>
        simp only [scan]
        split
        · exact ih _ _ _ (by simp only [List.length_cons] at hlen; omega)
        · exact one c (c2 :: rest) _ (by omega)

/-! ## second loop: the cursor moves by one per step and never passes the number of characters -/

theorem length_le_rawText (raws : List Str) (els : List El) (h : ∀ e ∈ els, elRaw raws e ≠ []) :
    els.length ≤ (rawText raws els).length := by
  induction els with
  | nil => simp
  | cons e l ih =>
    rw [rawText_cons]
    have h1 := ih (fun x hx => h x (List.mem_cons_of_mem _ hx))
    have h2 : 1 ≤ (elRaw raws e).length := by
      have := h e List.mem_cons_self
      cases hx : elRaw raws e with
      | nil => exact absurd hx this
      | cons _ _ => simp
    simp only [List.length_cons, List.length_append]
    omega

theorem NoDiv.of_eq {α β : Type} {r : PR α} {e : PErr} (h : NoDiv r) (he : r = .error e) : NoDiv (.error e : PR β) := by
  intro h'; cases h'; exact h he

/-- closes the branches that end in a value or in a literal error, splitting `if` / `match` on the way; what is left are the
    branches that pass on the error of an inner call -/
macro "nodiv" : tactic =>
  `(tactic| repeat' (first | exact NoDiv.ok _ | (refine NoDiv.err _ ?_; decide) | split | extract_lets))

theorem floatOf_noDiv (x : Str) : NoDiv (floatOf x) := by
  unfold floatOf; nodiv

theorem mapM_noDiv {α β : Type} (g : α → PR β) (hg : ∀ x, NoDiv (g x)) : ∀ l : List α, NoDiv (l.mapM g) := by
  intro l
  induction l with
  | nil => rw [List.mapM_nil]; exact NoDiv.ok (α := List β) []
  | cons x xs ih =>
    rw [List.mapM_cons]
    cases hx : g x with
    | error e =>
      have : (do let b ← (Except.error e : PR β); let bs ← List.mapM g xs; pure (b :: bs)) = (Except.error e : PR (List β)) := rfl
      rw [this]; exact (hg x).of_eq hx
    | ok b =>
      cases hxs : xs.mapM g with
      | error e =>
        have : (do let b ← (Except.ok b : PR β); let bs ← (Except.error e : PR (List β)); pure (b :: bs)) = (Except.error e : PR (List β)) := rfl
        rw [this]; exact ih.of_eq hxs
      | ok bs =>
        have : (do let b ← (Except.ok b : PR β); let bs ← (Except.ok bs : PR (List β)); pure (b :: bs)) = (Except.ok (b :: bs) : PR (List β)) := rfl
        rw [this]; exact NoDiv.ok _

theorem parseId_noDiv (raw : Str) : NoDiv (parseId raw) := by
  unfold parseId; nodiv

theorem parseWeights_noDiv (raw : Str) : NoDiv (parseWeights raw) := by
  unfold parseWeights
  repeat' (first | exact NoDiv.ok _ | (refine NoDiv.err _ ?_; decide) | exact (mapM_noDiv floatOf floatOf_noDiv _).of_eq ‹_› | split | extract_lets)

theorem parseDesc_noDiv (text : Str) (num : Nat) (pre : Str) (atom : Option Nat) : NoDiv (parseDesc text num pre atom) := by
  unfold parseDesc
  repeat' (first | exact NoDiv.ok _ | (refine NoDiv.err _ ?_; decide) | exact (parseId_noDiv _).of_eq ‹_› | exact (parseWeights_noDiv _).of_eq ‹_› | split | extract_lets)

theorem pushPop_noDiv : ∀ (a : Str) (st : List Int), NoDiv (pushPop a st) := by
  intro a
  induction a with
  | nil => intro st; simp only [pushPop]; exact NoDiv.ok _
  | cons c cs ih =>
    intro st
    simp only [pushPop]
    split
    · split
      · exact ih _
      · exact NoDiv.err _ (by decide)
    · split
      · split
        · split
          · exact NoDiv.err _ (by decide)
          · exact ih _
        · exact NoDiv.err _ (by decide)
      · exact ih _

theorem bind_noDiv (offset : Nat) (T : Str) :
    ∀ (f : Nat) (s : BindSt) (raws : List Str), BindInv offset T s raws → T.length + 1 - s.ec < f →
      NoDiv (bind offset f s) := by
  intro f
  induction f with
  | zero => intro s raws inv h; omega
  | succ f ih =>
    intro s raws inv hf
    have hlen : s.els.length ≤ T.length := inv.text ▸ length_le_rawText raws s.els inv.nonempty
    have hcur : ∀ x, s.els[s.ec]? = some x → s.ec < T.length := by
      intro x hx
      rcases Nat.lt_or_ge s.ec s.els.length with h' | h'
      · omega
      · rw [List.getElem?_eq_none h'] at hx; cases hx
    -- every continuing step keeps the invariant (for some list of raw texts) and advances the cursor by one
    intro hdiv
    -- replay the step with the losslessness proof: if `bind` answered `diverge`, one recursive call did
    unfold bind at hdiv
    split at hdiv
    · cases hdiv
    · rename_i t hel
      split at hdiv
      · refine ih _ raws ?_ (by have := hcur _ hel; simp only; omega) hdiv
        exact {
          len := inv.len, text := inv.text, bonds := inv.bonds, parsed := inv.parsed
          atoms := by
            show s.atoms ++ [t] = (s.els.take (s.ec + 1)).filterMap El.atom?
            rw [filterMap_take_succ _ _ _ hel, inv.atoms]; rfl
          nonempty := inv.nonempty }
      · cases hdiv
    · rename_i k hel
      exact ih _ raws (inv.skip (El.bond k) hel rfl s.stack) (by have := hcur _ hel; simp only; omega) hdiv
    · rename_i e hel
      split at hdiv
      · dsimp only at hdiv
        split at hdiv
        · cases hdiv
        · split at hdiv
          · cases hdiv
          · split at hdiv
            · rename_i err hpp
              cases hdiv
              exact pushPop_noDiv _ _ hpp
            · split at hdiv
              · cases hdiv
              · split at hdiv
                · cases hdiv
                · split at hdiv
                  · rename_i err hpd
                    cases hdiv
                    exact parseDesc_noDiv _ _ _ _ hpd
                  · rename_i pd hpd
                    have hOpen : ¬ find e ['['] < 0 := by assumption
                    have hClose : ¬ find e [']'] ≤ 0 := by assumption
                    exact ih _ _ (inv.cut e hel hOpen hClose _ _ pd hpd _) (by have := hcur _ hel; simp only; omega) hdiv
      · split at hdiv
        · rename_i err hpp
          cases hdiv
          exact pushPop_noDiv _ _ hpp
        · rename_i st hpp
          exact ih _ raws (inv.skip (El.str e) hel rfl st) (by have := hcur _ hel; simp only; omega) hdiv

theorem length_stripBy_le' (p : Char → Bool) (s : Str) : (stripBy p s).length ≤ s.length := by
  unfold stripBy rstripBy lstripBy
  have h1 : ∀ l : Str, (l.dropWhile p).length ≤ l.length := by
    intro l
    induction l with
    | nil => simp
    | cons c cs ih => simp only [List.dropWhile_cons]; split <;> simp <;> omega
  have := h1 (List.dropWhile p s).reverse
  have := h1 s
  simp only [List.length_reverse] at *
  omega

/-- **the token parser never runs out of fuel** -/
theorem parseToken_noDiv (valid : Str → Bool) (text : Str) (offset resId : Nat) : NoDiv (parseToken valid text offset resId) := by
  unfold parseToken
  dsimp only
  split
  · exact NoDiv.err _ (by decide)
  · split
    · rename_i e hscan
      exact (scan_noDiv valid _ _ _ _ (by omega)).of_eq hscan
    · rename_i els hscan
      split
      · rename_i e hbind
        have h0 := scan_lossless valid [] _ _ _ _ _ hscan
        have hnb := scan_noBond valid _ _ _ _ _ hscan (by simp)
        have inv0 : BindInv offset (strip text) { els := els } [] := {
          len := rfl
          text := by simpa [rawText] using h0
          bonds := by
            intro k hk
            have := hnb _ hk
            simp [El.isBond] at this
          parsed := by intro k r hr; simp at hr
          atoms := rfl
          nonempty := scan_nonempty valid [] _ _ _ _ _ hscan (by simp) }
        exact (bind_noDiv offset (strip text) _ _ _ inv0 (by simp only; omega)).of_eq hbind
      · exact NoDiv.ok _

/-! ## the parsers without fuel of their own -/

theorem numberLit_noDiv (u : Str) : NoDiv (numberLit u) := by
  unfold numberLit; nodiv

mutual
theorem pyValue_noDiv : ∀ (f : Nat) (s : Str), NoDiv (pyValue f s)
  | 0, s => by unfold pyValue; exact NoDiv.err _ (by decide)
  | f + 1, s => by
    unfold pyValue
    repeat' (first | exact NoDiv.ok _ | (refine NoDiv.err _ ?_; decide) | exact (pyValue_noDiv f _).of_eq ‹_› | exact (pyItems_noDiv f _ _ _).of_eq ‹_› | exact (numberLit_noDiv _).of_eq ‹_› | split | extract_lets)
theorem pyItems_noDiv : ∀ (f : Nat) (s : Str) (acc : List PyVal) (c : Bool), NoDiv (pyItems f s acc c)
  | 0, s, acc, c => by unfold pyItems; exact NoDiv.err _ (by decide)
  | f + 1, s, acc, c => by
    unfold pyItems
    repeat' (first | exact NoDiv.ok _ | (refine NoDiv.err _ ?_; decide) | exact (pyValue_noDiv f _).of_eq ‹_› | exact pyItems_noDiv f _ _ _ | split | extract_lets)
end

theorem parseTuple_noDiv (s : Str) : NoDiv (parseTuple s) := by
  unfold parseTuple
  repeat' (first | exact NoDiv.ok _ | (refine NoDiv.err _ ?_; decide) | exact (pyItems_noDiv _ _ _ _).of_eq ‹_› | split | dsimp only)
  · rename_i heq
    intro hd; cases hd
    split at heq
    · cases heq
    · split at heq <;> cases heq
  · rename_i heq
    exact (mapM_noDiv _ (fun x => by cases x <;> first | exact NoDiv.ok _ | exact NoDiv.err _ (by decide)) _).of_eq heq

theorem parseDist_noDiv (text : Str) : NoDiv (parseDist text) := by
  unfold parseDist
  repeat' (first | exact NoDiv.ok _ | (refine NoDiv.err _ ?_; decide) | split | extract_lets)
  all_goals first
    | exact (floatOf_noDiv _).of_eq (by assumption)
    | exact (parseTuple_noDiv _).of_eq (by assumption)

theorem parseMixture_noDiv (raw : Str) : NoDiv (parseMixture raw) := by
  unfold parseMixture; nodiv

theorem parseGroup_noDiv (valid : Str → Bool) (parts : List Str) (offset resId : Nat) : NoDiv (parseGroup valid parts offset resId) := by
  unfold parseGroup
  generalize (([], offset, resId) : List PToken × Nat × Nat) = acc
  induction parts generalizing acc with
  | nil => exact NoDiv.ok _
  | cons p ps ih =>
    rw [List.foldlM_cons]
    dsimp only
    split
    · exact ih _
    · cases hp : parseToken valid (strip p) acc.2.1 acc.2.2 with
      | error e => exact (parseToken_noDiv valid _ _ _).of_eq hp
      | ok t => exact ih _

theorem validateStoch_noDiv (o : PStoch) : NoDiv (validateStoch o) := by
  unfold validateStoch; nodiv

theorem map_some_noDiv {α : Type} (r : PR α) (h : NoDiv r) : NoDiv (r.map some) := by
  cases r with
  | error e => intro h'; simp only [Except.map] at h'; cases h'; exact h rfl
  | ok a => simp only [Except.map]; exact NoDiv.ok _

theorem distOpt_noDiv (t : Str) : NoDiv (if t.length > 1 then (parseDist t).map some else (.ok none : PR (Option PDist))) := by
  split
  · exact map_some_noDiv _ (parseDist_noDiv _)
  · exact NoDiv.ok _

theorem parseStochRaw_noDiv (valid : Str → Bool) (text : Str) (resPrefix : Nat) : NoDiv (parseStochRaw valid text resPrefix) := by
  unfold parseStochRaw
  extract_lets raw middle leftText leftPre i0 rightText i1 rightPre endT distText distR
  have hdist : ∀ e, distR = .error e → NoDiv (.error e : PR PStoch) := fun e he => (distOpt_noDiv distText).of_eq he
  -- the values of the intermediate texts play no role: forget them, so that `split` can work on the matches
  generalize distR = dR at hdist ⊢
  generalize raw = r0
  generalize middle = m0
  repeat' (first | exact NoDiv.ok _ | (refine NoDiv.err _ ?_; decide) | split | extract_lets)
  all_goals first
    | exact (parseDesc_noDiv _ _ _ _).of_eq (by assumption)
    | exact (parseGroup_noDiv _ _ _ _).of_eq (by assumption)
    | exact hdist _ rfl

theorem parseStoch_noDiv (valid : Str → Bool) (text : Str) (resPrefix : Nat) : NoDiv (parseStoch valid text resPrefix) := by
  unfold parseStoch
  repeat' (first | exact NoDiv.ok _ | exact validateStoch_noDiv _ | exact (parseStochRaw_noDiv _ _ _).of_eq ‹_› | split)

end GBS.P
