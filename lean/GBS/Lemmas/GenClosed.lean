import GBS.Lemmas.GenBasic
/-!
# A generic preservation theorem for generation

`Closed P` lists the five ways in which the generator changes a partially generated molecule
(`P s R`: state `s` with the temporarily reserved descriptors `R`).  Every predicate closed under them
holds of every molecule `genMol` returns, for every oracle.
-/
namespace GBS

theorem bind_ok {ε α β} {x : Except ε α} {f : α → Except ε β} {b : β} :
    (x >>= f) = .ok b ↔ ∃ a, x = .ok a ∧ f a = .ok b := by
  cases x with
  | error e => simp [bind, Except.bind]
  | ok a => simp [bind, Except.bind]

structure Closed (P : Mol → List OpenD → Prop) : Prop where
  new : ∀ t m, newMol t = .ok m → P m []
  attach : ∀ s R i t j s', P s R → attach s i t j = .ok s' → P s' R
  setWT : ∀ s R op tr w, P s R → s.opens = [op] →
    P { s with opens := [{ op with d := { op.d with trans := tr, weight := w } }] } R
  reserve : ∀ s k o, P s [] → s.opens[k]? = some o → P { s with opens := s.opens.eraseIdx k } [o]
  release : ∀ s o, P s [o] → P { s with opens := s.opens ++ [o] } []

theorem posOf_mem {v : Nat} {opts : List Nat} {k : Nat} (h : posOf v opts = some k) : v ∈ opts := by
  induction opts generalizing k with
  | nil => simp [posOf] at h
  | cons o os ih =>
    unfold posOf at h
    by_cases ho : o = v
    · simp [ho]
    · simp only [ho, if_false] at h
      cases hp : posOf v os with
      | none => simp [hp] at h
      | some k' => exact List.mem_cons_of_mem _ (ih hp)

theorem pickFrom_mem {opts : List Nat} {probs : List Rat} {ω ω' : Oracle} {v : Nat} {c : Choice}
    (h : pickFrom opts probs ω = .ok (v, c, ω')) : v ∈ opts ∧ c = ⟨opts, probs, v⟩ := by
  unfold pickFrom at h
  split at h
  · rename_i w rest
    split at h
    · rename_i k hp
      split at h
      · simp only [Except.ok.injEq, Prod.mk.injEq] at h
        obtain ⟨rfl, rfl, rfl⟩ := h
        exact ⟨posOf_mem hp, rfl⟩
      · cases h
    · cases h
  · cases h
  · cases h

/-- a successful `choose` returns an index that passed the compatibility filter -/
theorem choose_mem {bds : List Desc} {b : Option Desc} {ω ω' : Oracle} {v : Nat} {c : Choice}
    (h : choose bds b ω = .ok (v, c, ω')) : v ∈ compatibleIds bds b := by
  unfold choose at h
  simp only at h
  split at h
  · cases h
  · split at h
    · cases h
    · exact (pickFrom_mem h).1

theorem choose_lt {bds : List Desc} {b : Option Desc} {ω ω' : Oracle} {v : Nat} {c : Choice}
    (h : choose bds b ω = .ok (v, c, ω')) : v < bds.length := by
  obtain ⟨hlt, -⟩ := (C03_filter bds b v).1 (choose_mem h)
  exact hlt

macro "ok_inj" h:ident : tactic =>
  `(tactic| (simp only [Except.ok.injEq, Prod.mk.injEq] at $h:ident))

variable {P : Mol → List OpenD → Prop}

theorem capOne_pres (hP : Closed P) {o : Stoch} {s s' : Mol} {R} {ω ω' : Oracle} {t : Trace}
    (hs : P s R) (h : capOne o s ω = .ok (s', t, ω')) : P s' R := by
  unfold capOne at h
  split at h
  · cases h
  · split at h
    · cases h
    · split at h
      · split at h
        · cases h
        · rename_i ha
          ok_inj h
          obtain ⟨rfl, -, -⟩ := h
          exact hP.attach _ _ _ _ _ _ hs ha
      · cases h

theorem capAll_pres (hP : Closed P) {o : Stoch} (f : Nat) {s s' : Mol} {R} {ω ω' : Oracle} {t : Trace}
    (hs : P s R) (h : capAll o f s ω = .ok (s', t, ω')) : P s' R := by
  induction f generalizing s s' ω ω' t with
  | zero =>
    unfold capAll at h
    split at h
    · ok_inj h; obtain ⟨rfl, -, -⟩ := h; exact hs
    · cases h
  | succ f ih =>
    unfold capAll at h
    split at h
    · ok_inj h; obtain ⟨rfl, -, -⟩ := h; exact hs
    · split at h
      · cases h
      · rename_i h1
        split at h
        · cases h
        · rename_i h2
          ok_inj h; obtain ⟨rfl, -, -⟩ := h
          exact ih (capOne_pres hP hs h1) h2

theorem finalize_pres (hP : Closed P) {o : Stoch} (f : Nat) {s s' : Mol} {ω ω' : Oracle} {t : Trace}
    (hs : P s []) (h : finalize o f s ω = .ok (s', t, ω')) : P s' [] := by
  unfold finalize at h
  split at h
  · split at h
    · cases h
    · rename_i k c ω1 hc
      split at h
      · cases h
      · rename_i h1
        ok_inj h; obtain ⟨rfl, -, -⟩ := h
        have hk : k < (s.opens.map (·.d)).length := choose_lt hc
        simp only [List.length_map] at hk
        have hget : s.opens[k]? = some (s.opens.getD k default) := by
          simp [List.getD_eq_getElem?_getD, List.getElem?_eq_getElem hk]
        exact hP.release _ _ (capAll_pres hP f (hP.reserve s k _ hs hget) h1)
  · exact capAll_pres hP f hs h

theorem addUnit_pres (hP : Closed P) {o : Stoch} {s s' : Mol} {R} {ω ω' : Oracle} {t : Trace}
    (hs : P s R) (h : addUnit o s ω = .ok (s', t, ω')) : P s' R := by
  unfold addUnit at h
  split at h
  · cases h
  · split at h
    · cases h
    · split at h
      · split at h
        · cases h
        · rename_i ha
          ok_inj h; obtain ⟨rfl, -, -⟩ := h
          exact hP.attach _ _ _ _ _ _ hs ha
      · cases h

theorem growLoop_pres (hP : Closed P) {o : Stoch} {start target : Rat} (f : Nat) {n : Nat} {s s' : Mol}
    {ω ω' : Oracle} {t : Trace}
    (hs : P s []) (h : growLoop o start target f n s ω = .ok (s', t, ω')) : P s' [] := by
  induction f generalizing n s s' ω ω' t with
  | zero => unfold growLoop at h; cases h
  | succ f ih =>
    unfold growLoop at h
    split at h
    · cases h
    · rename_i s1 t1 ω1 h1
      have hs1 := addUnit_pres hP hs h1
      split at h
      · ok_inj h; obtain ⟨rfl, -, -⟩ := h; exact hs1
      · split at h
        · cases h
        · rename_i h2
          split at h
          · ok_inj h; obtain ⟨rfl, -, -⟩ := h
            exact finalize_pres hP _ hs1 h2
          · split at h
            · cases h
            · rename_i h3
              ok_inj h; obtain ⟨rfl, -, -⟩ := h
              exact ih hs1 h3

theorem getStart_pres (hP : Closed P) {o : Stoch} {pre : Option Mol} {s' : Mol} {ω ω' : Oracle} {t : Trace}
    (hpre : ∀ p, pre = some p → P p []) (h : getStart o pre ω = .ok (s', t, ω')) : P s' [] := by
  unfold getStart at h
  split at h
  · split at h
    · cases h
    · split at h
      · cases h
      · split at h
        · split at h
          · cases h
          · split at h
            · cases h
            · rename_i hm
              ok_inj h; obtain ⟨rfl, -, -⟩ := h
              exact hP.new _ _ hm
        · cases h
  · rename_i p
    split at h
    · rename_i op hop
      split at h
      · cases h
      · ok_inj h; obtain ⟨rfl, -, -⟩ := h
        exact hP.setWT p [] op _ _ (hpre p rfl) hop
    · cases h

theorem genStoch_pres (hP : Closed P) {o : Stoch} {fuel : Nat} {pre : Option Mol} {s' : Mol} {ω ω' : Oracle} {t : Trace}
    (hpre : ∀ p, pre = some p → P p []) (h : genStoch o fuel pre ω = .ok (s', t, ω')) : P s' [] := by
  unfold genStoch at h
  split at h
  · cases h
  · split at h
    · cases h
    · split at h
      · cases h
      · rename_i hst
        split at h
        · split at h
          · cases h
          · rename_i hg
            ok_inj h; obtain ⟨rfl, -, -⟩ := h
            exact growLoop_pres hP _ (getStart_pres hP hpre hst) hg
        · cases h
        · cases h

theorem genToken_pres (hP : Closed P) {t : Token} {pre : Option Mol} {s' : Mol} {ω ω' : Oracle} {tr : Trace}
    (hpre : ∀ p, pre = some p → P p []) (h : genToken t pre ω = .ok (s', tr, ω')) : P s' [] := by
  unfold genToken at h
  split at h
  · cases h
  · split at h
    · split at h
      · cases h
      · rename_i hm
        ok_inj h; obtain ⟨rfl, -, -⟩ := h
        exact hP.new _ _ hm
    · rename_i p
      split at h
      · split at h
        · cases h
        · split at h
          · cases h
          · rename_i hm
            ok_inj h; obtain ⟨rfl, -, -⟩ := h
            exact hP.attach _ _ _ _ _ _ (hpre p rfl) hm
      · cases h

theorem genElement_pres (hP : Closed P) {fuel : Nat} {e : Element} {pre : Option Mol} {s' : Mol} {ω ω' : Oracle} {tr : Trace}
    (hpre : ∀ p, pre = some p → P p []) (h : genElement fuel e pre ω = .ok (s', tr, ω')) : P s' [] := by
  cases e with
  | tok t => exact genToken_pres hP hpre h
  | stoch o => exact genStoch_pres hP hpre h

theorem genElems_pres (hP : Closed P) {fuel : Nat} (es : List Element) {pre : Option Mol} {r : Option Mol} {ω ω' : Oracle} {tr : Trace}
    (hpre : ∀ p, pre = some p → P p []) (h : genElems fuel es pre ω = .ok (r, tr, ω')) :
    ∀ m, r = some m → P m [] := by
  induction es generalizing pre r ω ω' tr with
  | nil =>
    unfold genElems at h
    ok_inj h; obtain ⟨rfl, -, -⟩ := h
    exact hpre
  | cons e es ih =>
    unfold genElems at h
    split at h
    · cases h
    · rename_i h1
      split at h
      · cases h
      · rename_i h2
        ok_inj h; obtain ⟨rfl, -, -⟩ := h
        exact ih (fun p hp => by injection hp with hp; subst hp; exact genElement_pres hP hpre h1) h2

/-- **Generic invariant theorem**: a predicate closed under the generator's five state changes holds of
every molecule generation returns — for every molecule description, every oracle, every fuel. -/
theorem genMol_pres (hP : Closed P) {fuel : Nat} (es : List Element) {ω ω' : Oracle} {tr : Trace} {m : Mol}
    (h : genMol fuel es ω = .ok (some m, tr, ω')) : P m [] :=
  genElems_pres hP es (pre := none) (fun _ hp => by cases hp) h m rfl

end GBS
