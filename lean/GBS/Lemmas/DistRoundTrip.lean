import GBS.Lemmas.RoundTrip
/-!
# The text form of a distribution reproduces its parameters

`parseDist (printDist d) = d` on characters for the two-parameter families that print their parameters with `repr`
(gauss, schulz_zimm, log_normal), for flory_schulz (one parenthesised number), poisson (`float` of a slice) and uniform (integer bounds):
dispatch by substring (`get_distribution`), `strip("| \t\n")`, `startswith`, and the evaluation of
the argument text by the model of `ast.literal_eval` (`pyValue` / `pyItems` / `takeNumber` / `numberLit`).  The side condition
`DistNumOK` on the printed form of each parameter is decidable for every concrete number.
-/
namespace GBS.P
open GBS GBS.Py GBS.Num

theorem isPrefix_append (p r : Str) : isPrefix p (p ++ r) = true := by
  induction p with
  | nil => cases r <;> rfl
  | cons c cs ih => simp [isPrefix, ih]

theorem isPrefix_mem {p s : Str} (h : isPrefix p s = true) : ∀ c ∈ p, c ∈ s := by
  induction p generalizing s with
  | nil => intro c hc; cases hc
  | cons x xs ih =>
    cases s with
    | nil => simp [isPrefix] at h
    | cons y ys =>
      simp only [isPrefix, Bool.and_eq_true, beq_iff_eq] at h
      intro c hc
      rcases List.mem_cons.1 hc with rfl | hc
      · rw [h.1]; exact List.mem_cons_self
      · exact List.mem_cons_of_mem _ (ih h.2 c hc)

theorem findFrom_absent (pat : Str) (c : Char) (hc : c ∈ pat) : ∀ (s : Str) (i : Nat), c ∉ s → findFrom pat s i = none := by
  intro s
  induction s with
  | nil =>
    intro i _
    cases pat with
    | nil => cases hc
    | cons _ _ => simp [findFrom]
  | cons x xs ih =>
    intro i hs
    unfold findFrom
    have : isPrefix pat (x :: xs) = false := by
      cases h : isPrefix pat (x :: xs) with
      | false => rfl
      | true => exact absurd (isPrefix_mem h c hc) hs
    simp only [this]
    exact ih _ (fun h => hs (List.mem_cons_of_mem _ h))

theorem contains_absent (s pat : Str) (c : Char) (hc : c ∈ pat) (hs : c ∉ s) : contains s pat = false := by
  unfold contains find
  simp only [List.drop_zero]
  have h0 : ¬ (0 > s.length) := by omega
  simp only [h0, if_false, findFrom_absent pat c hc s 0 hs]
  decide

theorem findFrom_at_one (x : Char) (pat r : Str) (i : Nat) : ∃ j, findFrom pat (x :: (pat ++ r)) i = some j := by
  rw [findFrom.eq_def]
  by_cases h1 : isPrefix pat (x :: (pat ++ r)) = true
  · exact ⟨i, by simp [h1]⟩
  · simp only [h1]
    cases hp : pat ++ r with
    | nil =>
      have : pat = [] := (List.append_eq_nil_iff.1 hp).1
      subst this
      simp [isPrefix] at h1
    | cons y ys =>
      refine ⟨i + 1, ?_⟩
      rw [findFrom.eq_def]
      have := isPrefix_append pat r
      rw [hp] at this
      simp [this]

theorem contains_at_one (x : Char) (pat r : Str) : contains (x :: (pat ++ r)) pat = true := by
  unfold contains find
  have h0 : ¬ (0 > (x :: (pat ++ r)).length) := by omega
  simp only [h0, if_false, List.drop_zero]
  obtain ⟨j, hj⟩ := findFrom_at_one x pat r 0
  rw [hj]
  simp only [bne_iff_ne, ne_eq]
  omega

/-- the characters `takeNumber` keeps: those of a numeric token, and a sign directly behind an exponent letter -/
def takeCond (c : Char) (acc : Str) : Bool :=
  isNumChar c || ((c == '+' || c == '-') && (match acc with | e :: d :: _ => (e == 'e' || e == 'E') && (d.isDigit || d == '.' || d == '_') | _ => false))

theorem takeNumber_cons (acc : Str) (c : Char) (cs : Str) :
    takeNumber acc (c :: cs) = if takeCond c acc then takeNumber (c :: acc) cs else (acc.reverse, c :: cs) := by
  conv => lhs; unfold takeNumber
  unfold takeCond
  by_cases h1 : isNumChar c = true
  · simp only [h1, if_true, Bool.true_or]
  · have h1' : isNumChar c = false := by simpa using h1
    simp only [h1', Bool.false_or, Bool.false_eq_true, if_false]
    rcases acc with _ | ⟨e, _ | ⟨d, tl⟩⟩ <;> rfl

/-- what `takeNumber` does depends on the text behind the stopping character not at all -/
theorem takeNumber_extend (c : Char) (r : Str) : ∀ (t acc x : Str), takeNumber acc (t ++ [c]) = (x, [c]) → takeNumber acc (t ++ c :: r) = (x, c :: r) := by
  intro t
  induction t with
  | nil =>
    intro acc x h
    simp only [List.nil_append] at h ⊢
    rw [takeNumber_cons] at h ⊢
    by_cases hc : takeCond c acc = true
    · simp only [hc, if_true] at h
      rw [takeNumber] at h
      cases h
    · simp only [hc] at h ⊢
      cases h; rfl
  | cons y ys ih =>
    intro acc x h
    simp only [List.cons_append] at h ⊢
    rw [takeNumber_cons] at h ⊢
    by_cases hy : takeCond y acc = true
    · simp only [hy, if_true] at h ⊢
      exact ih _ _ h
    · simp only [hy] at h
      have h2 := (Prod.mk.injEq _ _ _ _ ▸ h : _ ∧ _).2
      cases ys <;> simp at h2

/-- what the distribution round trip needs to know about the printed form of a parameter (decidable for every concrete number) -/
def TokOK (t : Str) (w : Rat) : Prop :=
  numberLit (t) = .ok w ∧
  takeNumber [] (t ++ [',']) = (t, [',']) ∧ takeNumber [] (t ++ [')']) = (t, [')']) ∧
  (∀ c ∈ t, c.isDigit = true ∨ c = '.' ∨ c = 'e' ∨ c = '-' ∨ c = '+') ∧
  ((t).head?.map Char.isDigit) = some true

theorem TokOK.head {t : Str} {w : Rat} (h : TokOK t w) : ∃ x xs, t = x :: xs ∧ x.isDigit = true := by
  have := h.2.2.2.2
  cases hs : t with
  | nil => rw [hs] at this; simp at this
  | cons x xs => rw [hs] at this; simp at this; exact ⟨x, xs, rfl, this⟩

theorem TokOK.no_hash {t : Str} {w : Rat} (h : TokOK t w) : ∀ c ∈ t, c ≠ '#' := by
  intro c hc
  rcases h.2.2.2.1 c hc with h1 | h1 | h1 | h1 | h1
  · intro h2; subst h2; simp at h1
  all_goals (subst h1; decide)

theorem digit_facts {x : Char} (h : x.isDigit = true) :
    isWs x = false ∧ x ≠ '-' ∧ x ≠ '+' ∧ x ≠ '(' ∧ x ≠ ')' ∧ x ≠ ',' := by
  refine ⟨isWs_of_digit h, ?_, ?_, ?_, ?_, ?_⟩ <;> (intro h2; subst h2; simp at h)

/-- one number in front of `,` or `)` -/
theorem pyValue_number (f : Nat) (t : Str) (w : Rat) (h : TokOK t w) (c : Char) (hc : c = ',' ∨ c = ')') (r : Str) :
    pyValue (f + 1) (t ++ c :: r) = .ok (.num w, c :: r) := by
  obtain ⟨x, xs, hx, hxd⟩ := h.head
  obtain ⟨hlit, htc, htp, -, -⟩ := h
  obtain ⟨hws, hm, hp, ho, -, -⟩ := digit_facts hxd
  have htake : takeNumber [] (t ++ c :: r) = (t, c :: r) := by
    rcases hc with rfl | rfl
    · exact takeNumber_extend _ _ _ _ _ htc
    · exact takeNumber_extend _ _ _ _ _ htp
  have hskip : skipWs (t ++ c :: r) = t ++ c :: r := by
    unfold skipWs; rw [hx]; simp [List.dropWhile_cons, hws]
  rw [pyValue]
  rw [hskip]
  have hne : (t).isEmpty = false := by rw [hx]; rfl
  split
  · rename_i r' heq; rw [hx] at heq; simp at heq; exact absurd heq.1 hm
  · rename_i r' heq; rw [hx] at heq; simp at heq; exact absurd heq.1 hp
  · rename_i r' heq; rw [hx] at heq; simp at heq; exact absurd heq.1 ho
  · simp only [htake, hne, hlit]
    simp

theorem pyItems_close (f : Nat) (s : Str) (acc : List PyVal) (comma : Bool) (v : PyVal) (rest : Str)
    (h : pyValue f s = .ok (v, ')' :: rest)) : pyItems (f + 1) s acc comma = .ok (acc ++ [v], comma, rest) := by
  rw [pyItems]
  simp only [h]
  have : skipWs (')' :: rest) = ')' :: rest := by unfold skipWs; simp [isWs]
  simp [this]

theorem pyItems_comma (f : Nat) (s : Str) (acc : List PyVal) (comma : Bool) (v : PyVal) (rest : Str) (x : Char) (xs : Str)
    (h : pyValue f s = .ok (v, ',' :: rest)) (hs : skipWs rest = x :: xs) (hx : x ≠ ')') :
    pyItems (f + 1) s acc comma = pyItems f rest (acc ++ [v]) true := by
  rw [pyItems]
  simp only [h]
  have : skipWs (',' :: rest) = ',' :: rest := by unfold skipWs; simp [isWs]
  simp only [this, hs]
  split
  · rename_i heq; simp at heq; exact absurd heq.1 hx
  · rfl

theorem pyValue_paren_tuple (f : Nat) (s r : Str) (x : Char) (xs : Str) (items : List PyVal) (rest : Str)
    (hs : skipWs s = '(' :: r) (hr : skipWs r = x :: xs) (hx : x ≠ ')')
    (h : pyItems f r [] false = .ok (items, true, rest)) : pyValue (f + 1) s = .ok (.tup items, rest) := by
  rw [pyValue]
  simp only [hs, hr]
  split
  · rename_i heq; simp at heq; exact absurd heq.1 hx
  · simp [h]

theorem pyValue_paren_single (f : Nat) (s r : Str) (x : Char) (xs : Str) (v : PyVal) (rest : Str)
    (hs : skipWs s = '(' :: r) (hr : skipWs r = x :: xs) (hx : x ≠ ')')
    (h : pyItems f r [] false = .ok ([v], false, rest)) : pyValue (f + 1) s = .ok (v, rest) := by
  rw [pyValue]
  simp only [hs, hr]
  split
  · rename_i heq; simp at heq; exact absurd heq.1 hx
  · simp [h]

theorem pyValue_space (f : Nat) (s : Str) : pyValue (f + 1) (' ' :: s) = pyValue (f + 1) s := by
  rw [pyValue, pyValue]
  have : skipWs (' ' :: s) = skipWs s := by unfold skipWs; simp [isWs]
  rw [this]

theorem skipWs_digit (t : Str) (w : Rat) (h : TokOK t w) (r : Str) : ∃ x xs, skipWs (t ++ r) = x :: xs ∧ x ≠ ')' := by
  obtain ⟨x, xs, hx, hxd⟩ := h.head
  obtain ⟨hws, -, -, -, hcl, -⟩ := digit_facts hxd
  refine ⟨x, xs ++ r, ?_, hcl⟩
  unfold skipWs; rw [hx]; simp [hws]

/-- `(a, b)` -/
theorem pyValue_pair (n : Nat) (ta tb : Str) (a b : Rat) (ha : TokOK ta a) (hb : TokOK tb b) (tail : Str) :
    pyValue (n + 4) ('(' :: (ta ++ ',' :: ' ' :: (tb ++ ')' :: tail))) = .ok (.tup [.num a, .num b], tail) := by
  obtain ⟨x, xs, hsk, hx⟩ := skipWs_digit ta a ha (',' :: ' ' :: (tb ++ ')' :: tail))
  refine pyValue_paren_tuple (n + 3) _ _ x xs _ _ (by unfold skipWs; simp [isWs]) hsk hx ?_
  obtain ⟨y, ys, hsk2, hy⟩ := skipWs_digit tb b hb (')' :: tail)
  have hsk2' : skipWs (' ' :: (tb ++ ')' :: tail)) = y :: ys := by
    have : skipWs (' ' :: (tb ++ ')' :: tail)) = skipWs (tb ++ ')' :: tail) := by unfold skipWs; simp [isWs]
    rw [this, hsk2]
  rw [pyItems_comma (n + 2) _ [] false (.num a) _ y ys (pyValue_number (n + 1) ta a ha ',' (Or.inl rfl) _) hsk2' hy]
  rw [pyItems_close (n + 1) _ _ true (.num b) tail (by rw [pyValue_space]; exact pyValue_number n tb b hb ')' (Or.inr rfl) tail)]
  rfl

theorem takeWhile_all {α : Type} (p : α → Bool) (l : List α) (h : ∀ x ∈ l, p x = true) : l.takeWhile p = l := by
  induction l with
  | nil => rfl
  | cons x xs ih => simp [List.takeWhile_cons, h x List.mem_cons_self, ih (fun y hy => h y (List.mem_cons_of_mem _ hy))]

/-- the argument text `(a, b)` of a two-parameter distribution -/
def pairTextOf (ta tb : Str) : Str := '(' :: (ta ++ ',' :: ' ' :: (tb ++ [')']))

theorem parseTuple_pair (ta tb : Str) (a b : Rat) (ha : TokOK ta a) (hb : TokOK tb b) : parseTuple (pairTextOf ta tb) = .ok ([a, b], true) := by
  have hnohash : ∀ c ∈ pairTextOf ta tb, (c != '#') = true := by
    intro c hc
    simp only [pairTextOf, List.mem_cons, List.mem_append, List.mem_nil_iff, or_false] at hc
    rcases hc with rfl | hc | rfl | rfl | hc | rfl
    · decide
    · simpa using ha.no_hash c hc
    · decide
    · decide
    · simpa using hb.no_hash c hc
    · decide
  unfold parseTuple
  simp only [takeWhile_all _ _ hnohash]
  have hv : pyValue (2 * (pairTextOf ta tb).length + 5) (pairTextOf ta tb ++ [')']) = .ok (.tup [.num a, .num b], [')']) := by
    have := pyValue_pair (2 * (pairTextOf ta tb).length + 1) ta tb a b ha hb [')']
    simpa [pairTextOf] using this
  rw [pyItems_close _ _ [] false _ [] hv]
  simp [List.mapM_cons, List.mapM_nil, pure, Except.pure]
  rfl

theorem mem_pairText {ta tb : Str} {a b : Rat} (ha : TokOK ta a) (hb : TokOK tb b) {c : Char} (hc : c ∈ pairTextOf ta tb) :
    c.isDigit = true ∨ c ∈ ['.', 'e', '-', '+', '(', ',', ' ', ')'] := by
  simp only [pairTextOf, List.mem_cons, List.mem_append, List.mem_nil_iff, or_false] at hc
  have num : ∀ (t : Str) (w : Rat), TokOK t w → c ∈ t → c.isDigit = true ∨ c ∈ ['.', 'e', '-', '+', '(', ',', ' ', ')'] := by
    intro t w hw h
    rcases hw.2.2.2.1 c h with h1 | h1 | h1 | h1 | h1
    · exact Or.inl h1
    all_goals (right; subst h1; decide)
  rcases hc with rfl | hc | rfl | rfl | hc | rfl
  · right; decide
  · exact num ta a ha hc
  · right; decide
  · right; decide
  · exact num tb b hb hc
  · right; decide

/-- the printed form of a two-parameter distribution whose name is `name` -/
def distTextOf (name ta tb : Str) : Str := '|' :: (name ++ (pairTextOf ta tb ++ ['|']))

theorem absent_distText (name : Str) {ta tb : Str} {a b : Rat} (ha : TokOK ta a) (hb : TokOK tb b) (c : Char)
    (hd : c.isDigit = false) (hp : c ∉ ['.', 'e', '-', '+', '(', ',', ' ', ')', '|']) (hn : c ∉ name) : c ∉ distTextOf name ta tb := by
  intro hc
  simp only [distTextOf, List.mem_cons, List.mem_append, List.mem_nil_iff, or_false] at hc
  rcases hc with rfl | hc | hc | rfl
  · exact hp (by decide)
  · exact hn hc
  · rcases mem_pairText ha hb hc with h1 | h1
    · rw [h1] at hd; cases hd
    · apply hp
      simp only [List.mem_cons, List.mem_nil_iff, or_false] at h1 ⊢
      rcases h1 with h | h | h | h | h | h | h | h <;> simp [h]
  · exact hp (by decide)

theorem strip_distText (name ta tb : Str) (x : Char) (xs : Str) (hname : name = x :: xs)
    (hx : ("| \t\n".toList).contains x = false) : stripChars "| \t\n".toList (distTextOf name ta tb) = name ++ pairTextOf ta tb := by
  unfold stripChars distTextOf
  have hrev : ∃ ys, (name ++ pairTextOf ta tb).reverse = ')' :: ys := by
    refine ⟨(name ++ '(' :: (ta ++ ',' :: ' ' :: tb)).reverse, ?_⟩
    simp [pairTextOf]
  obtain ⟨ys, hys⟩ := hrev
  have := stripBy_sandwich (fun c => ("| \t\n".toList).contains c) ['|'] (name ++ pairTextOf ta tb) ['|']
    (by intro c hc; simp at hc; subst hc; decide) (by intro c hc; simp at hc; subst hc; decide)
    x (xs ++ pairTextOf ta tb) (by rw [hname]; rfl) hx ')' ys hys (by decide)
  simpa using this

/-- the part of `parseDist` behind the dispatch, for a two-parameter family printed as `|name(a, b)|` -/
theorem parseDist_pair (fam : FamilyName) (name ta tb : Str) (a b : Rat) (ha : TokOK ta a) (hb : TokOK tb b)
    (hname : (famText fam).toList = name) (x : Char) (xs : Str) (hx : name = x :: xs) (hxs : ("| \t\n".toList).contains x = false)
    (hdisp : distDispatch.find? (fun p => contains (distTextOf name ta tb) p.1.toList) = some (famText fam, fam))
    (hp : (fam == FamilyName.poisson) = false) (hu : (fam == FamilyName.uniform) = false) (har : famArity fam = 2)
    (hsz : (fam == FamilyName.schulzZimm) = true → a ≠ b) :
    parseDist (distTextOf name ta tb) = .ok { fam := fam, params := [a, b] } := by
  have hstrip := strip_distText name ta tb x xs hx hxs
  have hdrop : ((name ++ pairTextOf ta tb).drop name.length) = pairTextOf ta tb := List.drop_left
  unfold parseDist
  rw [hdisp]
  simp only [hname, hstrip, startsWith, isPrefix_append, hdrop, parseTuple_pair ta tb a b ha hb, hp, hu, har]
  by_cases hz : (fam == FamilyName.schulzZimm) = true
  · have : (a == b) = false := by simpa using hsz hz
    simp [hz, this]
  · simp [hz]

/-- the side condition for a parameter printed with `repr` -/
abbrev DistNumOK (w : Rat) : Prop := TokOK (numStr w) w

theorem printDist_gauss (a b : Rat) : printDist { fam := .gauss, params := [a, b] } = distTextOf "gauss".toList (numStr a) (numStr b) := by
  simp [printDist, distTextOf, pairTextOf, famText]

/-- **C09 (parameter order, every written numeral)**: `|gauss(ta, tb)|` reads as family `gauss` with the parameters in the written order, for all numerals `ta`, `tb` of the literal syntax -/
theorem dist_gauss_written (ta tb : Str) (a b : Rat) (ha : TokOK ta a) (hb : TokOK tb b) :
    parseDist (distTextOf "gauss".toList ta tb) = .ok { fam := .gauss, params := [a, b] } := by
  generalize hn : "gauss".toList = name
  have hx : name = 'g' :: ['a', 'u', 's', 's'] := by rw [← hn]; decide
  have hf : ∀ c, c ∈ name → c ∈ ['g', 'a', 'u', 's'] := by intro c hc; rw [hx] at hc; simp at hc ⊢; tauto
  have h1 : contains (distTextOf name ta tb) "flory_schulz".toList = false :=
    contains_absent _ _ 'f' (by decide) (absent_distText _ ha hb 'f' (by decide) (by decide) (fun h => by have := hf _ h; simp at this))
  have h2 : contains (distTextOf name ta tb) "gauss".toList = true := by rw [hn]; exact contains_at_one _ _ _
  refine parseDist_pair .gauss name ta tb a b ha hb (by rw [← hn]; rfl) 'g' _ hx (by decide) ?_ (by decide) (by decide) rfl (by intro h; cases h)
  simp only [distDispatch, List.find?_cons, h1, h2]
  rfl

/-- **C01 / C11 (the text form reproduces the parameters: gauss)** -/
theorem dist_gauss_roundtrip (a b : Rat) (ha : DistNumOK a) (hb : DistNumOK b) :
    parseDist (printDist { fam := .gauss, params := [a, b] }) = .ok { fam := .gauss, params := [a, b] } := by
  rw [printDist_gauss]
  exact dist_gauss_written _ _ a b ha hb

theorem printDist_schulzZimm (a b : Rat) : printDist { fam := .schulzZimm, params := [a, b] } = distTextOf "schulz_zimm".toList (numStr a) (numStr b) := by
  simp [printDist, distTextOf, pairTextOf, famText]

/-- **C09 (parameter order, every written numeral)**: `|schulz_zimm(ta, tb)|` reads as family `schulzZimm` with the parameters in the written order, for all numerals `ta`, `tb` of the literal syntax -/
theorem dist_schulzZimm_written (ta tb : Str) (a b : Rat) (hab : a ≠ b) (ha : TokOK ta a) (hb : TokOK tb b) :
    parseDist (distTextOf "schulz_zimm".toList ta tb) = .ok { fam := .schulzZimm, params := [a, b] } := by
  generalize hn : "schulz_zimm".toList = name
  have hx : name = 's' :: ['c', 'h', 'u', 'l', 'z', '_', 'z', 'i', 'm', 'm'] := by rw [← hn]; decide
  have hf : ∀ c, c ∈ name → c ∈ ['s', 'c', 'h', 'u', 'l', 'z', '_', 'i', 'm'] := by intro c hc; rw [hx] at hc; simp at hc ⊢; tauto
  have ab : ∀ c, c ∉ ['s', 'c', 'h', 'u', 'l', 'z', '_', 'i', 'm'] → c ∉ name := fun c h h' => h (hf c h')
  have h1 : contains (distTextOf name ta tb) "flory_schulz".toList = false :=
    contains_absent _ _ 'f' (by decide) (absent_distText _ ha hb 'f' (by decide) (by decide) (ab _ (by decide)))
  have h2 : contains (distTextOf name ta tb) "gauss".toList = false :=
    contains_absent _ _ 'g' (by decide) (absent_distText _ ha hb 'g' (by decide) (by decide) (ab _ (by decide)))
  have h3 : contains (distTextOf name ta tb) "uniform".toList = false :=
    contains_absent _ _ 'f' (by decide) (absent_distText _ ha hb 'f' (by decide) (by decide) (ab _ (by decide)))
  have h4 : contains (distTextOf name ta tb) "schulz_zimm".toList = true := by rw [hn]; exact contains_at_one _ _ _
  refine parseDist_pair .schulzZimm name ta tb a b ha hb (by rw [← hn]; rfl) 's' _ hx (by decide) ?_ (by decide) (by decide) rfl (fun _ => hab)
  simp only [distDispatch, List.find?_cons, h1, h2, h3, h4]
  rfl

/-- **C01 / C11 (the text form reproduces the parameters: schulz_zimm, Mw ≠ Mn)** -/
theorem dist_schulzZimm_roundtrip (a b : Rat) (hab : a ≠ b) (ha : DistNumOK a) (hb : DistNumOK b) :
    parseDist (printDist { fam := .schulzZimm, params := [a, b] }) = .ok { fam := .schulzZimm, params := [a, b] } := by
  rw [printDist_schulzZimm]
  exact dist_schulzZimm_written _ _ a b hab ha hb

theorem printDist_logNormal (a b : Rat) : printDist { fam := .logNormal, params := [a, b] } = distTextOf "log_normal".toList (numStr a) (numStr b) := by
  simp [printDist, distTextOf, pairTextOf, famText]

/-- **C09 (parameter order, every written numeral)**: `|log_normal(ta, tb)|` reads as family `logNormal` with the parameters in the written order, for all numerals `ta`, `tb` of the literal syntax -/
theorem dist_logNormal_written (ta tb : Str) (a b : Rat) (ha : TokOK ta a) (hb : TokOK tb b) :
    parseDist (distTextOf "log_normal".toList ta tb) = .ok { fam := .logNormal, params := [a, b] } := by
  generalize hn : "log_normal".toList = name
  have hx : name = 'l' :: ['o', 'g', '_', 'n', 'o', 'r', 'm', 'a', 'l'] := by rw [← hn]; decide
  have hf : ∀ c, c ∈ name → c ∈ ['l', 'o', 'g', '_', 'n', 'r', 'm', 'a'] := by intro c hc; rw [hx] at hc; simp at hc ⊢; tauto
  have ab : ∀ c, c ∉ ['l', 'o', 'g', '_', 'n', 'r', 'm', 'a'] → c ∉ name := fun c h h' => h (hf c h')
  have h1 : contains (distTextOf name ta tb) "flory_schulz".toList = false :=
    contains_absent _ _ 'f' (by decide) (absent_distText _ ha hb 'f' (by decide) (by decide) (ab _ (by decide)))
  have h2 : contains (distTextOf name ta tb) "gauss".toList = false :=
    contains_absent _ _ 'u' (by decide) (absent_distText _ ha hb 'u' (by decide) (by decide) (ab _ (by decide)))
  have h3 : contains (distTextOf name ta tb) "uniform".toList = false :=
    contains_absent _ _ 'u' (by decide) (absent_distText _ ha hb 'u' (by decide) (by decide) (ab _ (by decide)))
  have h4 : contains (distTextOf name ta tb) "schulz_zimm".toList = false :=
    contains_absent _ _ 's' (by decide) (absent_distText _ ha hb 's' (by decide) (by decide) (ab _ (by decide)))
  have h5 : contains (distTextOf name ta tb) "log_normal".toList = true := by rw [hn]; exact contains_at_one _ _ _
  refine parseDist_pair .logNormal name ta tb a b ha hb (by rw [← hn]; rfl) 'l' _ hx (by decide) ?_ (by decide) (by decide) rfl (by intro h; cases h)
  simp only [distDispatch, List.find?_cons, h1, h2, h3, h4, h5]
  rfl

/-- **C01 / C11 (the text form reproduces the parameters: log_normal)** -/
theorem dist_logNormal_roundtrip (a b : Rat) (ha : DistNumOK a) (hb : DistNumOK b) :
    parseDist (printDist { fam := .logNormal, params := [a, b] }) = .ok { fam := .logNormal, params := [a, b] } := by
  rw [printDist_logNormal]
  exact dist_logNormal_written _ _ a b ha hb

/-- non-vacuity of the side condition: 1500.0, 50.0, 2.5e-05, 1.05 -/
example : DistNumOK 1500 ∧ DistNumOK 50 ∧ DistNumOK (1 / 40000) ∧ DistNumOK (21 / 20) := by
  refine ⟨⟨?_, ?_, ?_, ?_, ?_⟩, ⟨?_, ?_, ?_, ?_, ?_⟩, ⟨?_, ?_, ?_, ?_, ?_⟩, ⟨?_, ?_, ?_, ?_, ?_⟩⟩ <;> decide +kernel

/-! ## one-parameter families -/

/-- the argument text `(a)` of a one-parameter distribution -/
def singleTextOf (ta : Str) : Str := '(' :: (ta ++ [')'])

/-- the argument text `(a)` printed with `repr` -/
abbrev singleText (a : Rat) : Str := singleTextOf (numStr a)

theorem pyValue_single (n : Nat) (ta : Str) (a : Rat) (ha : TokOK ta a) (tail : Str) :
    pyValue (n + 3) ('(' :: (ta ++ ')' :: tail)) = .ok (.num a, tail) := by
  obtain ⟨x, xs, hsk, hx⟩ := skipWs_digit ta a ha (')' :: tail)
  refine pyValue_paren_single (n + 2) _ _ x xs _ _ (by unfold skipWs; simp [isWs]) hsk hx ?_
  rw [pyItems_close (n + 1) _ _ false (.num a) tail (pyValue_number n ta a ha ')' (Or.inr rfl) tail)]
  rfl

theorem parseTuple_single (ta : Str) (a : Rat) (ha : TokOK ta a) : parseTuple (singleTextOf ta) = .ok ([a], false) := by
  have hnohash : ∀ c ∈ singleTextOf ta, (c != '#') = true := by
    intro c hc
    simp only [singleTextOf, List.mem_cons, List.mem_append, List.mem_nil_iff, or_false] at hc
    rcases hc with rfl | hc | rfl
    · decide
    · simpa using ha.no_hash c hc
    · decide
  unfold parseTuple
  simp only [takeWhile_all _ _ hnohash]
  have hv : pyValue (2 * (singleTextOf ta).length + 5) (singleTextOf ta ++ [')']) = .ok (.num a, [')']) := by
    have := pyValue_single (2 * (singleTextOf ta).length + 2) ta a ha [')']
    simpa [singleTextOf] using this
  rw [pyItems_close _ _ [] false _ [] hv]
  simp

def distText1Of (name ta : Str) : Str := '|' :: (name ++ (singleTextOf ta ++ ['|']))

abbrev distText1 (name : Str) (a : Rat) : Str := distText1Of name (numStr a)

theorem printDist_florySchulz (a : Rat) : printDist { fam := .florySchulz, params := [a] } = distText1 "flory_schulz".toList a := by
  simp [printDist, distText1Of, singleTextOf, famText]

/-- **C09 (parameter, every written numeral)**: `|flory_schulz(ta)|` reads as family `florySchulz` with the value of `ta` -/
theorem dist_florySchulz_written (ta : Str) (a : Rat) (ha : TokOK ta a) :
    parseDist (distText1Of "flory_schulz".toList ta) = .ok { fam := .florySchulz, params := [a] } := by
  generalize hn : "flory_schulz".toList = name
  have hx : name = 'f' :: ['l', 'o', 'r', 'y', '_', 's', 'c', 'h', 'u', 'l', 'z'] := by rw [← hn]; decide
  have h1 : contains (distText1Of name ta) "flory_schulz".toList = true := by rw [hn]; exact contains_at_one _ _ _
  have hrev : ∃ ys, (name ++ singleTextOf ta).reverse = ')' :: ys := ⟨(name ++ '(' :: ta).reverse, by simp [singleTextOf]⟩
  obtain ⟨ys, hys⟩ := hrev
  have hstrip : stripChars "| \t\n".toList (distText1Of name ta) = name ++ singleTextOf ta := by
    unfold stripChars distText1Of
    have := stripBy_sandwich (fun c => ("| \t\n".toList).contains c) ['|'] (name ++ singleTextOf ta) ['|']
      (by intro c hc; simp at hc; subst hc; decide) (by intro c hc; simp at hc; subst hc; decide)
      'f' (['l', 'o', 'r', 'y', '_', 's', 'c', 'h', 'u', 'l', 'z'] ++ singleTextOf ta) (by rw [hx]; rfl) (by decide) ')' ys hys (by decide)
    simpa using this
  have hdrop : ((name ++ singleTextOf ta).drop name.length) = singleTextOf ta := List.drop_left
  have hname : (famText FamilyName.florySchulz).toList = name := by rw [← hn]; rfl
  unfold parseDist
  simp only [distDispatch, List.find?_cons, h1]
  simp only [hname, hstrip, startsWith, isPrefix_append, hdrop, parseTuple_single ta a ha]
  have e1 : (FamilyName.florySchulz == FamilyName.poisson) = false := by decide
  have e2 : (FamilyName.florySchulz == FamilyName.uniform) = false := by decide
  have e3 : (FamilyName.florySchulz == FamilyName.schulzZimm) = false := by decide
  simp [e1, e2, e3, famArity]

/-- **C01 / C11 (the text form reproduces the parameter: flory_schulz)** -/
theorem dist_florySchulz_roundtrip (a : Rat) (ha : DistNumOK a) :
    parseDist (printDist { fam := .florySchulz, params := [a] }) = .ok { fam := .florySchulz, params := [a] } := by
  rw [printDist_florySchulz]
  exact dist_florySchulz_written _ a ha

theorem absent_distText1 (name : Str) {ta : Str} {a : Rat} (ha : TokOK ta a) (c : Char)
    (hd : c.isDigit = false) (hp : c ∉ ['.', 'e', '-', '+', '(', ')', '|']) (hn : c ∉ name) : c ∉ distText1Of name ta := by
  intro hc
  simp only [distText1Of, singleTextOf, List.mem_cons, List.mem_append, List.mem_nil_iff, or_false] at hc
  rcases hc with rfl | hc | (rfl | hc | rfl) | rfl
  · exact hp (by decide)
  · exact hn hc
  · exact hp (by decide)
  · rcases ha.2.2.2.1 c hc with h1 | h1 | h1 | h1 | h1
    · rw [h1] at hd; cases hd
    all_goals (subst h1; exact hp (by decide))
  · exact hp (by decide)
  · exact hp (by decide)

theorem slice_inner (name t : Str) :
    slice (name ++ ('(' :: (t ++ [')']))) (some ((name.length : Int) + 1)) (some (-1)) = t := by
  unfold slice clampIdx
  simp only [List.length_append, List.length_cons, List.length_nil]
  have h1 : ¬ ((name.length : Int) + 1 < 0) := by omega
  have h2 : ((-1 : Int) < 0) := by omega
  simp only [h1, h2, if_false, if_true]
  have h3 : ¬ ((name.length : Int) + 1 > ((name.length + (t.length + (0 + 1) + 1) : Nat) : Int)) := by push_cast; omega
  have h4 : ¬ ((-1 : Int) + ((name.length + (t.length + (0 + 1) + 1) : Nat) : Int) < 0) := by push_cast; omega
  have h5 : ¬ ((-1 : Int) + ((name.length + (t.length + (0 + 1) + 1) : Nat) : Int) > ((name.length + (t.length + (0 + 1) + 1) : Nat) : Int)) := by push_cast; omega
  simp only [h3, h4, h5, if_false]
  have e1 : ((name.length : Int) + 1).toNat = name.length + 1 := by omega
  have e2 : ((-1 : Int) + ((name.length + (t.length + (0 + 1) + 1) : Nat) : Int)).toNat = name.length + t.length + 1 := by push_cast; omega
  rw [e1, e2]
  have : name.length + t.length + 1 - (name.length + 1) = t.length := by omega
  rw [this]
  have hd : List.drop (name.length + 1) (name ++ '(' :: (t ++ [')'])) = t ++ [')'] := by
    rw [List.drop_append]; simp
  rw [hd]; simp

theorem printDist_poisson (a : Rat) : printDist { fam := .poisson, params := [a] } = distText1 "poisson".toList a := by
  simp [printDist, distText1Of, singleTextOf, famText]

/-- **C09 (parameter, every written numeral)**: `|poisson(ta)|` reads as family `poisson` with the value of `ta` -/
theorem dist_poisson_written (ta : Str) (a : Rat) (ha : TokOK ta a) (hpf : parseFloat ta = .ok a) :
    parseDist (distText1Of "poisson".toList ta) = .ok { fam := .poisson, params := [a] } := by
  generalize hn : "poisson".toList = name
  have hx : name = 'p' :: ['o', 'i', 's', 's', 'o', 'n'] := by rw [← hn]; decide
  have hf : ∀ c, c ∈ name → c ∈ ['p', 'o', 'i', 's', 'n'] := by intro c hc; rw [hx] at hc; simp at hc ⊢; tauto
  have ab : ∀ c, c ∉ ['p', 'o', 'i', 's', 'n'] → c ∉ name := fun c h h' => h (hf c h')
  have h1 : contains (distText1Of name ta) "flory_schulz".toList = false :=
    contains_absent _ _ 'f' (by decide) (absent_distText1 _ ha 'f' (by decide) (by decide) (ab _ (by decide)))
  have h2 : contains (distText1Of name ta) "gauss".toList = false :=
    contains_absent _ _ 'g' (by decide) (absent_distText1 _ ha 'g' (by decide) (by decide) (ab _ (by decide)))
  have h3 : contains (distText1Of name ta) "uniform".toList = false :=
    contains_absent _ _ 'u' (by decide) (absent_distText1 _ ha 'u' (by decide) (by decide) (ab _ (by decide)))
  have h4 : contains (distText1Of name ta) "schulz_zimm".toList = false :=
    contains_absent _ _ 'c' (by decide) (absent_distText1 _ ha 'c' (by decide) (by decide) (ab _ (by decide)))
  have h5 : contains (distText1Of name ta) "log_normal".toList = false :=
    contains_absent _ _ 'l' (by decide) (absent_distText1 _ ha 'l' (by decide) (by decide) (ab _ (by decide)))
  have h6 : contains (distText1Of name ta) "poisson".toList = true := by rw [hn]; exact contains_at_one _ _ _
  have hrev : ∃ ys, (name ++ singleTextOf ta).reverse = ')' :: ys := ⟨(name ++ '(' :: ta).reverse, by simp [singleTextOf]⟩
  obtain ⟨ys, hys⟩ := hrev
  have hstrip : stripChars "| \t\n".toList (distText1Of name ta) = name ++ singleTextOf ta := by
    unfold stripChars distText1Of
    have := stripBy_sandwich (fun c => ("| \t\n".toList).contains c) ['|'] (name ++ singleTextOf ta) ['|']
      (by intro c hc; simp at hc; subst hc; decide) (by intro c hc; simp at hc; subst hc; decide)
      'p' (['o', 'i', 's', 's', 'o', 'n'] ++ singleTextOf ta) (by rw [hx]; rfl) (by decide) ')' ys hys (by decide)
    simpa using this
  have hname : (famText FamilyName.poisson).toList = name := by rw [← hn]; rfl
  have hsl : slice (name ++ singleTextOf ta) (some ((name.length : Int) + 1)) (some (-1)) = ta := slice_inner name ta
  unfold parseDist
  simp only [distDispatch, List.find?_cons, h1, h2, h3, h4, h5, h6]
  simp only [hname, hstrip, startsWith, isPrefix_append]
  have e1 : (FamilyName.poisson == FamilyName.poisson) = true := by decide
  simp only [e1, if_true, Bool.not_true, Bool.false_eq_true, if_false]
  rw [hsl]
  simp [floatOf, hpf]

/-- **C01 / C11 (the text form reproduces the parameter: poisson)** — this family reads its parameter with `float(text[len("poisson") + 1 : -1])` -/
theorem dist_poisson_roundtrip (a : Rat) (ha : DistNumOK a) (hpf : parseFloat (numStr a) = .ok a) :
    parseDist (printDist { fam := .poisson, params := [a] }) = .ok { fam := .poisson, params := [a] } := by
  rw [printDist_poisson]
  exact dist_poisson_written _ a ha hpf


/-! ## uniform: bounds printed as integers, read through the tuple syntax and truncated -/

theorem parseDist_pair_uniform (name ta tb : Str) (a b : Rat) (ha : TokOK ta a) (hb : TokOK tb b)
    (hname : (famText FamilyName.uniform).toList = name) (x : Char) (xs : Str) (hx : name = x :: xs) (hxs : ("| \t\n".toList).contains x = false)
    (hdisp : distDispatch.find? (fun p => contains (distTextOf name ta tb) p.1.toList) = some (famText FamilyName.uniform, FamilyName.uniform)) :
    parseDist (distTextOf name ta tb) = .ok { fam := .uniform, params := [truncRat a, truncRat b] } := by
  have hstrip := strip_distText name ta tb x xs hx hxs
  have hdrop : ((name ++ pairTextOf ta tb).drop name.length) = pairTextOf ta tb := List.drop_left
  have e1 : (FamilyName.uniform == FamilyName.poisson) = false := by decide
  have e2 : (FamilyName.uniform == FamilyName.schulzZimm) = false := by decide
  have e3 : (FamilyName.uniform == FamilyName.uniform) = true := by decide
  unfold parseDist
  rw [hdisp]
  simp only [hname, hstrip, startsWith, isPrefix_append, hdrop, parseTuple_pair ta tb a b ha hb, e1, e2, e3]
  simp [famArity]

theorem printDist_uniform (a b : Rat) : printDist { fam := .uniform, params := [a, b] } = distTextOf "uniform".toList (intStr a) (intStr b) := by
  simp [printDist, distTextOf, pairTextOf, famText]

/-- **C09 (parameter order, every written numeral: uniform)**: `|uniform(ta, tb)|` reads as the bounds `[int(value ta), int(value tb)]` (low, high) -/
theorem dist_uniform_written (ta tb : Str) (a b : Rat) (ha : TokOK ta a) (hb : TokOK tb b) :
    parseDist (distTextOf "uniform".toList ta tb) = .ok { fam := .uniform, params := [truncRat a, truncRat b] } := by
  generalize hn : "uniform".toList = name
  have hx : name = 'u' :: ['n', 'i', 'f', 'o', 'r', 'm'] := by rw [← hn]; decide
  have hf : ∀ c, c ∈ name → c ∈ ['u', 'n', 'i', 'f', 'o', 'r', 'm'] := by intro c hc; rw [hx] at hc; simp at hc ⊢; tauto
  have ab : ∀ c, c ∉ ['u', 'n', 'i', 'f', 'o', 'r', 'm'] → c ∉ name := fun c h h' => h (hf c h')
  have h1 : contains (distTextOf name ta tb) "flory_schulz".toList = false :=
    contains_absent _ _ 'l' (by decide) (absent_distText _ ha hb 'l' (by decide) (by decide) (ab _ (by decide)))
  have h2 : contains (distTextOf name ta tb) "gauss".toList = false :=
    contains_absent _ _ 'g' (by decide) (absent_distText _ ha hb 'g' (by decide) (by decide) (ab _ (by decide)))
  have h3 : contains (distTextOf name ta tb) "uniform".toList = true := by rw [hn]; exact contains_at_one _ _ _
  have := parseDist_pair_uniform name ta tb a b ha hb (by rw [← hn]; rfl) 'u' _ hx (by decide)
    (by simp only [distDispatch, List.find?_cons, h1, h2, h3]; rfl)
  exact this


/-- **C01 / C11 (the text form reproduces the parameters: uniform)**: the bounds are printed as integers (`intStr`); the printed text reads back
as the same bounds whenever those are whole numbers (`truncRat a = a`) whose digit strings satisfy the side condition -/
theorem dist_uniform_roundtrip (a b : Rat) (ha : TokOK (intStr a) a) (hb : TokOK (intStr b) b) (hta : truncRat a = a) (htb : truncRat b = b) :
    parseDist (printDist { fam := .uniform, params := [a, b] }) = .ok { fam := .uniform, params := [a, b] } := by
  rw [printDist_uniform]
  rw [dist_uniform_written _ _ a b ha hb, hta, htb]

/-- non-vacuity: the bounds 12 and 72 -/
example : TokOK (intStr 12) 12 ∧ TokOK (intStr 72) 72 ∧ truncRat 12 = 12 ∧ truncRat 72 = 72 := by
  refine ⟨⟨?_, ?_, ?_, ?_, ?_⟩, ⟨?_, ?_, ?_, ?_, ?_⟩, ?_, ?_⟩ <;> decide +kernel

/-! ## the side condition holds for every plain integer literal -/

theorem takeNumber_digits (ds : Str) (hd : ∀ c ∈ ds, c.isDigit = true) (stop : Char) (hstop : isNumChar stop = false) (hs2 : (stop == '+' || stop == '-') = false) (acc : Str) :
    takeNumber acc (ds ++ [stop]) = (acc.reverse ++ ds, [stop]) := by
  induction ds generalizing acc with
  | nil =>
    simp only [List.nil_append, List.append_nil]
    rw [takeNumber_cons]
    have : takeCond stop acc = false := by unfold takeCond; simp [hstop, hs2]
    simp [this]
  | cons c cs ih =>
    have hc := hd c (by simp)
    simp only [List.cons_append]
    rw [takeNumber_cons]
    have : takeCond c acc = true := by unfold takeCond isNumChar; simp [hc]
    simp only [this, if_true]
    rw [ih (fun x hx => hd x (by simp [hx]))]
    simp

theorem digit_facts2 {c : Char} (h : c.isDigit = true) : c ≠ '_' ∧ c ≠ 'e' ∧ c ≠ 'E' ∧ c ≠ '.' := by
  refine ⟨?_, ?_, ?_, ?_⟩ <;> (intro hh; subst hh; simp at h)

theorem findIdx?_none_of_digits (ds : Str) (hd : ∀ c ∈ ds, c.isDigit = true) (p : Char → Bool) (hp : ∀ c, c.isDigit = true → p c = false) :
    ds.findIdx? p = none := by
  rw [List.findIdx?_eq_none_iff]
  intro c hc
  exact hp c (hd c hc)

theorem lower_digits (ds : Str) (hd : ∀ c ∈ ds, c.isDigit = true) : ∀ c ∈ lower ds, c.isDigit = true := by
  intro c hc
  unfold lower at hc
  simp only [List.mem_map] at hc
  obtain ⟨x, hx, rfl⟩ := hc
  have hx' := hd x hx
  have : x.toLower = x := by
    unfold Char.toLower
    have : ¬ (x.val ≥ 65 ∧ x.val ≤ 90) := by
      unfold Char.isDigit at hx'
      simp at hx'
      intro h
      have h1 := hx'.2
      have h2 := h.1
      exact absurd (UInt32.le_trans h2 h1) (by decide)
    simp [this]
  rw [this]; exact hx'

theorem unsignedFloat_digits (c : Char) (cs : Str) (hd : ∀ x ∈ c :: cs, x.isDigit = true) :
    unsignedFloat (c :: cs) = .ok ((Nat.ofDigitChars 10 (c :: cs) 0 : Nat) : Rat) := by
  have hl := lower_digits (c :: cs) hd
  have hne : ∀ (w : Str), (∃ y ys, w = y :: ys ∧ y.isDigit = false) → (lower (c :: cs) == w) = false := by
    intro w ⟨y, ys, hw, hy⟩
    rw [beq_eq_false_iff_ne]
    intro h
    have := hl y (by rw [h, hw]; simp)
    rw [this] at hy; cases hy
  unfold unsignedFloat
  have e1 := hne "inf".toList ⟨'i', ['n', 'f'], rfl, by decide⟩
  have e2 := hne "infinity".toList ⟨'i', _, rfl, by decide⟩
  have e3 := hne "nan".toList ⟨'n', _, rfl, by decide⟩
  simp only [e1, e2, e3, Bool.or_self, Bool.false_eq_true, if_false]
  have f1 : (c :: cs).findIdx? (fun c => c == 'e' || c == 'E') = none :=
    findIdx?_none_of_digits _ hd _ (fun x hx => by have := digit_facts2 hx; simp [this.2.1, this.2.2.1])
  have f2 : (c :: cs).findIdx? (· == '.') = none :=
    findIdx?_none_of_digits _ hd _ (fun x hx => by have := digit_facts2 hx; simp [this.2.2.2])
  simp only [f1, f2]
  have hp : digitPart (c :: cs) = some (Nat.ofDigitChars 10 (c :: cs) 0, (c :: cs).length) := by
    unfold digitPart
    simp only
    rw [digitPart_go_digits _ hd 0 0 false (Or.inl (by simp))]
    simp
  simp [hp, pow10]

theorem parseFloat_digits (c : Char) (cs : Str) (hd : ∀ x ∈ c :: cs, x.isDigit = true) :
    parseFloat (c :: cs) = .ok ((Nat.ofDigitChars 10 (c :: cs) 0 : Nat) : Rat) := by
  unfold parseFloat
  rw [strip_no_ws _ (fun x hx => isWs_of_digit (hd x hx))]
  have hc := digit_facts (hd c (by simp))
  have key : ∀ (t : Str), t = c :: cs →
      (match t with
        | '-' :: r => (match unsignedFloat r with | .ok q => FloatRes.ok (-q) | x => x)
        | '+' :: r => unsignedFloat r
        | r => unsignedFloat r) = unsignedFloat (c :: cs) := by
    intro t ht
    split
    · rename_i r; cases ht; exact absurd rfl hc.2.1
    · rename_i r; cases ht; exact absurd rfl hc.2.2.1
    · rw [ht]
  exact (key _ rfl).trans (unsignedFloat_digits c cs hd)

/-- **every plain integer literal** (decimal digits, no leading zero unless it is the single digit) satisfies the side condition of the
distribution theorems, with the value of its digits -/
theorem TokOK_digits (ds : Str) (hne : ds ≠ []) (hd : ∀ c ∈ ds, c.isDigit = true) (h0 : ds.length = 1 ∨ ds.head? ≠ some '0') :
    TokOK ds ((Nat.ofDigitChars 10 ds 0 : Nat) : Rat) := by
  obtain ⟨c, cs, rfl⟩ := List.exists_cons_of_ne_nil hne
  have hc := hd c (by simp)
  have hcf := digit_facts hc
  have hc2 := digit_facts2 hc
  refine ⟨?_, ?_, ?_, ?_, ?_⟩
  · unfold numberLit
    have g1 : ((c :: cs).length > 1 && (c :: cs).all (fun c => c.isDigit || c == '_') && (c :: cs).head? == some '0' && (c :: cs).any (fun c => c != '0' && c != '_')) = false := by
      rcases h0 with h | h
      · have hcs : cs = [] := by simpa using h
        subst hcs
        simp
      · have : ((c :: cs).head? == some '0') = false := by
          rw [beq_eq_false_iff_ne]; exact h
        simp only [this, Bool.and_false, Bool.false_and]
    have g2 : ((c :: cs).head? == some '_' || (c :: cs).head? == some '+' || (c :: cs).head? == some '-') = false := by
      simp [hc2.1, hcf.2.1, hcf.2.2.1]
    rw [g1, g2]
    simp only [Bool.false_eq_true, if_false]
    rw [parseFloat_digits c cs hd]
  · have := takeNumber_digits (c :: cs) hd ',' (by decide) (by decide) []
    simpa using this
  · have := takeNumber_digits (c :: cs) hd ')' (by decide) (by decide) []
    simpa using this
  · intro x hx; exact Or.inl (hd x hx)
  · simp [hc]

theorem toDigits_head_ne_zero (n : Nat) (hn : 0 < n) : (Nat.toDigits 10 n).head? ≠ some '0' := by
  induction n using Nat.strongRecOn with
  | _ n ih =>
    rw [Nat.toDigits_eq_if (by omega)]
    split
    · rename_i hlt
      have : n = 1 ∨ n = 2 ∨ n = 3 ∨ n = 4 ∨ n = 5 ∨ n = 6 ∨ n = 7 ∨ n = 8 ∨ n = 9 := by omega
      rcases this with h | h | h | h | h | h | h | h | h <;> subst h <;> decide
    · rename_i hge
      have hpos : 0 < n / 10 := Nat.div_pos (by omega) (by omega)
      have := ih (n / 10) (Nat.div_lt_self hn (by omega)) hpos
      have hne : Nat.toDigits 10 (n / 10) ≠ [] := Nat.toDigits_ne_nil
      obtain ⟨x, xs, hx⟩ := List.exists_cons_of_ne_nil hne
      rw [hx] at this ⊢
      simpa using this

/-- in particular the decimal digits of every natural number -/
theorem TokOK_nat (n : Nat) : TokOK (Nat.toDigits 10 n) (n : Rat) := by
  have hne : Nat.toDigits 10 n ≠ [] := Nat.toDigits_ne_nil
  have hd : ∀ c ∈ Nat.toDigits 10 n, c.isDigit = true := fun c hc => Nat.isDigit_of_mem_toDigits (by omega) (by omega) hc
  have h0 : (Nat.toDigits 10 n).length = 1 ∨ (Nat.toDigits 10 n).head? ≠ some '0' := by
    rcases Nat.eq_zero_or_pos n with h | h
    · left; subst h; rfl
    · right; exact toDigits_head_ne_zero n h
  have := TokOK_digits _ hne hd h0
  rwa [Nat.ofDigitChars_ten_toDigits] at this

/-- `int` of a whole number is that number -/
theorem truncRat_nat (n : Nat) : truncRat (n : Rat) = n := by
  unfold truncRat
  have h : (n : Rat) ≥ 0 := by exact_mod_cast Nat.zero_le n
  simp only [h, if_true]
  have : ((n : Rat)).floor = (n : Int) := by
    simp [Rat.floor]
  rw [this]; simp

theorem intStr_nat (n : Nat) : intStr (n : Rat) = Nat.toDigits 10 n := by
  unfold intStr
  have : ((n : Rat)).floor = (n : Int) := by simp [Rat.floor]
  simp only [this]
  have h : ¬ ((n : Int) < 0) := by omega
  simp [h]

/-! ## … and for every plain decimal literal `ddd.fff` -/

theorem takeNumber_numchars (t : Str) (ht : ∀ c ∈ t, isNumChar c = true) (stop : Char) (hstop : isNumChar stop = false) (hs2 : (stop == '+' || stop == '-') = false) (acc : Str) :
    takeNumber acc (t ++ [stop]) = (acc.reverse ++ t, [stop]) := by
  induction t generalizing acc with
  | nil =>
    simp only [List.nil_append, List.append_nil]
    rw [takeNumber_cons]
    have : takeCond stop acc = false := by unfold takeCond; simp [hstop, hs2]
    simp [this]
  | cons c cs ih =>
    have hc := ht c (by simp)
    simp only [List.cons_append]
    rw [takeNumber_cons]
    have : takeCond c acc = true := by unfold takeCond; simp [hc]
    simp only [this, if_true]
    rw [ih (fun x hx => ht x (by simp [hx]))]
    simp

theorem findIdx?_append_first (ds fs : Str) (p : Char → Bool) (x : Char) (hds : ∀ c ∈ ds, p c = false) (hx : p x = true) :
    (ds ++ x :: fs).findIdx? p = some ds.length := by
  induction ds with
  | nil => simp [List.findIdx?_cons, hx]
  | cons d ds ih =>
    have hd := hds d (by simp)
    simp only [List.cons_append, List.findIdx?_cons, hd, Bool.false_eq_true, if_false]
    rw [ih (fun c hc => hds c (by simp [hc]))]
    simp

theorem digitPart_digits (ds : Str) (hne : ds ≠ []) (hd : ∀ c ∈ ds, c.isDigit = true) :
    digitPart ds = some (Nat.ofDigitChars 10 ds 0, ds.length) := by
  obtain ⟨c, cs, rfl⟩ := List.exists_cons_of_ne_nil hne
  unfold digitPart
  simp only
  rw [digitPart_go_digits _ hd 0 0 false (Or.inl (by simp))]
  simp

/-- `float("ddd.fff")` -/
theorem unsignedFloat_decimal (c : Char) (cs fs : Str) (hd : ∀ x ∈ c :: cs, x.isDigit = true) (hfne : fs ≠ []) (hf : ∀ x ∈ fs, x.isDigit = true) :
    unsignedFloat ((c :: cs) ++ '.' :: fs) =
      .ok (((Nat.ofDigitChars 10 (c :: cs) 0 : Nat) : Rat) + ((Nat.ofDigitChars 10 fs 0 : Nat) : Rat) / pow10 fs.length) := by
  have hall : ∀ x ∈ (c :: cs) ++ '.' :: fs, x.isDigit = true ∨ x = '.' := by
    intro x hx
    simp only [List.mem_append, List.mem_cons] at hx
    rcases hx with hx | rfl | hx
    · exact Or.inl (hd x (by simpa using hx))
    · exact Or.inr rfl
    · exact Or.inl (hf x hx)
  have hne : ∀ (w : Str), (∃ y ys, w = y :: ys ∧ y.isDigit = false) → (lower ((c :: cs) ++ '.' :: fs) == w) = false := by
    intro w ⟨y, ys, hw, hy⟩
    rw [beq_eq_false_iff_ne]
    intro h
    have h1 : (lower ((c :: cs) ++ '.' :: fs)).head? = some y := by rw [h, hw]; rfl
    have hc0 : c.isDigit = true := hd c (by simp)
    have hl := lower_digits [c] (by intro x hx; simp only [List.mem_singleton] at hx; rw [hx]; exact hc0)
    have h2 : (lower ((c :: cs) ++ '.' :: fs)).head? = some c.toLower := by simp [lower]
    rw [h2] at h1
    have := hl c.toLower (by simp [lower])
    have hcy : c.toLower = y := by simpa using h1
    rw [hcy] at this; rw [this] at hy; cases hy
  unfold unsignedFloat
  have e1 := hne "inf".toList ⟨'i', ['n', 'f'], rfl, by decide⟩
  have e2 := hne "infinity".toList ⟨'i', _, rfl, by decide⟩
  have e3 := hne "nan".toList ⟨'n', _, rfl, by decide⟩
  simp only [e1, e2, e3, Bool.or_self, Bool.false_eq_true, if_false]
  have f1 : ((c :: cs) ++ '.' :: fs).findIdx? (fun c => c == 'e' || c == 'E') = none := by
    rw [List.findIdx?_eq_none_iff]
    intro x hx
    rcases hall x hx with h | h
    · have := digit_facts2 h; simp [this.2.1, this.2.2.1]
    · subst h; decide
  have f2 : ((c :: cs) ++ '.' :: fs).findIdx? (· == '.') = some (c :: cs).length :=
    findIdx?_append_first (c :: cs) fs _ '.' (fun x hx => by have := digit_facts2 (hd x hx); simp [this.2.2.2]) (by decide)
  simp only [f1, f2]
  have t1 : ((c :: cs) ++ '.' :: fs).take (c :: cs).length = c :: cs := List.take_left
  have t2 : ((c :: cs) ++ '.' :: fs).drop ((c :: cs).length + 1) = fs := by
    rw [← List.drop_drop]; simp
  rw [t1, t2]
  obtain ⟨f, fr, rfl⟩ := List.exists_cons_of_ne_nil hfne
  simp only [digitPart_digits (c :: cs) (by simp) hd, digitPart_digits (f :: fr) (by simp) hf]
  simp [pow10]

/-- the value of the decimal literal `ds.fs` -/
def decValue (ds fs : Str) : Rat := ((Nat.ofDigitChars 10 ds 0 : Nat) : Rat) + ((Nat.ofDigitChars 10 fs 0 : Nat) : Rat) / pow10 fs.length

theorem parseFloat_decimal (c : Char) (cs fs : Str) (hd : ∀ x ∈ c :: cs, x.isDigit = true) (hfne : fs ≠ []) (hf : ∀ x ∈ fs, x.isDigit = true) :
    parseFloat ((c :: cs) ++ '.' :: fs) = .ok (decValue (c :: cs) fs) := by
  have hc := digit_facts (hd c (by simp))
  have hws : ∀ x ∈ (c :: cs) ++ '.' :: fs, isWs x = false := by
    intro x hx
    simp only [List.mem_append, List.mem_cons] at hx
    rcases hx with hx | rfl | hx
    · exact isWs_of_digit (hd x (by simpa using hx))
    · decide
    · exact isWs_of_digit (hf x hx)
  unfold parseFloat
  rw [strip_no_ws _ hws]
  have key : ∀ (t : Str), t = (c :: cs) ++ '.' :: fs →
      (match t with
        | '-' :: r => (match unsignedFloat r with | .ok q => FloatRes.ok (-q) | x => x)
        | '+' :: r => unsignedFloat r
        | r => unsignedFloat r) = unsignedFloat ((c :: cs) ++ '.' :: fs) := by
    intro t ht
    split
    · rename_i r; simp only [List.cons_append, List.cons.injEq] at ht; exact absurd ht.1.symm hc.2.1
    · rename_i r; simp only [List.cons_append, List.cons.injEq] at ht; exact absurd ht.1.symm hc.2.2.1
    · rw [ht]
  exact (key _ rfl).trans (unsignedFloat_decimal c cs fs hd hfne hf)

/-- **every plain decimal literal `ddd.fff`** (digits, one point, digits) satisfies the side condition of the distribution theorems -/
theorem TokOK_decimal (ds fs : Str) (hne : ds ≠ []) (hd : ∀ c ∈ ds, c.isDigit = true) (hfne : fs ≠ []) (hf : ∀ x ∈ fs, x.isDigit = true) :
    TokOK (ds ++ '.' :: fs) (decValue ds fs) := by
  obtain ⟨c, cs, rfl⟩ := List.exists_cons_of_ne_nil hne
  have hc := hd c (by simp)
  have hcf := digit_facts hc
  have hc2 := digit_facts2 hc
  have hnum : ∀ x ∈ (c :: cs) ++ '.' :: fs, isNumChar x = true := by
    intro x hx
    simp only [List.mem_append, List.mem_cons] at hx
    rcases hx with hx | rfl | hx
    · have := hd x (by simpa using hx); unfold isNumChar; simp [this]
    · decide
    · have := hf x hx; unfold isNumChar; simp [this]
  refine ⟨?_, ?_, ?_, ?_, ?_⟩
  · unfold numberLit
    have g1 : (((c :: cs) ++ '.' :: fs).length > 1 && ((c :: cs) ++ '.' :: fs).all (fun c => c.isDigit || c == '_') && ((c :: cs) ++ '.' :: fs).head? == some '0' && ((c :: cs) ++ '.' :: fs).any (fun c => c != '0' && c != '_')) = false := by
      have : (((c :: cs) ++ '.' :: fs).all (fun c => c.isDigit || c == '_')) = false := by
        rw [List.all_eq_false]
        exact ⟨'.', by simp, by decide⟩
      simp only [this, Bool.and_false, Bool.false_and]
    have g2 : (((c :: cs) ++ '.' :: fs).head? == some '_' || ((c :: cs) ++ '.' :: fs).head? == some '+' || ((c :: cs) ++ '.' :: fs).head? == some '-') = false := by
      simp [hc2.1, hcf.2.1, hcf.2.2.1]
    rw [g1, g2]
    simp only [Bool.false_eq_true, if_false]
    rw [parseFloat_decimal c cs fs hd hfne hf]
  · have := takeNumber_numchars ((c :: cs) ++ '.' :: fs) hnum ',' (by decide) (by decide) []
    simpa using this
  · have := takeNumber_numchars ((c :: cs) ++ '.' :: fs) hnum ')' (by decide) (by decide) []
    simpa using this
  · intro x hx
    simp only [List.mem_append, List.mem_cons] at hx
    rcases hx with hx | rfl | hx
    · exact Or.inl (hd x (by simpa using hx))
    · exact Or.inr (Or.inl rfl)
    · exact Or.inl (hf x hx)
  · simp [hc]

/-- the hypotheses are met by e.g. `1.05` and `20.50` (value 41/2) -/
example : decValue "20".toList "50".toList = 41 / 2 ∧ decValue "1".toList "05".toList = 21 / 20 := by
  constructor <;> decide +kernel

end GBS.P
