import GBS.Lemmas.DistRoundTrip
/-!
# `repr` of whole numbers: the printed form `ddd.0` is computed (`reprFloat_nat`) and read back, which discharges the side conditions
`DistNumOK`, `NumTextOK`, `MixNumOK` of the round-trip theorems for every whole number from 1 below 10^15
-/
namespace GBS.P
open GBS GBS.Py GBS.Num

theorem takeWhile_sat (p : Char → Bool) (l : Str) : ∀ c ∈ l.takeWhile p, p c = true := by
  induction l with
  | nil => simp
  | cons x xs ih =>
    intro c hc
    by_cases hx : p x = true
    · simp only [List.takeWhile_cons, hx, if_true, List.mem_cons] at hc
      rcases hc with rfl | hc
      · exact hx
      · exact ih c hc
    · simp [List.takeWhile_cons, hx] at hc

theorem rstripBy_zeros (ds : Str) :
    rstripBy (· == '0') ds ++ List.replicate (ds.length - (rstripBy (· == '0') ds).length) '0' = ds := by
  unfold rstripBy
  have h := List.takeWhile_append_dropWhile (p := (· == '0')) (l := ds.reverse)
  have htw : ∀ c ∈ ds.reverse.takeWhile (· == '0'), c = '0' := by
    intro c hc
    have := takeWhile_sat (· == '0') ds.reverse c hc
    simpa using this
  have hrep : ds.reverse.takeWhile (· == '0') = List.replicate (ds.reverse.takeWhile (· == '0')).length '0' :=
    List.eq_replicate_of_mem htw
  have hlen : ds.length = (ds.reverse.takeWhile (· == '0')).length + (ds.reverse.dropWhile (· == '0')).length := by
    have := congrArg List.length h
    rw [List.length_append, List.length_reverse] at this
    omega
  have hds : ds = (ds.reverse.dropWhile (· == '0')).reverse ++ (ds.reverse.takeWhile (· == '0')).reverse := by
    have := congrArg List.reverse h
    rw [List.reverse_append, List.reverse_reverse] at this
    exact this.symm
  have hk : ds.length - ((ds.reverse.dropWhile (· == '0')).reverse).length = (ds.reverse.takeWhile (· == '0')).length := by
    simp; omega
  rw [hk]
  conv => rhs; rw [hds]
  congr 1
  rw [hrep]
  simp

theorem rstripBy_length_le (ds : Str) : (rstripBy (· == '0') ds).length ≤ ds.length := by
  have := congrArg List.length (rstripBy_zeros ds)
  rw [List.length_append, List.length_replicate] at this
  omega

/-- `repr` of the float of a whole number with at most 15 digits: its digits followed by `.0` -/
theorem reprFloat_nat (n : Nat) (hn : 0 < n) (hlen : (Nat.toDigits 10 n).length ≤ 15) :
    reprFloat (n : Rat) = some (Nat.toDigits 10 n ++ ".0".toList) := by
  have hq0 : ((n : Rat) == 0) = false := by
    rw [beq_eq_false_iff_ne]; exact_mod_cast (Nat.pos_iff_ne_zero.mp hn)
  have hneg : ¬ ((n : Rat) < 0) := by
    have : (0 : Rat) ≤ n := by exact_mod_cast Nat.zero_le n
    exact Rat.not_lt.mpr this
  have hdec : decimalOf (n : Rat) = some (rstripBy (· == '0') (Nat.toDigits 10 n), ((Nat.toDigits 10 n).length : Int)) := by
    unfold decimalOf
    have hle : ¬ ((n : Rat) ≤ 0) := by
      have : (0 : Rat) < n := by exact_mod_cast hn
      exact Rat.not_le.mpr this
    simp only [hle, if_false]
    have hnum : (n : Rat).num.toNat = n := by simp
    have hden : (n : Rat).den = 1 := by simp
    rw [hnum, hden]
    have hsc : decimalOf.scale 400 n 1 0 = some (n, 0) := by
      unfold decimalOf.scale
      simp [Nat.mod_one]
    rw [hsc]
    simp only [natDigits]
    have h1 := rstripBy_length_le (Nat.toDigits 10 n)
    congr 2
    push_cast
    omega
  unfold reprFloat
  simp only [hq0, Bool.false_eq_true, if_false, hneg, decide_false, hdec]
  have h1 := rstripBy_length_le (Nat.toDigits 10 n)
  have h15 : ¬ ((rstripBy (· == '0') (Nat.toDigits 10 n)).length > 15) := by omega
  have hpos : 0 < (Nat.toDigits 10 n).length := Nat.length_toDigits_pos
  have hsci : ¬ (((Nat.toDigits 10 n).length : Int) ≤ -4 ∨ ((Nat.toDigits 10 n).length : Int) > 16) := by omega
  have hle0 : ¬ (((Nat.toDigits 10 n).length : Int) ≤ 0) := by omega
  simp only [h15, if_false, hsci, hle0, Int.toNat_natCast, h1, if_true, List.nil_append]
  rw [rstripBy_zeros]

theorem numStr_nat (n : Nat) (hn : 0 < n) (hlen : (Nat.toDigits 10 n).length ≤ 15) :
    numStr (n : Rat) = Nat.toDigits 10 n ++ '.' :: ['0'] := by
  unfold numStr
  rw [reprFloat_nat n hn hlen]
  rfl

theorem decValue_dot_zero (n : Nat) : decValue (Nat.toDigits 10 n) ['0'] = (n : Rat) := by
  unfold decValue
  rw [Nat.ofDigitChars_ten_toDigits]
  simp [Nat.ofDigitChars, pow10]

/-- the side condition of the distribution round trip holds for every whole number from 1 with at most 15 digits (printed `ddd.0`) -/
theorem DistNumOK_nat (n : Nat) (hn : 0 < n) (hlen : (Nat.toDigits 10 n).length ≤ 15) : DistNumOK (n : Rat) := by
  unfold DistNumOK
  rw [numStr_nat n hn hlen]
  have hd : ∀ c ∈ Nat.toDigits 10 n, c.isDigit = true := fun c hc => Nat.isDigit_of_mem_toDigits (by omega) (by omega) hc
  have := TokOK_decimal (Nat.toDigits 10 n) ['0'] Nat.toDigits_ne_nil hd (by simp) (by intro x hx; simp at hx; subst hx; decide)
  rwa [decValue_dot_zero] at this

theorem parseFloat_numStr_nat (n : Nat) (hn : 0 < n) (hlen : (Nat.toDigits 10 n).length ≤ 15) :
    parseFloat (numStr (n : Rat)) = FloatRes.ok (n : Rat) := by
  rw [numStr_nat n hn hlen]
  obtain ⟨c, cs, hcs⟩ := List.exists_cons_of_ne_nil (Nat.toDigits_ne_nil (b := 10) (n := n))
  have hd : ∀ x ∈ c :: cs, x.isDigit = true := by
    rw [← hcs]; exact fun x hx => Nat.isDigit_of_mem_toDigits (by omega) (by omega) hx
  rw [hcs, parseFloat_decimal c cs ['0'] hd (by simp) (by intro x hx; simp at hx; subst hx; decide), ← hcs, decValue_dot_zero]

theorem numStr_nat_chars (n : Nat) (hn : 0 < n) (hlen : (Nat.toDigits 10 n).length ≤ 15) :
    ∀ c ∈ numStr (n : Rat), c.isDigit = true ∨ c = '.' := by
  rw [numStr_nat n hn hlen]
  intro c hc
  simp only [List.mem_append, List.mem_cons, List.mem_nil_iff, or_false] at hc
  rcases hc with hc | rfl | rfl
  · exact Or.inl (Nat.isDigit_of_mem_toDigits (by omega) (by omega) hc)
  · exact Or.inr rfl
  · exact Or.inl (by decide)

theorem NumTextOK_nat (n : Nat) (hn : 0 < n) (hlen : (Nat.toDigits 10 n).length ≤ 15) : NumTextOK (n : Rat) := by
  refine ⟨parseFloat_numStr_nat n hn hlen, ?_, ?_⟩
  · rw [numStr_nat n hn hlen]; simp
  · intro c hc
    rcases numStr_nat_chars n hn hlen c hc with h | rfl
    · exact ⟨by intro h2; subst h2; simp at h, isWs_of_digit h⟩
    · exact ⟨by decide, by decide⟩

theorem MixNumOK_nat (n : Nat) (hn : 0 < n) (hlen : (Nat.toDigits 10 n).length ≤ 15) : MixNumOK (n : Rat) := by
  refine ⟨NumTextOK_nat n hn hlen, ?_, ?_, ?_⟩
  · intro c hc
    rcases numStr_nat_chars n hn hlen c hc with h | rfl
    · intro h2; subst h2; simp at h
    · decide
  · rw [numStr_nat n hn hlen]
    obtain ⟨c, cs, hcs⟩ := List.exists_cons_of_ne_nil (Nat.toDigits_ne_nil (b := 10) (n := n))
    have hmem : c ∈ Nat.toDigits 10 n := by rw [hcs]; simp
    have hc : c.isDigit = true := Nat.isDigit_of_mem_toDigits (b := 10) (n := n) (by decide) (by decide) hmem
    rw [hcs]
    simp only [List.cons_append, List.head?_cons, ne_eq, Option.some.injEq]
    intro h2; subst h2; simp at hc
  · rw [numStr_nat n hn hlen]
    simp

end GBS.P
