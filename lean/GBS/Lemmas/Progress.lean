import GBS.Props.C08
import GBS.Props.C03
/-!
# Progress lemmas: which errors generation can raise

`Benign e`: the error only says that the oracle (the recorded random history) or the model's fuel ran out or did not fit the
call — the implementation has no such error.  Every other error of the model corresponds to an exception of the implementation
(`ValueError` from `rng.choice`, `RuntimeError`s of `attach_other` …).  The lemmas here show under which conditions the steps of
generation can only fail benignly.
-/
namespace GBS

def Benign (e : Err) : Prop := e = .badOracle ∨ e = .outOfOracle ∨ e = .outOfFuel

/-- a computation that fails at most benignly -/
def OkOrBenign {α} (r : G α) : Prop := ∀ e, r = .error e → Benign e

theorem trick_nonneg (ws : List Rat) (hpos : ∀ w ∈ ws, 0 ≤ w) : ∀ w ∈ trick ws, 0 ≤ w := by
  cases ws with
  | nil => intro w hw; simp [trick] at hw
  | cons a rest =>
    by_cases hall : (a :: rest).all (· == a) = true
    · intro w hw
      simp only [trick, hall, if_true, List.mem_map] at hw
      obtain ⟨x, hx, rfl⟩ := hw
      have := hpos x hx
      linarith
    · intro w hw
      simp only [trick, hall] at hw
      exact hpos w hw

theorem trick_total_pos (ws : List Rat) (hne : ws ≠ []) (hpos : ∀ w ∈ ws, 0 ≤ w) : 0 < sumRat (trick ws) := by
  have h1 := C08_choose_sums_to_one ws hne hpos
  have hnn := sumRat_nonneg (trick ws) (trick_nonneg ws hpos)
  rcases lt_or_eq_of_le hnn with h | h
  · exact h
  · exfalso
    unfold chooseProbs at h1
    rw [sumRat_map_div, ← h] at h1
    simp at h1

theorem probsOk_choose (ws : List Rat) (hne : ws ≠ []) (hpos : ∀ w ∈ ws, 0 ≤ w) :
    probsOk (chooseProbs ws) (sumRat (trick ws)) = true := by
  have ht := trick_total_pos ws hne hpos
  unfold probsOk
  simp only [Bool.and_eq_true, decide_eq_true_eq, List.all_eq_true]
  refine ⟨ne_of_gt ht, ?_⟩
  intro p hp
  unfold chooseProbs at hp
  simp only [List.mem_map] at hp
  obtain ⟨w, hw, rfl⟩ := hp
  exact div_nonneg (trick_nonneg ws hpos w hw) (le_of_lt ht)

theorem pickFrom_benign (opts : List Nat) (probs : List Rat) (ω : Oracle) : OkOrBenign (pickFrom opts probs ω) := by
  intro e h
  unfold pickFrom at h
  split at h
  · split at h
    · split at h
      · cases h
      · injection h with h; subst h; exact Or.inl rfl
    · injection h with h; subst h; exact Or.inl rfl
  · injection h with h; subst h; exact Or.inl rfl
  · injection h with h; subst h; exact Or.inr (Or.inl rfl)

/-- **`choose_compatible_weight` cannot raise** when some descriptor is compatible and the compatible weights are non-negative -/
theorem choose_progress (bds : List Desc) (b : Option Desc) (ω : Oracle) (hne : compatibleIds bds b ≠ [])
    (hpos : ∀ i ∈ compatibleIds bds b, 0 ≤ (bds.getD i default).weight) : OkOrBenign (choose bds b ω) := by
  intro e h
  unfold choose at h
  simp only at h
  have h1 : (compatibleIds bds b).isEmpty = false := by simpa using hne
  simp only [h1, Bool.false_eq_true, if_false] at h
  have hws : ∀ w ∈ (compatibleIds bds b).map (fun i => (bds.getD i default).weight), 0 ≤ w := by
    intro w hw
    simp only [List.mem_map] at hw
    obtain ⟨i, hi, rfl⟩ := hw
    exact hpos i hi
  have h2 := probsOk_choose _ (by simpa using hne) hws
  simp only [h2, Bool.not_true, Bool.false_eq_true, if_false] at h
  exact pickFrom_benign _ _ _ e h

end GBS

namespace GBS

/-! ## A certificate that a stochastic object can always grow and be capped -/

/-- equality of descriptors up to the attachment atom (a copy placed in a molecule has its atom index shifted) -/
def dEq (x y : Desc) : Prop := x.sym = y.sym ∧ x.id = y.id ∧ x.order = y.order ∧ x.weight = y.weight ∧ x.trans = y.trans

instance (x y : Desc) : Decidable (dEq x y) := by unfold dEq; infer_instance

theorem dEq.refl (x : Desc) : dEq x x := ⟨rfl, rfl, rfl, rfl, rfl⟩

theorem dEq_shift (d : Desc) (off : Nat) : dEq { d with atom := d.atom + off } d := ⟨rfl, rfl, rfl, rfl, rfl⟩

/-- `x` belongs (up to the atom) to the set `R` of descriptor classes that may be open -/
def InR (R : List Desc) (x : Desc) : Prop := ∃ y ∈ R, dEq x y

instance (R : List Desc) (x : Desc) : Decidable (InR R x) := by unfold InR; infer_instance

theorem isCompatible_dEq_left {x y : Desc} (h : dEq x y) (b : Desc) : isCompatible x b = isCompatible y b := by
  rw [C03_symm x b, C03_symm y b]
  exact isCompatible_congr_right b x y h.1 h.2.1 h.2.2.1

theorem isCompatible_dEq_right {x y : Desc} (h : dEq x y) (b : Desc) : isCompatible b x = isCompatible b y :=
  isCompatible_congr_right b x y h.1 h.2.1 h.2.2.1

/-- entering the object at index `c` (repeat units first, then end groups) from the open descriptor `x` works and leaves only
descriptors of `R` open -/
def EntryOK (o : Stoch) (R : List Desc) (x : Desc) (c : Nat) : Prop :=
  match o.entry c with
  | some (tok, k, d) => tok.generable = true ∧ tok.bds[k]? = some d ∧ isCompatible d x = true ∧ ∀ y ∈ tok.bds.eraseIdx k, InR R y
  | none => False

instance (o : Stoch) (R : List Desc) (x : Desc) (c : Nat) : Decidable (EntryOK o R x c) := by
  unfold EntryOK; split <;> infer_instance

/-- the partner pick of `add_repeat_unit` from the open descriptor `x` cannot raise, and whatever it picks can be attached -/
def GrowOK (o : Stoch) (R : List Desc) (x : Desc) : Prop :=
  match x.trans with
  | none =>
    compatibleIds (o.repeatBonds.map (·.2.2)) (some x) ≠ [] ∧
    (∀ c ∈ compatibleIds (o.repeatBonds.map (·.2.2)) (some x), 0 ≤ ((o.repeatBonds.map (·.2.2)).getD c default).weight) ∧
    ∀ c ∈ compatibleIds (o.repeatBonds.map (·.2.2)) (some x), EntryOK o R x c
  | some l =>
    l ≠ [] ∧ probsOk (l.map (· / x.weight)) x.weight = true ∧
    ∀ c ∈ List.range l.length, 0 < l.getD c 0 / x.weight → EntryOK o R x c

instance (o : Stoch) (R : List Desc) (x : Desc) : Decidable (GrowOK o R x) := by
  unfold GrowOK; split <;> infer_instance

/-- an end group can cap the open descriptor `x` -/
def CapOK (o : Stoch) (x : Desc) : Prop :=
  compatibleIds (o.endBonds.map (·.2.2)) (some x) ≠ [] ∧
  ∀ c ∈ compatibleIds (o.endBonds.map (·.2.2)) (some x),
    0 ≤ ((o.endBonds.map (·.2.2)).getD c default).weight ∧
    match o.endBonds[c]? with
    | some (tok, k, d) => tok.generable = true ∧ tok.bds[k]? = some d ∧ tok.bds.length = 1
    | none => False

instance (o : Stoch) (x : Desc) : Decidable (CapOK o x) := by
  unfold CapOK
  apply instDecidableAnd (dq := ?_)
  apply List.decidableBAll (p := _) (dp := ?_)
  intro c
  apply instDecidableAnd (dq := ?_)
  split <;> infer_instance

/-- **certificate**: every descriptor class of `R` has non-negative weight, can grow into `R`, and can be capped -/
def Cert (o : Stoch) (R : List Desc) : Prop :=
  (∀ x ∈ R, 0 ≤ x.weight) ∧ (∀ x ∈ R, GrowOK o R x) ∧ (∀ x ∈ R, CapOK o x)

instance (o : Stoch) (R : List Desc) : Decidable (Cert o R) := by unfold Cert; infer_instance

theorem GrowOK_dEq {o : Stoch} {R : List Desc} {x y : Desc} (h : dEq x y) (hy : GrowOK o R y) : GrowOK o R x := by
  have hcomp : ∀ l : List Desc, compatibleIds l (some x) = compatibleIds l (some y) := by
    intro l
    apply List.ext_getElem?
    intro n
    sorry
  sorry

end GBS
