import GBS.Props.C08
import GBS.Props.C03
/-!
# Progress lemmas: which errors generation can raise

`Benign e`: the error only says that the oracle (the recorded random history) or the model's fuel ran out or did not fit the
call — the implementation has no such error.  Every other error of the model corresponds to an exception of the implementation
(`ValueError` from `rng.choice`, `RuntimeError`s of `attach_other` …).  The lemmas here show under which conditions the steps of
generation can only fail benignly.
-/
namespace GBS

def Benign (e : Err) : Prop := e = .badOracle ∨ e = .outOfOracle ∨ e = .outOfFuel

/-- a computation that fails at most benignly -/
def OkOrBenign {α} (r : G α) : Prop := ∀ e, r = .error e → Benign e

theorem trick_nonneg (ws : List Rat) (hpos : ∀ w ∈ ws, 0 ≤ w) : ∀ w ∈ trick ws, 0 ≤ w := by
  cases ws with
  | nil => intro w hw; simp [trick] at hw
  | cons a rest =>
    by_cases hall : (a :: rest).all (· == a) = true
    · intro w hw
      simp only [trick, hall, if_true, List.mem_map] at hw
      obtain ⟨x, hx, rfl⟩ := hw
      have := hpos x hx
      linarith
    · intro w hw
      simp only [trick, hall] at hw
      exact hpos w hw

theorem trick_total_pos (ws : List Rat) (hne : ws ≠ []) (hpos : ∀ w ∈ ws, 0 ≤ w) : 0 < sumRat (trick ws) := by
  have h1 := C08_choose_sums_to_one ws hne hpos
  have hnn := sumRat_nonneg (trick ws) (trick_nonneg ws hpos)
  rcases lt_or_eq_of_le hnn with h | h
  · exact h
  · exfalso
    unfold chooseProbs at h1
    rw [sumRat_map_div, ← h] at h1
    simp at h1

theorem probsOk_choose (ws : List Rat) (hne : ws ≠ []) (hpos : ∀ w ∈ ws, 0 ≤ w) :
    probsOk (chooseProbs ws) (sumRat (trick ws)) = true := by
  have ht := trick_total_pos ws hne hpos
  unfold probsOk
  simp only [Bool.and_eq_true, decide_eq_true_eq, List.all_eq_true]
  refine ⟨ne_of_gt ht, ?_⟩
  intro p hp
  unfold chooseProbs at hp
  simp only [List.mem_map] at hp
  obtain ⟨w, hw, rfl⟩ := hp
  exact div_nonneg (trick_nonneg ws hpos w hw) (le_of_lt ht)

theorem pickFrom_benign (opts : List Nat) (probs : List Rat) (ω : Oracle) : OkOrBenign (pickFrom opts probs ω) := by
  intro e h
  unfold pickFrom at h
  split at h
  · split at h
    · split at h
      · cases h
      · injection h with h; subst h; exact Or.inl rfl
    · injection h with h; subst h; exact Or.inl rfl
  · injection h with h; subst h; exact Or.inl rfl
  · injection h with h; subst h; exact Or.inr (Or.inl rfl)

/-- **`choose_compatible_weight` cannot raise** when some descriptor is compatible and the compatible weights are non-negative -/
theorem choose_progress (bds : List Desc) (b : Option Desc) (ω : Oracle) (hne : compatibleIds bds b ≠ [])
    (hpos : ∀ i ∈ compatibleIds bds b, 0 ≤ (bds.getD i default).weight) : OkOrBenign (choose bds b ω) := by
  intro e h
  unfold choose at h
  simp only at h
  have h1 : (compatibleIds bds b).isEmpty = false := by simpa using hne
  simp only [h1, Bool.false_eq_true, if_false] at h
  have hws : ∀ w ∈ (compatibleIds bds b).map (fun i => (bds.getD i default).weight), 0 ≤ w := by
    intro w hw
    simp only [List.mem_map] at hw
    obtain ⟨i, hi, rfl⟩ := hw
    exact hpos i hi
  have h2 := probsOk_choose _ (by simpa using hne) hws
  simp only [h2, Bool.not_true, Bool.false_eq_true, if_false] at h
  exact pickFrom_benign _ _ _ e h

end GBS
