import GBS.Props.C08
import GBS.Props.C03
import GBS.Lemmas.GenClosed
import GBS.Model.Certify
/-!
# Progress lemmas: which errors generation can raise

`Benign e`: the error only says that the oracle (the recorded random history) or the model's fuel ran out or did not fit the
call — the implementation has no such error.  Every other error of the model corresponds to an exception of the implementation
(`ValueError` from `rng.choice`, `RuntimeError`s of `attach_other` …).  The lemmas here show under which conditions the steps of
generation can only fail benignly.
-/
namespace GBS

def Benign (e : Err) : Prop := e = .badOracle ∨ e = .outOfOracle ∨ e = .outOfFuel

/-- a computation that fails at most benignly -/
def OkOrBenign {α} (r : G α) : Prop := ∀ e, r = .error e → Benign e

theorem trick_nonneg (ws : List Rat) (hpos : ∀ w ∈ ws, 0 ≤ w) : ∀ w ∈ trick ws, 0 ≤ w := by
  cases ws with
  | nil => intro w hw; simp [trick] at hw
  | cons a rest =>
    by_cases hall : (a :: rest).all (· == a) = true
    · intro w hw
      simp only [trick, hall, if_true, List.mem_map] at hw
      obtain ⟨x, hx, rfl⟩ := hw
      have := hpos x hx
      linarith
    · intro w hw
      simp only [trick, hall] at hw
      exact hpos w hw

theorem trick_total_pos (ws : List Rat) (hne : ws ≠ []) (hpos : ∀ w ∈ ws, 0 ≤ w) : 0 < sumRat (trick ws) := by
  have h1 := C08_choose_sums_to_one ws hne hpos
  have hnn := sumRat_nonneg (trick ws) (trick_nonneg ws hpos)
  rcases lt_or_eq_of_le hnn with h | h
  · exact h
  · exfalso
    unfold chooseProbs at h1
    rw [sumRat_map_div, ← h] at h1
    simp at h1

theorem probsOk_choose (ws : List Rat) (hne : ws ≠ []) (hpos : ∀ w ∈ ws, 0 ≤ w) :
    probsOk (chooseProbs ws) (sumRat (trick ws)) = true := by
  have ht := trick_total_pos ws hne hpos
  unfold probsOk
  simp only [Bool.and_eq_true, decide_eq_true_eq, List.all_eq_true]
  refine ⟨ne_of_gt ht, ?_⟩
  intro p hp
  unfold chooseProbs at hp
  simp only [List.mem_map] at hp
  obtain ⟨w, hw, rfl⟩ := hp
  exact div_nonneg (trick_nonneg ws hpos w hw) (le_of_lt ht)

theorem pickFrom_benign (opts : List Nat) (probs : List Rat) (ω : Oracle) : OkOrBenign (pickFrom opts probs ω) := by
  intro e h
  unfold pickFrom at h
  split at h
  · split at h
    · split at h
      · cases h
      · injection h with h; subst h; exact Or.inl rfl
    · injection h with h; subst h; exact Or.inl rfl
  · injection h with h; subst h; exact Or.inl rfl
  · injection h with h; subst h; exact Or.inr (Or.inl rfl)

/-- **`choose_compatible_weight` cannot raise** when some descriptor is compatible and the compatible weights are non-negative -/
theorem choose_progress (bds : List Desc) (b : Option Desc) (ω : Oracle) (hne : compatibleIds bds b ≠ [])
    (hpos : ∀ i ∈ compatibleIds bds b, 0 ≤ (bds.getD i default).weight) : OkOrBenign (choose bds b ω) := by
  intro e h
  unfold choose at h
  simp only at h
  have h1 : (compatibleIds bds b).isEmpty = false := by simpa using hne
  simp only [h1, Bool.false_eq_true, if_false] at h
  have hws : ∀ w ∈ (compatibleIds bds b).map (fun i => (bds.getD i default).weight), 0 ≤ w := by
    intro w hw
    simp only [List.mem_map] at hw
    obtain ⟨i, hi, rfl⟩ := hw
    exact hpos i hi
  have h2 := probsOk_choose _ (by simpa using hne) hws
  simp only [h2, Bool.not_true, Bool.false_eq_true, if_false] at h
  exact pickFrom_benign _ _ _ e h

end GBS

namespace GBS

/-! ## A certificate that a stochastic object can always grow and be capped -/

theorem dEq.refl (x : Desc) : dEq x x := ⟨rfl, rfl, rfl, rfl, rfl⟩

theorem dEq_shift (d : Desc) (off : Nat) : dEq { d with atom := d.atom + off } d := ⟨rfl, rfl, rfl, rfl, rfl⟩

theorem isCompatible_dEq_left {x y : Desc} (h : dEq x y) (b : Desc) : isCompatible x b = isCompatible y b := by
  rw [C03_symm x b, C03_symm y b]
  exact isCompatible_congr_right b x y h.1 h.2.1 h.2.2.1

theorem isCompatible_dEq_right {x y : Desc} (h : dEq x y) (b : Desc) : isCompatible b x = isCompatible b y :=
  isCompatible_congr_right b x y h.1 h.2.1 h.2.2.1

theorem compatibleIdsFrom_dEq {x y : Desc} (h : dEq x y) (l : List Desc) (n : Nat) :
    compatibleIdsFrom (some x) n l = compatibleIdsFrom (some y) n l := by
  induction l generalizing n with
  | nil => rfl
  | cons a l ih =>
    unfold compatibleIdsFrom
    simp only [isCompatible_dEq_left h a, ih]

theorem compatibleIds_dEq {x y : Desc} (h : dEq x y) (l : List Desc) : compatibleIds l (some x) = compatibleIds l (some y) :=
  compatibleIdsFrom_dEq h l 0

theorem EntryOK_dEq {o : Stoch} {m : Mode} {R : List Desc} {x y : Desc} (h : dEq x y) (c : Nat) (hy : EntryOK o m R y c) : EntryOK o m R x c := by
  unfold EntryOK at hy ⊢
  cases he : o.entry c with
  | none => simp [he] at hy
  | some p =>
    obtain ⟨tok, k, d⟩ := p
    simp only [he] at hy ⊢
    exact ⟨hy.1, hy.2.1, by rw [isCompatible_dEq_right h]; exact hy.2.2.1, hy.2.2.2.1, hy.2.2.2.2⟩

theorem GrowOK_dEq {o : Stoch} {m : Mode} {R : List Desc} {x y : Desc} (h : dEq x y) (hy : GrowOK o m R y) : GrowOK o m R x := by
  unfold GrowOK at hy ⊢
  have ht : x.trans = y.trans := h.2.2.2.2
  have hw : x.weight = y.weight := h.2.2.2.1
  rw [ht]
  cases hyt : y.trans with
  | none =>
    simp only [hyt] at hy ⊢
    have hpk : pickable (o.repeatBonds.map Prod3.d) (some x) = pickable (o.repeatBonds.map Prod3.d) (some y) := by
      unfold pickable; rw [compatibleIds_dEq h]
    rw [compatibleIds_dEq h, hpk]
    exact ⟨hy.1, hy.2.1, fun c hc => EntryOK_dEq h c (hy.2.2 c hc)⟩
  | some l =>
    simp only [hyt] at hy ⊢
    rw [hw]
    exact ⟨hy.1, hy.2.1, fun c hc hp => EntryOK_dEq h c (hy.2.2 c hc hp)⟩

theorem CapOK_dEq {o : Stoch} {x y : Desc} (h : dEq x y) (hy : CapOK o y) : CapOK o x := by
  unfold CapOK at hy ⊢
  rw [compatibleIds_dEq h]
  exact hy

theorem InR_app_right {R0 R : List Desc} {x : Desc} (h : InR R x) : InR (R0 ++ R) x := by
  obtain ⟨y, hy, he⟩ := h; exact ⟨y, List.mem_append_right _ hy, he⟩

theorem InR_app_left {R0 R : List Desc} {x : Desc} (h : InR R0 x) : InR (R0 ++ R) x := by
  obtain ⟨y, hy, he⟩ := h; exact ⟨y, List.mem_append_left _ hy, he⟩

theorem InR_GrowOK {o : Stoch} {m : Mode} {R0 R : List Desc} (hc : Cert o m R0 R) {x : Desc} (hx : InR (R0 ++ R) x) : GrowOK o m R x := by
  obtain ⟨y, hy, he⟩ := hx
  exact GrowOK_dEq he (hc.2.1 y hy)

theorem InR_CapOK {o : Stoch} {m : Mode} {R0 R : List Desc} (hc : Cert o m R0 R) (hm : m.chain = false) {x : Desc} (hx : InR R x) : CapOK o x := by
  obtain ⟨y, hy, he⟩ := hx
  exact CapOK_dEq he (hc.2.2 hm y hy)

theorem InR_nonneg {o : Stoch} {m : Mode} {R0 R : List Desc} (hc : Cert o m R0 R) {x : Desc} (hx : InR (R0 ++ R) x) : 0 ≤ x.weight := by
  obtain ⟨y, hy, he⟩ := hx
  rw [he.2.2.2.1]; exact hc.1 y hy

/-- the pick of the open descriptor to continue with (`choose_compatible_weight(bds, None)`) cannot raise -/
theorem chooseOpen_progress {o : Stoch} {m : Mode} {R0 R : List Desc} (hc : Cert o m R0 R) {s : Mol} (hs : OpensIn (R0 ++ R) s) (hne : s.opens ≠ []) (ω : Oracle) :
    OkOrBenign (choose (s.opens.map (·.d)) none ω) := by
  apply choose_progress
  · intro h
    have h0 : 0 ∈ compatibleIds (s.opens.map (·.d)) none := by
      rw [C03_filter]
      refine ⟨?_, trivial⟩
      simp only [List.length_map]
      exact List.length_pos_iff.2 hne
    rw [h] at h0
    simp at h0
  · intro i hi
    obtain ⟨hlt, -⟩ := (C03_filter _ _ _).1 hi
    simp only [List.length_map] at hlt
    rw [List.getD_eq_getElem?_getD, List.getElem?_map, List.getElem?_eq_getElem hlt]
    simp only [Option.map_some, Option.getD_some]
    exact InR_nonneg hc (hs _ (List.getElem_mem hlt))


/-- the converse of `attach_ok`: when its four conditions hold, `attach` succeeds -/
theorem attach_succeeds {s : Mol} {i : Nat} {t : Token} {j : Nat} {od : OpenD} {d : Desc}
    (hg : t.generable = true) (ho : s.opens[i]? = some od) (hd : t.bds[j]? = some d) (hc : isCompatible d od.d = true) :
    ∃ s', attach s i t j = .ok s' ∧
      s'.opens = s.opens.eraseIdx i ++ (t.opens s.natoms s.insts.length s.insts.length).eraseIdx j := by
  unfold attach
  simp only [hg, Bool.not_true, Bool.false_eq_true, if_false, ho, hd, hc]
  exact ⟨_, rfl, rfl⟩

/-- the descriptors a fresh copy of a token leaves open after entering it at `j` are copies of the token's other descriptors -/
theorem fresh_erase_dEq (t : Token) (off node inst j : Nat) (od : OpenD) (h : od ∈ (t.opens off node inst).eraseIdx j) :
    ∃ d ∈ t.bds.eraseIdx j, dEq od.d d := by
  rw [List.mem_eraseIdx_iff_getElem?] at h
  obtain ⟨n, hn, hget⟩ := h
  rw [Token.opens_getElem?] at hget
  cases hb : t.bds[n]? with
  | none => simp [hb] at hget
  | some d =>
    simp only [hb, Option.map_some, Option.some.injEq] at hget
    refine ⟨d, List.mem_eraseIdx_iff_getElem?.2 ⟨n, hn, hb⟩, ?_⟩
    rw [← hget]
    exact dEq_shift d off

theorem fresh_erase_dEq' (t : Token) (off node inst j : Nat) (d : Desc) (h : d ∈ t.bds.eraseIdx j) :
    ∃ od ∈ (t.opens off node inst).eraseIdx j, dEq od.d d := by
  rw [List.mem_eraseIdx_iff_getElem?] at h
  obtain ⟨n, hn, hget⟩ := h
  refine ⟨{ d := { d with atom := d.atom + off }, node := node, inst := inst, k := n }, ?_, dEq_shift d off⟩
  rw [List.mem_eraseIdx_iff_getElem?]
  exact ⟨n, hn, by rw [Token.opens_getElem?, hget]; rfl⟩

theorem getD_opens {s : Mol} {i : Nat} (hlt : i < s.opens.length) : s.opens.getD i default = s.opens[i] := by
  rw [List.getD_eq_getElem?_getD, List.getElem?_eq_getElem hlt]; rfl

/-- **one capping step cannot raise**, keeps the remaining open descriptors inside `R` and closes one of them -/
theorem capOne_progress {o : Stoch} {m : Mode} {R0 R : List Desc} (hc : Cert o m R0 R) (hm : m.chain = false) {s : Mol} (hs : OpensIn R s) (hne : s.opens ≠ []) (ω : Oracle) :
    OkOrBenign (capOne o s ω) ∧
    ∀ s' t ω', capOne o s ω = .ok (s', t, ω') → OpensIn R s' ∧ s'.opens.length + 1 = s.opens.length := by
  have h1 := chooseOpen_progress hc (fun od h => InR_app_right (hs od h)) hne ω
  unfold capOne
  cases hch : choose (s.opens.map (·.d)) none ω with
  | error e => exact ⟨fun e' he' => by injection he' with he'; subst he'; exact h1 e hch, fun s' t ω' h => by cases h⟩
  | ok r =>
    obtain ⟨i, c1, ω1⟩ := r
    have hlt : i < s.opens.length := by simpa using choose_lt hch
    have hod : s.opens[i]? = some s.opens[i] := List.getElem?_eq_getElem hlt
    have hin : InR R s.opens[i].d := hs _ (List.getElem_mem hlt)
    obtain ⟨hcne, hcall⟩ := InR_CapOK hc hm hin
    dsimp only
    rw [getD_opens hlt]
    have h2 := choose_progress (o.endBonds.map Prod3.d) (some s.opens[i].d) ω1 hcne (fun c hcm => (hcall c hcm).1)
    cases hch2 : choose (o.endBonds.map Prod3.d) (some s.opens[i].d) ω1 with
    | error e => exact ⟨fun e' he' => by injection he' with he'; subst he'; exact h2 e hch2, fun s' t ω' h => by cases h⟩
    | ok r2 =>
      obtain ⟨c, c2, ω2⟩ := r2
      have hcm := choose_mem hch2
      obtain ⟨-, hent⟩ := hcall c hcm
      obtain ⟨hclt, hcomp⟩ := (C03_filter _ _ _).1 hcm
      dsimp only
      cases he : o.endBonds[c]? with
      | none => simp [he] at hent
      | some p =>
        obtain ⟨tok, k, d⟩ := p
        simp only [he] at hent
        obtain ⟨hg, hbd, hlen⟩ := hent
        have hd : (o.endBonds.map Prod3.d)[c] = d := by
          have : (o.endBonds.map Prod3.d)[c]? = some d := by simp [he]
          exact Option.some.inj (by rw [← this, List.getElem?_eq_getElem hclt])
        simp only at hcomp
        rw [hd] at hcomp
        obtain ⟨s', hatt, hopens⟩ := attach_succeeds (s := s) hg hod hbd (by rw [C03_symm]; exact hcomp)
        simp only [hatt]
        refine ⟨(fun e' he' => nomatch he'), ?_⟩
        intro s'' t ω' hok
        injection hok with hok
        simp only [Prod.mk.injEq] at hok
        obtain ⟨rfl, -, -⟩ := hok
        have hk : k = 0 := by
          have := (List.getElem?_eq_some_iff.1 hbd).1
          omega
        have hfresh : (tok.opens s.natoms s.insts.length s.insts.length).eraseIdx k = [] := by
          rw [List.eraseIdx_eq_nil_iff]
          right
          exact ⟨by rw [Token.opens_length]; exact hlen, hk⟩
        rw [hfresh, List.append_nil] at hopens
        constructor
        · intro od hod'
          rw [hopens] at hod'
          exact hs od (mem_of_mem_eraseIdx hod')
        · rw [hopens, List.length_eraseIdx]
          simp only [hlt, if_true]
          omega

/-- **capping cannot raise** -/
theorem capAll_progress {o : Stoch} {m : Mode} {R0 R : List Desc} (hc : Cert o m R0 R) (hm : m.chain = false) (f : Nat) {s : Mol} (hs : OpensIn R s) (ω : Oracle) :
    OkOrBenign (capAll o f s ω) := by
  induction f generalizing s ω with
  | zero =>
    intro e h
    unfold capAll at h
    split at h
    · cases h
    · injection h with h; subst h; exact Or.inr (Or.inr rfl)
  | succ f ih =>
    intro e h
    unfold capAll at h
    split at h
    · cases h
    · rename_i hne
      have hne' : s.opens ≠ [] := by simpa using hne
      obtain ⟨hb, hpres⟩ := capOne_progress hc hm hs hne' ω
      cases hco : capOne o s ω with
      | error e1 =>
        simp only [hco] at h
        injection h with h; subst h
        exact hb e1 hco
      | ok r =>
        obtain ⟨s1, t1, ω1⟩ := r
        simp only [hco] at h
        obtain ⟨hs1, -⟩ := hpres s1 t1 ω1 hco
        cases hrec : capAll o f s1 ω1 with
        | error e2 =>
          simp only [hrec] at h
          injection h with h; subst h
          exact ih hs1 ω1 e2 hrec
        | ok r2 =>
          obtain ⟨s2, t2, ω2⟩ := r2
          simp only [hrec] at h
          cases h


theorem capAll_ok_empty {o : Stoch} (f : Nat) {s s' : Mol} {ω ω' : Oracle} {t : Trace} (h : capAll o f s ω = .ok (s', t, ω')) :
    s'.opens = [] := by
  induction f generalizing s ω t s' ω' with
  | zero =>
    unfold capAll at h
    split at h
    · rename_i he; ok_inj h; obtain ⟨rfl, -, -⟩ := h; simpa using he
    · cases h
  | succ f ih =>
    unfold capAll at h
    split at h
    · rename_i he; ok_inj h; obtain ⟨rfl, -, -⟩ := h; simpa using he
    · split at h
      · cases h
      · split at h
        · cases h
        · rename_i s2 t2 ω2 hrec
          ok_inj h; obtain ⟨rfl, -, -⟩ := h
          exact ih hrec

theorem posOf_getElem? {v : Nat} {opts : List Nat} {k : Nat} (h : posOf v opts = some k) : opts[k]? = some v := by
  induction opts generalizing k with
  | nil => simp [posOf] at h
  | cons o os ih =>
    unfold posOf at h
    by_cases ho : o = v
    · simp only [ho, if_true, Option.some.injEq] at h
      subst h; simp [ho]
    · simp only [ho, if_false] at h
      cases hp : posOf v os with
      | none => simp [hp] at h
      | some k' =>
        simp only [hp, Option.map_some, Option.some.injEq] at h
        subst h
        simpa using ih hp

/-- what `choose_compatible_weight` returns is pickable -/
theorem choose_pickable {bds : List Desc} {b : Option Desc} {ω ω' : Oracle} {v : Nat} {c : Choice}
    (h : choose bds b ω = .ok (v, c, ω')) : v ∈ pickable bds b := by
  obtain ⟨hopts, hprobs, -, -, -, k, hk, hpos⟩ := C08_choose_spec h
  rw [hopts] at hk
  have hget := posOf_getElem? hk
  unfold pickable
  simp only [List.mem_filterMap]
  rw [hprobs] at hpos
  cases hp : (chooseProbs ((compatibleIds bds b).map fun i => (bds.getD i default).weight))[k]? with
  | none =>
    rw [List.getD_eq_getElem?_getD, hp] at hpos
    simp at hpos
  | some p =>
    rw [List.getD_eq_getElem?_getD, hp] at hpos
    simp only [Option.getD_some] at hpos
    refine ⟨(v, p), ?_, by simp [hpos]⟩
    rw [List.mem_iff_getElem?]
    exact ⟨k, by rw [List.getElem?_zip_eq_some]; exact ⟨hget, hp⟩⟩

theorem pickable_subset {bds : List Desc} {b : Option Desc} {v : Nat} (h : v ∈ pickable bds b) : v ∈ compatibleIds bds b := by
  unfold pickable at h
  simp only [List.mem_filterMap] at h
  obtain ⟨⟨i, p⟩, hm, hv⟩ := h
  split at hv
  · injection hv with hv; subst hv
    exact (List.of_mem_zip hm).1
  · cases hv

theorem chooseList_progress (l : List Rat) (w : Rat) (ω : Oracle) (hne : l ≠ []) (hok : probsOk (l.map (· / w)) w = true) :
    OkOrBenign (chooseList l w ω) := by
  intro e h
  unfold chooseList at h
  simp only at h
  have h1 : l.isEmpty = false := by simpa using hne
  simp only [h1, Bool.false_eq_true, if_false, hok, Bool.not_true] at h
  exact pickFrom_benign _ _ _ e h

/-- **one growth step cannot raise** and leaves only descriptors of `R` open -/
theorem addUnit_progress {o : Stoch} {m : Mode} {R0 R : List Desc} (hc : Cert o m R0 R) {s : Mol} (hs : OpensIn (R0 ++ R) s)
    (hcase : OpensIn R s ∨ s.opens.length = 1) (hne : s.opens ≠ []) (ω : Oracle) :
    OkOrBenign (addUnit o s ω) ∧ ∀ s' t ω', addUnit o s ω = .ok (s', t, ω') →
      OpensIn R s' ∧ (m.chain = true → s.opens.length = 1 → s'.opens.length = 1) ∧
      (∀ r, m.inv = some r → ∃ od ∈ s'.opens, isCompatible r od.d = true) := by
  have h1 := chooseOpen_progress hc hs hne ω
  unfold addUnit
  cases hch : choose (s.opens.map (·.d)) none ω with
  | error e => exact ⟨fun e' he' => by injection he' with he'; subst he'; exact h1 e hch, fun s' t ω' h => by cases h⟩
  | ok r =>
    obtain ⟨i, c1, ω1⟩ := r
    have hlt : i < s.opens.length := by simpa using choose_lt hch
    have hod : s.opens[i]? = some s.opens[i] := List.getElem?_eq_getElem hlt
    have hin : InR (R0 ++ R) s.opens[i].d := hs _ (List.getElem_mem hlt)
    have hgrow := InR_GrowOK hc hin
    dsimp only
    rw [getD_opens hlt]
    -- the partner pick
    have hpp : OkOrBenign (pickPartner o s.opens[i].d ω1) ∧
        ∀ c c2 ω2, pickPartner o s.opens[i].d ω1 = .ok (c, c2, ω2) → EntryOK o m R s.opens[i].d c := by
      unfold GrowOK at hgrow
      unfold pickPartner
      cases htr : s.opens[i].d.trans with
      | none =>
        simp only [htr] at hgrow ⊢
        obtain ⟨g1, g2, g3⟩ := hgrow
        exact ⟨choose_progress _ _ _ g1 g2, fun c c2 ω2 hok => g3 c (choose_pickable hok)⟩
      | some l =>
        simp only [htr] at hgrow ⊢
        obtain ⟨g1, g2, g3⟩ := hgrow
        refine ⟨chooseList_progress l _ ω1 g1 g2, ?_⟩
        intro c c2 ω2 hok
        obtain ⟨-, -, -, hcl, -, hpos⟩ := C08_list_spec hok
        exact g3 c (List.mem_range.2 hcl) hpos
    obtain ⟨hpb, hpe⟩ := hpp
    cases hpk : pickPartner o s.opens[i].d ω1 with
    | error e => exact ⟨fun e' he' => by injection he' with he'; subst he'; exact hpb e hpk, fun s' t ω' h => by cases h⟩
    | ok r2 =>
      obtain ⟨c, c2, ω2⟩ := r2
      have hent := hpe c c2 ω2 hpk
      unfold EntryOK at hent
      dsimp only
      cases he : o.entry c with
      | none => simp [he] at hent
      | some p =>
        obtain ⟨tok, k, d⟩ := p
        simp only [he] at hent
        obtain ⟨hg, hbd, hcomp, hsib, hleave⟩ := hent
        obtain ⟨s', hatt, hopens⟩ := attach_succeeds (s := s) hg hod hbd hcomp
        simp only [hatt]
        refine ⟨(fun e' he' => nomatch he'), ?_⟩
        intro s'' t ω' hok
        injection hok with hok
        simp only [Prod.mk.injEq] at hok
        obtain ⟨rfl, -, -⟩ := hok
        refine ⟨?_, ?_, ?_⟩
        · intro od hod'
          rw [hopens] at hod'
          rcases List.mem_append.1 hod' with hm | hm
          · rcases hcase with hR | hone
            · exact hR od (mem_of_mem_eraseIdx hm)
            · have : s.opens.eraseIdx i = [] := by
                rw [List.eraseIdx_eq_nil_iff]; right; exact ⟨hone, by omega⟩
              rw [this] at hm; simp at hm
          · obtain ⟨d', hd', hdeq⟩ := fresh_erase_dEq tok _ _ _ k od hm
            obtain ⟨y, hy, hye⟩ := hsib d' hd'
            exact ⟨y, hy, ⟨hdeq.1.trans hye.1, hdeq.2.1.trans hye.2.1, hdeq.2.2.1.trans hye.2.2.1, hdeq.2.2.2.1.trans hye.2.2.2.1, hdeq.2.2.2.2.trans hye.2.2.2.2⟩⟩
        · intro hch1 hlen1
          have h2 := hleave.2 hch1
          have hk : k < tok.bds.length := (List.getElem?_eq_some_iff.1 hbd).1
          rw [hopens, List.length_append, List.length_eraseIdx, List.length_eraseIdx, Token.opens_length]
          simp only [hlt, hk, if_true]
          omega
        · intro r hr
          have h1' := hleave.1
          simp only [hr] at h1'
          obtain ⟨y, hy, hcy⟩ := h1'
          obtain ⟨od, hod1, hdq⟩ := fresh_erase_dEq' tok s.natoms s.insts.length s.insts.length k y hy
          refine ⟨od, ?_, ?_⟩
          · rw [hopens]; exact List.mem_append_right _ hod1
          · rw [isCompatible_dEq_right hdq]; exact hcy


theorem capAll_nil {o : Stoch} (f : Nat) {s : Mol} (h : s.opens = []) (ω : Oracle) : capAll o f s ω = .ok (s, [], ω) := by
  cases f <;> simp [capAll, h]

/-- **`finalize_mol` cannot raise** -/
theorem finalize_progress {o : Stoch} {m : Mode} {R0 R : List Desc} (hc : Cert o m R0 R) (hm : ModeOf o m) (f : Nat) {s : Mol}
    (hs : OpensIn R s) (hch : m.chain = true → s.opens.length = 1)
    (hr : ∀ r, m.inv = some r → ∃ od ∈ s.opens, isCompatible r od.d = true) (ω : Oracle) :
    OkOrBenign (finalize o f s ω) ∧ ∀ fin t ω', finalize o f s ω = .ok (fin, t, ω') → Handed m R fin := by
  unfold finalize
  by_cases hright : o.right.sym = .none
  · obtain ⟨hinv, hchain⟩ := hm.1 hright
    simp only [hright, ne_eq, not_true_eq_false, if_false]
    refine ⟨capAll_progress hc hchain f hs ω, ?_⟩
    intro fin t ω' hok
    exact ⟨fun _ => capAll_ok_empty f hok, fun rr hrr => by rw [hinv] at hrr; cases hrr⟩
  · have hinv := hm.2 hright
    simp only [hright, ne_eq, not_false_eq_true, if_true]
    obtain ⟨od, hodm, hodc⟩ := hr _ hinv
    have hne : compatibleIds (s.opens.map (·.d)) (some (invertTerminal o.right)) ≠ [] := by
      obtain ⟨i, hi, hget⟩ := List.getElem_of_mem hodm
      have : i ∈ compatibleIds (s.opens.map (·.d)) (some (invertTerminal o.right)) := by
        rw [C03_filter]
        refine ⟨by simpa using hi, ?_⟩
        simp only [List.getElem_map, hget]
        exact hodc
      intro h0; rw [h0] at this; simp at this
    have hpos : ∀ i ∈ compatibleIds (s.opens.map (·.d)) (some (invertTerminal o.right)), 0 ≤ ((s.opens.map OpenD.d).getD i default).weight := by
      intro i hi
      obtain ⟨hlt, -⟩ := (C03_filter _ _ _).1 hi
      simp only [List.length_map] at hlt
      rw [List.getD_eq_getElem?_getD, List.getElem?_map, List.getElem?_eq_getElem hlt]
      simp only [Option.map_some, Option.getD_some]
      exact InR_nonneg hc (InR_app_right (hs _ (List.getElem_mem hlt)))
    have h1 := choose_progress _ _ ω hne hpos
    cases hch1 : choose (s.opens.map (·.d)) (some (invertTerminal o.right)) ω with
    | error e => exact ⟨fun e' he' => by injection he' with he'; subst he'; exact h1 e hch1, fun s' t ω' h => by cases h⟩
    | ok r =>
      obtain ⟨k, c, ω1⟩ := r
      obtain ⟨hklt, hkc⟩ := (C03_filter _ _ _).1 (choose_mem hch1)
      simp only [List.length_map] at hklt
      simp only [List.getElem_map] at hkc
      dsimp only
      have hsub : OpensIn R { s with opens := s.opens.eraseIdx k } := fun od' h' => hs od' (mem_of_mem_eraseIdx h')
      have hcap : OkOrBenign (capAll o f { s with opens := s.opens.eraseIdx k } ω1) := by
        by_cases hchain : m.chain = true
        · have hl := hch hchain
          have : s.opens.eraseIdx k = [] := by
            rw [List.eraseIdx_eq_nil_iff]; right; exact ⟨hl, by omega⟩
          rw [capAll_nil f (by simpa using this)]
          intro e he; cases he
        · exact capAll_progress hc (by simpa using hchain) f hsub ω1
      cases hca : capAll o f { s with opens := s.opens.eraseIdx k } ω1 with
      | error e => exact ⟨fun e' he' => by injection he' with he'; subst he'; exact hcap e hca, fun s' t ω' h => by cases h⟩
      | ok r2 =>
        obtain ⟨s', t', ω2⟩ := r2
        refine ⟨(fun e' he' => nomatch he'), ?_⟩
        intro fin t ω' hok
        injection hok with hok
        simp only [Prod.mk.injEq] at hok
        obtain ⟨rfl, -, -⟩ := hok
        have hemp := capAll_ok_empty f hca
        refine ⟨(fun hn => by rw [hinv] at hn; cases hn), ?_⟩
        intro rr hrr
        rw [hinv] at hrr
        injection hrr with hrr
        subst hrr
        refine ⟨s.opens[k], ?_, hs _ (List.getElem_mem hklt), hkc⟩
        simp only [hemp, List.nil_append, getD_opens hklt]


/-- **the growth loop cannot raise**, and ends with nothing open or with exactly the descriptor for the right terminal -/
theorem growLoop_progress {o : Stoch} {m : Mode} {R0 R : List Desc} (hc : Cert o m R0 R) (hm : ModeOf o m) (start target : Rat) :
    ∀ (f n : Nat) (s : Mol) (ω : Oracle), OpensIn (R0 ++ R) s → (OpensIn R s ∨ s.opens.length = 1) → s.opens ≠ [] →
      (m.chain = true → s.opens.length = 1) →
      OkOrBenign (growLoop o start target f n s ω) ∧
      ∀ r t ω', growLoop o start target f n s ω = .ok (r, t, ω') → Handed m R r := by
  intro f
  induction f with
  | zero =>
    intro n s ω _ _ _ _
    refine ⟨?_, ?_⟩
    · intro e h; simp only [growLoop] at h; injection h with h; subst h; exact Or.inr (Or.inr rfl)
    · intro r t ω' h; simp [growLoop] at h
  | succ f ih =>
    intro n s ω hs hcase hne hch
    obtain ⟨hab, hap⟩ := addUnit_progress hc hs hcase hne ω
    unfold growLoop
    cases hau : addUnit o s ω with
    | error e => exact ⟨fun e' he' => by injection he' with he'; subst he'; exact hab e hau, fun r t ω' h => by cases h⟩
    | ok r1 =>
      obtain ⟨s1, t1, ω1⟩ := r1
      obtain ⟨hs1, hch1, hr1⟩ := hap s1 t1 ω1 hau
      dsimp only
      by_cases hemp : s1.opens.isEmpty = true
      · simp only [hemp, if_true]
        refine ⟨(fun e' he' => nomatch he'), ?_⟩
        intro r t ω' hok
        injection hok with hok
        simp only [Prod.mk.injEq] at hok
        obtain ⟨rfl, -, -⟩ := hok
        have he : s1.opens = [] := by simpa using hemp
        refine ⟨fun _ => he, ?_⟩
        intro rr hrr
        obtain ⟨od, hod, -⟩ := hr1 rr hrr
        rw [he] at hod; simp at hod
      · simp only [hemp, Bool.false_eq_true, if_false]
        have hne1 : s1.opens ≠ [] := by simpa using hemp
        have hch1' : m.chain = true → s1.opens.length = 1 := fun h => hch1 h (hch h)
        obtain ⟨hfb, hfp⟩ := finalize_progress hc hm (f + 1) hs1 hch1' hr1 ω1
        cases hfin : finalize o (f + 1) s1 ω1 with
        | error e => exact ⟨fun e' he' => by injection he' with he'; subst he'; exact hfb e hfin, fun r t ω' h => by cases h⟩
        | ok r2 =>
          obtain ⟨fin, t2, ω2⟩ := r2
          have hh := hfp fin t2 ω2 hfin
          dsimp only
          by_cases hmass : s1.mass - start > target
          · simp only [hmass, if_true]
            refine ⟨(fun e' he' => nomatch he'), ?_⟩
            intro r t ω' hok
            injection hok with hok
            simp only [Prod.mk.injEq] at hok
            obtain ⟨rfl, -, -⟩ := hok
            exact hh
          · simp only [hmass, if_false]
            obtain ⟨hib, hip⟩ := ih (n + 1) s1 ω2 (fun od h => InR_app_right (hs1 od h)) (Or.inl hs1) hne1 hch1'
            cases hrec : growLoop o start target f (n + 1) s1 ω2 with
            | error e => exact ⟨fun e' he' => by injection he' with he'; subst he'; exact hib e hrec, fun r t ω' h => by cases h⟩
            | ok r3 =>
              obtain ⟨r, t3, ω3⟩ := r3
              refine ⟨(fun e' he' => nomatch he'), ?_⟩
              intro r' t ω' hok
              injection hok with hok
              simp only [Prod.mk.injEq] at hok
              obtain ⟨rfl, -, -⟩ := hok
              exact hip r t3 ω3 hrec


/-! ## Starting an object and handing over between elements -/

theorem same3_of_compatible {rr x : Desc} (h : isCompatible rr x = true) : Same3 x (handOf rr) := by
  obtain ⟨h1, h2, h3, h4, h5⟩ := (C03_iff rr x).1 h
  refine ⟨?_, h3.symm, h4.symm⟩
  simp only [handOf]
  cases hr : rr.sym <;> cases hx : x.sym <;> simp [conj, flipSym, hr, hx] at h5 h1 h2 ⊢

/-- **`get_start` cannot raise** and yields a molecule with exactly one open descriptor, of `R` -/
theorem getStart_progress {o : Stoch} {R0 : List Desc} {pre : Option Mol} {inc : Option Desc}
    (hpre : PreOK pre inc) (hst : StartOK o R0 inc) (ω : Oracle) :
    OkOrBenign (getStart o pre ω) ∧
    ∀ s t ω', getStart o pre ω = .ok (s, t, ω') → OpensIn R0 s ∧ s.opens.length = 1 := by
  unfold getStart
  cases pre with
  | none =>
    cases inc with
    | some h => exact hpre.elim
    | none =>
      obtain ⟨hleft, hne, hall⟩ := hst
      simp only [hleft, ne_eq, not_true_eq_false, if_false]
      have hids : compatibleIds (o.endBonds.map Prod3.d) none ≠ [] := by
        intro h0
        have : 0 ∈ compatibleIds (o.endBonds.map Prod3.d) none := by
          rw [C03_filter]; exact ⟨by simpa using List.length_pos_iff.2 hne, trivial⟩
        rw [h0] at this; simp at this
      have hpos : ∀ i ∈ compatibleIds (o.endBonds.map Prod3.d) none, 0 ≤ ((o.endBonds.map Prod3.d).getD i default).weight := by
        intro i hi
        obtain ⟨hlt, -⟩ := (C03_filter _ _ _).1 hi
        simp only [List.length_map] at hlt
        rw [List.getD_eq_getElem?_getD, List.getElem?_map, List.getElem?_eq_getElem hlt]
        simp only [Option.map_some, Option.getD_some]
        exact (hall _ (List.getElem_mem hlt)).1
      have h1 := choose_progress _ _ ω hids hpos
      cases hch : choose (o.endBonds.map Prod3.d) none ω with
      | error e => exact ⟨fun e' he' => by injection he' with he'; subst he'; exact h1 e hch, fun s t ω' h => by cases h⟩
      | ok r =>
        obtain ⟨c, ch, ω1⟩ := r
        have hclt : c < o.endBonds.length := by simpa using choose_lt hch
        dsimp only
        rw [List.getElem?_eq_getElem hclt]
        obtain ⟨-, hg, hlen, hin⟩ := hall _ (List.getElem_mem hclt)
        generalize o.endBonds[c] = p at hg hlen hin
        obtain ⟨tok, k, d⟩ := p
        simp only at hg hlen hin ⊢
        simp only [hlen, ne_eq, not_true_eq_false, if_false, newMol, hg, if_true]
        refine ⟨(fun e' he' => nomatch he'), ?_⟩
        intro s t ω' hok
        injection hok with hok
        simp only [Prod.mk.injEq] at hok
        obtain ⟨rfl, -, -⟩ := hok
        refine ⟨?_, by simp [Token.opens_length, hlen]⟩
        intro od hod
        simp only [Token.opens, List.mem_map] at hod
        obtain ⟨⟨k', d'⟩, hm, rfl⟩ := hod
        have hd' : d' ∈ tok.bds := by
          have := (mem_withIdx tok.bds k' d').1 hm
          exact List.mem_of_getElem? this
        obtain ⟨y, hy, hye⟩ := hin d' hd'
        exact ⟨y, hy, ⟨hye.1, hye.2.1, hye.2.2.1, hye.2.2.2.1, hye.2.2.2.2⟩⟩
  | some p =>
    cases inc with
    | none => exact hpre.elim
    | some h =>
      obtain ⟨od, hop, hs3⟩ := hpre
      obtain ⟨hsym, hid, hin⟩ := hst
      simp only [hop]
      have hcond : ¬ (od.d.sym ≠ o.left.sym ∨ od.d.id ≠ o.left.id) := by
        rw [hs3.1, hs3.2.1, hsym, hid]; simp
      simp only [hcond, if_false]
      refine ⟨(fun e' he' => nomatch he'), ?_⟩
      intro s t ω' hok
      injection hok with hok
      simp only [Prod.mk.injEq] at hok
      obtain ⟨rfl, -, -⟩ := hok
      refine ⟨?_, rfl⟩
      intro od' hod'
      simp only [List.mem_singleton] at hod'
      subst hod'
      obtain ⟨y, hy, hye⟩ := hin
      exact ⟨y, hy, ⟨hs3.1.trans hye.1, hs3.2.1.trans hye.2.1, hs3.2.2.trans hye.2.2.1, hye.2.2.2.1, hye.2.2.2.2⟩⟩


theorem handed_preOK {m : Mode} {R : List Desc} {r : Mol} (h : Handed m R r) :
    (m.inv = none → r.opens = []) ∧ (m.inv ≠ none → PreOK (some r) (stochOut m)) := by
  refine ⟨h.1, ?_⟩
  intro hne
  cases hi : m.inv with
  | none => exact absurd hi hne
  | some rr =>
    obtain ⟨od, hop, -, hcomp⟩ := h.2 rr hi
    simp only [stochOut, hi, Option.map_some]
    exact ⟨od, hop, same3_of_compatible hcomp⟩

theorem preOK_prefixOk {pre : Option Mol} {inc : Option Desc} (h : PreOK pre inc) : prefixOk pre = true := by
  cases pre with
  | none => rfl
  | some p =>
    cases inc with
    | none => exact h.elim
    | some hh => obtain ⟨od, hop, -⟩ := h; simp [prefixOk, hop]

/-- **`Stochastic.generate` cannot raise** for a certified object -/
theorem genStoch_progress {o : Stoch} {m : Mode} {R : List Desc} {inc : Option Desc} (hok : StochOK o m R inc)
    (fuel : Nat) {pre : Option Mol} (hpre : PreOK pre inc) (ω : Oracle) :
    OkOrBenign (genStoch o fuel pre ω) ∧ ∀ r t ω', genStoch o fuel pre ω = .ok (r, t, ω') → Handed m R r := by
  obtain ⟨hgen, hmode, hcert, hstart⟩ := hok
  unfold genStoch
  simp only [hgen, Bool.not_true, Bool.false_eq_true, if_false, preOK_prefixOk hpre]
  obtain ⟨hgb, hgp⟩ := getStart_progress hpre hstart ω
  cases hgs : getStart o pre ω with
  | error e => exact ⟨fun e' he' => by injection he' with he'; subst he'; exact hgb e hgs, fun r t ω' h => by cases h⟩
  | ok r0 =>
    obtain ⟨s, t0, ω0⟩ := r0
    obtain ⟨hs, hlen⟩ := hgp s t0 ω0 hgs
    dsimp only
    cases ω0 with
    | nil => exact ⟨fun e' he' => by injection he' with he'; subst he'; exact Or.inr (Or.inl rfl), fun r t ω' h => by cases h⟩
    | cons ev ω1 =>
      cases ev with
      | pick v => exact ⟨fun e' he' => by injection he' with he'; subst he'; exact Or.inl rfl, fun r t ω' h => by cases h⟩
      | draw target =>
        dsimp only
        have hne : s.opens ≠ [] := by intro h0; rw [h0] at hlen; simp at hlen
        obtain ⟨hlb, hlp⟩ := growLoop_progress hcert hmode s.mass target fuel 0 s ω1 (fun od h => InR_app_left (hs od h)) (Or.inr hlen) hne (fun _ => hlen)
        cases hgl : growLoop o s.mass target fuel 0 s ω1 with
        | error e => exact ⟨fun e' he' => by injection he' with he'; subst he'; exact hlb e hgl, fun r t ω' h => by cases h⟩
        | ok r1 =>
          obtain ⟨r, t1, ω2⟩ := r1
          refine ⟨(fun e' he' => nomatch he'), ?_⟩
          intro r' t ω' hok'
          injection hok' with hok'
          simp only [Prod.mk.injEq] at hok'
          obtain ⟨rfl, -, -⟩ := hok'
          exact hlp r t1 ω2 hgl


/-! ## Plain tokens and whole molecules -/

theorem compatibleIdsFrom_same3 {x h : Desc} (hs : Same3 x h) (l : List Desc) (n : Nat) :
    compatibleIdsFrom (some x) n l = compatibleIdsFrom (some h) n l := by
  induction l generalizing n with
  | nil => rfl
  | cons a l ih =>
    unfold compatibleIdsFrom
    have : isCompatible x a = isCompatible h a := by
      rw [C03_symm x a, C03_symm h a]
      exact isCompatible_congr_right a x h hs.1 hs.2.1 hs.2.2
    simp only [this, ih]

theorem token_weight_nonneg {t : Token} (hg : t.generable = true) {d : Desc} (hd : d ∈ t.bds) : 0 ≤ d.weight := by
  unfold Token.generable at hg
  have := List.all_eq_true.1 hg d hd
  simpa [Desc.generable] using this

theorem head?_of_length_le_one {α} {l : List α} (h : l.length ≤ 1) : l = [] ∧ l.head? = none ∨ ∃ a, l = [a] ∧ l.head? = some a := by
  match l, h with
  | [], _ => exact Or.inl ⟨rfl, rfl⟩
  | [a], _ => exact Or.inr ⟨a, rfl, rfl⟩

/-- **`SmilesToken.generate` cannot raise** for a fitting token -/
theorem genToken_progress {t : Token} {inc : Option Desc} (hok : TokOK t inc) {pre : Option Mol} (hpre : PreOK pre inc) (ω : Oracle) :
    OkOrBenign (genToken t pre ω) ∧ ∀ r tr ω', genToken t pre ω = .ok (r, tr, ω') → OutOK r (tokOut t inc) := by
  unfold genToken
  cases pre with
  | none =>
    cases inc with
    | some h => exact hpre.elim
    | none =>
      obtain ⟨hg, hlen⟩ := hok
      simp only [hg, Bool.not_true, Bool.false_eq_true, if_false, newMol, if_true]
      refine ⟨(fun e' he' => nomatch he'), ?_⟩
      intro r tr ω' hok'
      injection hok' with hok'
      simp only [Prod.mk.injEq] at hok'
      obtain ⟨rfl, -, -⟩ := hok'
      simp only [tokOut]
      rcases head?_of_length_le_one hlen with ⟨hnil, hh⟩ | ⟨a, ha, hh⟩
      · rw [hh]; simp [OutOK, Token.opens, withIdx, hnil]
      · rw [hh]
        simp only [OutOK, PreOK]
        refine ⟨{ d := { a with atom := a.atom + 0 }, node := 0, inst := 0, k := 0 }, ?_, ⟨rfl, rfl, rfl⟩⟩
        simp [Token.opens, withIdx, ha]
  | some p =>
    cases inc with
    | none => exact hpre.elim
    | some h =>
      obtain ⟨od, hop, hs3⟩ := hpre
      obtain ⟨hg, j, -, hids, hrest⟩ := hok
      simp only [hg, Bool.not_true, Bool.false_eq_true, if_false, hop]
      have hcids : compatibleIds t.bds (some od.d) = compatibleIds t.bds (some h) := by
        unfold compatibleIds; rw [compatibleIdsFrom_same3 hs3]
      have hids' : pickable t.bds (some od.d) = [j] := by
        unfold pickable; rw [hcids]; exact hids
      have hjm : j ∈ compatibleIds t.bds (some od.d) := pickable_subset (by rw [hids']; simp)
      obtain ⟨hjlt, hjc⟩ := (C03_filter _ _ _).1 hjm
      have h1 := choose_progress t.bds (some od.d) ω (by intro h0; rw [h0] at hjm; simp at hjm)
        (fun i hi => by
          obtain ⟨hlt, -⟩ := (C03_filter _ _ _).1 hi
          rw [List.getD_eq_getElem?_getD, List.getElem?_eq_getElem hlt]
          exact token_weight_nonneg hg (List.getElem_mem hlt))
      cases hch : choose t.bds (some od.d) ω with
      | error e => exact ⟨fun e' he' => by injection he' with he'; subst he'; exact h1 e hch, fun r tr ω' h => by cases h⟩
      | ok r0 =>
        obtain ⟨j', c, ω1⟩ := r0
        have hj' : j' = j := by
          have := choose_pickable hch
          rw [hids'] at this
          simpa using this
        subst hj'
        dsimp only
        have hpo : p.opens[0]? = some od := by simp [hop]
        obtain ⟨s', hatt, hopens⟩ := attach_succeeds (s := p) hg hpo (List.getElem?_eq_getElem hjlt)
          (by rw [C03_symm]; exact hjc)
        simp only [hatt]
        refine ⟨(fun e' he' => nomatch he'), ?_⟩
        intro r tr ω' hok'
        injection hok' with hok'
        simp only [Prod.mk.injEq] at hok'
        obtain ⟨rfl, -, -⟩ := hok'
        simp only [tokOut, hids]
        rw [hop] at hopens
        simp only [List.eraseIdx_cons_zero, List.nil_append] at hopens
        rcases head?_of_length_le_one hrest with ⟨hnil, hh⟩ | ⟨a, ha, hh⟩
        · rw [hh]
          simp only [OutOK]
          rw [hopens]
          have hl : ((t.opens p.natoms p.insts.length p.insts.length).eraseIdx j').length = 0 := by
            rw [List.length_eraseIdx, Token.opens_length]
            have := congrArg List.length hnil
            rw [List.length_eraseIdx] at this
            simpa using this
          exact List.length_eq_zero_iff.1 hl
        · rw [hh]
          simp only [OutOK, PreOK]
          have hl : ((t.opens p.natoms p.insts.length p.insts.length).eraseIdx j').length = 1 := by
            rw [List.length_eraseIdx, Token.opens_length]
            have := congrArg List.length ha
            rw [List.length_eraseIdx] at this
            simpa using this
          obtain ⟨od1, hod1⟩ := List.length_eq_one_iff.1 hl
          refine ⟨od1, by rw [hopens, hod1], ?_⟩
          obtain ⟨d1, hd1, hdq⟩ := fresh_erase_dEq t _ _ _ j' od1 (by rw [hod1]; simp)
          rw [ha] at hd1
          simp only [List.mem_singleton] at hd1
          subst hd1
          exact ⟨hdq.1, hdq.2.1, hdq.2.2.1⟩


theorem genElement_progress (fuel : Nat) {e : Element} {c : ElemCert} {inc : Option Desc} (hok : ElemOK e c inc)
    {pre : Option Mol} (hpre : PreOK pre inc) (ω : Oracle) :
    OkOrBenign (genElement fuel e pre ω) ∧ ∀ r t ω', genElement fuel e pre ω = .ok (r, t, ω') → OutOK r (elemOut e c inc) := by
  cases e with
  | tok t => exact genToken_progress hok hpre ω
  | stoch o =>
    obtain ⟨hb, hp⟩ := genStoch_progress (o := o) hok fuel hpre ω
    refine ⟨hb, ?_⟩
    intro r t ω' h
    have hh := hp r t ω' h
    obtain ⟨h1, h2⟩ := handed_preOK hh
    simp only [elemOut, stochOut]
    cases hi : c.1.inv with
    | none => simpa [OutOK] using h1 hi
    | some rr =>
      have := h2 (by rw [hi]; simp)
      simpa [OutOK, stochOut, hi] using this

theorem genElems_progress (fuel : Nat) :
    ∀ (es : List Element) (cs : List ElemCert) (pre : Option Mol) (inc : Option Desc) (ω : Oracle),
      PreOK pre inc → ElemsOK es cs inc →
      OkOrBenign (genElems fuel es pre ω) ∧
      ∀ r t ω', genElems fuel es pre ω = .ok (r, t, ω') → es ≠ [] → ∃ m, r = some m ∧ m.opens = [] := by
  intro es
  induction es with
  | nil =>
    intro cs pre inc ω _ _
    exact ⟨fun e h => by simp [genElems] at h, fun r t ω' _ hne => absurd rfl hne⟩
  | cons e es ih =>
    intro cs pre inc ω hpre hok
    cases cs with
    | nil => exact hok.elim
    | cons c cs =>
      obtain ⟨he, hmid, hrest⟩ := hok
      obtain ⟨hb, hp⟩ := genElement_progress fuel he hpre ω
      unfold genElems
      cases hge : genElement fuel e pre ω with
      | error e1 => exact ⟨fun e' he' => by injection he' with he'; subst he'; exact hb e1 hge, fun r t ω' h => by cases h⟩
      | ok r1 =>
        obtain ⟨m', t1, ω1⟩ := r1
        have hout := hp m' t1 ω1 hge
        dsimp only
        cases es with
        | nil =>
          simp only [genElems]
          refine ⟨(fun e' he' => nomatch he'), ?_⟩
          intro r t ω' hok' _
          injection hok' with hok'
          simp only [Prod.mk.injEq] at hok'
          obtain ⟨rfl, -, -⟩ := hok'
          have hnone : elemOut e c inc = none := hrest
          rw [hnone] at hout
          exact ⟨m', rfl, hout⟩
        | cons e2 es2 =>
          have hsome := hmid (by simp)
          cases ho : elemOut e c inc with
          | none => exact absurd ho hsome
          | some d =>
            rw [ho] at hout hrest
            obtain ⟨hib, hip⟩ := ih cs (some m') (some d) ω1 hout hrest
            cases hrec : genElems fuel (e2 :: es2) (some m') ω1 with
            | error e3 => exact ⟨fun e' he' => by injection he' with he'; subst he'; exact hib e3 hrec, fun r t ω' h => by cases h⟩
            | ok r3 =>
              obtain ⟨r, t2, ω2⟩ := r3
              refine ⟨(fun e' he' => nomatch he'), ?_⟩
              intro r' t ω' hok' _
              injection hok' with hok'
              simp only [Prod.mk.injEq] at hok'
              obtain ⟨rfl, -, -⟩ := hok'
              exact hip r t2 ω2 hrec (by simp)

/-- **C06 (soundness of the certificate)**: a molecule description with a certificate generates, for every fuel and every
oracle, without any error of the implementation's kind, and every successful run is fully generated (no open descriptor) -/
theorem certified_generates (es : List Element) (cs : List ElemCert) (hne : es ≠ []) (hok : ElemsOK es cs none)
    (fuel : Nat) (ω : Oracle) :
    OkOrBenign (genMol fuel es ω) ∧
    ∀ r t ω', genMol fuel es ω = .ok (r, t, ω') → ∃ m, r = some m ∧ m.opens = [] := by
  obtain ⟨hb, hp⟩ := genElems_progress fuel es cs none none ω trivial hok
  exact ⟨hb, fun r t ω' h => hp r t ω' h hne⟩

end GBS
