import GBS.Model.ReactGraph
/-!
# values written on the edges of the reaction-graph model, per attribute (helper lemmas for C16)
-/
namespace GBS

/-- the values of one attribute on a list of `add_edge` operations -/
def attrVals (a : RAttr) (adds : List RAdd) : List Rat := (adds.filter fun x => x.attr == a).map (·.val)

theorem innerEdges_prob_vals (e : Nat) (o : Stoch) (g : EDesc) (hn : g.d.trans = none) :
    attrVals .prob (innerEdges e (.stoch o) g) =
      let ws := (((elemDescs (.stoch o)).filter fun x => isCompatible g.d x.d).filter (·.isRepeat)).map (·.d.weight)
      (ws.filter fun w => 0 < w).map (· / sumRat ws) := by
  unfold innerEdges attrVals
  simp only [hn, isStoch]
  generalize (elemDescs (.stoch o)).filter (fun x => isCompatible g.d x.d) = comp
  simp only [Bool.not_true, Bool.false_eq_true, if_false]
  generalize sumRat ((comp.filter (·.isRepeat)).map (·.d.weight)) = repW
  generalize sumRat ((comp.filter (fun o => !o.isRepeat)).map (·.d.weight)) = endW
  induction comp with
  | nil => rfl
  | cons x xs ih =>
    simp only [List.filter_cons]
    by_cases hp : 0 < x.d.weight <;> by_cases hr : x.isRepeat = true <;>
      simp only [hp, hr, decide_true, decide_false, if_true, if_false, Bool.false_eq_true, List.map_cons, List.filter_cons] <;>
      first
        | exact ih
        | (have h1 : (RAttr.prob == RAttr.prob) = true := by decide
           simp only [h1, if_true, List.map_cons, ih])
    

theorem innerEdges_term_vals (e : Nat) (o : Stoch) (g : EDesc) (hn : g.d.trans = none) :
    attrVals .termProb (innerEdges e (.stoch o) g) =
      let ws := (((elemDescs (.stoch o)).filter fun x => isCompatible g.d x.d).filter (fun x => !x.isRepeat)).map (·.d.weight)
      (ws.filter fun w => 0 < w).map (· / sumRat ws) := by
  unfold innerEdges attrVals
  simp only [hn, isStoch]
  generalize (elemDescs (.stoch o)).filter (fun x => isCompatible g.d x.d) = comp
  simp only [Bool.not_true, Bool.false_eq_true, if_false]
  generalize sumRat ((comp.filter (·.isRepeat)).map (·.d.weight)) = repW
  generalize sumRat ((comp.filter (fun o => !o.isRepeat)).map (·.d.weight)) = endW
  induction comp with
  | nil => rfl
  | cons x xs ih =>
    simp only [List.filter_cons]
    by_cases hp : 0 < x.d.weight <;> by_cases hr : x.isRepeat = true <;>
      simp only [hp, hr, decide_true, decide_false, if_true, if_false, Bool.false_eq_true, Bool.not_true, Bool.not_false, List.map_cons, List.filter_cons] <;>
      first
        | exact ih
        | (have h1 : (RAttr.termProb == RAttr.termProb) = true := by decide
           simp only [h1, if_true, List.map_cons, ih])

theorem listEdges_vals (ds : List EDesc) (e : Nat) (g : EDesc) (gw : Rat) (l : List Rat) (n : Nat) (h : n + l.length ≤ ds.length) :
    attrVals .prob (((l.zipIdx n).map (fun p => (p.2, p.1))).filterMap fun (x : Nat × Rat) =>
      match ds[x.1]? with
      | some o => if 0 ≤ x.2 / gw then some ({ src := .bd e g.t g.k, dst := .bd e o.t o.k, attr := .prob, val := x.2 / gw } : RAdd) else none
      | none => none) = (l.filter fun w => 0 ≤ w / gw).map (· / gw) := by
  induction l generalizing n with
  | nil => rfl
  | cons x xs ih =>
    have hn : n < ds.length := by simp at h; omega
    have ih' := ih (n + 1) (by simp at h ⊢; omega)
    simp only [List.zipIdx_cons, List.map_cons, List.filterMap_cons, List.getElem?_eq_getElem hn, List.filter_cons]
    by_cases hp : 0 ≤ x / gw
    · simp only [hp, if_true, decide_true]
      unfold attrVals at ih' ⊢
      have h1 : (RAttr.prob == RAttr.prob) = true := by decide
      simp only [List.filter_cons, h1, if_true, List.map_cons, ih']
    · simp only [hp, if_false, decide_false, Bool.false_eq_true]
      exact ih'


theorem attrVals_trans_map (l : List EDesc) (src : RNode) (dst : EDesc → RNode) (v : EDesc → Rat) :
    attrVals .transProb (l.map fun o => ({ src := src, dst := dst o, attr := .transProb, val := v o } : RAdd)) = l.map v := by
  unfold attrVals
  induction l with
  | nil => rfl
  | cons x xs ih =>
    have h1 : (RAttr.transProb == RAttr.transProb) = true := by decide
    simp only [List.map_cons, List.filter_cons, h1, if_true, ih]

end GBS
