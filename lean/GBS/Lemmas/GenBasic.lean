import GBS.Model.Gen
import GBS.Props.C03
/-! helper lemmas about `attach`, `newMol` and list plumbing used by the generation properties -/
namespace GBS

theorem isCompatible_congr_right (b a a' : Desc) (h1 : a.sym = a'.sym) (h2 : a.id = a'.id) (h3 : a.order = a'.order) :
    isCompatible b a = isCompatible b a' := by
  rw [Bool.eq_iff_iff, C03_iff, C03_iff, h1, h2, h3]

theorem withIdx_length {α} (l : List α) : (withIdx l).length = l.length := by simp [withIdx]

theorem withIdx_getElem? {α} (l : List α) (k : Nat) : (withIdx l)[k]? = (l[k]?).map (fun a => (k, a)) := by
  simp only [withIdx, List.getElem?_map, List.getElem?_zipIdx]
  cases l[k]? <;> simp

theorem Token.opens_length (t : Token) (off node inst : Nat) : (t.opens off node inst).length = t.bds.length := by
  simp [Token.opens, withIdx_length]

theorem Token.opens_getElem? (t : Token) (off node inst k : Nat) :
    (t.opens off node inst)[k]? =
      (t.bds[k]?).map (fun d => { d := { d with atom := d.atom + off }, node := node, inst := inst, k := k }) := by
  simp only [Token.opens, List.getElem?_map, withIdx_getElem?]
  cases t.bds[k]? <;> simp

/-- everything `attach` does, as one statement -/
theorem attach_ok {s : Mol} {i : Nat} {t : Token} {j : Nat} {s' : Mol} (h : attach s i t j = .ok s') :
    t.generable = true ∧ ∃ o d, s.opens[i]? = some o ∧ t.bds[j]? = some d ∧ isCompatible d o.d = true ∧
      s' = { insts := s.insts ++ [⟨t, s.natoms⟩]
             natoms := s.natoms + t.natoms
             bonds := s.bonds ++ [{ a := o.d.atom, b := d.atom + s.natoms, order := o.d.order,
                                    na := o.node, nb := s.insts.length, ia := o.inst, ka := o.k,
                                    ib := s.insts.length, kb := j }]
             opens := s.opens.eraseIdx i ++ (t.opens s.natoms s.insts.length s.insts.length).eraseIdx j } := by
  unfold attach at h
  by_cases hg : t.generable = true
  · simp only [hg, Bool.not_true, Bool.false_eq_true, if_false] at h
    refine ⟨hg, ?_⟩
    cases ho : s.opens[i]? with
    | none => simp [ho] at h
    | some o =>
      cases hd : t.bds[j]? with
      | none => simp [ho, hd] at h
      | some d =>
        simp only [ho, hd] at h
        by_cases hc : isCompatible d o.d = true
        · simp only [hc, Bool.not_true, Bool.false_eq_true, if_false] at h
          refine ⟨o, d, rfl, rfl, hc, ?_⟩
          injection h with h
          exact h.symm
        · simp [hc] at h
  · simp [hg] at h

theorem newMol_ok {t : Token} {m : Mol} (h : newMol t = .ok m) :
    t.generable = true ∧ m = { insts := [⟨t, 0⟩], natoms := t.natoms, bonds := [], opens := t.opens 0 0 0 } := by
  unfold newMol at h
  by_cases hg : t.generable = true
  · simp only [hg, if_true] at h
    injection h with h
    exact ⟨hg, h.symm⟩
  · simp [hg] at h

theorem perm_cons_eraseIdx {α} {l : List α} {i : Nat} {a : α} (h : l[i]? = some a) :
    l.Perm (a :: l.eraseIdx i) := by
  induction l generalizing i with
  | nil => simp at h
  | cons x xs ih =>
    cases i with
    | zero => simp at h; subst h; simp
    | succ i =>
      simp at h
      have := ih h
      simp only [List.eraseIdx_cons_succ]
      exact (List.Perm.cons x this).trans (List.Perm.swap a x _)

theorem mem_of_mem_eraseIdx {α} {l : List α} {i : Nat} {a : α} (h : a ∈ l.eraseIdx i) : a ∈ l :=
  List.mem_of_mem_eraseIdx h

theorem sumRat_append (a b : List Rat) : sumRat (a ++ b) = sumRat a + sumRat b := by
  induction a with
  | nil => simp [sumRat, Rat.zero_add]
  | cons x xs ih =>
    simp only [sumRat, List.cons_append, List.foldr_cons] at ih ⊢
    rw [ih, Rat.add_assoc]

theorem sumRat_singleton (x : Rat) : sumRat [x] = x := by simp [sumRat, Rat.add_zero]

theorem mem_withIdx {α} (l : List α) (k : Nat) (a : α) : (k, a) ∈ withIdx l ↔ l[k]? = some a := by
  unfold withIdx
  simp only [List.mem_map, Prod.mk.injEq]
  constructor
  · rintro ⟨⟨x, i⟩, hm, rfl, rfl⟩
    exact List.mem_zipIdx_iff_getElem?.1 hm
  · intro h
    exact ⟨(a, k), List.mem_zipIdx_iff_getElem?.2 h, rfl, rfl⟩

theorem withIdx_map_map {α β γ} (l : List α) (F : Nat × α → β) (G : β → γ) (H : α → γ) (hF : ∀ k a, G (F (k, a)) = H a) :
    ((withIdx l).map F).map G = l.map H := by
  unfold withIdx
  rw [List.map_map, List.map_map]
  have : ((G ∘ F) ∘ fun p : α × Nat => (p.2, p.1)) = H ∘ Prod.fst := by
    funext p; simp [hF]
  rw [this, ← List.map_map, List.zipIdx_map_fst]

theorem mem_withIdx_map {α β} (l : List α) (F : Nat × α → β) (b : β) (h : b ∈ (withIdx l).map F) : ∃ k a, l[k]? = some a ∧ b = F (k, a) := by
  simp only [List.mem_map] at h
  obtain ⟨⟨k, a⟩, hm, rfl⟩ := h
  exact ⟨k, a, (mem_withIdx l k a).1 hm, rfl⟩


end GBS
