import GBS.Model.Parse
/-!
# The token parser loses, duplicates and reorders nothing

`scan` (first loop of `SmilesToken.__init__`) splits the stripped text into atoms and maximal non-atom runs; `bind`
(second loop) cuts every bond descriptor out of those runs.  The lemmas here show, for **every** text, fuel and
judgement of bracket atoms, that the element list the parser ends with spells the stripped input again when every
descriptor element is replaced by the text it was parsed from, that this text is what `parseDesc` was run on, and that
the atom list is the list of atom elements in written order.
-/
namespace GBS.P
open GBS GBS.Py

/-- text of an element when descriptor `k` is spelled `raws[k]` -/
def elRaw (raws : List Str) : El → Str
  | .atom a => a
  | .str s => s
  | .bond k => raws.getD k []

def rawText (raws : List Str) (els : List El) : Str := (els.map (elRaw raws)).flatten

def El.atom? : El → Option Str
  | .atom a => some a
  | _ => none

def El.isBond : El → Bool
  | .bond _ => true
  | _ => false

theorem rawText_nil (raws : List Str) : rawText raws [] = [] := rfl

theorem rawText_append (raws : List Str) (a b : List El) : rawText raws (a ++ b) = rawText raws a ++ rawText raws b := by
  simp [rawText]

theorem rawText_cons (raws : List Str) (e : El) (l : List El) : rawText raws (e :: l) = elRaw raws e ++ rawText raws l := by
  simp [rawText]

theorem rawText_reverse_cons (raws : List Str) (e : El) (acc : List El) :
    rawText raws (e :: acc).reverse = rawText raws acc.reverse ++ elRaw raws e := by
  simp [rawText]

/-! ## first loop -/

/-- the accumulator with the pending non-atom run flushed -/
def flushed (sub : Str) (acc : List El) : List El := if sub.isEmpty then acc else El.str sub :: acc

theorem rawText_flushed (raws : List Str) (sub : Str) (acc : List El) :
    rawText raws (flushed sub acc).reverse = rawText raws acc.reverse ++ sub := by
  unfold flushed
  split
  · rename_i h; simp at h; simp [h]
  · rw [rawText_reverse_cons]; rfl

theorem scan_lossless (valid : Str → Bool) (raws : List Str) :
    ∀ (f : Nat) (text sub : Str) (acc els : List El), scan valid f text sub acc = .ok els →
      rawText raws els = rawText raws acc.reverse ++ sub ++ text := by
  intro f
  induction f with
  | zero => intro text sub acc els h; simp [scan] at h
  | succ f ih =>
    intro text sub acc els h
    have one : ∀ (c : Char) (cs : Str), scan.scanOne valid f c cs sub acc (flushed sub acc) = .ok els →
        rawText raws els = rawText raws acc.reverse ++ sub ++ c :: cs := by
      intro c cs h1
      unfold scan.scanOne at h1
      split at h1
      · have := ih _ _ _ _ h1
        rw [this, rawText_reverse_cons, rawText_flushed]; simp [elRaw]
      · split at h1
        · split at h1
          · simp at h1
          · rename_i k hk
            have htd : (c :: cs).take (k + 1) ++ (c :: cs).drop (k + 1) = c :: cs := List.take_append_drop _ _
            dsimp only at h1
            split at h1
            · have := ih _ _ _ _ h1
              rw [this]; simp only [List.append_assoc]; rw [htd]
            · split at h1
              · have := ih _ _ _ _ h1
                rw [this, rawText_reverse_cons, rawText_flushed]
                simp only [elRaw, List.append_nil, List.append_assoc]; rw [htd]
              · simp at h1
        · have := ih _ _ _ _ h1
          rw [this]; simp
    cases text with
    | nil =>
      simp only [scan] at h
      have : els = (flushed sub acc).reverse := by
        unfold flushed; split at h <;> simp_all
      rw [this, rawText_flushed]; simp
    | cons c cs =>
      cases cs with
      | nil =>
        simp only [scan] at h
        exact one c [] h
      | cons c2 rest =>
        simp only [scan] at h
        split at h
        · have := ih _ _ _ _ h
          rw [this, rawText_reverse_cons]
          show rawText raws (flushed sub acc).reverse ++ _ ++ _ ++ _ = _
          rw [rawText_flushed]; simp [elRaw]
        · exact one c (c2 :: rest) h

theorem all_flushed (P : El → Prop) (hstr : ∀ s : Str, s ≠ [] → P (.str s)) (sub : Str) (acc : List El) (h : ∀ e ∈ acc, P e) :
    ∀ e ∈ flushed sub acc, P e := by
  unfold flushed
  split
  · exact h
  · rename_i hne
    intro e he
    rcases List.mem_cons.1 he with rfl | he
    · exact hstr sub (by intro h0; rw [h0] at hne; simp at hne)
    · exact h e he

/-- whatever holds of every atom element with a non-empty text and of every run element with a non-empty text holds of
    every element the first loop produces -/
theorem scan_all (valid : Str → Bool) (P : El → Prop) (hatom : ∀ a : Str, a ≠ [] → P (.atom a)) (hstr : ∀ s : Str, s ≠ [] → P (.str s)) :
    ∀ (f : Nat) (text sub : Str) (acc els : List El), scan valid f text sub acc = .ok els →
      (∀ e ∈ acc, P e) → ∀ e ∈ els, P e := by
  intro f
  induction f with
  | zero => intro text sub acc els h; simp [scan] at h
  | succ f ih =>
    intro text sub acc els h hacc
    have hfl := all_flushed P hstr sub acc hacc
    have hcons : ∀ a : Str, a ≠ [] → ∀ e ∈ El.atom a :: flushed sub acc, P e := by
      intro a ha e he
      rcases List.mem_cons.1 he with rfl | he
      · exact hatom a ha
      · exact hfl e he
    have one : ∀ (c : Char) (cs : Str), scan.scanOne valid f c cs sub acc (flushed sub acc) = .ok els →
        ∀ e ∈ els, P e := by
      intro c cs h1
      unfold scan.scanOne at h1
      split at h1
      · exact ih _ _ _ _ h1 (hcons _ (by simp))
      · split at h1
        · split at h1
          · simp at h1
          · dsimp only at h1
            split at h1
            · exact ih _ _ _ _ h1 hacc
            · split at h1
              · exact ih _ _ _ _ h1 (hcons _ (by simp))
              · simp at h1
        · exact ih _ _ _ _ h1 hacc
    cases text with
    | nil =>
      simp only [scan] at h
      have : els = (flushed sub acc).reverse := by
        unfold flushed; split at h <;> simp_all
      intro e he
      rw [this] at he
      exact hfl e (List.mem_reverse.1 he)
    | cons c cs =>
      cases cs with
      | nil =>
        simp only [scan] at h
        exact one c [] h
      | cons c2 rest =>
        simp only [scan] at h
        split at h
        · exact ih _ _ _ _ h (hcons _ (by simp))
        · exact one c (c2 :: rest) h

theorem scan_noBond (valid : Str → Bool) (f : Nat) (text sub : Str) (acc els : List El)
    (h : scan valid f text sub acc = .ok els) (hacc : ∀ e ∈ acc, e.isBond = false) : ∀ e ∈ els, e.isBond = false :=
  scan_all valid (fun e => e.isBond = false) (fun _ _ => rfl) (fun _ _ => rfl) f text sub acc els h hacc

theorem scan_nonempty (valid : Str → Bool) (raws : List Str) (f : Nat) (text sub : Str) (acc els : List El)
    (h : scan valid f text sub acc = .ok els) (hacc : ∀ e ∈ acc, elRaw raws e ≠ []) : ∀ e ∈ els, elRaw raws e ≠ [] :=
  scan_all valid (fun e => elRaw raws e ≠ []) (fun _ ha => ha) (fun _ hs => hs) f text sub acc els h hacc

/-! ## slicing a run around a descriptor -/

theorem clampIdx_nonneg (n : Nat) (i : Int) (h : 0 ≤ i) : clampIdx n i = min n i.toNat := by
  unfold clampIdx
  have : ¬ i < 0 := by omega
  simp only [this, if_false]
  split
  · omega
  · omega

theorem take_three {α : Type} (e : List α) (a b : Nat) (hab : a ≤ b) :
    List.take a e ++ List.take (b - a) (List.drop a e) ++ List.drop b e = e := by
  have h1 : List.take a e ++ List.take (b - a) (List.drop a e) = List.take b e := by
    have : b = a + (b - a) := by omega
    conv => rhs; rw [this, List.take_add]
  rw [h1, List.take_append_drop]

/-- a run is its part before the descriptor, the descriptor text and its part after, whenever the descriptor text is
    not empty -/
theorem slice_three (e : Str) (i j : Int) (hi : 0 ≤ i) (hj : 0 ≤ j)
    (hne : slice e (some i) (some j) ≠ []) :
    slice e none (some i) ++ slice e (some i) (some j) ++ slice e (some j) none = e := by
  simp only [slice, clampIdx_nonneg _ _ hi, clampIdx_nonneg _ _ hj] at *
  generalize ha : min e.length i.toNat = a at *
  generalize hb : min e.length j.toNat = b at *
  have hab : a < b := by
    apply Nat.lt_of_not_le
    intro hc
    have : b - a = 0 := by omega
    simp [this] at hne
  simp only [Nat.sub_zero, List.drop_zero]
  have hbl : e.length - b = (List.drop b e).length := by simp
  rw [hbl, List.take_length]
  exact take_three e a b (Nat.le_of_lt hab)

/-! ## second loop -/

structure BindInv (offset : Nat) (T : Str) (s : BindSt) (raws : List Str) : Prop where
  len : raws.length = s.descs.length
  text : rawText raws s.els = T
  bonds : ∀ k, El.bond k ∈ s.els → k < s.descs.length
  /-- every descriptor is `parseDesc` of the text it was cut from, numbered in written order -/
  parsed : ∀ k r, raws[k]? = some r → ∃ pre atom pd, parseDesc r (k + offset) pre atom = .ok pd ∧ s.descs[k]? = some pd
  /-- the atoms met so far, in written order -/
  atoms : s.atoms = (s.els.take s.ec).filterMap El.atom?
  /-- no element is empty: there are at most as many elements as characters -/
  nonempty : ∀ e ∈ s.els, elRaw raws e ≠ []

theorem elRaw_ext (raws : List Str) (x : Str) (e : El) (h : ∀ k, e = El.bond k → k < raws.length) :
    elRaw (raws ++ [x]) e = elRaw raws e := by
  cases e with
  | atom a => rfl
  | str s => rfl
  | bond k =>
    have := h k rfl
    simp [elRaw, List.getD_eq_getElem?_getD, List.getElem?_append_left this]

theorem rawText_ext (raws : List Str) (x : Str) (els : List El) (h : ∀ k, El.bond k ∈ els → k < raws.length) :
    rawText (raws ++ [x]) els = rawText raws els := by
  induction els with
  | nil => rfl
  | cons e l ih =>
    rw [rawText_cons, rawText_cons, ih (fun k hk => h k (List.mem_cons_of_mem _ hk)),
      elRaw_ext raws x e (fun k hk => h k (hk ▸ List.mem_cons_self))]

theorem parseDesc_ne_nil {num : Nat} {pre : Str} {atom : Option Nat} {pd : PDesc}
    (h : parseDesc [] num pre atom = .ok pd) : False := by
  unfold parseDesc at h
  have h0 : (([] : Str) == "[]".toList) = false := by decide
  simp only [h0] at h
  have : (if pre.isEmpty = true then slice [] (some (find [] ['['])) none else ([] : Str)) = [] := by
    split
    · simp [slice]
    · rfl
  simp only [Bool.false_eq_true, if_false, this, index] at h
  simp at h

theorem take_succ_splice {α : Type} (l : List α) (n : Nat) (x : α) (rest : List α) (hn : n ≤ l.length) :
    (l.take n ++ (x :: rest) ++ l.drop (n + 1)).take (n + 1) = l.take n ++ [x] := by
  have hl : (l.take n).length = n := by simp [hn]
  rw [List.append_assoc, List.take_append, hl, List.take_of_length_le (by omega)]
  simp

theorem drop_succ_splice {α : Type} (l : List α) (n : Nat) (x : α) (rest : List α) (hn : n ≤ l.length) :
    (l.take n ++ (x :: rest) ++ l.drop (n + 1)).drop (n + 1) = rest ++ l.drop (n + 1) := by
  have hl : (l.take n).length = n := by simp [hn]
  rw [List.append_assoc, List.drop_append, hl, List.drop_of_length_le (by omega)]
  simp

theorem split_at {α : Type} (l : List α) (n : Nat) (x : α) (h : l[n]? = some x) :
    l = l.take n ++ x :: l.drop (n + 1) := by
  have hn : n < l.length := by
    rcases Nat.lt_or_ge n l.length with h' | h'
    · exact h'
    · rw [List.getElem?_eq_none h'] at h; cases h
  have hx : l[n] = x := by
    rw [List.getElem?_eq_getElem hn] at h; exact Option.some.inj h
  rw [← hx, ← List.drop_eq_getElem_cons hn, List.take_append_drop]

theorem filterMap_take_succ (l : List El) (n : Nat) (x : El) (h : l[n]? = some x) :
    (l.take (n + 1)).filterMap El.atom? = (l.take n).filterMap El.atom? ++ (x.atom?).toList := by
  rw [List.take_add_one, h, List.filterMap_append]
  cases hx : x.atom? <;> simp [hx]

/-- one step that only moves the cursor over an element that is not an atom keeps the invariant -/
theorem BindInv.skip {offset : Nat} {T : Str} {s : BindSt} {raws : List Str} (h : BindInv offset T s raws)
    (x : El) (hx : s.els[s.ec]? = some x) (hna : x.atom? = none) (st : List Int) :
    BindInv offset T { s with ec := s.ec + 1, stack := st } raws where
  len := h.len
  text := h.text
  bonds := h.bonds
  parsed := h.parsed
  atoms := by
    show s.atoms = (s.els.take (s.ec + 1)).filterMap El.atom?
    rw [filterMap_take_succ _ _ _ hx, hna, h.atoms]; simp
  nonempty := h.nonempty

/-- cutting one descriptor out of the run under the cursor keeps the invariant (with the cut text appended to the raw texts) -/
theorem BindInv.cut {offset : Nat} {T : Str} {s : BindSt} {raws : List Str} (inv : BindInv offset T s raws)
    (e : Str) (hel : s.els[s.ec]? = some (El.str e)) (hOpen : ¬ find e ['['] < 0) (hClose : ¬ find e [']'] ≤ 0)
    (pre : Str) (atomTo : Option Nat) (pd : PDesc)
    (hpd : parseDesc (slice e (some (find e ['['])) (some (find e [']'] + 1))) (s.descs.length + offset) pre atomTo = .ok pd)
    (st : List Int) :
    BindInv offset T
      { s with els := s.els.take s.ec ++
                 ((if (slice e none (some (find e ['[']))).isEmpty then [] else [El.str (slice e none (some (find e ['['])))]) ++
                   [El.bond s.descs.length] ++
                   (if (slice e (some (find e [']'] + 1)) none).isEmpty then [] else [El.str (slice e (some (find e [']'] + 1)) none)])) ++
                 s.els.drop (s.ec + 1),
               ec := s.ec + 1, stack := st, descs := s.descs ++ [pd] }
      (raws ++ [slice e (some (find e ['['])) (some (find e [']'] + 1))]) := by
  have hO : 0 ≤ find e ['['] := by omega
  have hC : 0 ≤ find e [']'] + 1 := by omega
  have hne : slice e (some (find e ['['])) (some (find e [']'] + 1)) ≠ [] := by
    intro hnil; rw [hnil] at hpd; exact parseDesc_ne_nil hpd
  have h3 := slice_three e _ _ hO hC hne
  have hsplit := split_at _ _ _ hel
  have hec : s.ec ≤ s.els.length := by
    rcases Nat.lt_or_ge s.ec s.els.length with h' | h'
    · exact Nat.le_of_lt h'
    · rw [List.getElem?_eq_none h'] at hel; cases hel
  have hbT : ∀ k, El.bond k ∈ s.els.take s.ec → k < raws.length := fun k hk =>
    inv.len ▸ inv.bonds k (List.mem_of_mem_take hk)
  have hbD : ∀ k, El.bond k ∈ s.els.drop (s.ec + 1) → k < raws.length := fun k hk =>
    inv.len ▸ inv.bonds k (List.mem_of_mem_drop hk)
  generalize hA : slice e none (some (find e ['['])) = elA at *
  generalize hB : slice e (some (find e ['['])) (some (find e [']'] + 1)) = bt at *
  generalize hBB : slice e (some (find e [']'] + 1)) none = elB at *
  have hmidText : rawText (raws ++ [bt])
      ((if elA.isEmpty then [] else [El.str elA]) ++ [El.bond s.descs.length] ++
        (if elB.isEmpty then [] else [El.str elB])) = e := by
    have hb : elRaw (raws ++ [bt]) (El.bond s.descs.length) = bt := by
      simp [elRaw, ← inv.len]
    rw [rawText_append, rawText_append, rawText_cons, hb, rawText_nil, ← h3]
    have hAe : rawText (raws ++ [bt]) (if elA.isEmpty then [] else [El.str elA]) = elA := by
      split
      · rename_i hh; simp at hh; simp [hh, rawText]
      · simp [rawText, elRaw]
    have hBe : rawText (raws ++ [bt]) (if elB.isEmpty then [] else [El.str elB]) = elB := by
      split
      · rename_i hh; simp at hh; simp [hh, rawText]
      · simp [rawText, elRaw]
    rw [hAe, hBe]; simp
  exact {
    len := by simp [inv.len]
    text := by
      show rawText (raws ++ [bt]) (s.els.take s.ec ++ _ ++ s.els.drop (s.ec + 1)) = T
      rw [rawText_append, rawText_append, hmidText, rawText_ext _ _ _ hbT, rawText_ext _ _ _ hbD,
        ← inv.text]
      conv => rhs; rw [hsplit]
      rw [rawText_append, rawText_cons]; simp [elRaw]
    bonds := by
      intro k hk
      show k < (s.descs ++ [pd]).length
      simp only [List.length_append, List.length_singleton]
      have hk' : El.bond k ∈ s.els.take s.ec ++
          ((if elA.isEmpty then [] else [El.str elA]) ++ [El.bond s.descs.length] ++
            (if elB.isEmpty then [] else [El.str elB])) ++ s.els.drop (s.ec + 1) := hk
      rcases List.mem_append.1 hk' with hk1 | hk1
      · rcases List.mem_append.1 hk1 with hk2 | hk2
        · have := hbT k hk2; rw [inv.len] at this; omega
        · rcases List.mem_append.1 hk2 with hk3 | hk3
          · rcases List.mem_append.1 hk3 with hk4 | hk4
            · split at hk4 <;> simp at hk4
            · simp at hk4; omega
          · split at hk3 <;> simp at hk3
      · have := hbD k hk1; rw [inv.len] at this; omega
    parsed := by
      intro k r hr
      rcases Nat.lt_or_ge k raws.length with hk | hk
      · rw [List.getElem?_append_left hk] at hr
        obtain ⟨pre, atom, pd', h1, h2⟩ := inv.parsed k r hr
        refine ⟨pre, atom, pd', h1, ?_⟩
        show (s.descs ++ [pd])[k]? = some pd'
        rw [List.getElem?_append_left (inv.len ▸ hk)]; exact h2
      · rw [List.getElem?_append_right hk] at hr
        have hk0 : k - raws.length = 0 := by
          rcases Nat.eq_zero_or_pos (k - raws.length) with h0 | h0
          · exact h0
          · rw [List.getElem?_eq_none (by simp; omega)] at hr; cases hr
        rw [hk0] at hr
        have hkeq : k = s.descs.length := by rw [← inv.len]; omega
        simp at hr
        subst hr
        refine ⟨_, _, pd, hkeq ▸ hpd, ?_⟩
        show (s.descs ++ [pd])[k]? = some pd
        rw [hkeq]; simp
    atoms := by
      show s.atoms = ((s.els.take s.ec ++ _ ++ s.els.drop (s.ec + 1)).take (s.ec + 1)).filterMap El.atom?
      by_cases hAE : elA.isEmpty
      · simp only [hAE, if_true, List.nil_append, List.singleton_append]
        rw [take_succ_splice _ _ _ _ hec, List.filterMap_append, ← inv.atoms]; simp [El.atom?]
      · simp only [hAE, Bool.false_eq_true, if_false, List.cons_append, List.nil_append]
        rw [take_succ_splice _ _ _ _ hec, List.filterMap_append, ← inv.atoms]; simp [El.atom?]
    nonempty := by
      intro x hx
      have hx' : x ∈ s.els.take s.ec ++
          ((if elA.isEmpty then [] else [El.str elA]) ++ [El.bond s.descs.length] ++
            (if elB.isEmpty then [] else [El.str elB])) ++ s.els.drop (s.ec + 1) := hx
      have hold : ∀ y ∈ s.els, elRaw (raws ++ [bt]) y ≠ [] := by
        intro y hy
        rw [elRaw_ext raws bt y (fun k hk => inv.len ▸ inv.bonds k (hk ▸ hy))]
        exact inv.nonempty y hy
      rcases List.mem_append.1 hx' with hx1 | hx1
      · rcases List.mem_append.1 hx1 with hx2 | hx2
        · exact hold x (List.mem_of_mem_take hx2)
        · rcases List.mem_append.1 hx2 with hx3 | hx3
          · rcases List.mem_append.1 hx3 with hx4 | hx4
            · split at hx4
              · simp at hx4
              · rename_i hne'
                simp at hx4; subst hx4
                simpa [elRaw] using hne'
            · simp at hx4; subst hx4
              simpa [elRaw, ← inv.len] using hne
          · split at hx3
            · simp at hx3
            · rename_i hne'
              simp at hx3; subst hx3
              simpa [elRaw] using hne'
      · exact hold x (List.mem_of_mem_drop hx1) }

theorem bind_lossless (offset : Nat) (T : Str) :
    ∀ (f : Nat) (s s' : BindSt) (raws : List Str), bind offset f s = .ok s' → BindInv offset T s raws →
      ∃ raws', BindInv offset T s' raws' ∧ s'.els.length ≤ s'.ec := by
  intro f
  induction f with
  | zero => intro s s' raws h; simp [bind] at h
  | succ f ih =>
    intro s s' raws h inv
    unfold bind at h
    split at h
    · -- end of the element list
      rename_i hnone
      cases h
      exact ⟨raws, inv, by
        rcases Nat.lt_or_ge s.ec s.els.length with h' | h'
        · rw [List.getElem?_eq_getElem h'] at hnone; cases hnone
        · exact h'⟩
    · -- an atom
      rename_i t hel
      split at h
      · rename_i top rest hst
        refine ih _ _ raws h ?_
        exact {
          len := inv.len, text := inv.text, bonds := inv.bonds, parsed := inv.parsed
          atoms := by
            show s.atoms ++ [t] = (s.els.take (s.ec + 1)).filterMap El.atom?
            rw [filterMap_take_succ _ _ _ hel, inv.atoms]; rfl
          nonempty := inv.nonempty }
      · cases h
    · -- a descriptor element (never met: they are only inserted behind the cursor)
      rename_i k hel
      exact ih _ _ raws h (by
        have := inv.skip (El.bond k) hel rfl s.stack
        exact this)
    · -- a run of other characters
      rename_i e hel
      split at h
      · -- with a descriptor in it
        dsimp only at h
        split at h
        · cases h
        · split at h
          · cases h
          · rename_i hOpen hClose
            split at h
            · cases h
            · rename_i st hpp
              split at h
              · cases h
              · split at h
                · cases h
                · split at h
                  · cases h
                  · rename_i pd hpd
                    exact ih _ _ _ h (inv.cut e hel hOpen hClose _ _ pd hpd st)
      · -- without
        split at h
        · cases h
        · rename_i st hpp
          exact ih _ _ raws h (inv.skip (El.str e) hel rfl st)

/-- the element list printed with the texts the descriptors were parsed from is the stripped input -/
theorem parseToken_lossless (valid : Str → Bool) (text : Str) (offset resId : Nat) (t : PToken)
    (h : parseToken valid text offset resId = .ok t) :
    ∃ raws : List Str, raws.length = t.descs.length ∧ rawText raws t.els = strip text ∧
      (∀ k r, raws[k]? = some r → ∃ pre atom pd, parseDesc r (k + offset) pre atom = .ok pd ∧ t.descs[k]? = some pd) ∧
      t.atoms = t.els.filterMap El.atom? := by
  unfold parseToken at h
  dsimp only at h
  split at h
  · cases h
  · split at h
    · cases h
    · rename_i els hscan
      split at h
      · cases h
      · rename_i s hbind
        cases h
        have h0 := scan_lossless valid [] _ _ _ _ _ hscan
        have hnb := scan_noBond valid _ _ _ _ _ hscan (by simp)
        have inv0 : BindInv offset (strip text) { els := els } [] := {
          len := rfl
          text := by simpa [rawText] using h0
          bonds := by
            intro k hk
            have := hnb _ hk
            simp [El.isBond] at this
          parsed := by intro k r hr; simp at hr
          atoms := rfl
          nonempty := scan_nonempty valid [] _ _ _ _ _ hscan (by simp) }
        obtain ⟨raws, inv, hend⟩ := bind_lossless offset (strip text) _ _ _ _ hbind inv0
        refine ⟨raws, inv.len, inv.text, inv.parsed, ?_⟩
        have := inv.atoms
        rw [List.take_of_length_le hend] at this
        exact this

end GBS.P
