import GBS.Lemmas.NoDiverge
/-!
# Descriptor numbering

`descriptor_num` is the position a transition list addresses.  The lemmas show that the parser numbers the descriptors of a token in
written order from the token's offset, the tokens of a group consecutively, and the descriptors of a stochastic object 0, 1, 2, … in the
order "repeat units, then end groups".
-/
namespace GBS.P
open GBS GBS.Py

theorem parseDesc_num {text : Str} {num : Nat} {pre : Str} {atom : Option Nat} {pd : PDesc}
    (h : parseDesc text num pre atom = .ok pd) : pd.num = num := by
  unfold parseDesc at h
  split at h
  · cases h; rfl
  · extract_lets raw at h
    repeat' (first | (cases h; done) | split at h)
    all_goals (cases h; rfl)

/-- descriptors of a token are numbered in written order, starting at the offset -/
theorem parseToken_nums {valid : Str → Bool} {text : Str} {off rid : Nat} {t : PToken}
    (h : parseToken valid text off rid = .ok t) : ∀ k d, t.descs[k]? = some d → d.num = k + off := by
  obtain ⟨raws, hlen, -, hparsed, -⟩ := parseToken_lossless valid text off rid t h
  intro k d hd
  have hk : k < raws.length := by
    rw [hlen]; exact (List.getElem?_eq_some_iff.1 hd).1
  obtain ⟨pre, atom, pd, hp, hpd⟩ := hparsed k raws[k] (List.getElem?_eq_getElem hk)
  rw [hd] at hpd
  cases hpd
  exact parseDesc_num hp

def descsOf (ts : List PToken) : List PDesc := (ts.map (·.descs)).flatten

theorem descsOf_append (a b : List PToken) : descsOf (a ++ b) = descsOf a ++ descsOf b := by simp [descsOf]

/-- the tokens of one group: descriptors numbered consecutively from the offset, residues counted -/
theorem parseGroup_nums (valid : Str → Bool) (parts : List Str) :
    ∀ (acc : List PToken × Nat × Nat) (toks : List PToken) (nd rid : Nat) (base : Nat),
      parts.foldlM (fun (acc : List PToken × Nat × Nat) part =>
        let ru := strip part
        if ru.isEmpty then (.ok acc : PR _) else
        match parseToken valid ru acc.2.1 acc.2.2 with
        | .error e => .error e
        | .ok t => .ok (acc.1 ++ [t], acc.2.1 + t.descs.length, acc.2.2 + 1)) acc = .ok (toks, nd, rid) →
      acc.2.1 = base + (descsOf acc.1).length → (∀ k d, (descsOf acc.1)[k]? = some d → d.num = base + k) →
      nd = base + (descsOf toks).length ∧ (∀ k d, (descsOf toks)[k]? = some d → d.num = base + k) := by
  induction parts with
  | nil =>
    intro acc toks nd rid base h hacc hnum
    simp only [List.foldlM_nil, pure, Except.pure] at h
    cases h
    exact ⟨hacc, hnum⟩
  | cons p ps ih =>
    intro acc toks nd rid base h hacc hnum
    rw [List.foldlM_cons] at h
    by_cases hemp : (strip p).isEmpty = true
    · simp only [hemp, if_true] at h
      exact ih _ _ _ _ _ h hacc hnum
    · cases ht : parseToken valid (strip p) acc.2.1 acc.2.2 with
      | error e =>
        simp only [hemp, ht] at h
        cases h
      | ok t =>
        simp only [hemp, ht] at h
        refine ih _ _ _ _ base h ?_ ?_
        · simp only [descsOf_append, List.length_append]
          have : descsOf [t] = t.descs := by simp [descsOf]
          rw [this]; omega
        · intro k d hd
          simp only [descsOf_append] at hd
          have hone : descsOf [t] = t.descs := by simp [descsOf]
          rw [hone] at hd
          rcases Nat.lt_or_ge k (descsOf acc.1).length with hk | hk
          · rw [List.getElem?_append_left hk] at hd
            exact hnum k d hd
          · rw [List.getElem?_append_right hk] at hd
            have := parseToken_nums ht _ d hd
            rw [this, hacc]; omega

theorem parseGroup_spec {valid : Str → Bool} {parts : List Str} {offset resId : Nat} {toks : List PToken} {nd rid : Nat}
    (h : parseGroup valid parts offset resId = .ok (toks, nd, rid)) :
    nd = offset + (descsOf toks).length ∧ (∀ k d, (descsOf toks)[k]? = some d → d.num = offset + k) := by
  unfold parseGroup at h
  have h0 : ∀ (k : Nat) (d : PDesc), (descsOf ([] : List PToken))[k]? = some d → d.num = offset + k := by
    intro k d hd; simp [descsOf] at hd
  exact parseGroup_nums valid parts ([], offset, resId) toks nd rid offset h (by simp [descsOf]) h0

/-- **descriptor numbering of a stochastic object**: the k-th descriptor in the order "repeat units, then end groups" (the order transition
lists are indexed in) carries the number k -/
theorem parseStochRaw_nums {valid : Str → Bool} {text : Str} {rp : Nat} {o : PStoch}
    (h : parseStochRaw valid text rp = .ok o) : ∀ (k : Nat) (d : PDesc), o.allDescs[k]? = some d → d.num = k := by
  revert h
  unfold parseStochRaw
  extract_lets raw middle leftText leftPre i0 rightText i1 rightPre endT distText distR
  generalize distR = dR
  generalize raw = r0
  generalize middle = m0
  intro h
  repeat' (first | (cases h; done) | split at h)
  all_goals
    cases h
    rename_i reps nd rid0 hreps _ ends nd2 rid2 hends _ _ _ _ _
    obtain ⟨hnd, hr⟩ := parseGroup_spec hreps
    obtain ⟨-, he⟩ := parseGroup_spec hends
    intro k d hd
    change (descsOf reps ++ descsOf ends)[k]? = some d at hd
    rcases Nat.lt_or_ge k (descsOf reps).length with hk | hk
    · rw [List.getElem?_append_left hk] at hd
      have := hr k d hd; omega
    · rw [List.getElem?_append_right hk] at hd
      have := he _ d hd; omega


/-- **descriptor numbering and list lengths of an accepted stochastic object** -/
theorem parseStoch_nums {valid : Str → Bool} {text : Str} {rp : Nat} {o : PStoch} (h : parseStoch valid text rp = .ok o) :
    (∀ (k : Nat) (d : PDesc), o.allDescs[k]? = some d → d.num = k) ∧
    (∀ d ∈ o.allDescs ++ [o.left, o.right], ∀ l, d.d.trans = some l → l.length = o.allDescs.length) := by
  unfold parseStoch at h
  split at h
  · cases h
  · rename_i o' hraw
    unfold validateStoch at h
    split at h
    · cases h
    · rename_i hall
      cases h
      refine ⟨parseStochRaw_nums hraw, ?_⟩
      intro d hd l hl
      have := hall
      simp only [List.any_eq_true, not_exists, not_and] at this
      have h1 := this d hd
      rw [hl] at h1
      simpa using h1

end GBS.P
