import GBS.Lemmas.Progress
/-!
# Termination of the growth of a stochastic object

`growLoop` (the `while True` loop of `generate_repeat_units_and_finalize`) is written with fuel in the model.  Here: for a
certified object whose repeat units weigh at least `mmin > 0` and whose transition lists stay inside the repeat units, the fuel is
never the reason to stop once it exceeds an explicit bound — the loop ends by itself after at most `⌊target / mmin⌋ + 1` units,
and every capping round needs at most as many steps as there are open descriptors.
-/
namespace GBS

/-! ## Termination: the fuel of the model is never the reason to stop, once it exceeds an explicit bound -/

theorem pickFrom_not_fuel (opts : List Nat) (probs : List Rat) (ω : Oracle) : pickFrom opts probs ω ≠ .error .outOfFuel := by
  intro h
  have := pickFrom_benign opts probs ω _ h
  unfold pickFrom at h
  split at h
  · split at h
    · split at h <;> cases h
    · cases h
  · cases h
  · cases h

theorem choose_not_fuel (bds : List Desc) (b : Option Desc) (ω : Oracle) : choose bds b ω ≠ .error .outOfFuel := by
  intro h
  unfold choose at h
  simp only at h
  split at h
  · cases h
  · split at h
    · cases h
    · exact pickFrom_not_fuel _ _ _ h

theorem chooseList_not_fuel (l : List Rat) (w : Rat) (ω : Oracle) : chooseList l w ω ≠ .error .outOfFuel := by
  intro h
  unfold chooseList at h
  simp only at h
  split at h
  · cases h
  · split at h
    · cases h
    · exact pickFrom_not_fuel _ _ _ h

theorem attach_not_fuel (s : Mol) (i : Nat) (t : Token) (j : Nat) : attach s i t j ≠ .error .outOfFuel := by
  intro h
  unfold attach at h
  split at h
  · cases h
  · split at h
    · split at h <;> cases h
    · cases h

theorem capOne_not_fuel (o : Stoch) (s : Mol) (ω : Oracle) : capOne o s ω ≠ .error .outOfFuel := by
  intro h
  unfold capOne at h
  split at h
  · rename_i e he; injection h with h; subst h; exact choose_not_fuel _ _ _ he
  · split at h
    · rename_i e he; injection h with h; subst h; exact choose_not_fuel _ _ _ he
    · split at h
      · split at h
        · rename_i e he; injection h with h; subst h; exact attach_not_fuel _ _ _ _ he
        · cases h
      · cases h

theorem addUnit_not_fuel (o : Stoch) (s : Mol) (ω : Oracle) : addUnit o s ω ≠ .error .outOfFuel := by
  intro h
  unfold addUnit at h
  split at h
  · rename_i e he; injection h with h; subst h; exact choose_not_fuel _ _ _ he
  · split at h
    · rename_i e he
      injection h with h; subst h
      unfold pickPartner at he
      split at he
      · exact chooseList_not_fuel _ _ _ he
      · exact choose_not_fuel _ _ _ he
    · split at h
      · split at h
        · rename_i e he; injection h with h; subst h; exact attach_not_fuel _ _ _ _ he
        · cases h
      · cases h


theorem capAll_fuel {o : Stoch} {m : Mode} {R0 R : List Desc} (hc : Cert o m R0 R) (hm : m.chain = false) :
    ∀ (f : Nat) (s : Mol) (ω : Oracle), OpensIn R s → s.opens.length ≤ f → capAll o f s ω ≠ .error .outOfFuel := by
  intro f
  induction f with
  | zero =>
    intro s ω _ hlen
    have : s.opens = [] := List.length_eq_zero_iff.1 (by omega)
    rw [capAll_nil 0 this]; intro h; cases h
  | succ f ih =>
    intro s ω hs hlen h
    unfold capAll at h
    split at h
    · cases h
    · rename_i hne
      have hne' : s.opens ≠ [] := by simpa using hne
      obtain ⟨-, hpres⟩ := capOne_progress hc hm hs hne' ω
      cases hco : capOne o s ω with
      | error e1 =>
        simp only [hco] at h
        injection h with h; subst h
        exact capOne_not_fuel o s ω hco
      | ok r =>
        obtain ⟨s1, t1, ω1⟩ := r
        simp only [hco] at h
        obtain ⟨hs1, hl1⟩ := hpres s1 t1 ω1 hco
        cases hrec : capAll o f s1 ω1 with
        | error e2 =>
          simp only [hrec] at h
          injection h with h; subst h
          exact ih s1 ω1 hs1 (by omega) hrec
        | ok r2 =>
          obtain ⟨s2, t2, ω2⟩ := r2
          simp only [hrec] at h
          cases h

theorem finalize_fuel {o : Stoch} {m : Mode} {R0 R : List Desc} (hc : Cert o m R0 R) (hm : ModeOf o m) (f : Nat) {s : Mol}
    (hs : OpensIn R s) (hch : m.chain = true → s.opens.length = 1) (hlen : s.opens.length ≤ f) (ω : Oracle) :
    finalize o f s ω ≠ .error .outOfFuel := by
  intro h
  unfold finalize at h
  by_cases hright : o.right.sym = .none
  · obtain ⟨-, hchain⟩ := hm.1 hright
    simp only [hright, ne_eq, not_true_eq_false, if_false] at h
    exact capAll_fuel hc hchain f s ω hs hlen h
  · simp only [hright, ne_eq, not_false_eq_true, if_true] at h
    split at h
    · rename_i e he; injection h with h; subst h; exact choose_not_fuel _ _ _ he
    · rename_i k c ω1 hch1
      have hklt : k < s.opens.length := by simpa using choose_lt hch1
      split at h
      · rename_i e he
        injection h with h; subst h
        have hsub : OpensIn R { s with opens := s.opens.eraseIdx k } := fun od' h' => hs od' (mem_of_mem_eraseIdx h')
        by_cases hchain : m.chain = true
        · have hl := hch hchain
          have : s.opens.eraseIdx k = [] := by
            rw [List.eraseIdx_eq_nil_iff]; right; exact ⟨hl, by omega⟩
          rw [capAll_nil f (by simpa using this)] at he
          cases he
        · refine capAll_fuel hc (by simpa using hchain) f _ ω1 hsub ?_ he
          simp only [List.length_eraseIdx, hklt, if_true]
          omega
      · cases h

/-- the lists of the certified classes never route into an end group, and every repeat unit weighs at least `mmin` -/
def TermOK (o : Stoch) (R0 R : List Desc) (mmin : Rat) : Prop :=
  0 < mmin ∧ (∀ tok ∈ o.repeats, mmin ≤ tok.mass) ∧
  ∀ x ∈ R0 ++ R, ∀ l, x.trans = some l → ∀ c ∈ List.range l.length, 0 < l.getD c 0 / x.weight → c < o.repeatBonds.length

theorem mem_flatBonds {ts : List Token} {p : Token × Nat × Desc} (h : p ∈ flatBonds ts) : p.1 ∈ ts := by
  unfold flatBonds at h
  simp only [List.mem_flatMap, List.mem_map] at h
  obtain ⟨t, ht, ⟨k, d⟩, -, rfl⟩ := h
  exact ht


def maxDescs (o : Stoch) : Nat := (o.repeats.map (·.bds.length)).foldr max 0

theorem le_foldr_max (l : List Nat) (x : Nat) (h : x ∈ l) : x ≤ l.foldr max 0 := by
  induction l with
  | nil => simp at h
  | cons a l ih =>
    simp only [List.foldr_cons]
    rcases List.mem_cons.1 h with rfl | h
    · exact Nat.le_max_left _ _
    · exact Nat.le_trans (ih h) (Nat.le_max_right _ _)

theorem le_maxDescs {o : Stoch} {tok : Token} (h : tok ∈ o.repeats) : tok.bds.length ≤ maxDescs o :=
  le_foldr_max _ _ (List.mem_map.2 ⟨tok, h, rfl⟩)

/-- one growth step adds at least `mmin` of mass and at most `maxDescs` open descriptors -/
theorem addUnit_measure {o : Stoch} {R0 R : List Desc} {mmin : Rat} (ht : TermOK o R0 R mmin)
    {s s1 : Mol} {ω ω' : Oracle} {t : Trace} (hs : OpensIn (R0 ++ R) s) (h : addUnit o s ω = .ok (s1, t, ω')) :
    s.mass + mmin ≤ s1.mass ∧ s1.opens.length ≤ s.opens.length + maxDescs o := by
  obtain ⟨-, hmass, hlist⟩ := ht
  unfold addUnit at h
  split at h
  · cases h
  · rename_i i c1 ω1 hch
    have hlt : i < s.opens.length := by simpa using choose_lt hch
    split at h
    · cases h
    · rename_i c c2 ω2 hpk
      have hc : c < o.repeatBonds.length := by
        rw [getD_opens hlt] at hpk
        unfold pickPartner at hpk
        split at hpk
        · rename_i l htr
          obtain ⟨-, -, -, hcl, -, hpos⟩ := C08_list_spec hpk
          obtain ⟨y, hy, hye⟩ := hs _ (List.getElem_mem hlt)
          have htr' : y.trans = some l := by rw [← hye.2.2.2.2]; exact htr
          have hw : y.weight = s.opens[i].d.weight := hye.2.2.2.1.symm
          exact hlist y hy l htr' c (List.mem_range.2 hcl) (by rw [hw]; exact hpos)
        · simpa using choose_lt hpk
      split at h
      · rename_i tok k d hent
        split at h
        · cases h
        · rename_i s' hatt
          ok_inj h
          obtain ⟨rfl, -, -⟩ := h
          have htok : tok ∈ o.repeats := by
            unfold Stoch.entry at hent
            simp only [hc, if_true] at hent
            exact mem_flatBonds (List.mem_of_getElem? hent)
          obtain ⟨-, od, d', hod, hd', -, rfl⟩ := attach_ok hatt
          constructor
          · simp only [Mol.mass, List.map_append, List.map_cons, List.map_nil, sumRat_append, sumRat_singleton]
            have := hmass tok htok
            linarith
          · have hk : k < tok.bds.length := (List.getElem?_eq_some_iff.1 hd').1
            have hb := le_maxDescs htok
            simp only [List.length_append, List.length_eraseIdx, Token.opens_length, hlt, hk, if_true]
            omega
      · cases h


/-- **the growth loop ends by itself**: if `j` further units of at least `mmin` exceed the target and the fuel covers `j` rounds
(each with its capping), the loop never stops for lack of fuel -/
theorem growLoop_fuel {o : Stoch} {m : Mode} {R0 R : List Desc} {mmin : Rat} (hc : Cert o m R0 R) (hm : ModeOf o m)
    (ht : TermOK o R0 R mmin) (start target : Rat) :
    ∀ (f j n : Nat) (s : Mol) (ω : Oracle), OpensIn (R0 ++ R) s → (OpensIn R s ∨ s.opens.length = 1) → s.opens ≠ [] →
      (m.chain = true → s.opens.length = 1) → target < (s.mass - start) + j * mmin → 1 ≤ j →
      s.opens.length + j * (maxDescs o + 1) ≤ f →
      growLoop o start target f n s ω ≠ .error .outOfFuel := by
  intro f
  induction f with
  | zero =>
    intro j n s ω _ _ hne _ _ hj hf
    have : 0 < s.opens.length := List.length_pos_iff.2 hne
    omega
  | succ f ih =>
    intro j n s ω hs hcase hne hch htar hj hf h
    obtain ⟨-, hap⟩ := addUnit_progress hc hs hcase hne ω
    unfold growLoop at h
    cases hau : addUnit o s ω with
    | error e =>
      simp only [hau] at h
      injection h with h; subst h
      exact addUnit_not_fuel o s ω hau
    | ok r1 =>
      obtain ⟨s1, t1, ω1⟩ := r1
      simp only [hau] at h
      obtain ⟨hs1, hch1, hr1⟩ := hap s1 t1 ω1 hau
      obtain ⟨hm1, hl1⟩ := addUnit_measure ht hs hau
      have hD : j * (maxDescs o + 1) ≥ maxDescs o + 1 := Nat.le_mul_of_pos_left _ hj
      split at h
      · cases h
      · rename_i hemp
        have hne1 : s1.opens ≠ [] := by simpa using hemp
        have hch1' : m.chain = true → s1.opens.length = 1 := fun hh => hch1 hh (hch hh)
        split at h
        · rename_i e he
          injection h with h; subst h
          exact finalize_fuel hc hm (f + 1) hs1 hch1' (by omega) ω1 he
        · rename_i fin t2 ω2 hfin
          split at h
          · cases h
          · rename_i hmass
            split at h
            · rename_i e he
              injection h with h; subst h
              have hj2 : 2 ≤ j := by
                by_contra hlt
                have hj1 : j = 1 := by omega
                subst hj1
                apply hmass
                simp only [Nat.cast_one, one_mul] at htar
                linarith
              obtain ⟨j', rfl⟩ : ∃ j', j = j' + 1 := ⟨j - 1, by omega⟩
              refine ih j' (n + 1) s1 ω2 (fun od hh => InR_app_right (hs1 od hh)) (Or.inl hs1) hne1 hch1' ?_ (by omega) ?_ he
              · push_cast at htar
                linarith
              · have : (j' + 1) * (maxDescs o + 1) = j' * (maxDescs o + 1) + (maxDescs o + 1) := by ring
                omega
            · cases h


/-- number of units of mass at least `mmin` after which the added mass certainly exceeds `target` -/
def unitsBound (target mmin : Rat) : Nat := (target / mmin).floor.toNat + 1

theorem lt_unitsBound_mul {target mmin : Rat} (hm : 0 < mmin) : target < (unitsBound target mmin : Rat) * mmin := by
  unfold unitsBound
  have h1 : target / mmin < ((target / mmin).floor : Rat) + 1 := by
    have := Rat.lt_floor_add_one (target / mmin)
    push_cast at this
    exact this
  have h2 : ((target / mmin).floor : Rat) ≤ (((target / mmin).floor.toNat : Nat) : Rat) := by
    have : (target / mmin).floor ≤ ((target / mmin).floor.toNat : Int) := Int.self_le_toNat _
    exact_mod_cast this
  have h3 : target / mmin < (((target / mmin).floor.toNat + 1 : Nat) : Rat) := by
    push_cast; linarith
  calc target = target / mmin * mmin := by field_simp
    _ < _ := by exact mul_lt_mul_of_pos_right h3 hm

theorem getStart_oracle {o : Stoch} {pre : Option Mol} {ω ω0 : Oracle} {s : Mol} {t : Trace}
    (h : getStart o pre ω = .ok (s, t, ω0)) : ∀ ev ∈ ω0, ev ∈ ω := by
  unfold getStart at h
  split at h
  · split at h
    · cases h
    · split at h
      · cases h
      · rename_i c ch ω1 hch
        obtain ⟨-, -, -, -, hω, -⟩ := C08_choose_spec hch
        split at h
        · split at h
          · cases h
          · split at h
            · cases h
            · ok_inj h
              obtain ⟨-, -, rfl⟩ := h
              intro ev hev
              rw [hω]; exact List.mem_cons_of_mem _ hev
        · cases h
  · split at h
    · split at h
      · cases h
      · ok_inj h
        obtain ⟨-, -, rfl⟩ := h
        exact fun ev hev => hev
    · cases h

/-- **`Stochastic.generate` terminates by itself**: for a certified object whose repeat units weigh at least `mmin > 0` and whose
transition lists stay inside the repeat units, fuel above `1 + (⌊target / mmin⌋ + 1)·(maxDescs + 1)` for every target the oracle
may supply is never exhausted: the loop `while True` of `generate_repeat_units_and_finalize` ends after at most
`⌊target / mmin⌋ + 1` units -/
theorem genStoch_fuel {o : Stoch} {m : Mode} {R : List Desc} {inc : Option Desc} {mmin : Rat} (hok : StochOK o m R inc)
    (ht : TermOK o (startClasses o inc) R mmin) (fuel : Nat) {pre : Option Mol} (hpre : PreOK pre inc) (ω : Oracle)
    (hfuel : ∀ x, Event.draw x ∈ ω → 1 + unitsBound x mmin * (maxDescs o + 1) ≤ fuel) :
    genStoch o fuel pre ω ≠ .error .outOfFuel := by
  obtain ⟨hgen, hmode, hcert, hstart⟩ := hok
  intro h
  unfold genStoch at h
  simp only [hgen, Bool.not_true, Bool.false_eq_true, if_false, preOK_prefixOk hpre] at h
  obtain ⟨-, hgp⟩ := getStart_progress hpre hstart ω
  cases hgs : getStart o pre ω with
  | error e =>
    simp only [hgs] at h
    injection h with h; subst h
    have := getStart_progress hpre hstart ω
    rcases this.1 _ hgs with h1 | h1 | h1
    · cases h1
    · cases h1
    · -- get_start has no fuel: its errors come from `choose`
      unfold getStart at hgs
      split at hgs
      · split at hgs
        · cases hgs
        · split at hgs
          · rename_i e he; injection hgs with hgs; subst hgs; exact choose_not_fuel _ _ _ he
          · split at hgs
            · split at hgs
              · cases hgs
              · split at hgs
                · rename_i e he
                  injection hgs with hgs; subst hgs
                  unfold newMol at he
                  split at he <;> cases he
                · cases hgs
            · cases hgs
      · split at hgs
        · split at hgs <;> cases hgs
        · cases hgs
  | ok r0 =>
    obtain ⟨s, t0, ω0⟩ := r0
    simp only [hgs] at h
    obtain ⟨hs, hlen⟩ := hgp s t0 ω0 hgs
    have hsub := getStart_oracle hgs
    cases ω0 with
    | nil => simp at h
    | cons ev ω1 =>
      cases ev with
      | pick v => simp at h
      | draw target =>
        simp only at h
        have hne : s.opens ≠ [] := by intro h0; rw [h0] at hlen; simp at hlen
        have hb := hfuel target (hsub _ (List.mem_cons_self ..))
        have hj : 1 ≤ unitsBound target mmin := by unfold unitsBound; omega
        have := growLoop_fuel hcert hmode ht s.mass target fuel (unitsBound target mmin) 0 s ω1
          (fun od hh => InR_app_left (hs od hh)) (Or.inr hlen) hne (fun _ => hlen)
          (by simp only [sub_self, zero_add]; exact lt_unitsBound_mul ht.1) hj (by rw [hlen]; omega)
        split at h
        · rename_i e he
          injection h with h; subst h
          exact this he
        · cases h

/-! ## the oracle is only consumed from the front: what remains is part of what was given -/

def Sub (ω' ω : Oracle) : Prop := ∀ ev ∈ ω', ev ∈ ω

theorem Sub.refl (ω : Oracle) : Sub ω ω := fun _ h => h
theorem Sub.trans {a b c : Oracle} (h1 : Sub a b) (h2 : Sub b c) : Sub a c := fun ev h => h2 ev (h1 ev h)

theorem pickFrom_sub {opts : List Nat} {probs : List Rat} {ω ω' : Oracle} {v : Nat} {c : Choice}
    (h : pickFrom opts probs ω = .ok (v, c, ω')) : Sub ω' ω := by
  unfold pickFrom at h
  split at h
  · split at h
    · split at h
      · ok_inj h; obtain ⟨-, -, rfl⟩ := h
        exact fun ev hev => List.mem_cons_of_mem _ hev
      · cases h
    · cases h
  · cases h
  · cases h

theorem choose_sub {bds : List Desc} {b : Option Desc} {ω ω' : Oracle} {v : Nat} {c : Choice}
    (h : choose bds b ω = .ok (v, c, ω')) : Sub ω' ω := by
  unfold choose at h
  simp only at h
  split at h
  · cases h
  · split at h
    · cases h
    · exact pickFrom_sub h

theorem chooseList_sub {l : List Rat} {w : Rat} {ω ω' : Oracle} {v : Nat} {c : Choice}
    (h : chooseList l w ω = .ok (v, c, ω')) : Sub ω' ω := by
  unfold chooseList at h
  simp only at h
  split at h
  · cases h
  · split at h
    · cases h
    · exact pickFrom_sub h

theorem capOne_sub {o : Stoch} {s s' : Mol} {ω ω' : Oracle} {t : Trace} (h : capOne o s ω = .ok (s', t, ω')) : Sub ω' ω := by
  unfold capOne at h
  split at h
  · cases h
  · rename_i i c1 ω1 h1
    split at h
    · cases h
    · rename_i c c2 ω2 h2
      split at h
      · split at h
        · cases h
        · ok_inj h; obtain ⟨-, -, rfl⟩ := h
          exact (choose_sub h2).trans (choose_sub h1)
      · cases h

theorem capAll_sub {o : Stoch} (f : Nat) {s s' : Mol} {ω ω' : Oracle} {t : Trace} (h : capAll o f s ω = .ok (s', t, ω')) : Sub ω' ω := by
  induction f generalizing s ω t s' ω' with
  | zero =>
    unfold capAll at h
    split at h
    · ok_inj h; obtain ⟨-, -, rfl⟩ := h; exact Sub.refl _
    · cases h
  | succ f ih =>
    unfold capAll at h
    split at h
    · ok_inj h; obtain ⟨-, -, rfl⟩ := h; exact Sub.refl _
    · split at h
      · cases h
      · rename_i s1 t1 ω1 h1
        split at h
        · cases h
        · rename_i s2 t2 ω2 h2
          ok_inj h; obtain ⟨-, -, rfl⟩ := h
          exact (ih h2).trans (capOne_sub h1)

theorem finalize_sub {o : Stoch} (f : Nat) {s s' : Mol} {ω ω' : Oracle} {t : Trace} (h : finalize o f s ω = .ok (s', t, ω')) : Sub ω' ω := by
  unfold finalize at h
  split at h
  · split at h
    · cases h
    · rename_i k c ω1 h1
      split at h
      · cases h
      · rename_i s2 t2 ω2 h2
        ok_inj h; obtain ⟨-, -, rfl⟩ := h
        exact (capAll_sub f h2).trans (choose_sub h1)
  · exact capAll_sub f h

theorem addUnit_sub {o : Stoch} {s s' : Mol} {ω ω' : Oracle} {t : Trace} (h : addUnit o s ω = .ok (s', t, ω')) : Sub ω' ω := by
  unfold addUnit at h
  split at h
  · cases h
  · rename_i i c1 ω1 h1
    split at h
    · cases h
    · rename_i c c2 ω2 h2
      have hp : Sub ω2 ω1 := by
        unfold pickPartner at h2
        split at h2
        · exact chooseList_sub h2
        · exact choose_sub h2
      split at h
      · split at h
        · cases h
        · ok_inj h; obtain ⟨-, -, rfl⟩ := h
          exact hp.trans (choose_sub h1)
      · cases h

theorem growLoop_sub {o : Stoch} {start target : Rat} (f : Nat) {n : Nat} {s r : Mol} {ω ω' : Oracle} {t : Trace}
    (h : growLoop o start target f n s ω = .ok (r, t, ω')) : Sub ω' ω := by
  induction f generalizing n s ω t r ω' with
  | zero => unfold growLoop at h; cases h
  | succ f ih =>
    unfold growLoop at h
    split at h
    · cases h
    · rename_i s1 t1 ω1 h1
      split at h
      · ok_inj h; obtain ⟨-, -, rfl⟩ := h; exact addUnit_sub h1
      · split at h
        · cases h
        · rename_i fin t2 ω2 h2
          split at h
          · ok_inj h; obtain ⟨-, -, rfl⟩ := h
            exact (finalize_sub _ h2).trans (addUnit_sub h1)
          · split at h
            · cases h
            · rename_i r3 t3 ω3 h3
              ok_inj h; obtain ⟨-, -, rfl⟩ := h
              exact ((ih h3).trans (finalize_sub _ h2)).trans (addUnit_sub h1)

theorem genStoch_sub {o : Stoch} {fuel : Nat} {pre : Option Mol} {ω ω' : Oracle} {r : Mol} {t : Trace}
    (h : genStoch o fuel pre ω = .ok (r, t, ω')) : Sub ω' ω := by
  unfold genStoch at h
  split at h
  · cases h
  · split at h
    · cases h
    · split at h
      · cases h
      · rename_i s t0 ω0 h0
        have hs := getStart_oracle h0
        split at h
        · rename_i target ω1
          split at h
          · cases h
          · rename_i r1 t1 ω2 h1
            ok_inj h; obtain ⟨-, -, rfl⟩ := h
            intro ev hev
            exact hs ev (List.mem_cons_of_mem _ (growLoop_sub _ h1 ev hev))
        · cases h
        · cases h

theorem genToken_sub {t : Token} {pre : Option Mol} {ω ω' : Oracle} {r : Mol} {tr : Trace}
    (h : genToken t pre ω = .ok (r, tr, ω')) : Sub ω' ω := by
  unfold genToken at h
  split at h
  · cases h
  · split at h
    · split at h
      · cases h
      · ok_inj h; obtain ⟨-, -, rfl⟩ := h; exact Sub.refl _
    · split at h
      · split at h
        · cases h
        · rename_i j c ω1 h1
          split at h
          · cases h
          · ok_inj h; obtain ⟨-, -, rfl⟩ := h; exact choose_sub h1
      · cases h

theorem genToken_not_fuel (t : Token) (pre : Option Mol) (ω : Oracle) : genToken t pre ω ≠ .error .outOfFuel := by
  intro h
  unfold genToken at h
  split at h
  · cases h
  · split at h
    · split at h
      · rename_i e he
        injection h with h; subst h
        unfold newMol at he
        split at he <;> cases he
      · cases h
    · split at h
      · split at h
        · rename_i e he; injection h with h; subst h; exact choose_not_fuel _ _ _ he
        · split at h
          · rename_i e he; injection h with h; subst h; exact attach_not_fuel _ _ _ _ he
          · cases h
      · cases h


/-- per-element lower bounds `ms` on the repeat-unit masses, with the no-list-into-end-groups condition, along the hand-over chain -/
def ElemsTerm : List Element → List ElemCert → List Rat → Option Desc → Prop
  | [], _, _, _ => True
  | e :: es, c :: cs, m :: ms, inc =>
    (match e with
     | .tok _ => True
     | .stoch o => TermOK o (startClasses o inc) c.2 m) ∧ ElemsTerm es cs ms (elemOut e c inc)
  | _ :: _, _, _, _ => False

/-- the fuel exceeds the bound of every stochastic object for every target the oracle can supply -/
def FuelOK (fuel : Nat) : List Element → List Rat → Oracle → Prop
  | [], _, _ => True
  | e :: es, m :: ms, ω =>
    (match e with
     | .tok _ => True
     | .stoch o => ∀ x, Event.draw x ∈ ω → 1 + unitsBound x m * (maxDescs o + 1) ≤ fuel) ∧ FuelOK fuel es ms ω
  | _ :: _, [], _ => False

theorem FuelOK.mono {fuel : Nat} {es : List Element} {ms : List Rat} {ω ω' : Oracle} (hsub : Sub ω' ω) (h : FuelOK fuel es ms ω) :
    FuelOK fuel es ms ω' := by
  induction es generalizing ms with
  | nil => trivial
  | cons e es ih =>
    cases ms with
    | nil => exact h.elim
    | cons m ms =>
      obtain ⟨h1, h2⟩ := h
      refine ⟨?_, ih h2⟩
      cases e with
      | tok t => trivial
      | stoch o => exact fun x hx => h1 x (hsub _ hx)

theorem genElement_sub {fuel : Nat} {e : Element} {pre : Option Mol} {ω ω' : Oracle} {r : Mol} {t : Trace}
    (h : genElement fuel e pre ω = .ok (r, t, ω')) : Sub ω' ω := by
  cases e with
  | tok tk => exact genToken_sub h
  | stoch o => exact genStoch_sub h

/-- **generation of a certified molecule terminates by itself**: with the fuel above every object's bound, `genMol` never stops
for lack of fuel -/
theorem genElems_fuel (fuel : Nat) :
    ∀ (es : List Element) (cs : List ElemCert) (ms : List Rat) (pre : Option Mol) (inc : Option Desc) (ω : Oracle),
      PreOK pre inc → ElemsOK es cs inc → ElemsTerm es cs ms inc → FuelOK fuel es ms ω →
      genElems fuel es pre ω ≠ .error .outOfFuel := by
  intro es
  induction es with
  | nil => intro cs ms pre inc ω _ _ _ _ h; simp [genElems] at h
  | cons e es ih =>
    intro cs ms pre inc ω hpre hok hterm hfuel h
    cases cs with
    | nil => exact hok.elim
    | cons c cs =>
      cases ms with
      | nil => exact hfuel.elim
      | cons m ms =>
        obtain ⟨he, hmid, hrest⟩ := hok
        obtain ⟨ht1, ht2⟩ := hterm
        obtain ⟨hf1, hf2⟩ := hfuel
        obtain ⟨-, hp⟩ := genElement_progress fuel he hpre ω
        unfold genElems at h
        cases hge : genElement fuel e pre ω with
        | error e1 =>
          simp only [hge] at h
          injection h with h; subst h
          cases e with
          | tok tk => exact genToken_not_fuel tk pre ω hge
          | stoch o => exact genStoch_fuel he ht1 fuel hpre ω hf1 hge
        | ok r1 =>
          obtain ⟨m', t1, ω1⟩ := r1
          simp only [hge] at h
          have hout := hp m' t1 ω1 hge
          have hsub := genElement_sub hge
          cases es with
          | nil => simp [genElems] at h
          | cons e2 es2 =>
            have hsome := hmid (by simp)
            cases ho : elemOut e c inc with
            | none => exact absurd ho hsome
            | some d =>
              rw [ho] at hout hrest ht2
              cases hrec : genElems fuel (e2 :: es2) (some m') ω1 with
              | error e3 =>
                simp only [hrec] at h
                injection h with h; subst h
                exact ih cs ms (some m') (some d) ω1 hout hrest ht2 (hf2.mono hsub) hrec
              | ok r3 =>
                obtain ⟨r, t2, ω2⟩ := r3
                simp only [hrec] at h
                cases h


end GBS
