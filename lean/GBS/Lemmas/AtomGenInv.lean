import GBS.Model.AtomGen
import GBS.Lemmas.GenBasic
/-!
# Invariant of atom-graph generation: every bond is justified by the stochastic atom graph

`Inv g s`: every edge `(a, b, bond)` of the generated graph joins two generated atoms, copies of the stochastic nodes `u`, `v`,
and `bond` is either the bond type of the static edge between `u` and `v` or the bond type of a non-static edge of the
stochastic atom graph between `u` and `v`; every edge list a generated atom carries consists of graph edges leaving its
stochastic node.  Preserved by every step of `atomGenerate` (`Props/C18.lean` states the result).
-/
namespace GBS

def stochs (s : AG) : List Nat := s.nodes.map (·.stoch)

def Linked (g : SAG) (u v bond : Nat) : Prop :=
  ∃ ge ∈ g.edges, ge.src = u ∧ ge.dst = v ∧ ge.bond = bond ∧ (ge.stochastic ≠ 0 ∨ ge.termination ≠ 0 ∨ ge.transition ≠ 0)

def EdgeOK (g : SAG) (σ : List Nat) (e : Nat × Nat × Nat) : Prop :=
  ∃ u v, σ[e.1]? = some u ∧ σ[e.2.1]? = some v ∧
    (e.2.2 = staticBond g u v ∨ Linked g u v e.2.2 ∨ Linked g v u e.2.2)

def NodeOK (g : SAG) (n : GNode) : Prop :=
  (∀ e ∈ n.stochE, e ∈ g.edges ∧ e.src = n.stoch ∧ e.stochastic ≠ 0) ∧
  (∀ e ∈ n.termE, e ∈ g.edges ∧ e.src = n.stoch ∧ e.termination ≠ 0) ∧
  (∀ e ∈ n.transE, e ∈ g.edges ∧ e.src = n.stoch ∧ e.transition ≠ 0)

structure Inv (g : SAG) (s : AG) : Prop where
  edges : ∀ e ∈ s.edges, EdgeOK g (stochs s) e
  nodes : ∀ n ∈ s.nodes, NodeOK g n

theorem staticBond_comm (g : SAG) (a b : Nat) : staticBond g a b = staticBond g b a := by
  unfold staticBond
  congr 3
  funext e
  rw [Bool.or_comm]

theorem EdgeOK.mono {g : SAG} {σ : List Nat} {e} (τ : List Nat) (h : EdgeOK g σ e) : EdgeOK g (σ ++ τ) e := by
  obtain ⟨u, v, h1, h2, h3⟩ := h
  refine ⟨u, v, ?_, ?_, h3⟩
  · rw [List.getElem?_append_left]; exact h1
    exact (List.getElem?_eq_some_iff.1 h1).1
  · rw [List.getElem?_append_left]; exact h2
    exact (List.getElem?_eq_some_iff.1 h2).1

theorem EdgeOK.swap {g : SAG} {σ : List Nat} {a b o : Nat} (h : EdgeOK g σ (a, b, o)) : EdgeOK g σ (b, a, o) := by
  obtain ⟨u, v, h1, h2, h3⟩ := h
  refine ⟨v, u, h2, h1, ?_⟩
  rcases h3 with h | h | h
  · left; rw [staticBond_comm]; exact h
  · right; right; exact h
  · right; left; exact h

theorem mem_outEdges' (g : SAG) (n : Nat) (e : AEdge) (h : e ∈ outEdges g n) : e ∈ g.edges ∧ e.src = n := by
  unfold outEdges at h
  simp only [List.mem_flatMap, List.mem_filter] at h
  obtain ⟨d, -, ⟨he, hs⟩, -⟩ := h
  exact ⟨he, by simpa using hs⟩

/-- `addNode`: appends one atom, edges untouched -/
theorem addNode_spec (g : SAG) (s : AG) (node : Nat) (tr te st : Bool) :
    (addNode g s node tr te st).2 = s.nodes.length ∧
    (addNode g s node tr te st).1.edges = s.edges ∧
    stochs (addNode g s node tr te st).1 = stochs s ++ [node] ∧
    (∃ gn, (addNode g s node tr te st).1.nodes = s.nodes ++ [gn] ∧ NodeOK g gn) := by
  simp only [addNode, stochs, List.map_append, List.map_cons, List.map_nil]
  refine ⟨trivial, trivial, trivial, _, rfl, ?_, ?_, ?_⟩
  · intro e he
    by_cases hst : st = true
    · simp only [hst, if_true, List.mem_filter] at he
      obtain ⟨h1, h2⟩ := mem_outEdges' g node e he.1
      exact ⟨h1, h2, by simpa using he.2⟩
    · simp [hst] at he
  · intro e he
    by_cases hte : te = true
    · simp only [hte, if_true, List.mem_filter] at he
      obtain ⟨h1, h2⟩ := mem_outEdges' g node e he.1
      exact ⟨h1, h2, by simpa using he.2⟩
    · simp [hte] at he
  · intro e he
    by_cases htr : tr = true
    · simp only [htr, if_true, List.mem_filter] at he
      obtain ⟨h1, h2⟩ := mem_outEdges' g node e he.1
      exact ⟨h1, h2, by simpa using he.2⟩
    · simp [htr] at he

theorem addNode_inv {g : SAG} {s : AG} (h : Inv g s) (node : Nat) (tr te st : Bool) :
    Inv g (addNode g s node tr te st).1 := by
  obtain ⟨-, he, hs, gn, hn, hgn⟩ := addNode_spec g s node tr te st
  constructor
  · intro e hm
    rw [he] at hm
    rw [hs]
    exact (h.edges e hm).mono _
  · intro n hm
    rw [hn] at hm
    rcases List.mem_append.1 hm with hm | hm
    · exact h.nodes n hm
    · simp at hm; subst hm; exact hgn

/-- members of the edge list after `addEdge` -/
theorem mem_addEdge (s : AG) (a b o : Nat) (e : Nat × Nat × Nat) (h : e ∈ (addEdge s a b o).edges) :
    e ∈ s.edges ∨ e = (a, b, o) ∨ e = (b, a, o) := by
  dsimp only [addEdge] at h
  split at h
  · simp only [List.mem_map] at h
    obtain ⟨x, hx, rfl⟩ := h
    split
    · rename_i hsame
      simp only [Bool.or_eq_true, Bool.and_eq_true, beq_iff_eq] at hsame
      rcases hsame with ⟨h1, h2⟩ | ⟨h1, h2⟩
      · right; left; rw [h1, h2]
      · right; right; rw [h1, h2]
    · left; exact hx
  · simp only [List.mem_append, List.mem_singleton] at h
    rcases h with h | h
    · left; exact h
    · right; left; exact h

theorem addEdge_nodes (s : AG) (a b o : Nat) : (addEdge s a b o).nodes = s.nodes := by
  dsimp only [addEdge]; split <;> rfl

theorem addEdge_inv {g : SAG} {s : AG} (h : Inv g s) (a b o : Nat) (hok : EdgeOK g (stochs s) (a, b, o)) :
    Inv g (addEdge s a b o) := by
  have hn := addEdge_nodes s a b o
  constructor
  · intro e hm
    have hσ : stochs (addEdge s a b o) = stochs s := by simp [stochs, hn]
    rw [hσ]
    rcases mem_addEdge s a b o e hm with h1 | h1 | h1
    · exact h.edges e h1
    · rw [h1]; exact hok
    · rw [h1]; exact hok.swap
  · intro n hm
    rw [hn] at hm
    exact h.nodes n hm

theorem NodeOK_clear (g : SAG) (n : GNode) : NodeOK g (clearNode n) := by
  refine ⟨?_, ?_, ?_⟩ <;> intro e he <;> simp [clearNode] at he

theorem setNode_clear_inv {g : SAG} {s : AG} (h : Inv g s) (i : Nat) : Inv g (setNode s i clearNode) ∧ stochs (setNode s i clearNode) = stochs s := by
  have hσ : stochs (setNode s i clearNode) = stochs s := by
    simp only [stochs, setNode]
    apply withIdx_map_map
    intro k a
    split <;> simp [clearNode]
  refine ⟨⟨?_, ?_⟩, hσ⟩
  · intro e hm
    rw [hσ]
    exact h.edges e hm
  · intro n hm
    obtain ⟨k, a, ha, rfl⟩ := mem_withIdx_map _ _ _ hm
    dsimp only
    split
    · exact NodeOK_clear g a
    · exact h.nodes a (List.mem_of_getElem? ha)

/-- clearing some of the edge lists of every atom -/
theorem mapNodes_inv {g : SAG} {s : AG} (h : Inv g s) (φ : GNode → GNode) (s' : AG)
    (hn : s'.nodes = s.nodes.map φ) (he : s'.edges = s.edges)
    (hφ : ∀ n, (φ n).stoch = n.stoch ∧ (NodeOK g n → NodeOK g (φ n))) : Inv g s' ∧ stochs s' = stochs s := by
  have hσ : stochs s' = stochs s := by
    simp only [stochs, hn, List.map_map]
    congr 1
    funext n
    exact (hφ n).1
  refine ⟨⟨?_, ?_⟩, hσ⟩
  · intro e hm
    rw [hσ]; rw [he] at hm
    exact h.edges e hm
  · intro n hm
    rw [hn] at hm
    obtain ⟨a, ha, rfl⟩ := List.mem_map.1 hm
    exact (hφ a).2 (h.nodes a ha)

/-- what the node fold of `fillStatic` maintains -/
structure FillSt (g : SAG) (s0 : AG) (acc : AG × List (Nat × Nat)) : Prop where
  inv : Inv g acc.1
  ext : ∃ τ, stochs acc.1 = stochs s0 ++ τ
  amap : ∀ p ∈ acc.2, (stochs acc.1)[p.2]? = some p.1

theorem fillNodeStep_st {g : SAG} {s0 : AG} {acc : AG × List (Nat × Nat)} (src n : Nat) (h : FillSt g s0 acc) :
    FillSt g s0 (fillNodeStep g src acc n) ∧
    (fillNodeStep g src acc n).2.map (·.1) = acc.2.map (·.1) ++ (if n != src then [n] else []) := by
  unfold fillNodeStep
  by_cases hn : (n == src) = true
  · simp only [hn, if_true]
    have : (n != src) = false := by simp [bne, hn]
    simp [this, h]
  · have hn' : (n == src) = false := by simpa using hn
    simp only [hn', Bool.false_eq_true, if_false]
    have hne : (n != src) = true := by simp [bne, hn']
    obtain ⟨hid, he, hs, gn, hnn, hgn⟩ := addNode_spec g acc.1 n true true true
    refine ⟨⟨addNode_inv h.inv n true true true, ?_, ?_⟩, ?_⟩
    · obtain ⟨τ, hτ⟩ := h.ext
      exact ⟨τ ++ [n], by rw [hs, hτ, List.append_assoc]⟩
    · intro p hp
      dsimp only at hp ⊢
      rw [hs]
      rcases List.mem_append.1 hp with hp | hp
      · have := h.amap p hp
        rw [List.getElem?_append_left (List.getElem?_eq_some_iff.1 this).1]
        exact this
      · simp only [List.mem_singleton] at hp
        subst hp
        dsimp only
        rw [hid]
        have : (stochs acc.1).length = acc.1.nodes.length := by simp [stochs]
        rw [← this, List.getElem?_append_right (Nat.le_refl _)]
        simp
    · simp [hne]

theorem fillNodes_st {g : SAG} {s0 : AG} (src : Nat) (tree : List Nat) (acc : AG × List (Nat × Nat)) (h : FillSt g s0 acc) :
    FillSt g s0 (tree.foldl (fillNodeStep g src) acc) ∧
    (tree.foldl (fillNodeStep g src) acc).2.map (·.1) = acc.2.map (·.1) ++ tree.filter (· != src) := by
  induction tree generalizing acc with
  | nil => simp [h]
  | cons n ns ih =>
    obtain ⟨h1, h2⟩ := fillNodeStep_st src n h
    obtain ⟨h3, h4⟩ := ih _ h1
    refine ⟨h3, ?_⟩
    rw [List.foldl_cons, h4, h2, List.filter_cons]
    split <;> simp

/-- every pair of `fillPairs` starts at a key and ends at a static neighbour of it -/
theorem mem_fillPairs (adj : List (Nat × List Nat)) (keys : List Nat) (p : Nat × Nat) (h : p ∈ fillPairs adj keys) :
    p.1 ∈ keys ∧ p.2 ∈ neighbours adj p.1 := by
  unfold fillPairs at h
  have inner : ∀ (u : Nat) (vs : List Nat) (acc : List (Nat × Nat)) (Q : Nat × Nat → Prop), (∀ q ∈ acc, Q q) → (∀ v ∈ vs, Q (u, v)) →
      ∀ q ∈ vs.foldl (fun acc v => if acc.any (fun p => (p.1 == u && p.2 == v) || (p.1 == v && p.2 == u)) then acc else acc ++ [(u, v)]) acc, Q q := by
    intro u vs
    induction vs with
    | nil => intro acc Q h1 _ q hq; exact h1 q hq
    | cons v vs ih =>
      intro acc Q h1 h2 q hq
      rw [List.foldl_cons] at hq
      refine ih _ Q ?_ (fun w hw => h2 w (List.mem_cons_of_mem _ hw)) q hq
      intro q' hq'
      split at hq'
      · exact h1 q' hq'
      · rcases List.mem_append.1 hq' with h' | h'
        · exact h1 q' h'
        · simp only [List.mem_singleton] at h'; subst h'; exact h2 v (List.mem_cons_self ..)
  have outer : ∀ (ks : List Nat) (acc : List (Nat × Nat)), (∀ k ∈ ks, k ∈ keys) → (∀ q ∈ acc, q.1 ∈ keys ∧ q.2 ∈ neighbours adj q.1) →
      ∀ q ∈ ks.foldl (fun (acc : List (Nat × Nat)) u =>
        (neighbours adj u).foldl (fun acc v => if acc.any (fun p => (p.1 == u && p.2 == v) || (p.1 == v && p.2 == u)) then acc else acc ++ [(u, v)]) acc) acc,
        q.1 ∈ keys ∧ q.2 ∈ neighbours adj q.1 := by
    intro ks
    induction ks with
    | nil => intro acc _ h1 q hq; exact h1 q hq
    | cons k ks ih =>
      intro acc hk h1 q hq
      rw [List.foldl_cons] at hq
      refine ih _ (fun k' hk' => hk k' (List.mem_cons_of_mem _ hk')) ?_ q hq
      exact inner k (neighbours adj k) acc _ h1 (fun v hv => ⟨hk k (List.mem_cons_self ..), hv⟩)
  exact outer keys [] (fun k hk => hk) (fun q hq => by simp at hq) p h

theorem fillLook_valid (σ : List Nat) (amap : List (Nat × Nat)) (hv : ∀ p ∈ amap, σ[p.2]? = some p.1) (n : Nat) (hn : n ∈ amap.map (·.1)) :
    σ[fillLook amap n]? = some n := by
  unfold fillLook
  obtain ⟨p, hp, hpn⟩ := List.mem_map.1 hn
  cases hf : amap.find? (·.1 == n) with
  | none =>
    have := List.find?_eq_none.1 hf p hp
    simp [hpn] at this
  | some q =>
    have hq := List.mem_of_find?_eq_some hf
    have hq1 : q.1 = n := by simpa using List.find?_some hf
    simp only [Option.map_some, Option.getD_some]
    rw [← hq1]
    exact hv q hq

theorem fillEdges_inv {g : SAG} (amap : List (Nat × Nat)) (pairs : List (Nat × Nat)) (s : AG) (h : Inv g s)
    (hv : ∀ p ∈ amap, (stochs s)[p.2]? = some p.1) (hp : ∀ p ∈ pairs, p.1 ∈ amap.map (·.1) ∧ p.2 ∈ amap.map (·.1)) :
    Inv g (pairs.foldl (fillEdgeStep g amap) s) ∧ stochs (pairs.foldl (fillEdgeStep g amap) s) = stochs s := by
  induction pairs generalizing s with
  | nil => exact ⟨h, rfl⟩
  | cons p ps ih =>
    rw [List.foldl_cons]
    have hσ : stochs (fillEdgeStep g amap s p) = stochs s := by simp [fillEdgeStep, stochs, addEdge_nodes]
    have hi : Inv g (fillEdgeStep g amap s p) := by
      unfold fillEdgeStep
      apply addEdge_inv h
      obtain ⟨h1, h2⟩ := hp p (List.mem_cons_self ..)
      exact ⟨p.1, p.2, fillLook_valid _ amap hv p.1 h1, fillLook_valid _ amap hv p.2 h2, Or.inl rfl⟩
    obtain ⟨h3, h4⟩ := ih _ hi (by rw [hσ]; exact hv) (fun q hq => hp q (List.mem_cons_of_mem _ hq))
    exact ⟨h3, by rw [h4, hσ]⟩

/-- **`fillStatic` keeps the invariant** (under the closure side condition at the source) and only appends atoms -/
theorem fillStatic_inv {g : SAG} {adj : List (Nat × List Nat)} {s : AG} (h : Inv g s) (cur : Nat) (hcur : cur < s.nodes.length)
    (hcl : ∀ src, fillClosedAt g adj src = true) :
    Inv g (fillStatic g adj s cur) ∧ ∃ τ, stochs (fillStatic g adj s cur) = stochs s ++ τ := by
  unfold fillStatic
  generalize hsrc : ((s.nodes[cur]?).map (·.stoch)).getD 0 = src
  have h0 : FillSt g s (s, [(src, cur)]) := by
    refine ⟨h, ⟨[], by simp⟩, ?_⟩
    intro p hp
    simp only [List.mem_singleton] at hp
    subst hp
    simp only [stochs, List.getElem?_map]
    rw [← hsrc]
    simp [List.getElem?_eq_getElem hcur]
  obtain ⟨hst, hkeys⟩ := fillNodes_st src (dfsPre adj (dfsFuel g) [src] []) _ h0
  dsimp only
  generalize (dfsPre adj (dfsFuel g) [src] []).foldl (fillNodeStep g src) (s, [(src, cur)]) = r at hst hkeys
  have hk : r.2.map (·.1) = fillKeys g adj src := by
    rw [hkeys]; simp [fillKeys]
  have hpairs : ∀ p ∈ fillPairs adj (r.2.map (·.1)), p.1 ∈ r.2.map (·.1) ∧ p.2 ∈ r.2.map (·.1) := by
    intro p hp
    obtain ⟨h1, h2⟩ := mem_fillPairs adj _ p hp
    refine ⟨h1, ?_⟩
    have hc := hcl src
    unfold fillClosedAt at hc
    rw [List.all_eq_true] at hc
    rw [hk] at h1 ⊢
    have := hc p.1 h1
    rw [List.all_eq_true] at this
    simpa using this p.2 h2
  obtain ⟨h3, h4⟩ := fillEdges_inv r.2 _ r.1 hst.inv hst.amap hpairs
  refine ⟨h3, ?_⟩
  obtain ⟨τ, hτ⟩ := hst.ext
  exact ⟨τ, by rw [h4, hτ]⟩

theorem Inv.congr {g : SAG} {s s' : AG} (h : Inv g s) (hn : s'.nodes = s.nodes) (he : s'.edges = s.edges) : Inv g s' ∧ stochs s' = stochs s := by
  have hσ : stochs s' = stochs s := by simp [stochs, hn]
  exact ⟨⟨fun e hm => by rw [hσ]; rw [he] at hm; exact h.edges e hm, fun n hm => by rw [hn] at hm; exact h.nodes n hm⟩, hσ⟩

theorem stochs_length (s : AG) : (stochs s).length = s.nodes.length := by simp [stochs]

theorem pickIdx_lt {ws : List Rat} {ω ω' : Oracle} {i : Nat} {c : Choice} (h : pickIdx ws ω = .ok (i, c, ω')) : i < ws.length := by
  unfold pickIdx at h
  split at h
  · split at h
    · injection h with h; injection h with h1 _; subst h1; assumption
    · cases h
  · cases h
  · cases h

/-- a new atom bonded along a non-static graph edge leaving the stochastic node of `node` -/
theorem link_inv {g : SAG} {s : AG} (h : Inv g s) (node u : Nat) (hu : (stochs s)[node]? = some u) (e : AEdge)
    (he : e ∈ g.edges) (hsrc : e.src = u) (hk : e.stochastic ≠ 0 ∨ e.termination ≠ 0 ∨ e.transition ≠ 0) (tr te st : Bool) :
    Inv g (addEdge (addNode g s e.dst tr te st).1 node s.nodes.length e.bond) ∧
    stochs (addEdge (addNode g s e.dst tr te st).1 node s.nodes.length e.bond) = stochs s ++ [e.dst] ∧
    (addEdge (addNode g s e.dst tr te st).1 node s.nodes.length e.bond).nodes.length = s.nodes.length + 1 := by
  obtain ⟨-, -, hs, gn, hnn, -⟩ := addNode_spec g s e.dst tr te st
  have hi := addNode_inv h e.dst tr te st
  have hok : EdgeOK g (stochs (addNode g s e.dst tr te st).1) (node, s.nodes.length, e.bond) := by
    refine ⟨u, e.dst, ?_, ?_, Or.inr (Or.inl ⟨e, he, hsrc, rfl, rfl, hk⟩)⟩
    · rw [hs, List.getElem?_append_left (List.getElem?_eq_some_iff.1 hu).1]; exact hu
    · rw [hs, ← stochs_length, List.getElem?_append_right (Nat.le_refl _)]; simp
  refine ⟨addEdge_inv hi _ _ _ hok, ?_, ?_⟩
  · simp only [stochs, addEdge_nodes]; exact hs
  · rw [addEdge_nodes, hnn]; simp

theorem getD_mem {α} [Inhabited α] (l : List α) (i : Nat) (h : i < l.length) : l.getD i default ∈ l := by
  rw [List.getD_eq_getElem?_getD, List.getElem?_eq_getElem h]
  exact List.getElem_mem h

theorem stochs_getElem?_of_node {s : AG} {i : Nat} {nd : GNode} (h : s.nodes[i]? = some nd) : (stochs s)[i]? = some nd.stoch := by
  simp [stochs, h]

/-- **termination keeps the invariant** -/
theorem terminateLoop_inv {g : SAG} {adj : List (Nat × List Nat)} (hcl : ∀ src, fillClosedAt g adj src = true) (exempt : Nat) :
    ∀ (f : Nat) (s : AG) (ω : Oracle) (r : AG) (t : Trace) (ω' : Oracle), Inv g s →
      terminateLoop g adj exempt f s ω = .ok (r, t, ω') → Inv g r ∧ ∃ τ, stochs r = stochs s ++ τ := by
  intro f
  induction f with
  | zero => intro s ω r t ω' _ h; simp [terminateLoop] at h
  | succ f ih =>
    intro s ω r t ω' hi h
    unfold terminateLoop at h
    split at h
    · injection h with h; injection h with h1 _; subst h1; exact ⟨hi, [], by simp⟩
    · rename_i node nd hfind
      split at h
      · cases h
      · rename_i i c ω1 hpick
        have hmem := List.mem_of_find?_eq_some hfind
        have hnd : s.nodes[node]? = some nd := (mem_withIdx _ _ _).1 hmem
        have hlt : i < nd.termE.length := by simpa using pickIdx_lt hpick
        have hem := getD_mem nd.termE i hlt
        obtain ⟨-, hT, -⟩ := hi.nodes nd (List.mem_of_getElem? hnd)
        obtain ⟨hge, hsrc, hk⟩ := hT _ hem
        obtain ⟨h1, h2, h3⟩ := link_inv hi node nd.stoch (stochs_getElem?_of_node hnd) _ hge hsrc (Or.inr (Or.inl hk)) false false false
        dsimp only at h
        obtain ⟨h4, τ1, h5⟩ := fillStatic_inv (adj := adj) h1 s.nodes.length (by rw [h3]; exact Nat.lt_succ_self _) hcl
        obtain ⟨h6, h7⟩ := setNode_clear_inv h4 node
        split at h
        · cases h
        · rename_i r' t' ω2 hrec
          injection h with h; injection h with h8 _; subst h8
          obtain ⟨h9, τ2, h10⟩ := ih _ _ _ _ _ h6 hrec
          refine ⟨h9, [(nd.termE.getD i default).dst] ++ τ1 ++ τ2, ?_⟩
          rw [h10, h7, h5, h2]; simp

theorem mem_stochCandidates {s : AG} {p : Nat × GNode} (h : p ∈ stochCandidates s) : s.nodes[p.1]? = some p.2 := by
  unfold stochCandidates at h
  exact (mem_withIdx _ _ _).1 (List.mem_filter.1 h).1

/-- **growth of one stochastic object keeps the invariant** -/
theorem stochLoop_inv {g : SAG} {adj : List (Nat × List Nat)} (hcl : ∀ src, fillClosedAt g adj src = true) :
    ∀ (f : Nat) (s : AG) (ω : Oracle) (r : AG) (t : Trace) (ω' : Oracle), Inv g s →
      stochLoop g adj f s ω = .ok (r, t, ω') → Inv g r ∧ ∃ τ, stochs r = stochs s ++ τ := by
  intro f
  induction f with
  | zero => intro s ω r t ω' _ h; simp [stochLoop] at h
  | succ f ih =>
    intro s ω r t ω' hi h
    unfold stochLoop at h
    dsimp only at h
    split at h
    · injection h with h; injection h with h1 _; subst h1; exact ⟨hi, [], by simp⟩
    · split at h
      · cases h
      · rename_i ci c1 ω1 hpick
        have hci : ci < (stochCandidates s).length := by simpa using pickIdx_lt hpick
        have hcm := getD_mem (stochCandidates s) ci hci
        generalize hcand : (stochCandidates s).getD ci default = cand at h hcm
        obtain ⟨exempt, nd⟩ := cand
        have hnd : s.nodes[exempt]? = some nd := mem_stochCandidates hcm
        dsimp only at h
        split at h
        · cases h
        · rename_i term t1 ω2 hterm
          obtain ⟨hti, τt, hτt⟩ := terminateLoop_inv hcl exempt _ _ _ _ _ _ hi hterm
          split at h
          · cases h
          · rename_i target term' swap t2 ω3 htgt
            -- the draw only touches the draw maps
            have hsw : Inv g swap ∧ stochs swap = stochs s ∧ swap.nodes = s.nodes ∧ Inv g term' ∧ stochs term' = stochs term ∧ term'.nodes = term.nodes ∧ term'.edges = term.edges := by
              split at htgt
              · injection htgt with htgt
                simp only [Prod.mk.injEq] at htgt
                obtain ⟨-, rfl, rfl, -, -⟩ := htgt
                exact ⟨hi, rfl, rfl, hti, rfl, rfl, rfl⟩
              · split at htgt
                · injection htgt with htgt
                  simp only [Prod.mk.injEq] at htgt
                  obtain ⟨-, rfl, rfl, -, -⟩ := htgt
                  obtain ⟨a1, a2⟩ := hi.congr (s' := { s with drawMap := s.drawMap ++ [((nd.mw, nd.mn), _)] }) rfl rfl
                  obtain ⟨b1, b2⟩ := hti.congr (s' := { term with drawMap := term.drawMap ++ [((nd.mw, nd.mn), _)] }) rfl rfl
                  exact ⟨a1, a2, rfl, b1, b2, rfl, rfl⟩
                · cases htgt
                · cases htgt
            obtain ⟨hswi, hswσ, hswn, htermi, htermσ, htermn, -⟩ := hsw
            split at h
            · -- grow by one unit
              split at h
              · cases h
              · rename_i ei c2 ω4 hpick2
                have hei : ei < nd.stochE.length := by simpa using pickIdx_lt hpick2
                have hem := getD_mem nd.stochE ei hei
                obtain ⟨hS, -, -⟩ := hi.nodes nd (List.mem_of_getElem? hnd)
                obtain ⟨hge, hsrc, hk⟩ := hS _ hem
                obtain ⟨a1, a2⟩ := hswi.congr (s' := { swap with drawMap := term'.drawMap }) rfl rfl
                obtain ⟨b1, b2⟩ := setNode_clear_inv a1 exempt
                have hu : (stochs (setNode { swap with drawMap := term'.drawMap } exempt clearNode))[exempt]? = some nd.stoch := by
                  rw [b2, a2, hswσ]; exact stochs_getElem?_of_node hnd
                obtain ⟨c1', c2', c3'⟩ := link_inv b1 exempt nd.stoch hu _ hge hsrc (Or.inl hk) false false false
                have hlen : (setNode { swap with drawMap := term'.drawMap } exempt clearNode).nodes.length = s.nodes.length := by
                  rw [← stochs_length, b2, a2, hswσ, stochs_length]
                obtain ⟨d1, τ1, d2⟩ := fillStatic_inv (adj := adj) c1' _ (by rw [c3']; exact Nat.lt_succ_self _) hcl
                split at h
                · cases h
                · rename_i r' t3 ω5 hrec
                  injection h with h; injection h with h8 _; subst h8
                  obtain ⟨e1, τ2, e2⟩ := ih _ _ _ _ _ d1 hrec
                  refine ⟨e1, [(nd.stochE.getD ei default).dst] ++ τ1 ++ τ2, ?_⟩
                  rw [e2, d2, c2', b2, a2, hswσ]; simp
            · -- the terminated copy is kept
              injection h with h; injection h with h8 _; subst h8
              obtain ⟨f1, f2⟩ := mapNodes_inv htermi (fun n => { n with stochE := [], termE := [] })
                { term' with nodes := term'.nodes.map fun n => { n with stochE := [], termE := [] } } rfl rfl
                (fun n => ⟨rfl, fun hn => ⟨fun e he => by simp at he, fun e he => by simp at he, hn.2.2⟩⟩)
              exact ⟨f1, τt, by rw [f2, htermσ, hτt]⟩

/-- **the outer loop keeps the invariant** -/
theorem outerLoop_inv {g : SAG} {adj : List (Nat × List Nat)} (hcl : ∀ src, fillClosedAt g adj src = true) :
    ∀ (f : Nat) (s : AG) (nodeId : Nat) (ω : Oracle) (r : AG) (t : Trace) (ω' : Oracle), Inv g s → nodeId < s.nodes.length →
      outerLoop g adj f s nodeId ω = .ok (r, t, ω') → Inv g r ∧ ∃ τ, stochs r = stochs s ++ τ := by
  intro f
  induction f with
  | zero => intro s n ω r t ω' _ _ h; simp [outerLoop] at h
  | succ f ih =>
    intro s nodeId ω r t ω' hi hlt h
    unfold outerLoop at h
    dsimp only at h
    obtain ⟨a1, τ0, a2⟩ := fillStatic_inv (adj := adj) hi nodeId hlt hcl
    split at h
    · cases h
    · rename_i s1 t1 ω1 hst
      obtain ⟨b1, τ1, b2⟩ := stochLoop_inv hcl _ _ _ _ _ _ a1 hst
      obtain ⟨c1, c2⟩ := b1.congr (s' := { s1 with mw := s1.mw ++ [0] }) rfl rfl
      split at h
      · cases h
      · rename_i ni cc1 ω2 hpick
        have hni : ni < s1.nodes.length := by simpa using pickIdx_lt hpick
        split at h
        · injection h with h; injection h with h8 _; subst h8
          exact ⟨c1, τ0 ++ τ1, by rw [c2, b2, a2]; simp⟩
        · split at h
          · cases h
          · rename_i ei cc2 ω3 hpick2
            have hnd : s1.nodes[ni]? = some (s1.nodes.getD ni default) := by
              rw [List.getD_eq_getElem?_getD, List.getElem?_eq_getElem hni]; simp
            have hei : ei < (s1.nodes.getD ni default).transE.length := by simpa using pickIdx_lt hpick2
            have hem := getD_mem (s1.nodes.getD ni default).transE ei hei
            obtain ⟨-, -, hT⟩ := b1.nodes _ (List.mem_of_getElem? hnd)
            obtain ⟨hge, hsrc, hk⟩ := hT _ hem
            obtain ⟨d1, d2⟩ := mapNodes_inv c1 (fun n => { n with transE := [] })
              { ({ s1 with mw := s1.mw ++ [0] } : AG) with nodes := s1.nodes.map fun n => { n with transE := [] } } rfl rfl
              (fun n => ⟨rfl, fun hn => ⟨hn.1, hn.2.1, fun e he => by simp at he⟩⟩)
            have hu : (stochs ({ ({ s1 with mw := s1.mw ++ [0] } : AG) with nodes := s1.nodes.map fun n => { n with transE := [] } } : AG))[ni]? =
                some (s1.nodes.getD ni default).stoch := by
              rw [d2, c2]; exact stochs_getElem?_of_node hnd
            obtain ⟨e1, e2, e3⟩ := link_inv d1 ni _ hu _ hge hsrc (Or.inr (Or.inr hk)) false false false
            split at h
            · cases h
            · rename_i r' t2 ω4 hrec
              injection h with h; injection h with h8 _; subst h8
              obtain ⟨f1, τ2, f2⟩ := ih _ _ _ _ _ _ e1 (by rw [e3]; exact Nat.lt_succ_self _) hrec
              refine ⟨f1, τ0 ++ τ1 ++ [((s1.nodes.getD ni default).transE.getD ei default).dst] ++ τ2, ?_⟩
              rw [f2, e2, d2, c2, b2, a2]; simp

theorem Inv_empty (g : SAG) : Inv g {} := ⟨fun e he => by simp at he, fun n hn => by simp at hn⟩

/-- **every bond of a generated molecule is justified by the stochastic atom graph**, for every oracle and fuel -/
theorem atomGenerate_inv (g : SAG) (hcl : ∀ src, fillClosedAt g (staticAdj g) src = true) (fuel : Nat) (ω : Oracle)
    (r : AG) (t : Trace) (ω' : Oracle) (h : atomGenerate g fuel ω = .ok (r, t, ω')) : Inv g r := by
  unfold atomGenerate at h
  split at h
  · cases h
  · rename_i start _
    dsimp only at h
    obtain ⟨hid, -, -, gn, hn, -⟩ := addNode_spec g {} start true true true
    have hi := addNode_inv (Inv_empty g) start true true true
    refine (outerLoop_inv hcl fuel _ _ _ _ _ _ hi ?_ h).1
    rw [hid, hn]; simp

/-- the executable side condition `fillClosed g` (checked over the nodes of the static adjacency) gives closure at every source -/
theorem fillClosed_all (g : SAG) (h : fillClosed g = true) (src : Nat) : fillClosedAt g (staticAdj g) src = true := by
  unfold fillClosed at h
  rw [List.all_eq_true] at h
  cases hf : (staticAdj g).find? (·.1 == src) with
  | some p =>
    have hp := List.mem_of_find?_eq_some hf
    have hp1 : p.1 = src := by simpa using List.find?_some hf
    rw [← hp1]; exact h p hp
  | none =>
    have hnb : neighbours (staticAdj g) src = [] := by simp [neighbours, hf]
    have hfuel : dfsFuel g = (4 * g.nodes.length + 4 * g.edges.length + 6) + 1 + 1 := by simp [dfsFuel]
    have htree : dfsPre (staticAdj g) (dfsFuel g) [src] [] = [src] := by
      rw [hfuel, dfsPre]
      simp only [List.contains_nil, Bool.false_eq_true, if_false, hnb, List.nil_append]
      rw [dfsPre]
    unfold fillClosedAt fillKeys
    rw [htree]
    simp [hnb]

end GBS
