import GBS.Model.Parse
import Mathlib.Tactic.Ring
/-!
# Character-level round trip of bond descriptors (C01)

`parseDesc (printDesc p …) = p` on `List Char`, through the Python string primitives of `Model/PyStr.lean` (`find`, `rfind`,
`count`, slicing with negative indices, `strip`, `split`) and the decimal digits of the id (`int(str(n)) = n`).
The printed form of a weight enters through the decidable hypothesis `NumTextOK` (it reads back as the weight and contains neither
`|` nor white space): the float-text model is validated separately by the PARSE.float correspondence.
-/
namespace GBS.P
open GBS GBS.Py GBS.Num

/-! ## digits -/

theorem digitPart_go_digits (s : Str) (hs : ∀ c ∈ s, c.isDigit = true) (v n : Nat) (pd : Bool) (h : s ≠ [] ∨ pd = true) :
    digitPart.go s v n pd = some (Nat.ofDigitChars 10 s v, n + s.length) := by
  induction s generalizing v n pd with
  | nil =>
    rcases h with h | h
    · exact absurd rfl h
    · simp [digitPart.go, h, Nat.ofDigitChars]
  | cons c cs ih =>
    have hc := hs c (by simp)
    unfold digitPart.go
    simp only [hc, if_true]
    rw [ih (fun x hx => hs x (by simp [hx])) _ _ true (Or.inr rfl)]
    simp only [Nat.ofDigitChars, List.foldl_cons, digitVal, List.length_cons]
    congr 2
    omega

theorem digitPart_toDigits (n : Nat) : digitPart (Nat.toDigits 10 n) = some (n, (Nat.toDigits 10 n).length) := by
  have hne : Nat.toDigits 10 n ≠ [] := Nat.toDigits_ne_nil
  have hd : ∀ c ∈ Nat.toDigits 10 n, c.isDigit = true := fun c hc => Nat.isDigit_of_mem_toDigits (by omega) (by omega) hc
  unfold digitPart
  cases hl : Nat.toDigits 10 n with
  | nil => exact absurd hl hne
  | cons a l =>
    simp only
    rw [← hl, digitPart_go_digits _ hd 0 0 false (Or.inl hne), Nat.ofDigitChars_toDigits (by omega) (by omega)]
    simp


/-! ## strings -/

theorem dropWhile_head_false {p : Char → Bool} {a : Char} {s : Str} (h : p a = false) : List.dropWhile p (a :: s) = a :: s := by
  simp [List.dropWhile, h]

theorem strip_bracketed (a z : Char) (mid : Str) (ha : isWs a = false) (hz : isWs z = false) :
    strip (a :: (mid ++ [z])) = a :: (mid ++ [z]) := by
  unfold strip stripBy rstripBy lstripBy
  rw [dropWhile_head_false ha]
  have : (a :: (mid ++ [z])).reverse = z :: (mid.reverse ++ [a]) := by simp
  rw [this, dropWhile_head_false hz]
  simp

theorem find_self_head (c : Char) (s : Str) : find (c :: s) [c] 0 = 0 := by
  simp [find, findFrom, isPrefix]

theorem slice_all (s : Str) : slice s (some 0) none = s := by
  unfold slice clampIdx
  have h : ¬ ((0 : Int) > (s.length : Int)) := by omega
  simp [h]

/-- the body `digits` between `[sym` and `]` -/
theorem slice_id (c0 c1 : Char) (ds : Str) :
    slice (c0 :: c1 :: (ds ++ [']'])) (some 2) (some (-1)) = ds := by
  unfold slice clampIdx
  simp only [List.length_cons, List.length_append, List.length_nil]
  have h1 : ¬ ((2 : Int) < 0) := by omega
  have h2 : ((-1 : Int) < 0) := by omega
  simp only [h1, h2, if_false, if_true]
  have h3 : ¬ ((2 : Int) > ((ds.length + 0 + 1 + 1 + 1 : Nat) : Int)) := by push_cast; omega
  have h4 : ¬ ((-1 : Int) + ((ds.length + 0 + 1 + 1 + 1 : Nat) : Int) < 0) := by push_cast; omega
  have h5 : ¬ ((-1 : Int) + ((ds.length + 0 + 1 + 1 + 1 : Nat) : Int) > ((ds.length + 0 + 1 + 1 + 1 : Nat) : Int)) := by push_cast; omega
  simp only [h3, h4, h5, if_false]
  have h6 : ((-1 : Int) + ((ds.length + 0 + 1 + 1 + 1 : Nat) : Int)).toNat = ds.length + 2 := by push_cast; omega
  rw [h6]
  simp


theorem dropWhile_none {p : Char → Bool} {s : Str} (h : ∀ c ∈ s, p c = false) : List.dropWhile p s = s := by
  cases s with
  | nil => rfl
  | cons a l => exact dropWhile_head_false (h a (by simp))

theorem strip_no_ws (s : Str) (h : ∀ c ∈ s, isWs c = false) : strip s = s := by
  unfold strip stripBy rstripBy lstripBy
  rw [dropWhile_none h, dropWhile_none (fun c hc => h c (List.mem_reverse.1 hc))]
  simp

theorem isWs_of_digit {c : Char} (h : c.isDigit = true) : isWs c = false := by
  unfold Char.isDigit at h
  unfold isWs
  simp only [Bool.and_eq_true, decide_eq_true_eq] at h
  have h1 : c.val ≥ 48 := h.1
  simp only [Bool.or_eq_false_iff, beq_eq_false_iff_ne, ne_eq]
  refine ⟨⟨⟨⟨⟨?_, ?_⟩, ?_⟩, ?_⟩, ?_⟩, ?_⟩ <;> (intro hc; rw [hc] at h1; revert h1; decide)

theorem parseInt_toDigits (n : Nat) : parseInt (Nat.toDigits 10 n) = some (n : Int) := by
  have hd : ∀ c ∈ Nat.toDigits 10 n, c.isDigit = true := fun c hc => Nat.isDigit_of_mem_toDigits (by omega) (by omega) hc
  unfold parseInt
  rw [strip_no_ws _ (fun c hc => isWs_of_digit (hd c hc))]
  have hne : Nat.toDigits 10 n ≠ [] := Nat.toDigits_ne_nil
  cases hl : Nat.toDigits 10 n with
  | nil => exact absurd hl hne
  | cons a l =>
    have ha : a.isDigit = true := hd a (by rw [hl]; simp)
    have h1 : a ≠ '-' := by intro h; rw [h] at ha; revert ha; decide
    have h2 : a ≠ '+' := by intro h; rw [h] at ha; revert ha; decide
    simp only
    split
    · rename_i r heq; injection heq with heq _; exact absurd heq h1
    · rename_i r heq; injection heq with heq _; exact absurd heq h2
    · rw [← hl, digitPart_toDigits]; simp

def symChar : Sym → Char | .dollar => '$' | .lt => '<' | .gt => '>' | .none => ' '

theorem symOfChar?_symChar (sym : Sym) (hs : sym ≠ .none) : symOfChar? (symChar sym) = some sym := by
  cases sym <;> simp [symChar, symOfChar?] at hs ⊢

theorem idStr_digits (id : Option Nat) : ∀ c ∈ idStr id, c.isDigit = true := by
  intro c hc
  cases id with
  | none => simp [idStr] at hc
  | some n => exact Nat.isDigit_of_mem_toDigits (by omega) (by omega) hc

theorem not_mem_of_digits {ds : Str} (h : ∀ c ∈ ds, c.isDigit = true) (x : Char) (hx : x.isDigit = false) : x ∉ ds := by
  intro hm
  rw [h x hm] at hx
  cases hx

theorem index_last (c0 c1 : Char) (ds : Str) : index (c0 :: c1 :: (ds ++ [']'])) (-1) = some ']' := by
  unfold index
  simp only [List.length_cons, List.length_append, List.length_nil]
  have h1 : ((-1 : Int) < 0) := by omega
  simp only [h1, if_true]
  have h2 : ¬ ((-1 : Int) + ((ds.length + 0 + 1 + 1 + 1 : Nat) : Int) < 0) := by push_cast; omega
  simp only [h2, if_false]
  have h3 : ((-1 : Int) + ((ds.length + 0 + 1 + 1 + 1 : Nat) : Int)).toNat = ds.length + 2 := by push_cast; omega
  rw [h3]
  simp

theorem parseId_plain (c0 c1 : Char) (id : Option Nat) (h0 : c0 ≠ '|') (h1 : c1 ≠ '|') :
    parseId (c0 :: c1 :: (idStr id ++ [']'])) = .ok id := by
  have hd := idStr_digits id
  unfold parseId
  have hnb : (c0 :: c1 :: (idStr id ++ [']'])).contains '|' = false := by
    simp only [List.contains_cons, List.contains_append, List.contains_nil, Bool.or_false]
    have : '|' ∉ idStr id := not_mem_of_digits hd '|' (by decide)
    simp [this, h0.symm, h1.symm]
  simp only [hnb, Bool.false_eq_true, if_false]
  rw [slice_id]
  have h2 : (idStr id).contains '[' = false := by rw [List.contains_eq_mem]; simpa using not_mem_of_digits hd '[' (by decide)
  have h3 : (idStr id).contains ']' = false := by rw [List.contains_eq_mem]; simpa using not_mem_of_digits hd ']' (by decide)
  simp only [h2, h3, Bool.or_self, Bool.false_eq_true, if_false]
  cases id with
  | none => simp [idStr]
  | some n =>
    have hne : idStr (some n) ≠ [] := Nat.toDigits_ne_nil
    have hie : (idStr (some n)).isEmpty = false := by simpa using hne
    simp only [hie, Bool.false_eq_true, if_false]
    simp only [idStr, parseInt_toDigits]
    simp


theorem no_pipe_plain (sym : Sym) (hs : sym ≠ .none) (id : Option Nat) :
    ('[' :: symChar sym :: (idStr id ++ [']'])).contains '|' = false := by
  have hd := idStr_digits id
  have : '|' ∉ idStr id := not_mem_of_digits hd '|' (by decide)
  cases sym <;> simp [symChar, this] at hs ⊢

theorem parseWeights_plain (sym : Sym) (hs : sym ≠ .none) (id : Option Nat) :
    parseWeights ('[' :: symChar sym :: (idStr id ++ [']'])) = .ok (1, none) := by
  unfold parseWeights
  simp only [no_pipe_plain sym hs id, Bool.false_eq_true, if_false]

/-- **parsing the plain text of a descriptor** gives back symbol and id, with weight 1 and no list -/
theorem parseDesc_plain (sym : Sym) (hs : sym ≠ .none) (id : Option Nat) (num : Nat) (pre : Str) (atom : Option Nat)
    (hst : stereoRejected pre = false) :
    parseDesc ('[' :: symChar sym :: (idStr id ++ [']'])) num pre atom =
      .ok { d := { sym := sym, id := id, order := orderOfPrefix pre, weight := 1, trans := none, atom := atom.getD 0 },
            pre := pre, num := num, noAtom := atom.isNone } := by
  have hsc1 : symChar sym ≠ '|' := by cases sym <;> simp [symChar] at hs ⊢
  have hne : ('[' :: symChar sym :: (idStr id ++ [']']) == "[]".toList) = false := by
    cases sym <;> simp [symChar] at hs ⊢
  unfold parseDesc
  simp only [hne, Bool.false_eq_true, if_false]
  have hraw : (if pre.isEmpty then slice ('[' :: symChar sym :: (idStr id ++ [']'])) (some (find ('[' :: symChar sym :: (idStr id ++ [']'])) ['['])) none
      else '[' :: symChar sym :: (idStr id ++ [']'])) = '[' :: symChar sym :: (idStr id ++ [']']) := by
    split
    · rw [find_self_head]; exact slice_all _
    · rfl
  simp only [hraw]
  have hi0 : index ('[' :: symChar sym :: (idStr id ++ [']'])) 0 = some '[' := by simp [index]
  have hi1 : index ('[' :: symChar sym :: (idStr id ++ [']'])) 1 = some (symChar sym) := by simp [index]
  rw [hi0, index_last, hi1]
  simp only [bne_self_eq_false, Bool.or_self, Bool.false_eq_true, if_false, symOfChar?_symChar sym hs,
    parseId_plain '[' (symChar sym) id (by decide) hsc1, parseWeights_plain sym hs id, hst]


theorem printDesc_plain (p : PDesc) (hs : p.d.sym ≠ .none) :
    printDesc p false = '[' :: symChar p.d.sym :: (idStr p.d.id ++ [']']) := by
  unfold printDesc
  simp only [Bool.false_and, Bool.false_eq_true, if_false, List.nil_append]
  have : symStr p.d.sym = [symChar p.d.sym] := by
    cases h : p.d.sym <;> simp [symStr, Sym.toChar?, symChar, h] at hs ⊢
  rw [this]
  have hz : isWs ']' = false := by decide
  have ha : isWs '[' = false := by decide
  have := strip_bracketed '[' ']' (symChar p.d.sym :: idStr p.d.id) ha hz
  simpa using this

/-- **C01 (descriptor, plain form)**: the text printed without extensions parses back to the same symbol, id and bond order, with
weight 1 and no transition list -/
theorem desc_plain_roundtrip (p : PDesc) (hs : p.d.sym ≠ .none) (hst : stereoRejected p.pre = false) (atom : Option Nat) :
    parseDesc (printDesc p false) p.num p.pre atom =
      .ok { d := { sym := p.d.sym, id := p.d.id, order := orderOfPrefix p.pre, weight := 1, trans := none, atom := atom.getD 0 },
            pre := p.pre, num := p.num, noAtom := atom.isNone } := by
  rw [printDesc_plain p hs]
  exact parseDesc_plain p.d.sym hs p.d.id p.num p.pre atom hst

/-- the empty terminal `[]` -/
theorem desc_empty_roundtrip (p : PDesc) (hs : p.d.sym = .none) (hid : p.d.id = none) (ext : Bool)
    (hw : p.d.trans = none ∧ p.d.weight = 1) (num : Nat) (pre : Str) (atom : Option Nat) :
    parseDesc (printDesc p ext) num pre atom =
      .ok { d := { sym := .none, id := none, order := .unspecified, weight := 1, trans := none, atom := 0 }, pre := pre, num := num, noAtom := true } := by
  have : printDesc p ext = "[]".toList := by
    unfold printDesc
    simp [hs, hid, hw.1, hw.2, symStr, Sym.toChar?, idStr, strip, stripBy, rstripBy, lstripBy, isWs]
  rw [this]
  simp [parseDesc]


/-! ## one weight between `|` -/

theorem findFrom_first (c : Char) (pre rest : Str) (h : c ∉ pre) (i : Nat) :
    findFrom [c] (pre ++ c :: rest) i = some (i + pre.length) := by
  induction pre generalizing i with
  | nil => simp [findFrom, isPrefix]
  | cons a l ih =>
    have ha : a ≠ c := fun e => h (by simp [e])
    have hl : c ∉ l := fun e => h (by simp [e])
    simp only [List.cons_append, findFrom, isPrefix]
    have : (c == a) = false := by simp [Ne.symm ha]
    simp only [this, Bool.false_and, Bool.false_eq_true, if_false]
    rw [ih hl (i + 1)]
    simp only [List.length_cons]
    congr 1; omega

theorem find_first (c : Char) (pre rest : Str) (h : c ∉ pre) : find (pre ++ c :: rest) [c] 0 = pre.length := by
  unfold find
  simp only [Nat.not_lt_zero, if_false, List.drop_zero, findFrom_first c pre rest h 0]
  simp

theorem rfind_go_last (c : Char) (xs suf : Str) (h : c ∉ suf) (i : Nat) (best : Int) :
    rfind.go [c] (xs ++ c :: suf) i best = (i + xs.length : Nat) := by
  induction xs generalizing i best with
  | nil =>
    simp only [List.nil_append, rfind.go, isPrefix, beq_self_eq_true, Bool.true_and, if_true, List.length_nil, Nat.add_zero]
    -- after the occurrence at `i`, nothing in `suf` matches
    have hsuf : ∀ (s : Str) (j : Nat) (b : Int), c ∉ s → rfind.go [c] s j b = b := by
      intro s
      induction s with
      | nil => intro j b _; simp [rfind.go]
      | cons a l ih2 =>
        intro j b hn
        have ha : (c == a) = false := by
          have : a ≠ c := fun e => hn (by simp [e])
          simp [Ne.symm this]
        simp only [rfind.go, isPrefix, ha, Bool.false_and, Bool.false_eq_true, if_false]
        exact ih2 (j + 1) b (fun e => hn (by simp [e]))
    rw [hsuf suf (i + 1) (i : Int) h]
  | cons a l ih =>
    simp only [List.cons_append, rfind.go]
    rw [ih (i + 1)]
    simp only [List.length_cons]
    congr 1; omega

theorem rfind_last (c : Char) (xs suf : Str) (h : c ∉ suf) : rfind (xs ++ c :: suf) [c] = xs.length := by
  unfold rfind
  rw [rfind_go_last c xs suf h 0 (-1)]
  simp

theorem count_append (a b : Str) (c : Char) : count (a ++ b) c = count a c + count b c := by
  simp [count, List.filter_append]

theorem count_zero (a : Str) (c : Char) (h : c ∉ a) : count a c = 0 := by
  unfold count
  rw [List.length_eq_zero_iff, List.filter_eq_nil_iff]
  intro x hx hxc
  have : x = c := by simpa using hxc
  exact h (this ▸ hx)

theorem slice_mid (a b c : Str) : slice (a ++ b ++ c) (some (a.length : Int)) (some ((a.length + b.length : Nat) : Int)) = b := by
  unfold slice clampIdx
  simp only [List.length_append]
  have h1 : ¬ ((a.length : Int) < 0) := by omega
  have h2 : ¬ (((a.length + b.length : Nat) : Int) < 0) := by omega
  simp only [h1, h2, if_false]
  have h3 : ¬ ((a.length : Int) > ((a.length + b.length + c.length : Nat) : Int)) := by push_cast; omega
  have h4 : ¬ (((a.length + b.length : Nat) : Int) > ((a.length + b.length + c.length : Nat) : Int)) := by push_cast; omega
  simp only [h3, h4, if_false, Int.toNat_natCast]
  simp [List.drop_append, List.take_append]


theorem stripChars_pipe (w : Str) (hw : ∀ c ∈ w, c ≠ '|') : stripChars ['|'] ('|' :: w) = w := by
  unfold stripChars stripBy rstripBy lstripBy
  have hp : ∀ c ∈ w, (['|'].contains c) = false := by
    intro c hc
    have := hw c hc
    simp [this]
  have h1 : List.dropWhile (fun c => ['|'].contains c) ('|' :: w) = w := by
    simp only [List.dropWhile_cons]
    have : ['|'].contains '|' = true := by decide
    simp only [this, if_true]
    exact dropWhile_none hp
  rw [h1, dropWhile_none (fun c hc => hp c (List.mem_reverse.1 hc))]
  simp

theorem splitWs_go_word (rest cur : Str) (h : ∀ c ∈ rest, isWs c = false) (hne : cur ≠ [] ∨ rest ≠ []) :
    splitWs.go rest cur [] = [cur.reverse ++ rest] := by
  induction rest generalizing cur with
  | nil =>
    have hc : cur ≠ [] := by rcases hne with h | h; exact h; exact absurd rfl h
    have : cur.isEmpty = false := by simpa using hc
    simp [splitWs.go, this]
  | cons a l ih =>
    have ha := h a (by simp)
    simp only [splitWs.go, ha, Bool.false_eq_true, if_false]
    rw [ih (a :: cur) (fun c hc => h c (by simp [hc])) (Or.inl (by simp))]
    simp

theorem splitWs_word (w : Str) (h : ∀ c ∈ w, isWs c = false) (hne : w ≠ []) : splitWs w = [w] := by
  unfold splitWs
  rw [splitWs_go_word w [] h (Or.inr hne)]
  simp

/-- what the round trip needs to know about the printed form of a weight: it reads back as the weight and contains neither `|`
nor white space (decidable for every concrete weight; the float-text model `Num.reprFloat` is validated by the PARSE.float
correspondence) -/
def NumTextOK (w : Rat) : Prop :=
  parseFloat (numStr w) = .ok w ∧ numStr w ≠ [] ∧ ∀ c ∈ numStr w, c ≠ '|' ∧ isWs c = false

/-- **C01 (descriptor with a weight)**: `[sym id |w|]` parses back to the same descriptor -/
theorem desc_weight_roundtrip (p : PDesc) (hs : p.d.sym ≠ .none) (hst : stereoRejected p.pre = false) (atom : Option Nat)
    (htr : p.d.trans = none) (hw1 : p.d.weight ≠ 1) (hnum : NumTextOK p.d.weight) :
    parseDesc (printDesc p true) p.num p.pre atom =
      .ok { d := { sym := p.d.sym, id := p.d.id, order := orderOfPrefix p.pre, weight := p.d.weight, trans := none, atom := atom.getD 0 },
            pre := p.pre, num := p.num, noAtom := atom.isNone } := by
  obtain ⟨hpf, hnne, hchars⟩ := hnum
  have hd := idStr_digits p.d.id
  -- the printed text
  have htext : printDesc p true = ('[' :: symChar p.d.sym :: idStr p.d.id) ++ ('|' :: numStr p.d.weight) ++ ['|', ']'] := by
    unfold printDesc
    have hsym : symStr p.d.sym = [symChar p.d.sym] := by
      cases h : p.d.sym <;> simp [symStr, Sym.toChar?, symChar, h] at hs ⊢
    simp only [htr, Option.isSome_none, Bool.false_or, Bool.true_and, bne_iff_ne, ne_eq, hw1, not_false_eq_true, decide_true, if_true, hsym]
    have := strip_bracketed '[' ']' (symChar p.d.sym :: (idStr p.d.id ++ '|' :: (numStr p.d.weight ++ ['|']))) (by decide) (by decide)
    simpa using this
  rw [htext]
  -- names for the pieces
  generalize hA : ('[' :: symChar p.d.sym :: idStr p.d.id) = A
  generalize hW : numStr p.d.weight = W at hpf hnne hchars
  have hApipe : '|' ∉ A := by
    rw [← hA]
    have h1 : '|' ∉ idStr p.d.id := not_mem_of_digits hd '|' (by decide)
    have h2 : symChar p.d.sym ≠ '|' := by cases h : p.d.sym <;> simp [symChar, h] at hs ⊢
    simp [h1, Ne.symm h2]
  have hWpipe : '|' ∉ W := fun hm => (hchars '|' hm).1 rfl
  have hraw_eq : A ++ '|' :: W ++ ['|', ']'] = '[' :: symChar p.d.sym :: (idStr p.d.id ++ '|' :: (W ++ ['|', ']'])) := by
    rw [← hA]; simp
  have hne : (A ++ '|' :: W ++ ['|', ']'] == "[]".toList) = false := by
    rw [hraw_eq]
    cases h : p.d.sym <;> simp [symChar, h] at hs ⊢
  unfold parseDesc
  simp only [hne, Bool.false_eq_true, if_false]
  have hraw : (if p.pre.isEmpty then slice (A ++ '|' :: W ++ ['|', ']']) (some (find (A ++ '|' :: W ++ ['|', ']']) ['['])) none
      else A ++ '|' :: W ++ ['|', ']']) = A ++ '|' :: W ++ ['|', ']'] := by
    split
    · rw [hraw_eq, find_self_head]; exact slice_all _
    · rfl
  simp only [hraw]
  have hi0 : index (A ++ '|' :: W ++ ['|', ']']) 0 = some '[' := by rw [hraw_eq]; simp [index]
  have hi1 : index (A ++ '|' :: W ++ ['|', ']']) 1 = some (symChar p.d.sym) := by rw [hraw_eq]; simp [index]
  have hil : index (A ++ '|' :: W ++ ['|', ']']) (-1) = some ']' := by
    have : A ++ '|' :: W ++ ['|', ']'] = (A ++ '|' :: W ++ ['|']) ++ [']'] := by simp
    rw [this]
    unfold index
    simp only [List.length_append, List.length_cons, List.length_nil]
    have h1 : ((-1 : Int) < 0) := by omega
    simp only [h1, if_true]
    have h2 : ¬ ((-1 : Int) + ((A.length + (W.length + 1) + (0 + 1) + (0 + 1) : Nat) : Int) < 0) := by push_cast; omega
    simp only [h2, if_false]
    have h3 : ((-1 : Int) + ((A.length + (W.length + 1) + (0 + 1) + (0 + 1) : Nat) : Int)).toNat = (A ++ '|' :: W ++ ['|']).length := by
      simp only [List.length_append, List.length_cons, List.length_nil]; push_cast; omega
    rw [h3]
    simp
  rw [hi0, hil, hi1]
  -- first and last `|`
  have hfind : find (A ++ '|' :: W ++ ['|', ']']) ['|'] 0 = A.length := by
    have : A ++ '|' :: W ++ ['|', ']'] = A ++ '|' :: (W ++ ['|', ']']) := by simp
    rw [this]; exact find_first '|' A _ hApipe
  have hrfind : rfind (A ++ '|' :: W ++ ['|', ']']) ['|'] = (A ++ '|' :: W).length := by
    have : A ++ '|' :: W ++ ['|', ']'] = (A ++ '|' :: W) ++ '|' :: [']'] := by simp
    rw [this]; exact rfind_last '|' _ [']'] (by decide)
  have hcont : (A ++ '|' :: W ++ ['|', ']']).contains '|' = true := by simp
  -- the id
  have hid : parseId (A ++ '|' :: W ++ ['|', ']']) = .ok p.d.id := by
    unfold parseId
    simp only [hcont, if_true, hfind]
    have hsl : slice (A ++ '|' :: W ++ ['|', ']']) (some 2) (some (A.length : Int)) = idStr p.d.id := by
      have hAlen : A.length = 2 + (idStr p.d.id).length := by rw [← hA]; simp; omega
      have : A ++ '|' :: W ++ ['|', ']'] = ['[', symChar p.d.sym] ++ idStr p.d.id ++ ('|' :: W ++ ['|', ']']) := by rw [← hA]; simp
      rw [this, hAlen]
      exact slice_mid ['[', symChar p.d.sym] (idStr p.d.id) _
    rw [hsl]
    have h2 : (idStr p.d.id).contains '[' = false := by rw [List.contains_eq_mem]; simpa using not_mem_of_digits hd '[' (by decide)
    have h3 : (idStr p.d.id).contains ']' = false := by rw [List.contains_eq_mem]; simpa using not_mem_of_digits hd ']' (by decide)
    simp only [h2, h3, Bool.or_self, Bool.false_eq_true, if_false]
    cases hidc : p.d.id with
    | none => simp [idStr]
    | some n =>
      have hne' : idStr (some n) ≠ [] := Nat.toDigits_ne_nil
      have hie : (idStr (some n)).isEmpty = false := by simpa using hne'
      simp only [hie, Bool.false_eq_true, if_false]
      simp only [idStr, parseInt_toDigits]
      simp
  -- the weight
  have hwt : parseWeights (A ++ '|' :: W ++ ['|', ']']) = .ok (p.d.weight, none) := by
    unfold parseWeights
    simp only [hcont, if_true]
    have hcnt : count (A ++ '|' :: W ++ ['|', ']']) '|' = 2 := by
      have : A ++ '|' :: W ++ ['|', ']'] = A ++ (['|'] ++ (W ++ (['|'] ++ [']']))) := by simp
      rw [this, count_append, count_append, count_append, count_append, count_zero A '|' hApipe, count_zero W '|' hWpipe]
      decide
    simp only [hcnt, bne_self_eq_false, Bool.false_eq_true, if_false, hfind, hrfind]
    have hsl : slice (A ++ '|' :: W ++ ['|', ']']) (some (A.length : Int)) (some ((A ++ '|' :: W).length : Int)) = '|' :: W := by
      have h1 : A ++ '|' :: W ++ ['|', ']'] = A ++ ('|' :: W) ++ ['|', ']'] := by simp
      have h2 : (A ++ '|' :: W).length = A.length + ('|' :: W).length := by simp
      rw [h1, h2]
      exact slice_mid A ('|' :: W) ['|', ']']
    rw [hsl, stripChars_pipe W (fun c hc => (hchars c hc).1), splitWs_word W (fun c hc => (hchars c hc).2) hnne]
    simp [floatOf, hpf]
  simp only [bne_self_eq_false, Bool.or_self, Bool.false_eq_true, if_false, symOfChar?_symChar p.d.sym hs, hid, hwt, hst]

/-! ## a transition list between `|` -/

theorem splitWs_go_word_tail (u cur tail : Str) (acc : List Str) (h : ∀ c ∈ u, isWs c = false) :
    splitWs.go (u ++ tail) cur acc = splitWs.go tail (u.reverse ++ cur) acc := by
  induction u generalizing cur with
  | nil => rfl
  | cons a l ih =>
    have ha := h a (by simp)
    simp only [List.cons_append, splitWs.go, ha, Bool.false_eq_true, if_false]
    rw [ih (a :: cur) (fun c hc => h c (by simp [hc]))]
    simp only [List.reverse_cons, List.append_assoc, List.singleton_append]

/-- `go` over words separated by single blanks -/
theorem splitWs_go_words (words : List Str) (hw : ∀ w ∈ words, w ≠ [] ∧ ∀ c ∈ w, isWs c = false) (rest : Str) (acc : List Str) :
    splitWs.go ((words.map (· ++ [' '])).flatten ++ rest) [] acc = splitWs.go rest [] (words.reverse ++ acc) := by
  induction words generalizing acc with
  | nil => rfl
  | cons w ws ih =>
    obtain ⟨hne, hnw⟩ := hw w (by simp)
    simp only [List.map_cons, List.flatten_cons, List.append_assoc, List.reverse_cons]
    rw [splitWs_go_word_tail w [] _ acc hnw]
    have hsp : isWs ' ' = true := by decide
    have hcur : (w.reverse).isEmpty = false := by simpa using hne
    simp only [List.singleton_append, splitWs.go, hsp, if_true, hcur, Bool.false_eq_true, if_false, List.append_nil, List.reverse_reverse]
    rw [ih (fun x hx => hw x (by simp [hx]))]

theorem splitWs_words (words : List Str) (last : Str) (hw : ∀ w ∈ words ++ [last], w ≠ [] ∧ ∀ c ∈ w, isWs c = false) :
    splitWs ((words.map (· ++ [' '])).flatten ++ last) = words ++ [last] := by
  unfold splitWs
  rw [splitWs_go_words words (fun w h => hw w (by simp [h])) last []]
  obtain ⟨hne, hnw⟩ := hw last (by simp)
  have := splitWs_go_word_tail last [] [] (words.reverse ++ []) hnw
  rw [List.append_nil] at this
  rw [this]
  have hcur : (last.reverse).isEmpty = false := by simpa using hne
  simp only [splitWs.go, hcur, Bool.false_eq_true, if_false, List.append_nil, List.reverse_cons, List.reverse_reverse]

/-- **parsing `[sym id | W |]`** for any text `W` without `|`: the weights are what `W.split()` reads -/
theorem parseDesc_barred (sym : Sym) (hs : sym ≠ .none) (id : Option Nat) (num : Nat) (pre : Str) (atom : Option Nat)
    (hst : stereoRejected pre = false) (W : Str) (hWpipe : '|' ∉ W) :
    parseDesc (('[' :: symChar sym :: idStr id) ++ ('|' :: W) ++ ['|', ']']) num pre atom =
      (match (splitWs W).mapM floatOf with
       | .error e => .error e
       | .ok [w] => .ok { d := { sym := sym, id := id, order := orderOfPrefix pre, weight := w, trans := none, atom := atom.getD 0 },
                          pre := pre, num := num, noAtom := atom.isNone }
       | .ok l => .ok { d := { sym := sym, id := id, order := orderOfPrefix pre, weight := sumQ l, trans := some l, atom := atom.getD 0 },
                        pre := pre, num := num, noAtom := atom.isNone }) := by
  have hd := idStr_digits id
  -- names for the pieces
  generalize hA : ('[' :: symChar sym :: idStr id) = A
  have hApipe : '|' ∉ A := by
    rw [← hA]
    have h1 : '|' ∉ idStr id := not_mem_of_digits hd '|' (by decide)
    have h2 : symChar sym ≠ '|' := by cases h : sym <;> simp [symChar, h] at hs ⊢
    simp [h1, Ne.symm h2]
  have hraw_eq : A ++ '|' :: W ++ ['|', ']'] = '[' :: symChar sym :: (idStr id ++ '|' :: (W ++ ['|', ']'])) := by
    rw [← hA]; simp
  have hne : (A ++ '|' :: W ++ ['|', ']'] == "[]".toList) = false := by
    rw [hraw_eq]
    cases h : sym <;> simp [symChar, h] at hs ⊢
  unfold parseDesc
  simp only [hne, Bool.false_eq_true, if_false]
  have hraw : (if pre.isEmpty then slice (A ++ '|' :: W ++ ['|', ']']) (some (find (A ++ '|' :: W ++ ['|', ']']) ['['])) none
      else A ++ '|' :: W ++ ['|', ']']) = A ++ '|' :: W ++ ['|', ']'] := by
    split
    · rw [hraw_eq, find_self_head]; exact slice_all _
    · rfl
  simp only [hraw]
  have hi0 : index (A ++ '|' :: W ++ ['|', ']']) 0 = some '[' := by rw [hraw_eq]; simp [index]
  have hi1 : index (A ++ '|' :: W ++ ['|', ']']) 1 = some (symChar sym) := by rw [hraw_eq]; simp [index]
  have hil : index (A ++ '|' :: W ++ ['|', ']']) (-1) = some ']' := by
    have : A ++ '|' :: W ++ ['|', ']'] = (A ++ '|' :: W ++ ['|']) ++ [']'] := by simp
    rw [this]
    unfold index
    simp only [List.length_append, List.length_cons, List.length_nil]
    have h1 : ((-1 : Int) < 0) := by omega
    simp only [h1, if_true]
    have h2 : ¬ ((-1 : Int) + ((A.length + (W.length + 1) + (0 + 1) + (0 + 1) : Nat) : Int) < 0) := by push_cast; omega
    simp only [h2, if_false]
    have h3 : ((-1 : Int) + ((A.length + (W.length + 1) + (0 + 1) + (0 + 1) : Nat) : Int)).toNat = (A ++ '|' :: W ++ ['|']).length := by
      simp only [List.length_append, List.length_cons, List.length_nil]; push_cast; omega
    rw [h3]
    simp
  rw [hi0, hil, hi1]
  -- first and last `|`
  have hfind : find (A ++ '|' :: W ++ ['|', ']']) ['|'] 0 = A.length := by
    have : A ++ '|' :: W ++ ['|', ']'] = A ++ '|' :: (W ++ ['|', ']']) := by simp
    rw [this]; exact find_first '|' A _ hApipe
  have hrfind : rfind (A ++ '|' :: W ++ ['|', ']']) ['|'] = (A ++ '|' :: W).length := by
    have : A ++ '|' :: W ++ ['|', ']'] = (A ++ '|' :: W) ++ '|' :: [']'] := by simp
    rw [this]; exact rfind_last '|' _ [']'] (by decide)
  have hcont : (A ++ '|' :: W ++ ['|', ']']).contains '|' = true := by simp
  -- the id
  have hid : parseId (A ++ '|' :: W ++ ['|', ']']) = .ok id := by
    unfold parseId
    simp only [hcont, if_true, hfind]
    have hsl : slice (A ++ '|' :: W ++ ['|', ']']) (some 2) (some (A.length : Int)) = idStr id := by
      have hAlen : A.length = 2 + (idStr id).length := by rw [← hA]; simp; omega
      have : A ++ '|' :: W ++ ['|', ']'] = ['[', symChar sym] ++ idStr id ++ ('|' :: W ++ ['|', ']']) := by rw [← hA]; simp
      rw [this, hAlen]
      exact slice_mid ['[', symChar sym] (idStr id) _
    rw [hsl]
    have h2 : (idStr id).contains '[' = false := by rw [List.contains_eq_mem]; simpa using not_mem_of_digits hd '[' (by decide)
    have h3 : (idStr id).contains ']' = false := by rw [List.contains_eq_mem]; simpa using not_mem_of_digits hd ']' (by decide)
    simp only [h2, h3, Bool.or_self, Bool.false_eq_true, if_false]
    cases hidc : id with
    | none => simp [idStr]
    | some n =>
      have hne' : idStr (some n) ≠ [] := Nat.toDigits_ne_nil
      have hie : (idStr (some n)).isEmpty = false := by simpa using hne'
      simp only [hie, Bool.false_eq_true, if_false]
      simp only [idStr, parseInt_toDigits]
      simp
  -- the weights
  have hwt : parseWeights (A ++ '|' :: W ++ ['|', ']']) =
      (match (splitWs W).mapM floatOf with
       | .error e => .error e
       | .ok [w] => .ok (w, none)
       | .ok l => .ok (sumQ l, some l)) := by
    unfold parseWeights
    simp only [hcont, if_true]
    have hcnt : count (A ++ '|' :: W ++ ['|', ']']) '|' = 2 := by
      have : A ++ '|' :: W ++ ['|', ']'] = A ++ (['|'] ++ (W ++ (['|'] ++ [']']))) := by simp
      rw [this, count_append, count_append, count_append, count_append, count_zero A '|' hApipe, count_zero W '|' hWpipe]
      decide
    simp only [hcnt, bne_self_eq_false, Bool.false_eq_true, if_false, hfind, hrfind]
    have hsl : slice (A ++ '|' :: W ++ ['|', ']']) (some (A.length : Int)) (some ((A ++ '|' :: W).length : Int)) = '|' :: W := by
      have h1 : A ++ '|' :: W ++ ['|', ']'] = A ++ ('|' :: W) ++ ['|', ']'] := by simp
      have h2 : (A ++ '|' :: W).length = A.length + ('|' :: W).length := by simp
      rw [h1, h2]
      exact slice_mid A ('|' :: W) ['|', ']']
    rw [hsl, stripChars_pipe W (fun c hc e => hWpipe (e ▸ hc))]
    rfl
  simp only [bne_self_eq_false, Bool.or_self, Bool.false_eq_true, if_false, symOfChar?_symChar sym hs, hid, hwt]
  cases hm : (splitWs W).mapM floatOf with
  | error e => simp
  | ok l =>
    match l with
    | [] => simp [hst]
    | [w] => simp [hst]
    | a :: b :: r => simp [hst]

/-- what the round trip needs to know about the printed forms of the entries of a list -/
def NumsTextOK (l : List Rat) : Prop := ∀ w ∈ l, NumTextOK w

/-- **C01 (descriptor with a transition list)**: `[sym id |w1 w2 … wn|]` (n ≥ 2, the weight being the sum of the list, as for every
parsed descriptor) parses back to the same descriptor -/
theorem desc_list_roundtrip (p : PDesc) (hs : p.d.sym ≠ .none) (hst : stereoRejected p.pre = false) (atom : Option Nat)
    (l : List Rat) (htr : p.d.trans = some l) (hlen : 2 ≤ l.length) (hsum : p.d.weight = sumQ l) (hnum : NumsTextOK l) :
    parseDesc (printDesc p true) p.num p.pre atom =
      .ok { d := { sym := p.d.sym, id := p.d.id, order := orderOfPrefix p.pre, weight := p.d.weight, trans := some l, atom := atom.getD 0 },
            pre := p.pre, num := p.num, noAtom := atom.isNone } := by
  -- split the list into its front and its last entry
  obtain ⟨front, last, rfl⟩ : ∃ front last, l = front ++ [last] := by
    cases hl : l.reverse with
    | nil => simp at hl; subst hl; simp at hlen
    | cons a r => exact ⟨r.reverse, a, by rw [← List.reverse_reverse l, hl]; simp⟩
  let W : Str := (front.map (fun t => numStr t ++ [' '])).flatten ++ numStr last
  have hsym : symStr p.d.sym = [symChar p.d.sym] := by
    cases h : p.d.sym <;> simp [symStr, Sym.toChar?, symChar, h] at hs ⊢
  have htext : printDesc p true = ('[' :: symChar p.d.sym :: idStr p.d.id) ++ ('|' :: W) ++ ['|', ']'] := by
    unfold printDesc
    simp only [htr, Option.isSome_some, Bool.true_or, Bool.and_self, if_true, hsym]
    have htake : (['|'] ++ ((front ++ [last]).map (fun t => numStr t ++ [' '])).flatten).take
        ((['|'] ++ ((front ++ [last]).map (fun t => numStr t ++ [' '])).flatten).length - 1) = '|' :: W := by
      have : ['|'] ++ ((front ++ [last]).map (fun t => numStr t ++ [' '])).flatten = ('|' :: W) ++ [' '] := by
        simp [W]
      rw [this]
      simp
    rw [htake]
    have := strip_bracketed '[' ']' (symChar p.d.sym :: (idStr p.d.id ++ '|' :: (W ++ ['|']))) (by decide) (by decide)
    simpa using this
  have hW : ∀ w ∈ front.map numStr ++ [numStr last], w ≠ [] ∧ ∀ c ∈ w, isWs c = false := by
    intro w hw
    simp only [List.mem_append, List.mem_map, List.mem_singleton] at hw
    rcases hw with ⟨t, ht, rfl⟩ | rfl
    · have := hnum t (by simp [ht]); exact ⟨this.2.1, fun c hc => (this.2.2 c hc).2⟩
    · have := hnum last (by simp); exact ⟨this.2.1, fun c hc => (this.2.2 c hc).2⟩
  have hsplit : splitWs W = front.map numStr ++ [numStr last] := by
    have : W = ((front.map numStr).map (· ++ [' '])).flatten ++ numStr last := by simp [W, List.map_map, Function.comp_def]
    rw [this]
    exact splitWs_words (front.map numStr) (numStr last) hW
  have hWpipe : '|' ∉ W := by
    intro hm
    simp only [W, List.mem_append, List.mem_flatten, List.mem_map] at hm
    rcases hm with ⟨x, ⟨t, ht, rfl⟩, hx⟩ | hx
    · simp only [List.mem_append, List.mem_singleton] at hx
      rcases hx with hx | hx
      · exact ((hnum t (by simp [ht])).2.2 _ hx).1 rfl
      · cases hx
    · exact ((hnum last (by simp)).2.2 _ hx).1 rfl
  rw [htext, parseDesc_barred p.d.sym hs p.d.id p.num p.pre atom hst W hWpipe, hsplit]
  have hmap : (front.map numStr ++ [numStr last]).mapM floatOf = (.ok (front ++ [last]) : PR (List Rat)) := by
    have : front.map numStr ++ [numStr last] = (front ++ [last]).map numStr := by simp
    rw [this]
    have hall : ∀ (xs : List Rat), (∀ w ∈ xs, NumTextOK w) → (xs.map numStr).mapM floatOf = (.ok xs : PR (List Rat)) := by
      intro xs
      induction xs with
      | nil => intro _; rfl
      | cons a r ih =>
        intro h
        have ha := (h a (by simp)).1
        simp only [List.map_cons, List.mapM_cons, floatOf, ha]
        rw [ih (fun w hw => h w (by simp [hw]))]
        rfl
    exact hall _ hnum
  rw [hmap]
  -- at least two entries: the list branch
  match hf : front, hlen with
  | [], hlen => simp at hlen
  | a :: r, _ =>
    match r with
    | [] => simp [hsum]
    | b :: r' => simp [hsum]


/-! ## mixture specifiers -/

theorem dropWhile_append_all {p : Char → Bool} (a s : Str) (ha : ∀ c ∈ a, p c = true) : List.dropWhile p (a ++ s) = List.dropWhile p s := by
  induction a with
  | nil => rfl
  | cons x xs ih =>
    have hx := ha x List.mem_cons_self
    simp only [List.cons_append, List.dropWhile_cons, hx, if_true]
    exact ih (fun c hc => ha c (List.mem_cons_of_mem _ hc))

/-- stripping characters of a set from both ends of `a ++ t ++ b` gives `t` when `a` and `b` consist of such characters and `t` neither
    starts nor ends with one -/
theorem stripBy_sandwich (p : Char → Bool) (a t b : Str) (ha : ∀ c ∈ a, p c = true) (hb : ∀ c ∈ b, p c = true)
    (x : Char) (xs : Str) (hx : t = x :: xs) (hhead : p x = false) (y : Char) (ys : Str) (hy : t.reverse = y :: ys) (hlast : p y = false) :
    stripBy p (a ++ t ++ b) = t := by
  unfold stripBy rstripBy lstripBy
  rw [List.append_assoc, dropWhile_append_all a _ ha]
  have h1 : List.dropWhile p (t ++ b) = t ++ b := by
    rw [hx]; simp only [List.cons_append, List.dropWhile_cons, hhead]; rfl
  rw [h1, List.reverse_append, dropWhile_append_all b.reverse _ (fun c hc => hb c (List.mem_reverse.1 hc)), hy]
  simp only [List.dropWhile_cons, hlast]
  rw [show (if false = true then List.dropWhile p ys else y :: ys) = y :: ys from rfl, ← hy, List.reverse_reverse]

/-- what the mixture round trip needs to know about the printed form of a mass / percentage (decidable for every concrete number):
it reads back as the number, holds no `|`, `%` or white space, and neither starts nor ends with `.` -/
def MixNumOK (w : Rat) : Prop :=
  NumTextOK w ∧ (∀ c ∈ numStr w, c ≠ '%') ∧ (numStr w).head? ≠ some '.' ∧ (numStr w).reverse.head? ≠ some '.'

theorem MixNumOK.ends {w : Rat} (h : MixNumOK w) :
    (∃ x xs, numStr w = x :: xs ∧ x ≠ '.') ∧ (∃ y ys, (numStr w).reverse = y :: ys ∧ y ≠ '.') := by
  obtain ⟨⟨-, hne, -⟩, -, hh, hl⟩ := h
  constructor
  · cases hs : numStr w with
    | nil => exact absurd hs hne
    | cons x xs => rw [hs] at hh; exact ⟨x, xs, rfl, fun hx => hh (by simp [hx])⟩
  · cases hs : (numStr w).reverse with
    | nil => exact absurd (List.reverse_eq_nil_iff.1 hs) hne
    | cons y ys => rw [hs] at hl; exact ⟨y, ys, rfl, fun hy => hl (by simp [hy])⟩

theorem contains_iff (s : Str) (c : Char) : s.contains c = true ↔ c ∈ s := List.contains_iff_mem

/-- **C01 (mixture specifier with an absolute mass)**: `.|m|` reads back as the mass `m` -/
theorem mixture_abs_roundtrip (a : Rat) (rel : Option Rat) (h0 : 0 ≤ a) (hok : MixNumOK a) :
    parseMixture (printMix { abs := some a, rel := rel } true) = .ok { abs := some a } := by
  obtain ⟨⟨x, xs, hx, hxd⟩, ⟨y, ys, hy, hyd⟩⟩ := hok.ends
  obtain ⟨⟨hpf, hne, hchars⟩, hpct, -, -⟩ := hok
  have hprint : printMix { abs := some a, rel := rel } true = ['.', '|'] ++ numStr a ++ ['|'] := by
    simp [printMix]
  rw [hprint]
  have hxm : x ∈ numStr a := by rw [hx]; exact List.mem_cons_self
  have hym : y ∈ numStr a := by
    have : y ∈ (numStr a).reverse := by rw [hy]; exact List.mem_cons_self
    exact List.mem_reverse.1 this
  have hstrip : stripChars ".|".toList (['.', '|'] ++ numStr a ++ ['|']) = numStr a := by
    unfold stripChars
    refine stripBy_sandwich _ ['.', '|'] (numStr a) ['|'] ?_ ?_ x xs hx ?_ y ys hy ?_
    · intro c hc; simp at hc; rcases hc with rfl | rfl <;> decide
    · intro c hc; simp at hc; subst hc; decide
    · have := (hchars x hxm).1
      simp [hxd, this]
    · have := (hchars y hym).1
      simp [hyd, this]
  have hnopct : (['.', '|'] ++ numStr a ++ ['|']).contains '%' = false := by
    cases h : (['.', '|'] ++ numStr a ++ ['|']).contains '%' with
    | false => rfl
    | true =>
      have := (contains_iff _ _).1 h
      simp only [List.mem_append, List.mem_cons, List.mem_nil_iff, or_false] at this
      rcases this with (h1 | h1) | h1
      · rcases h1 with h1 | h1 <;> cases h1
      · exact absurd rfl (hpct _ h1)
      · cases h1
  unfold parseMixture
  simp only [List.cons_append, List.nil_append] at hnopct hstrip ⊢
  simp only [hnopct, hstrip, hpf]
  have : ¬ a < 0 := by exact not_lt.mpr h0
  simp [this]

/-- **C01 (mixture specifier with a percentage)**: `.|p%|` reads back as the percentage `p` -/
theorem mixture_rel_roundtrip (r : Rat) (h0 : 0 ≤ r) (h100 : r ≤ 100) (hok : MixNumOK r) :
    parseMixture (printMix { abs := none, rel := some r } true) = .ok { rel := some r } := by
  obtain ⟨⟨x, xs, hx, hxd⟩, ⟨y, ys, hy, hyd⟩⟩ := hok.ends
  obtain ⟨⟨hpf, hne, hchars⟩, hpct, -, -⟩ := hok
  have hprint : printMix { abs := none, rel := some r } true = ['.', '|'] ++ numStr r ++ ['%', '|'] := by
    simp [printMix]
  rw [hprint]
  have hxm : x ∈ numStr r := by rw [hx]; exact List.mem_cons_self
  have hym : y ∈ numStr r := by
    have : y ∈ (numStr r).reverse := by rw [hy]; exact List.mem_cons_self
    exact List.mem_reverse.1 this
  have hstrip : stripChars ".|%".toList (['.', '|'] ++ numStr r ++ ['%', '|']) = numStr r := by
    unfold stripChars
    refine stripBy_sandwich _ ['.', '|'] (numStr r) ['%', '|'] ?_ ?_ x xs hx ?_ y ys hy ?_
    · intro c hc; simp at hc; rcases hc with rfl | rfl <;> decide
    · intro c hc; simp at hc; rcases hc with rfl | rfl <;> decide
    · have h1 := (hchars x hxm).1
      have h2 := hpct x hxm
      simp [hxd, h1, h2]
    · have h1 := (hchars y hym).1
      have h2 := hpct y hym
      simp [hyd, h1, h2]
  have hpctin : (['.', '|'] ++ numStr r ++ ['%', '|']).contains '%' = true := by
    apply (contains_iff _ _).2; simp
  unfold parseMixture
  simp only [List.cons_append, List.nil_append] at hpctin hstrip ⊢
  simp only [hpctin, hstrip, hpf]
  have : ¬ (r < 0 ∨ r > 100) := by
    intro h; rcases h with h | h
    · exact absurd h (not_lt.mpr h0)
    · exact absurd h (not_lt.mpr h100)
  simp [this]

/-- non-vacuity: the printed forms of 450000, 12.5 and 2.5e-05 satisfy the side condition -/
example : MixNumOK 450000 ∧ MixNumOK (25 / 2) ∧ MixNumOK (1 / 40000) := by
  refine ⟨⟨⟨?_, ?_, ?_⟩, ?_, ?_, ?_⟩, ⟨⟨?_, ?_, ?_⟩, ?_, ?_, ?_⟩, ⟨⟨?_, ?_, ?_⟩, ?_, ?_, ?_⟩⟩ <;> decide +kernel


end GBS.P
