import Driver.Codec
import Driver.Handle
