import GBS.Model.Basic
import GBS.Extracted
import GBS.Model.Bond
import GBS.Props.C03
