#!/bin/bash
# offline setup after a fresh restore: regenerate the extracted definitions, build model, proofs and driver
set -e
cd "$(dirname "$0")"
export GBS_REPO="${GBS_REPO:-/repo}"
export PYTHONPATH="$GBS_REPO/src:$(pwd)/harness"
/venv/bin/python harness/extract.py
cd lean
lake build
