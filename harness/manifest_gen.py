#!/usr/bin/env python3
"""writes MANIFEST.json from the table below (kept in one place so that it stays valid)"""
import json
import os

VERIF = os.path.dirname(os.path.dirname(os.path.abspath(__file__)))

CLAIMED = {
    "C03": dict(
        text="Machine-checked Lean 4 theorems (C03_iff, C03_symm, C03_empty, C03_weight_blind, C03_prefix_order*, C03_filter*) about "
             "isCompatible / orderOfPrefix as regenerated from bond.py on every run by the translator, for all descriptors with ids over "
             "all of N; plus an exhaustive correspondence of the extracted definition with the real constructor + is_compatible over the "
             "property's whole finite universe, and the conjugation rule evaluated independently on the implementation.",
        note="Trusted: Lean kernel; axioms propext/Quot.sound; the ast translator (harness/extract.py); RDKit BondType enum values. "
             "The constructor's text parsing is covered by the exhaustive enumeration, not by a theorem (C02 covers it).",
        technique="Lean 4 proof over source-extracted definition + exhaustive differential check",
        ref="7/C03"),
}

NOT_YET = {}


def main():
    props = [json.loads(l) for l in open(os.path.join(VERIF, "properties.jsonl"))]
    checks = []
    na = []
    for p in props:
        pid = p["id"]
        if pid in CLAIMED:
            c = CLAIMED[pid]
            checks.append({
                "property_id": pid,
                "quick_cmd": f"./check {pid} --tier quick",
                "thorough_cmd": f"./check {pid} --tier thorough",
                "evidence_file": f"/verif/evidence/{pid}.json",
                "replay_cmd_template": f"./check {pid} --replay {{path}}",
                "engine": "lean4-model+correspondence",
                "level_claimed": {"category": "proof", "text": c["text"], "design_ref": c["ref"]},
                "level_note": c["note"],
                "technique": c["technique"],
            })
        else:
            na.append({"property_id": pid, "reason": NOT_YET.get(pid, "check not built yet in this round (planned in DESIGN.md section 7); no claim is made")})
    man = {
        "version": 1,
        "setup_cmd": "./setup.sh",
        "hooks": {
            "guard": "INNOCENTBUG_G_BIGSMILES_VERIF",
            "enable": "export INNOCENTBUG_G_BIGSMILES_VERIF=1 (set by ./check; no hook code is needed in /repo so far: every observation point is reachable from outside)",
            "baseline_off_cmd": "cd /repo && env -u INNOCENTBUG_G_BIGSMILES_VERIF /venv/bin/python -m pytest -ra -q -p no:cacheprovider --timeout=900 --continue-on-collection-errors",
            "source_commits": [],
            "add_only": True,
        },
        "engines": [{
            "name": "lean4-model+correspondence",
            "path": "/verif/lean, /verif/harness",
            "serves_properties": sorted(CLAIMED),
            "kind_free_text": "Lean 4.33 theorems about an executable model (lean/GBS), tied to /repo by a translator (harness/extract.py) and a "
                              "differential correspondence check driving the compiled model (lean/Main.lean) and the real code in-process",
        }],
        "checks": checks,
        "not_applicable": na,
        "notes": "See DESIGN.md. ./check <id> rebuilds the extracted Lean definitions and the model from /repo's working tree on every run.",
    }
    with open(os.path.join(VERIF, "MANIFEST.json"), "w") as fh:
        json.dump(man, fh, indent=1)
        fh.write("\n")


if __name__ == "__main__":
    main()
