#!/usr/bin/env python3
"""writes MANIFEST.json from the table below (kept in one place so that it stays valid)"""
import json
import os

VERIF = os.path.dirname(os.path.dirname(os.path.abspath(__file__)))

CLAIMED = {
    "C03": dict(
        text="Machine-checked Lean 4 theorems (C03_iff, C03_symm, C03_empty, C03_weight_blind, C03_prefix_order*, C03_filter*) about "
             "isCompatible / orderOfPrefix as regenerated from bond.py on every run by the translator, for all descriptors with ids over "
             "all of N; plus an exhaustive correspondence of the extracted definition with the real constructor + is_compatible over the "
             "property's whole finite universe, and the conjugation rule evaluated independently on the implementation.",
        note="Trusted: Lean kernel; axioms propext/Quot.sound; the ast translator (harness/extract.py); RDKit BondType enum values. "
             "The constructor's text parsing is covered by the exhaustive enumeration, not by a theorem (C02 covers it).",
        technique="Lean 4 proof over source-extracted definition + exhaustive differential check",
        ref="7/C03"),
    "C04": dict(
        text="Lean 4 invariant proof over the generation model (lean/GBS/Model/Gen.lean): InvR (every inter-residue bond is justified by two "
             "compatible descriptors of that order on the bonded atoms; no descriptor used twice or both used and open) holds of MolGen(token), is "
             "preserved by attach_other and by the four other state changes, hence (generic theorem genMol_pres, induction over fuel/elements) of "
             "every molecule generation returns for every oracle (= every sequence of random choices) on every path. The model is tied to the code by "
             "running both on the same recorded random histories (bonds, residues, open descriptors, every rng.choice call) and an independent oracle "
             "re-derives the justification of every bond on the real RDKit molecule.",
        note="Trusted: Lean kernel; extracted isCompatible; hand-written model Gen.lean validated by the correspondence; RDKit CombineMols/AddBond "
             "append atoms / add exactly that bond; numpy Generator.choice returns an element of its option list.",
        technique="Lean 4 invariant proof (induction over operations, all oracles) + differential correspondence on recorded random histories",
        ref="7/C04"),
    "C05": dict(
        text="Lean 4 proofs (C05_partition, C05_bond_endpoints, C05_tree, C05_mass) that every molecule the generation model returns is a list of "
             "whole token copies on consecutive atom ranges joined by a parent-pointer tree of inter-residue bonds (|bonds| = |residues|-1, all connected "
             "to residue 0), for every oracle; correspondence as for C04 plus an oracle comparing every residue of every generated RDKit molecule with "
             "its token fragment (elements, charges, isotopes, inner bonds), tree-ness, sanitisation, hydrogen counts and mass.",
        note="Partial: sanitisation and hydrogen counts are RDKit's valence model (oracle only, not a theorem); the model's mass is the sum of residue "
             "masses by definition and is compared with MolGen.weight numerically.",
        technique="Lean 4 invariant proof + differential correspondence + RDKit oracle",
        ref="7/C05"),
    "C07": dict(
        text="Lean 4 theorem C07_stop_rule about the model's growLoop for every start state, target, fuel and oracle: k>=1 units; after each of the first "
             "k-1 the added mass did not exceed the target; after unit k it exceeds it or nothing is open; the result is the finalised copy (caps never "
             "compared, start mass subtracted); C07_one_draw: exactly one draw per object before the first unit. Correspondence with forced targets "
             "including exact binary64 ties taken from the implementation's own accumulated masses.",
        note="Trusted as for C04; exact ties are decided on the implementation's own floats by the oracle, the exact-rational model follows the "
             "implementation's branch at ties (1e-9).",
        technique="Lean 4 proof by induction on the loop + forced-target differential check (exact ties)",
        ref="7/C07"),
    "C08": dict(
        text="Lean 4 theorems about choose_compatible_weight's law (sums to 1, proportional when weights differ, uniform when equal incl. all zero, "
             "zero-probability options never returned, empty option list is an error) and about what each kind of pick (open, partner, list, start, "
             "transfer, hand-over) hands to the generator; every rng.choice call of every real run is compared with the model and with an independent "
             "statement of the law; complete decision trees of bounded instances are enumerated with a scripted generator (path probabilities sum to 1). "
             "C08_translated_choose: the weight computation of choose_compatible_weight is TRANSLATED from core.py on every run (Extracted/Choose.lean) and proved equal "
             "to the model's chooseProbs, so the choice laws hold of the code as written now; an unreadable but equivalent rewrite is validated over all weight "
             "vectors of length 1-4 over {0, 1/2, 1, 2, 3} instead. C08_translated_compatIds: the option list (get_compatible_bond_descriptor_ids) is translated "
             "likewise and proved equal to the model's compatibleIds.",
        note="The tree-level normalisation is proved per decision node (C08_choose_sums_to_one) and checked by enumeration for whole trees; "
             "long-run frequencies are not used to decide.",
        technique="Lean 4 proofs of the selection law (weight computation translated from source on every run) + interface-level differential check + exhaustive path enumeration for bounded instances",
        ref="7/C08"),
    "C12": dict(
        text="Lean 4 theorems about estimate, a line-by-line exact-rational model of _estimate_system_molecular_weight and the Mixture setters "
             "(Python truthiness and error points included): C12_consistent (generable => one system mass on every component, each absolute mass is its "
             "percentage of it, percentages sum to 100 within 1e-6, caller's mass kept), C12_percentages_preserved (position by position every percentage the user wrote is still there, whatever the answer), "
             "C12_absolute_preserved (an absolute mass written without percentage is kept exactly when no percentage is inferred), C12_underdetermined, rejection lemmas, and the recorded "
             "completeness counterexample. Correspondence: all 363 shapes of 1-5 components x value patterns x caller mass through the real function, "
             "every resulting field compared; oracle: an independent exact linear-algebra classifier of the specification. C12_translated_setSys / "
             "C12_translated_setRel: the two linked setters of Mixture are TRANSLATED from mixture.py on every run (Extracted/Mixture.lean) and proved equal to the "
             "model's setSys / setRel; an unreadable but equivalent rewrite is validated on 3 024 (state, argument) pairs instead.",
        note="Known finding determined-but-refused (completeness) is reported as KNOWN-FINDING; the accepted-contradiction defect was repaired by a fix: commit "
             "and the model follows the repaired code. binary64 vs exact rationals: compared at 1e-9, decisions at the 1e-6 tolerances are exact.",
        technique="Lean 4 proofs over a line-by-line model (Mixture setters translated from source on every run) + exhaustive differential check + independent classifier oracle",
        ref="7/C12"),
    "C13": dict(
        text="Lean 4 theorems about sysLoop / sysGenerator / sysGenerate (model of system.py:156-186 on top of the generation model): C13_stop (the "
             "accumulated mass before every yielded member is below the system mass and after the last one at least the system mass; induction over "
             "the loop, every oracle), every member is a fully generated genMol result of the picked component, refusal of non-generable systems, "
             "C13_single. Correspondence on systems of 1-4 marker-distinguishable components: members (component, mass, residues) and every rng.choice call.",
        note="Membership on the implementation's output is decided through marker atoms (by construction of the inputs); ties of accumulated and system mass at 1e-9 "
             "are counted as ties.",
        technique="Lean 4 proof by induction on the ensemble loop + differential correspondence with marker-decidable membership",
        ref="7/C13"),
    "C14": dict(
        text="Lean 4: C14_impl_law (the component pick hands rel_i/sum rel to the generator, independent of molecule masses), C14_fair_iff / C14_impl_fair_iff "
             "(over Q, Finset sums: mass shares equal the declared fractions iff p_i is proportional to f_i/mean mass_i; for the implemented law iff all mean "
             "masses are equal), C14_counterexample, C14_realised_share_tendsto (over R, Mathlib filters: for every realised sequence of picks and masses, pick "
             "frequencies -> p and sample mean masses -> m imply realised mass share -> p_i m_i / sum p_j m_j). The check reads the probability vector off the rng.choice interface, measures mean molecule masses and "
             "applies the share formula: the pinned tree violates the property whenever masses differ (KNOWN-FINDING); any other selection law that is unfair "
             "is a new violation.",
        note="Partial: that pick frequencies and sample means converge almost surely (strong law of large numbers) is cited, not formalised; the passage from those "
             "two limits to the realised mass share is a theorem (C14_realised_share_tendsto); the decision is taken at the generator "
             "interface, never from frequencies.",
        technique="Lean 4 algebraic proof (fairness criterion) + interface-level differential check",
        ref="7/C14"),
    "C20": dict(
        text="Lean 4: the cache machine ffCacheStep is extracted from get_assignment_class on every run; C20_cache_refines_pure proves by induction over "
             "every history of typing calls that each call returns the object built from exactly the two files named in that call; C20_assignment_total_or_error "
             "and C20_renumbering about the model of get_type_assignments over an abstract match relation; C20_table decides with decide +kernel, over the rule "
             "and parameter tables extracted from opls.par / ffnonbonded.itp, that every rule's parameter row exists and has the element and mass of the rule's "
             "leading atom primitive (one data typo, opls_420, is exhibited). Correspondence: random call histories with copies of the data files (files opened "
             "observed), the assignment model on RDKit's match sets; oracle: totality incl. hydrogens, element masses, renumbering and history invariance, refusal "
             "of partial molecules.",
        note="RDKit SMARTS matching (which atoms a rule matches, independence of atom numbering) is a parameter of the model: oracle only. The cache defect of the "
             "pinned tree was repaired by a fix: commit; the extracted machine follows the repaired code.",
        technique="Lean 4 proofs over source-extracted cache machine and data tables (decide +kernel) + history-based differential check",
        ref="7/C20"),
    "C01": dict(
        text="Character-level Lean model of all parsers and printers (PyStr/Num/Parse: find/rfind/slicing as in the code, Python number syntax, repr of "
             "floats) tied to the code by a correspondence check on every accepted string (parse dumps field by field, both printed forms, the reading "
             "of the canonical string); Lean theorems for the erasure half (the extension-free form of descriptor / token / object / mixture / molecule "
             "is a function of the erased structure only) and, on characters, the round trip of bond descriptors through the Python string model: "
             "C01_desc_plain_roundtrip, C01_desc_weight_roundtrip (for every weight whose printed form reads back: decidable NumTextOK), C01_desc_empty_roundtrip "
             "(find / rfind / count / negative-index slicing / strip / split lemmas, int(str(n)) = n), C01_desc_list_roundtrip, and of mixture specifiers: "
             "C01_mixture_abs_roundtrip / C01_mixture_rel_roundtrip (.|m| and .|p%| read back as m and p for every number whose printed form satisfies the decidable "
             "MixNumOK, signed-exponent forms such as 2.5e-05 included) and of distributions: C01_distribution_roundtrip + C01_uniform_roundtrip (all six families: the printed form reads back as the same family and parameters through the "
             "substring dispatch, strip, startswith and the model of ast.literal_eval / float of a slice / integer bounds; decidable TokOK on the printed parameters); for whole-number parameters / masses / weights below 10^15 the side conditions are discharged (reprFloat_nat computes the repr text): C01_distribution_roundtrip_nat, C01_uniform_roundtrip_nat, C01_mixture_roundtrip_nat, C01_desc_weight_roundtrip_nat are unconditional; C02_token_lossless gives the token level its raw-text half; C01_translated_printMix: the printed mixture text is TRANSLATED from Mixture.generate_string on every run and proved equal to the model's printMix. After a generate() call the object "
             "still prints its canonical string. The fixed-point, same-object, layout-independence, no-bar, reparse and same-seed-same-molecule "
             "clauses are decided on the implementation by the round-trip oracle over all archetypes x 3 layouts, systems and the documented strings.",
        note="Partial: beyond bond descriptors and mixture specifiers (tokens, objects, molecules) the fixed-point / same-object clauses are not theorems on characters "
             "(fallback of DESIGN.md 7/C01): they are decided by oracle + correspondence; masses printed after binary64 arithmetic are compared numerically (1e-9). Two defects of the pinned tree were repaired (fix: commits).",
        technique="Lean 4 model + erasure, descriptor and mixture round-trip theorems on characters; differential correspondence on characters; round-trip oracle",
        ref="7/C01"),
    "C02": dict(
        text="Lean 4: C02_binding_simulation (the atom_to_bond stack machine of the binding pass simulates the SMILES reading in which a descriptor is an atom, "
             "for all lexeme sequences, any nesting depth; pushPop_eq_steps ties the model's _push_pop_atom_branch to that machine), C02_weight_law (no weight = 1, "
             "list total = sum), C02_token_lossless (for every accepted token text, any length and nesting: the parsed element list spells the stripped text again "
             "character for character once each descriptor element is replaced by the text it was cut from, that text is what the descriptor parser was run on, "
             "descriptors numbered in written order, atom list = atom elements in written order: the scanner and the descriptor cutting lose, duplicate and reorder "
             "nothing), C02_print_is_raw_with_canonical_descriptors, C02_descriptor_numbering (in every accepted stochastic object the k-th descriptor in the order repeat units then "
             "end groups carries descriptor_num = k, and every transition list has one entry per such descriptor: list entry j addresses the descriptor at position j). The character-level model of token.py / bond.py / stochastic.py / molecule.py / system.py is compared with the code field by "
             "field on strings printed from ASTs by an independent printer; the oracle compares every parsed field with what the AST denotes and with RDKit's own "
             "reading of the token in which descriptors are dummy atoms.",
        note="The splitting of stochastic objects / molecules / systems and the number syntax are covered by the correspondence, not by theorems. Tokens with an explicit [H] inside a multi-atom token "
             "are outside the domain (RDKit renumbers). Three defects of the pinned tree were repaired (fix: commits).",
        technique="Lean 4 simulation proof (stack machine vs SMILES semantics) + character-level differential check + RDKit dummy-atom oracle",
        ref="7/C02"),
    "C15": dict(
        text="Lean 4: one theorem per validation branch of the model parsers (unbalanced branches, ')' without '(', unknown descriptor symbol, unknown "
             "distribution, percentage range, negative mass, transition-list length) and per generation guard (not generable, missing prefix, prefix mismatch, "
             "prefix open count, negative weight); C15_parsing_terminates: for EVERY text and every judgement of bracket atoms, parseSystem / parseMol / parseStoch / "
             "parseToken never answer 'out of fuel' (scan consumes a character per step, the descriptor-cutting loop advances a cursor bounded by the number of "
             "characters because no element is empty, the System / Molecule loops strictly shorten the text, no other parser carries fuel), with the two formerly "
             "diverging inputs decided by the kernel. Correspondence: accept / reject / divergence of model and code on every breaking operator x valid instance "
             "and on byte-level mutations; oracle: the operator's expected rejection, a wall-clock bound per parse, the misuse calls.",
        note="Termination is a theorem about the model (whose loops mirror the code's); that the code's loops are the model's is the correspondence (the model never "
             "reports diverge, the code is run under a wall-clock bound). Two defects of the pinned tree (accepted ')(' , non-terminating System) were repaired by fix: commits.",
        technique="Lean 4 proofs of validation branches and loop termination + differential accept/reject check on a malformed stream",
        ref="7/C15"),
    "C16": dict(
        text="Lean model of gen_reaction_graph (the three passes, NetworkX merge semantics) compared edge by edge and attribute by attribute with the real graph of "
             "every molecule; theorems: atom edges exactly for weight >= 0, weight edges join compatible descriptors only, normalisation of the weight rule and "
             "of explicit lists — on the graph model itself: C16_inner_normalised (prob / term_prob of every descriptor node of an object), C16_list_normalised, C16_trans_normalised, "
             "C16_inner_absent —, equality of the written probability with the generator's vector (C08) when weights are not all zero, and the witness that the "
             "code's own validate_graph only checks the last node. Oracle: per-node sums for every descriptor node and the generator's law recomputed from "
             "the parsed object.",
        note="Hypotheses the proof forces (reported, exercised on the code): all compatible weights zero (generator uniform, graph has no edge); a left terminal "
             "with a transition list; a user-written connector offering two compatible positive-weight descriptors (each gets trans_prob 1).",
        technique="Lean 4 proofs about the graph construction + edge-by-edge differential check + per-node oracle",
        ref="7/C16"),
    "C06": dict(
        text="Lean 4, for every molecule description, every fuel and every oracle: C06_certified_generates — when the decidable certificate check `certify es` (Model/Certify.lean: "
             "per stochastic object a mode and a set R of descriptor classes that may be open, searched as a least fixed point and then checked: non-negative weights, every class "
             "can grow into R, can be capped where capping is needed, a descriptor for the right terminal exists after every unit, consecutive elements hand over exactly one "
             "fitting descriptor) accepts, generation raises none of the implementation's errors and every returned molecule has no open descriptor (Lemmas/Progress.lean: progress "
             "and preservation through choose, attach, capOne/capAll, addUnit, finalize, growLoop, getStart, genStoch, genToken, genElems); C06_open_accounting and "
             "C06_every_descriptor_once (a returned molecule without open descriptor has used every descriptor of every residue in exactly one bond) on top of C04/C05's "
             "invariants. The driver evaluates `certify` and the wider syntactic analysis `wellPosed` for every input; the check requires every run (recorded streams, and all "
             "choice sequences for bounded instances) of every molecule either accepts to complete without error, leave nothing open and respect the written element order.",
        note="C06_partial: termination within a bound on the number of oracle events is not a theorem (fuel exhaustion counts as benign); `wellPosed` itself is checked, not proved "
             "- the evidence reports how many well-posed instances carry a certificate (all of them in the quick tier at the time of writing: certificate:wp+cert vs wp-only).",
        technique="Lean 4 progress/preservation proof of a decidable closability certificate + counting/bijection proof, model tied by replaying recorded random histories",
        ref="7/C06"),
    "C09": dict(
        text="Decided by composition, without statistics. Lean 4: C09_stop_interval (with strictly increasing cumulative masses, exactly n units iff the target lies in "
             "[a_(n-1), a_n)), C09_target_interval_of_run (read off a run of the generation model via C07_stop_rule), C09_block_law_normalised (block probabilities "
             "F(a_n)-F(a_(n-1)) telescope), C07_one_draw (one independent draw per object), C09_parameters (documented parameter order on the model parser, six kernel-evaluated instances) and C09_parameter_order (the same for EVERY pair of written numerals of the "
             "literal syntax, all six families: written order = parameter order, no family taken for another; C09_parameter_order_nat: unconditionally for all natural numbers "
             "in decimal digits; C09_parameter_order_decimal: unconditionally for all plain decimal literals ddd.fff). The check "
             "feeds a grid of quantiles through a scripted generator into the real generation of linear chains (1-2 blocks) and requires every block size to be the one "
             "the documented law's closed-form quantile assigns.",
        note="C09_numeric_partial: that SciPy's draw follows the declared law is tied deterministically to closed-form quantiles (C11's grid), not proved. For laws with atoms "
             "F(x-) replaces F(x); near-ties of n*unit mass and the quantile (1e-9) accept both neighbours.",
        technique="Lean 4 proofs (interval characterisation, telescoping) + deterministic quantile-grid check through the real generator",
        ref="7/C09"),
    "C10": dict(
        text="Lean 4 heap model (cells of descriptor fields, deepcopy as fresh allocation, in-place writes): C10_frame (a call that writes only into cells it allocated leaves "
             "every earlier cell unchanged), C10_history_frame (for every history of such calls every cell of every parsed object keeps its post-parse value), and "
             "C10_deterministic for the functional generation model. The check replays random histories of 15-40 calls (generate with seeds / with the global generator, "
             "print, graphs, mirror, elements + caller-side modification, typing, advancing the global generator) on 2-5 objects, digests every mutable field reachable "
             "from every parsed object after every call, checks descriptor identity, and compares every generate output with a baseline from a fresh interpreter.",
        note="Trusted: copy.deepcopy yields objects disjoint from the original (CPython). The write discipline of the code is established by the digest / identity check, "
             "not by a translation of the Python source.",
        technique="Lean 4 frame / history-invariance proof on a heap model + history replay against a fresh-process baseline",
        ref="7/C10"),
    "C11": dict(
        text="Lean 4 (Mathlib, over Q): C11_interval_nonneg and C11_telescope for an abstract monotone CDF; the Flory-Schulz closed form sum_{k<=n} a^2 k (1-a)^(k-1) = "
             "1 - (1-a)^n (1 + a n) with non-negativity, monotonicity, < 1 and the exact tail; the uniform law (monotone CDF, support, interval formula). The check feeds "
             "quantile grids through a scripted generator into draw_mw for six families x parameter regions and compares with closed-form quantiles written from "
             "scipy.special primitives; interval probabilities against closed-form CDF differences; normalisation; documented means; text round trip; rejection of unknown "
             "names; the model's parseDist / printDist against the code.",
        note="C11_numeric_partial: SciPy's binary64 evaluation (cdf, pmf, quantile search) is checked numerically, not proved; gauss / Poisson / gamma normalisation is not "
             "re-proved here (Mathlib has them; log-normal is not in Mathlib v4.33). Schulz-Zimm uses a density at the integers as mass function: its total differs from 1 by "
             "the discretisation error, measured per parameter set (bound 2e-2). The draw defect of the pinned tree was repaired (fix: commit).",
        technique="Lean 4 algebraic proofs (CDF identities) + deterministic quantile / interval grid against closed forms",
        ref="7/C11"),
    "C17": dict(
        text="Lean model of StochasticAtomGraph.generate (node offsets per element and token, static edges both ways, _add_stochastic_bonds incl. the two parallel edges "
             "per listed pair, _add_transition_bonds incl. the empty-terminal-reads-as-$ quirk) compared node by node and edge by edge (multiset, weights) with the real "
             "graph, with and without Schulz-Zimm distributions. Theorems: every stochastic / termination edge leaves a repeat-unit descriptor towards a compatible one "
             "with the source's bond order and the partner's positive weight (C17_stochastic_edges); every transition edge joins repeat-unit (or plain token) descriptors "
             "admitted by the terminals, never leaving an end group (C17_transition_edges, the repaired behaviour); static edges and nodes of a token. Oracle: a graph "
             "built independently from the parsed description (missing / extra edges, kinds, weights).",
        note="Atoms and inner bonds of a token are RDKit's reading of its fragment (parameters of the model). KNOWN-FINDING listed-pair-gets-stochastic-and-termination-edge "
             "(needs the author's intent). One defect (transition edge leaving an end group) repaired by a fix: commit.",
        technique="Lean 4 edge-characterisation proofs + node/edge differential check + independent spec graph",
        ref="7/C17"),
    "C18": dict(
        text="Lean state machine atomGenerate for graph_generate.py (start node search, _add_node with the three permission flags, _fill_static_edges with NetworkX's dfs / "
             "adjacency orders, _next_stochastic_edge / _add_stochastic_connection, _terminate_graph on the live object with the copy swapped back, the Schulz-Zimm draw "
             "map, transitions) replayed on the implementation's recorded random history: node list with stochastic_node, edge list with bond_type, per-element mass list and "
             "every rng.choice call are compared. Theorems: C18_bonds_follow_graph (invariant Inv by induction through fillStatic, terminateLoop, stochLoop, outerLoop, for every "
             "oracle and fuel: every bond of the result joins two generated atoms and carries the bond type of the static edge between their stochastic nodes or of a non-static "
             "graph edge between them; side condition fillClosed g is executable and evaluated by the driver for every graph of the run), C18_edge_lists, C18_deterministic, C18_available_edges (an atom's edge lists contain only graph edges leaving its stochastic node "
             "of the respective kind; a bond target carries none), C18_pick_in_range. Oracle on every generated graph: whole residues, inter-residue bonds along non-static "
             "graph edges of the same order, tree, to_mol sanitises and is connected, equal seeds give equal graphs.",
        note="C18_partial: that residues are whole, the tree shape and termination are decided by the oracle and the correspondence, not by theorems. Two defects of the pinned tree "
             "(multi-atom end groups truncated; to_mol dropped charges) were repaired by fix: commits. RDKit sanitisation: oracle only.",
        technique="Lean 4 executable state machine replayed against the code + bond invariant proved by induction over the generation loops + residue/tree oracle",
        ref="7/C18"),
    "C19": dict(
        text="Lean model chainPoints / chainProb of mol_prob.py restricted to the property's class (start fragments and their probabilities from get_starting_tokens, the "
             "(value, previous) pair accumulated per block, including the start end group's mass that the code adds to element 0). Theorems: C19_equals_generation_prefix / "
             "C19_equals_generation_endgroups (the reported value equals the product over blocks of F(n u) - F((n-1) u) for a prefix start and for massless end-group starts whose "
             "probabilities add up to one), chainProb_no_offset, C19_block_factor (without start "
             "mass the factor is F(n u) - F((n-1) u)), C19_sums_to_one / C19_start_mass_sum (telescoping via C11_telescope: the lengths add up to F(N u) - F(0), with a start "
             "mass m to F(m + N u) - F(m)), C19_start_mass_counterexample (uniform(0,500), m = 72: 1 - 72/500), C19_one_unit_targets / C19_one_unit_factor_gap (one unit is "
             "generated for every target below u; the reported factor misses F(0)), C19_start_probability, C19_prefix_start. The check builds molecules of the class "
             "(prefix / end-group start x 1-3 blocks x symmetric and asymmetric units x end groups x all families), has the REAL generator produce every chain length carrying "
             "1 - 1e-9 of the law (forced targets; generated mass verified), and compares get_ensemble_prob with the model's points evaluated on closed-form CDFs "
             "(correspondence) and with the generation probability (oracle); sums over all lengths; random atom renumberings; another generator seed; foreign molecules -> 0.",
        note="KNOWN-FINDINGs end-group-start-mass-counted (a pinned test value depends on it) and mass-at-or-below-zero-not-counted. Two defects of the pinned tree were "
             "repaired by fix: commits (symmetric fragments depended on the atom order; an uncapped unit at the chain end was accepted). The search over substructure "
             "matches (RDKit) is not modelled: the model is the closed form the search must produce on this class, tied by the correspondence. Float CDFs: closed forms of distref.",
        technique="Lean 4 closed-form model + telescoping proofs + exhaustive-over-lengths differential check against the real generator and closed-form CDFs",
        ref="7/C19"),
}

NOT_YET = {}


def main():
    props = [json.loads(l) for l in open(os.path.join(VERIF, "properties.jsonl"))]
    checks = []
    na = []
    for p in props:
        pid = p["id"]
        if pid in CLAIMED:
            c = CLAIMED[pid]
            checks.append({
                "property_id": pid,
                "quick_cmd": f"./check {pid} --tier quick",
                "thorough_cmd": f"./check {pid} --tier thorough",
                "evidence_file": f"/verif/evidence/{pid}.json",
                "replay_cmd_template": f"./check {pid} --replay {{path}}",
                "engine": "lean4-model+correspondence",
                "level_claimed": {"category": "proof", "text": c["text"], "design_ref": c["ref"]},
                "level_note": c["note"],
                "technique": c["technique"],
            })
        else:
            na.append({"property_id": pid, "reason": NOT_YET.get(pid, "check not built yet in this round (planned in DESIGN.md section 7); no claim is made")})
    man = {
        "version": 1,
        "setup_cmd": "./setup.sh",
        "hooks": {
            "guard": "INNOCENTBUG_G_BIGSMILES_VERIF",
            "enable": "export INNOCENTBUG_G_BIGSMILES_VERIF=1 (set by ./check; no hook code is needed in /repo so far: every observation point is reachable from outside)",
            "baseline_off_cmd": "cd /repo && env -u INNOCENTBUG_G_BIGSMILES_VERIF /venv/bin/python -m pytest -ra -q -p no:cacheprovider --timeout=900 --continue-on-collection-errors",
            "source_commits": [],
            "add_only": True,
        },
        "engines": [{
            "name": "lean4-model+correspondence",
            "path": "/verif/lean, /verif/harness",
            "serves_properties": sorted(CLAIMED),
            "kind_free_text": "Lean 4.33 theorems about an executable model (lean/GBS), tied to /repo by a translator (harness/extract.py) and a "
                              "differential correspondence check driving the compiled model (lean/Main.lean) and the real code in-process",
        }],
        "checks": checks,
        "not_applicable": na,
        "notes": "See DESIGN.md. ./check <id> rebuilds the extracted Lean definitions and the model from /repo's working tree on every run.",
    }
    with open(os.path.join(VERIF, "MANIFEST.json"), "w") as fh:
        json.dump(man, fh, indent=1)
        fh.write("\n")


if __name__ == "__main__":
    main()
