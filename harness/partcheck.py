"""Validation of an extracted part against the code by exhaustive / table comparison.

Used when the translator cannot read the current shape of a source fragment (a harmless rewrite can cause that): the Lean
definitions are then the pinned ones of the last good tree, and the tie between them and the code is checked here over the
whole finite domain of the part instead of being regenerated.  A part without an exhaustive comparison is not validated and the
stale extraction stays a broken tie."""
import itertools
import warnings
from fractions import Fraction


def _bond(driver):
    import gbigsmiles
    import c03
    bad = []
    uni = c03.universe()
    objs = []
    for text, p, meta in uni:
        try:
            objs.append(gbigsmiles.BondDescriptor(text, 0, p, 0))
        except Exception:
            objs.append(None)
    ok = [i for i, o in enumerate(objs) if o is not None]
    res = driver.run([{"op": "COMPATMAT", "ds": [c03.desc_json(objs[i]) for i in ok]}])[0]
    rows = res.get("rows")
    if rows is None:
        return False, "COMPATMAT failed", [res]
    n = 0
    for a, i in enumerate(ok):
        for b, j in enumerate(ok):
            n += 1
            if (rows[a][b] == "1") != bool(objs[i].is_compatible(objs[j])):
                bad.append({"a": uni[i][0], "a_prefix": uni[i][1], "b": uni[j][0], "b_prefix": uni[j][1]})
    alphabet = ["-", "=", "#", "$", ":", "(", ")", "@", "/", "\\", "1", "%"]
    prefixes = [""] + alphabet + ["".join(x) for x in itertools.product(alphabet, repeat=2)]
    outs = driver.run([{"op": "ORDER", "p": p} for p in prefixes])
    for p, o in zip(prefixes, outs):
        try:
            bd = gbigsmiles.BondDescriptor("[$]", 0, p, 0)
            got = (int(bd.bond_type), False)
        except RuntimeError:
            got = (None, True)
        n += 1
        if got[1] != bool(o.get("stereo")) or (not got[1] and got[0] != o.get("o")):
            bad.append({"prefix": p, "impl": got, "model": o})
    return not bad, f"compatibility over {len(ok)}^2 ordered descriptor pairs and bond order / stereo rejection over {len(prefixes)} prefixes ({n} comparisons)", bad[:5]


def _token(driver):
    import gbigsmiles.token as tk
    t = driver.run([{"op": "TABLES"}])[0]
    try:
        single = set(tk._SMILES_SINGLE_LETTER_ATOM)
        double = set(tk._SMILES_DOUBLE_LETTER_ATOM)
    except AttributeError as exc:
        return False, f"atom tables not found in token.py: {exc}", []
    ok = single == set(t["singles"]) and double == set(t["doubles"])
    return ok, "one- and two-letter atom tables equal as sets", [] if ok else [{"impl": [sorted(single), sorted(double)], "model": [t["singles"], t["doubles"]]}]


def _masses(driver):
    import gbigsmiles.chem_resource as cr
    t = driver.run([{"op": "TABLES"}])[0]
    model = {int(z): Fraction(m) for z, m in t["masses"]}
    impl = {int(z): Fraction(repr(float(m))) for z, m in cr.atomic_masses.items()}
    bad = [z for z in set(model) | set(impl) if model.get(z) is None or impl.get(z) is None or abs(model[z] - impl[z]) > Fraction(1, 10 ** 9)]
    return not bad, f"atomic mass table ({len(impl)} elements) equal", [{"z": z, "impl": str(impl.get(z)), "model": str(model.get(z))} for z in bad[:5]]


def _dist(driver):
    """which class `get_distribution` hands a text to, for every set of family names occurring in the text (both orders): read off
    the type of the returned object or, when the class constructor rejects the made-up text, off the traceback (the frame of the
    class's `__init__`) — independent of how the dispatch is written"""
    import gbigsmiles.distribution as dm
    t = driver.run([{"op": "TABLES"}])[0]
    table = [(k, f.split(".")[-1]) for k, f in t["dispatch"]]
    lean_of = {"FlorySchulz": "florySchulz", "Gauss": "gauss", "Uniform": "uniform", "SchulzZimm": "schulzZimm", "LogNormal": "logNormal", "Poisson": "poisson"}
    names = [k for k, _ in table]

    def chosen(text):
        try:
            obj = dm.get_distribution(text)
            return lean_of.get(type(obj).__name__, type(obj).__name__)
        except Exception as exc:  # noqa
            tb = exc.__traceback__
            found = None
            while tb is not None:
                slf = tb.tb_frame.f_locals.get("self")
                if slf is not None and type(slf).__name__ in lean_of and tb.tb_frame.f_code.co_name == "__init__":
                    found = lean_of[type(slf).__name__]
                    break
                tb = tb.tb_next
            return found
    bad = []
    n = 0
    for mask in range(1, 2 ** len(names)):
        present = [nm for b, nm in enumerate(names) if mask >> b & 1]
        for order in (present, present[::-1]):
            text = "|" + " ".join(order) + "(1, 2)|"
            want = next((f for k, f in table if k in text), None)
            got = chosen(text)
            n += 1
            if want != got:
                bad.append({"text": text, "impl": got, "model": want})
    if chosen("|nothing(1)|") is not None:
        bad.append({"text": "|nothing(1)|", "impl": "accepted", "model": "rejected"})
    return not bad, f"class chosen by get_distribution for every non-empty set of family names in the text, both orders ({n} probes)", bad[:5]


class _Stop(Exception):
    pass


VALIDATORS = {"bond": _bond, "token": _token, "masses": _masses, "dist": _dist}


def _choose(driver):
    """the vector `choose_compatible_weight` hands to rng.choice against the pinned `chooseWeightsX`, for every weight vector of
    length 1-4 over {0, 1e-9, 1/2, 1, 1.0000001, 2, 3}: every pattern of equal / different / zero weights of that length occurs"""
    import numpy as np
    import gbigsmiles
    import gbigsmiles.core as core
    from lib import frac, unfrac, close

    class Rec:
        def __init__(self):
            self.p = None
            self.a = None

        def choice(self, a, p=None, **kw):
            self.a, self.p = list(a), None if p is None else [float(x) for x in p]
            return list(a)[0]
    vals = [0.0, 1e-9, 0.5, 1.0, 1.0000001, 2.0, 3.0]       # also weights that are equal only up to a tolerance
    vecs = [v for n in range(1, 5) for v in itertools.product(vals, repeat=n)]
    outs = driver.run([{"op": "CHOOSEX", "ws": [frac(x) for x in v]} for v in vecs])
    bad = []
    for v, o in zip(vecs, outs):
        bds = []
        for x in v:
            bd = gbigsmiles.BondDescriptor("[$]", 0, "", 0)
            bd.weight = x
            bds.append(bd)
        rec = Rec()
        try:
            core.choose_compatible_weight(bds, None, rec)
            got = rec.p
            if rec.a != list(range(len(v))):
                bad.append({"ws": v, "impl_options": rec.a})
                continue
        except Exception as exc:
            got = None
        want = None if "p" not in o else [float(unfrac(x)) for x in o["p"]]
        # a vector of zeros after normalisation: 0/0 in numpy (nan, warning) and x/0 = 0 in Lean's Rat; both are refused by rng.choice
        if got is not None and any(x != x for x in got):
            got = None
        if want is not None and abs(sum(want) - 1.0) > 1e-9:
            want = None
        if (got is None) != (want is None) or (got is not None and not all(close(a, b, 1e-12) for a, b in zip(got, want))):
            bad.append({"ws": v, "impl": got, "model": want})
    # the index filter `get_compatible_bond_descriptor_ids` against the pinned `compatIdsX` (= the model's `compatibleIds`, op IDS):
    # every list of length 0-3 over a small universe of descriptors, for every choice of `bond` in the universe and for None
    import c03
    texts = [("[$]", ""), ("[<]", ""), ("[>]", ""), ("[<1]", ""), ("[>1]", ""), ("[$]", "="), ("[>]", "="), ("[]", "")]
    objs = [gbigsmiles.BondDescriptor(t, 0, pre, 0) for t, pre in texts]
    cases = [(list(ix), b) for n in range(0, 4) for ix in itertools.product(range(len(objs)), repeat=n) for b in [None] + list(range(len(objs)))]
    outs = driver.run([{"op": "IDS", "bds": [c03.desc_json(objs[i]) for i in ix], "b": None if b is None else c03.desc_json(objs[b])} for ix, b in cases])
    for (ix, b), o in zip(cases, outs):
        got = [int(x) for x in core.get_compatible_bond_descriptor_ids([objs[i] for i in ix], None if b is None else objs[b])]
        if o.get("ids") != got:
            bad.append({"list": [texts[i] for i in ix], "bond": None if b is None else texts[b], "impl": got, "model": o.get("ids")})
    return not bad, (f"vector handed to rng.choice for all {len(vecs)} weight vectors of length 1-4 over {vals}; index filter on {len(cases)} "
                     f"(list, bond) pairs over {len(objs)} descriptors"), bad[:5]


VALIDATORS["choose"] = _choose


def _loops(driver):
    """the two loop-ending comparisons of the pinned model against the code at and around exact ties: the grow loop is run with a target equal to
    the added mass after k units (and one ulp below / above it), the ensemble loop with a system mass equal to the accumulated mass of the
    first k members (and one ulp around it); what the code does there (one more unit / member or not) is what the pinned comparison says"""
    import math
    import gbigsmiles
    import genrun
    import c07
    from rng import Recorder
    from lib import frac
    bad, n = [], 0
    for text in ["C{[>][<]CC[>][<]}|uniform(10, 900)|C", "N{[$][$]C(C)C[$][$]}|gauss(200, 50)|O", "{[][<]CCO[>]; [<]C, [>]N []}|uniform(30, 400)|"]:
        case = genrun.parse_case(text, "loops")
        dry = genrun.run_real(case, Recorder(5), [600.0])
        ob = genrun.objects_of(dry["log"])[0]
        added = [m - ob["start"] for m, _ in ob["calls"]]
        for k in (1, 2, 4):
            if k >= len(added):
                continue
            a = added[k - 1]
            for T in (a, math.nextafter(a, -math.inf), math.nextafter(a, math.inf)):
                rec = genrun.run_real(case, Recorder(5), [T])
                o2 = genrun.objects_of(rec["log"])[0]
                stopped_at_k = len(o2["calls"]) == k
                want = driver.run([{"op": "LOOPSX", "a": frac(a), "b": frac(T)}])[0].get("grow")
                n += 1
                if want is None or bool(want) != stopped_at_k:
                    bad.append({"text": text, "units": k, "added": a, "target": T, "impl_stops_here": stopped_at_k, "model_stops_here": want})
    import sysrun
    for text in ["CCF.|60.0%|CCCl.|40.0%|", "CCO.|100.0%|"]:
        sy = sysrun.parse_system(text, 1e6)
        members, err, _ = sysrun.run_system(sy, Recorder(11), max_members=8)
        masses = [float(m.weight) for m in members][:6]
        for k in (1, 3, 5):
            if k > len(masses):
                continue
            acc = 0.0
            for w in masses[:k]:
                acc += w
            for M in (acc, math.nextafter(acc, -math.inf), math.nextafter(acc, math.inf)):
                sy2 = sysrun.parse_system(text, M)
                mem2, err2, _ = sysrun.run_system(sy2, Recorder(11), max_members=12)
                one_more = len(mem2) > k
                want = driver.run([{"op": "LOOPSX", "a": frac(acc), "b": frac(M)}])[0].get("sys")
                n += 1
                if err2 is not None or want is None or bool(want) != one_more:
                    bad.append({"text": text, "members": k, "accumulated": acc, "system_mass": M, "impl_continues": one_more, "model_continues": want, "error": str(err2)})
    return not bad, f"grow loop and ensemble loop at exact ties and one ulp around them ({n} runs)", bad[:5]


VALIDATORS["loops"] = _loops


def _mixture(driver):
    """the two linked setters of `Mixture` against the pinned `setSysX` / `setRelX`: every state over {None, 0, 25, 40.5, 100, 250}^3 for
    (absolute, relative, system) x every argument in {-1, 0, 1e-9, 12.5, 100, 100.0000001, 2500} x both setters; the three fields afterwards
    (or the kind of error) are compared"""
    import gbigsmiles
    from lib import frac, close
    vals = [None, 0.0, 25.0, 40.5, 100.0, 250.0]
    args = [-1.0, 0.0, 1e-9, 12.5, 100.0, 100.0000001, 2500.0]
    ERR = {"negative total system mass": "negMass", "Invalid extra fraction": "badFraction"}
    ops, want = [], []
    for a in vals:
        for r in vals:
            for sy in vals:
                for which in ("sys", "rel"):
                    for v in args:
                        mix = gbigsmiles.Mixture(".")
                        mix._absolute_mass, mix._relative_mass, mix._system_mass = a, r, sy
                        try:
                            if which == "sys":
                                mix.system_mass = v
                            else:
                                mix.relative_mass = v
                            res = ("ok", (mix._absolute_mass, mix._relative_mass, mix._system_mass))
                        except ZeroDivisionError:
                            res = ("err", "zeroDiv")
                        except RuntimeError as exc:
                            res = ("err", next((k2 for k1, k2 in ERR.items() if k1 in str(exc)), "other:" + str(exc)[:40]))
                        enc = lambda x: None if x is None else frac(x)
                        ops.append({"op": "MIXSETX", "which": which, "v": frac(v), "m": {"abs": enc(a), "rel": enc(r), "sys": enc(sy)}})
                        want.append(((a, r, sy), which, v, res))
    got = driver.run(ops)
    bad = []
    for (state, which, v, res), g in zip(want, got):
        if res[0] == "err":
            ok = g.get("ok") is False and g.get("err") == res[1]
        else:
            ok = g.get("ok") is True
            if ok:
                for key, x in zip(("abs", "rel", "sys"), res[1]):
                    y = g["m"].get(key)
                    if (x is None) != (y is None) or (x is not None and not close(x, Fraction(y))):
                        ok = False
        if not ok:
            bad.append({"state": state, "setter": which, "arg": v, "impl": res, "model": g})
    # the printed form (`generate_string`) against the pinned `printMixX`
    pvals = [None, 0.0, 25.0, 40.5, 100.0, 2.0 ** -20, 1e16, 1234567.125]      # floats whose repr is their exact decimal value (the domain of `numStr`)
    pops, pwant = [], []
    for a in pvals:
        for r in pvals:
            for which, flag in (("print", True), ("print0", False)):
                mix = gbigsmiles.Mixture(".")
                mix._absolute_mass, mix._relative_mass = a, r
                pops.append({"op": "MIXSETX", "which": which, "v": "0", "m": {"abs": None if a is None else frac(a), "rel": None if r is None else frac(r), "sys": None}})
                pwant.append(((a, r), which, mix.generate_string(flag)))
    for (state, which, text), g in zip(pwant, driver.run(pops)):
        if g.get("s") != text:
            bad.append({"state": state, "printed": which, "impl": text, "model": g})
    return not bad, f"both Mixture setters on {len(ops)} (state, argument) pairs; generate_string on {len(pops)} states", bad[:5]


VALIDATORS["mixture"] = _mixture


def validate(part, driver):
    """(ok, what was compared, sample of differences)"""
    f = VALIDATORS.get(part)
    if f is None:
        return False, "no exhaustive comparison exists for this part", []
    with warnings.catch_warnings():
        warnings.simplefilter("ignore")
        try:
            return f(driver)
        except Exception as exc:  # noqa
            return False, f"validation raised {type(exc).__name__}: {exc}", []
