"""Validation of an extracted part against the code by exhaustive / table comparison.

Used when the translator cannot read the current shape of a source fragment (a harmless rewrite can cause that): the Lean
definitions are then the pinned ones of the last good tree, and the tie between them and the code is checked here over the
whole finite domain of the part instead of being regenerated.  A part without an exhaustive comparison is not validated and the
stale extraction stays a broken tie."""
import itertools
import warnings
from fractions import Fraction


def _bond(driver):
    import gbigsmiles
    import c03
    bad = []
    uni = c03.universe()
    objs = []
    for text, p, meta in uni:
        try:
            objs.append(gbigsmiles.BondDescriptor(text, 0, p, 0))
        except Exception:
            objs.append(None)
    ok = [i for i, o in enumerate(objs) if o is not None]
    res = driver.run([{"op": "COMPATMAT", "ds": [c03.desc_json(objs[i]) for i in ok]}])[0]
    rows = res.get("rows")
    if rows is None:
        return False, "COMPATMAT failed", [res]
    n = 0
    for a, i in enumerate(ok):
        for b, j in enumerate(ok):
            n += 1
            if (rows[a][b] == "1") != bool(objs[i].is_compatible(objs[j])):
                bad.append({"a": uni[i][0], "a_prefix": uni[i][1], "b": uni[j][0], "b_prefix": uni[j][1]})
    alphabet = ["-", "=", "#", "$", ":", "(", ")", "@", "/", "\\", "1", "%"]
    prefixes = [""] + alphabet + ["".join(x) for x in itertools.product(alphabet, repeat=2)]
    outs = driver.run([{"op": "ORDER", "p": p} for p in prefixes])
    for p, o in zip(prefixes, outs):
        try:
            bd = gbigsmiles.BondDescriptor("[$]", 0, p, 0)
            got = (int(bd.bond_type), False)
        except RuntimeError:
            got = (None, True)
        n += 1
        if got[1] != bool(o.get("stereo")) or (not got[1] and got[0] != o.get("o")):
            bad.append({"prefix": p, "impl": got, "model": o})
    return not bad, f"compatibility over {len(ok)}^2 ordered descriptor pairs and bond order / stereo rejection over {len(prefixes)} prefixes ({n} comparisons)", bad[:5]


def _token(driver):
    import gbigsmiles.token as tk
    t = driver.run([{"op": "TABLES"}])[0]
    try:
        single = set(tk._SMILES_SINGLE_LETTER_ATOM)
        double = set(tk._SMILES_DOUBLE_LETTER_ATOM)
    except AttributeError as exc:
        return False, f"atom tables not found in token.py: {exc}", []
    ok = single == set(t["singles"]) and double == set(t["doubles"])
    return ok, "one- and two-letter atom tables equal as sets", [] if ok else [{"impl": [sorted(single), sorted(double)], "model": [t["singles"], t["doubles"]]}]


def _masses(driver):
    import gbigsmiles.chem_resource as cr
    t = driver.run([{"op": "TABLES"}])[0]
    model = {int(z): Fraction(m) for z, m in t["masses"]}
    impl = {int(z): Fraction(repr(float(m))) for z, m in cr.atomic_masses.items()}
    bad = [z for z in set(model) | set(impl) if model.get(z) is None or impl.get(z) is None or abs(model[z] - impl[z]) > Fraction(1, 10 ** 9)]
    return not bad, f"atomic mass table ({len(impl)} elements) equal", [{"z": z, "impl": str(impl.get(z)), "model": str(model.get(z))} for z in bad[:5]]


def _dist(driver):
    """which class `get_distribution` hands a text to, for every set of family names occurring in the text (both orders): read off
    the type of the returned object or, when the class constructor rejects the made-up text, off the traceback (the frame of the
    class's `__init__`) — independent of how the dispatch is written"""
    import gbigsmiles.distribution as dm
    t = driver.run([{"op": "TABLES"}])[0]
    table = [(k, f.split(".")[-1]) for k, f in t["dispatch"]]
    lean_of = {"FlorySchulz": "florySchulz", "Gauss": "gauss", "Uniform": "uniform", "SchulzZimm": "schulzZimm", "LogNormal": "logNormal", "Poisson": "poisson"}
    names = [k for k, _ in table]

    def chosen(text):
        try:
            obj = dm.get_distribution(text)
            return lean_of.get(type(obj).__name__, type(obj).__name__)
        except Exception as exc:  # noqa
            tb = exc.__traceback__
            found = None
            while tb is not None:
                slf = tb.tb_frame.f_locals.get("self")
                if slf is not None and type(slf).__name__ in lean_of and tb.tb_frame.f_code.co_name == "__init__":
                    found = lean_of[type(slf).__name__]
                    break
                tb = tb.tb_next
            return found
    bad = []
    n = 0
    for mask in range(1, 2 ** len(names)):
        present = [nm for b, nm in enumerate(names) if mask >> b & 1]
        for order in (present, present[::-1]):
            text = "|" + " ".join(order) + "(1, 2)|"
            want = next((f for k, f in table if k in text), None)
            got = chosen(text)
            n += 1
            if want != got:
                bad.append({"text": text, "impl": got, "model": want})
    if chosen("|nothing(1)|") is not None:
        bad.append({"text": "|nothing(1)|", "impl": "accepted", "model": "rejected"})
    return not bad, f"class chosen by get_distribution for every non-empty set of family names in the text, both orders ({n} probes)", bad[:5]


class _Stop(Exception):
    pass


VALIDATORS = {"bond": _bond, "token": _token, "masses": _masses, "dist": _dist}


def validate(part, driver):
    """(ok, what was compared, sample of differences)"""
    f = VALIDATORS.get(part)
    if f is None:
        return False, "no exhaustive comparison exists for this part", []
    with warnings.catch_warnings():
        warnings.simplefilter("ignore")
        try:
            return f(driver)
        except Exception as exc:  # noqa
            return False, f"validation raised {type(exc).__name__}: {exc}", []
