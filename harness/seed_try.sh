#!/bin/bash
# usage: seed_try.sh <patch> <property ids...>  -- applies a patch to /repo, runs the quick checks, undoes it (no bookkeeping)
set -u
patch="$1"; shift
cd /verif
if [ -n "$(git -C /repo status --porcelain -- src)" ]; then echo "refusing: /repo has uncommitted changes under src (they would be lost)"; exit 2; fi
git -C /repo apply "$patch" || { echo "patch does not apply"; exit 2; }
for p in "$@"; do
  out=$(./check "$p" --tier quick 2>&1 | tail -4)
  echo "== $p: $(echo "$out" | grep -c VIOLATION) violation line(s)"; echo "$out" | cut -c1-400 | tail -3
done
git -C /repo checkout -- .
git -C /repo status --short | head -3
