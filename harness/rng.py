"""numpy Generators that record or script the random decisions of the implementation.

The code under test only calls `rng.choice(a, p=p)`; SciPy's `rvs(random_state=rng)` calls `uniform`,
`standard_normal`, `poisson`, `random` (verified on this image).  Both classes are accepted by
`scipy._lib._util.check_random_state` because they subclass numpy.random.Generator."""
import numpy as np


class Recorder(np.random.Generator):
    """delegates to a seeded PCG64 and logs every `choice` call"""

    def __new__(cls, seed=0):
        return super().__new__(cls, np.random.PCG64(seed))

    def __init__(self, seed=0):
        super().__init__(np.random.PCG64(seed))
        self.log = []   # ("choice", options, probs, result) | ("draw", value)

    def choice(self, a, size=None, replace=True, p=None, axis=0, shuffle=True):
        r = super().choice(a, size=size, replace=replace, p=p, axis=axis, shuffle=shuffle)
        opts = list(range(int(a))) if isinstance(a, (int, np.integer)) else [int(x) for x in list(a)]
        probs = None if p is None else [float(x) for x in np.asarray(p).tolist()]
        # a call with `size=` draws a block of results at once: logged with the list of results
        self.log.append(("choice", opts, probs, int(r) if size is None else [int(x) for x in np.asarray(r).ravel().tolist()]))
        return r


class Exhausted(Exception):
    pass


class Scripted(np.random.Generator):
    """answers `choice` from a script of indices *into the option list*; beyond the script it takes the
    first option with positive probability and records the branching factor, which is how all choice
    sequences of a bounded instance are enumerated depth-first.  Draws (`uniform` etc.) are answered
    from `draws` when given (a list of floats consumed in order), else delegated to a seeded PCG64."""

    def __new__(cls, script=(), seed=0, draws=None):
        return super().__new__(cls, np.random.PCG64(seed))

    def __init__(self, script=(), seed=0, draws=None):
        super().__init__(np.random.PCG64(seed))
        self.script = list(script)
        self.pos = 0
        self.log = []
        self.branching = []  # per choice call: list of option positions with p > 0

    def choice(self, a, size=None, replace=True, p=None, axis=0, shuffle=True):
        opts = list(range(int(a))) if isinstance(a, (int, np.integer)) else [int(x) for x in list(a)]
        if len(opts) == 0:
            raise ValueError("'a' cannot be empty unless no samples are taken")
        if p is None:
            probs = [1.0 / len(opts)] * len(opts)
        else:
            probs = [float(x) for x in np.asarray(p, dtype=float).tolist()]
            if len(probs) != len(opts):
                raise ValueError("'a' and 'p' must have same size")
            if any(x != x for x in probs):
                raise ValueError("probabilities contain NaN")
            if any(x < 0 for x in probs):
                raise ValueError("probabilities are not non-negative")
            if abs(sum(probs) - 1.0) > 1e-8:
                raise ValueError("probabilities do not sum to 1")
        live = [k for k, x in enumerate(probs) if x > 0]
        if self.pos < len(self.script):
            k = self.script[self.pos]
        else:
            k = live[0]
        self.pos += 1
        self.branching.append(live)
        self.log.append(("choice", opts, probs, opts[k]))
        return opts[k] if not isinstance(a, (int, np.integer)) else np.int64(opts[k])


class QuantileRNG(np.random.Generator):
    """answers every elementary variate SciPy asks for from ONE scripted quantile q in (0, 1): `uniform` returns
    low + (high-low) q, `random` returns q, `standard_normal` returns the normal quantile of q, `poisson(lam)` the Poisson
    quantile of q.  `choice` always takes the first option of positive probability (used with linear chains only)."""

    def __new__(cls, q=0.5):
        return super().__new__(cls, np.random.PCG64(0))

    def __init__(self, q=0.5):
        super().__init__(np.random.PCG64(0))
        self.q = float(q)
        self.calls = []
        self.log = []

    def _shape(self, v, size):
        if size is None or size == ():
            return v if size is None else np.asarray(v)
        return np.full(size, v)

    def uniform(self, low=0.0, high=1.0, size=None):
        self.calls.append("uniform")
        return self._shape(low + (high - low) * self.q, size)

    def random(self, size=None, dtype=np.float64, out=None):
        self.calls.append("random")
        return self._shape(self.q, size)

    def standard_normal(self, size=None, dtype=np.float64, out=None):
        from scipy.special import ndtri
        self.calls.append("standard_normal")
        return self._shape(float(ndtri(self.q)), size)

    def normal(self, loc=0.0, scale=1.0, size=None):
        from scipy.special import ndtri
        self.calls.append("normal")
        return self._shape(loc + scale * float(ndtri(self.q)), size)

    def poisson(self, lam=1.0, size=None):
        from scipy.special import pdtr
        self.calls.append("poisson")
        k = max(0, int(lam - 10 * np.sqrt(lam) - 10))
        while pdtr(k, lam) < self.q:
            k += 1
        return self._shape(k, size)

    def choice(self, a, size=None, replace=True, p=None, axis=0, shuffle=True):
        opts = list(range(int(a))) if isinstance(a, (int, np.integer)) else [int(x) for x in list(a)]
        probs = [1.0 / len(opts)] * len(opts) if p is None else [float(x) for x in np.asarray(p, dtype=float).tolist()]
        k = next(i for i, x in enumerate(probs) if x > 0)
        self.log.append(("choice", opts, probs, opts[k]))
        return opts[k]
