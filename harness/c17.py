"""C17 — the stochastic atom graph encodes all atoms, static bonds and admissible links."""
import random
import warnings

from rdkit import Chem

import gbigsmiles
from gbigsmiles.stochastic import Stochastic
from gbigsmiles.token import SmilesToken

import gen
import genrun
import sagadapt
from genrun import spec_compatible_bd
from lib import Check, close, unfrac


def spec_graph(mol):
    """the graph the property describes, built independently from the parsed description:
    nodes = atoms of every token in written order; static edges both ways; inside an object, from every repeat-unit descriptor g
    to every compatible descriptor o with positive (listed) weight: stochastic (o on a repeat unit, weight of o or the listed weight)
    or termination (o on an end group); between consecutive elements, from repeat-unit / token descriptors admitted by the right
    terminal to repeat-unit / token descriptors admitted by the left terminal, compatible, with the target's weight"""
    nodes = []
    static = []
    other = []
    off = 0
    el_info = []
    for el in mol._elements:
        toks = [(el, "tok")] if isinstance(el, SmilesToken) else [(t, "rep") for t in el.repeat_tokens] + [(t, "end") for t in el.end_tokens]
        descs = []
        for tok, kind in toks:
            m = Chem.MolFromSmiles(tok.generate_smiles_fragment())
            for a in m.GetAtoms():
                nodes.append((off + a.GetIdx(), a.GetAtomicNum(), a.GetFormalCharge(), bool(a.GetIsAromatic())))
            for b in m.GetBonds():
                i, j, t = b.GetBeginAtomIdx(), b.GetEndAtomIdx(), int(b.GetBondType())
                static.append((off + i, off + j, t))
                static.append((off + j, off + i, t))
            for bd in tok.bond_descriptors:
                descs.append((bd, kind, off + bd.atom_bonding_to))
            off += m.GetNumAtoms()
        el_info.append((el, descs))
        if isinstance(el, Stochastic):
            all_bds = [d[0] for d in descs]
            for g, gk, ga in descs:
                if gk != "rep":
                    continue
                for i, (o, ok, oa) in enumerate(descs):
                    if not spec_compatible_bd(g, o):
                        continue
                    w = float(g.transitions[i]) if g.transitions is not None else float(o.weight)
                    if w <= 0:
                        continue
                    other.append((ga, oa, int(g.bond_type), "stochastic" if ok == "rep" else "termination", w))

    def admitted_by(term, bd):
        """a descriptor is admitted by a terminal descriptor t if it is the one left open for / handed to t: symbol conjugate to t's symbol… the notation
        writes on the terminal the symbol of the *open* descriptor's partner, i.e. bd must be compatible with a descriptor that has t's symbol and id"""
        if term is None:
            return True
        sym = term.descriptor if term.descriptor in ("<", ">") else "$"
        if bd.descriptor_id != term.descriptor_id or int(bd.bond_type) != 1:
            return False
        return (sym, bd.descriptor) in (("$", "$"), ("<", ">"), (">", "<"))
    for (l, ld), (r, rd) in zip(el_info, el_info[1:]):
        rt = l.right_terminal if isinstance(l, Stochastic) else None
        lt = r.left_terminal if isinstance(r, Stochastic) else None
        for a, ak, aa in ld:
            if ak == "end":
                continue
            for b, bk, ba in rd:
                if bk == "end":
                    continue
                if spec_compatible_bd(a, b) and admitted_by(rt, a) and admitted_by(lt, b):
                    other.append((aa, ba, int(a.bond_type), "transition", float(b.weight)))
    return nodes, static, other


def _same_dump(a, b):
    (n1, e1), (n2, e2) = a, b
    if len(n1) != len(n2) or len(e1) != len(e2):
        return False
    for x, y in zip(n1, n2):
        if x[:4] != y[:4] or (x[4] is None) != (y[4] is None) or (x[4] is not None and not (close(x[4], y[4]) and close(x[5], y[5]))):
            return False
    for x, y in zip(sorted(e1), sorted(e2)):
        if x[:3] != y[:3] or not all(close(p, q) for p, q in zip(x[3:], y[3:])):
            return False
    return True


def history_cases(ck, case, with_dist, nodes, edges):
    """the graph is a function of the molecule as it is now, not of what was asked of the object before: a second call gives the same graph,
    and the graph of the mirror image (made AFTER a graph call on the original, same mode) is the graph of the freshly parsed text of the mirror"""
    import gbigsmiles
    inp = {"text": case.text, "with_distribution": with_dist}
    with warnings.catch_warnings():
        warnings.simplefilter("ignore")
        try:
            again = sagadapt.sag_dump(case.mol.gen_stochastic_atom_graph(with_dist).graph)
            if not _same_dump((nodes, edges), again):
                ck.fail("graph-depends-on-call-history", inp, "a second gen_stochastic_atom_graph() call on the same object gives another graph")
            mir = case.mol.gen_mirror()
            gm = sagadapt.sag_dump(mir.gen_stochastic_atom_graph(with_dist).graph)
            fresh = gbigsmiles.Molecule(str(mir))
            gf = sagadapt.sag_dump(fresh.gen_stochastic_atom_graph(with_dist).graph)
        except Exception as exc:
            ck.note(f"mirror / graph raised {type(exc).__name__}: {exc} on {case.text[:80]}")
            return
    ck.count("mirror-after-graph")
    if not _same_dump(gm, gf):
        ck.fail("graph-depends-on-call-history", dict(inp, mirror=str(mir)),
                f"graph of the mirror image made after a graph call differs from the graph of its freshly parsed text: "
                f"nodes {gm[0][:4]} vs {gf[0][:4]}; {len(gm[1])} vs {len(gf[1])} edges")


def main():
    ck = Check("C17")
    ck.do_build()
    rnd = random.Random(ck.seed + 17)
    quick = ck.tier == "quick"
    cases = genrun.corpus_cases() + genrun.gen_cases(rnd, 350 if quick else 12000)
    ops, keep = [], []
    for case in cases:
        mol = case.mol
        sz = sagadapt.is_schulz_zimm(mol)
        with_dist = sz and rnd.random() < 0.7
        with warnings.catch_warnings():
            warnings.simplefilter("ignore")
            try:
                g = mol.gen_stochastic_atom_graph(with_dist).graph
            except Exception as exc:
                ck.fail("graph-raises", {"text": case.text, "with_distribution": with_dist}, f"{type(exc).__name__}: {exc}")
                continue
        nodes, edges = sagadapt.sag_dump(g)
        inp = {"text": case.text, "with_distribution": with_dist}
        ck.case((case.text, with_dist), nontrivial=len(edges) > 0, sample={"text": case.text, "nodes": len(nodes), "edges": len(edges)})
        ck.count("archetype:" + case.archetype)
        ck.count("with_distribution" if with_dist else "without_distribution")
        # ---------- oracle: the independent graph
        snodes, sstatic, sother = spec_graph(mol)
        if [(n[0], n[1], n[2], n[3]) for n in nodes] != snodes:
            ck.fail("nodes", inp, f"graph nodes differ from the atoms of the tokens: {[(n[0], n[1], n[2], n[3]) for n in nodes][:6]} vs {snodes[:6]}")
        got_static = sorted((e[0], e[1], e[2]) for e in edges if e[3] != 0)
        if got_static != sorted(sstatic):
            ck.fail("static-edges", inp, f"missing {sorted(set(sstatic) - set(got_static))[:4]} extra {sorted(set(got_static) - set(sstatic))[:4]}")
        got_other = []
        for u, v, bt, st, sw, tw, trw in edges:
            if st != 0:
                continue
            kind = "stochastic" if sw != 0 else "termination" if tw != 0 else "transition"
            got_other.append((u, v, bt, kind, sw or tw or trw))
        want = sorted(sother)
        got = sorted(got_other)
        wset = {(a, b, c, k) for a, b, c, k, _ in want}
        gset = {(a, b, c, k) for a, b, c, k, _ in got}
        missing = sorted(wset - gset)
        extra = sorted(gset - wset)
        # atoms that carry a repeat-unit descriptor with a transition list
        list_src = set()
        off = 0
        for el in mol._elements:
            toks = [el] if isinstance(el, SmilesToken) else el.repeat_tokens + el.end_tokens
            for tok in toks:
                n = Chem.MolFromSmiles(tok.generate_smiles_fragment()).GetNumAtoms()
                for bd in tok.bond_descriptors:
                    if bd.transitions is not None:
                        list_src.add(off + bd.atom_bonding_to)
                off += n
        if missing:
            ck.fail("edge-missing", inp, f"{missing[:5]}")
        if extra:
            from_lists = all(a in list_src and k in ("termination", "stochastic") for a, _, _, k in extra)
            ck.fail("edge-extra", inp, f"{extra[:5]}", "listed-pair-gets-stochastic-and-termination-edge" if from_lists else None)
        if not missing:
            wmap = {}
            for a, b, c, k, w in want:
                wmap.setdefault((a, b, c, k), []).append(w)
            gmap = {}
            for a, b, c, k, w in got:
                gmap.setdefault((a, b, c, k), []).append(w)
            for key in wmap:
                if key[0] in list_src and key[3] == "termination":
                    continue      # recorded finding: the termination edge of a listed pair carries the descriptor's total weight
                if len(wmap[key]) != len(gmap[key]) or not all(close(x, y) for x, y in zip(sorted(wmap[key]), sorted(gmap[key]))):
                    ck.fail("edge-weight", inp, f"{key}: weights {gmap[key]}, expected {wmap[key]}")
                    break
        ops.append({"op": "SAG", "els": sagadapt.aelems_json(mol, with_dist), "dist": with_dist})
        keep.append((inp, nodes, edges))
        history_cases(ck, case, with_dist, nodes, edges)
    outs = ck.driver.run(ops)
    for (inp, nodes, edges), out in zip(keep, outs):
        mn = sorted((n[0], n[1], n[2], n[3], None if n[4] is None else float(unfrac(n[4])), None if n[5] is None else float(unfrac(n[5]))) for n in out["nodes"])
        me = sorted((e[0], e[1], e[2], float(unfrac(e[3])), float(unfrac(e[4])), float(unfrac(e[5])), float(unfrac(e[6]))) for e in out["edges"])
        okn = len(mn) == len(nodes) and all(a[:4] == b[:4] and (a[4] is None) == (b[4] is None) and (a[4] is None or (close(a[4], b[4]) and close(a[5], b[5]))) for a, b in zip(nodes, mn))
        if not okn:
            ck.mismatch("SAG.nodes", inp, nodes[:5], mn[:5])
            continue
        oke = len(me) == len(edges) and all(a[:3] == b[:3] and all(close(x, y) for x, y in zip(a[3:], b[3:])) for a, b in zip(edges, me))
        if not oke:
            diffs = [(a, b) for a, b in zip(edges, me) if not (a[:3] == b[:3] and all(close(x, y) for x, y in zip(a[3:], b[3:])))][:3]
            ck.mismatch("SAG.edges", inp, (len(edges), diffs), len(me))
    ck.rule = ("one case = one molecule (corpus + all archetypes, with and without Schulz-Zimm distributions); every node and edge of its stochastic atom graph is compared "
               "with the Lean model and with a graph built independently from the parsed description; non-trivial = graph has edges; distinct by (text, mode)")
    ck.extra["assumptions"] = ["atoms / inner bonds of a token are what RDKit reads from its fragment", "NetworkX MultiDiGraph.add_edge adds a parallel edge"]
    ck.finish()


if __name__ == "__main__":
    main()
