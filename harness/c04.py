"""C04 — generation only ever bonds compatible, unused descriptors with their bond order."""
import random

import genrun
from genrun import spec_compatible_bd
from lib import Check


def oracle_c04(rec):
    """on the real molecule: every cross-residue bond joins the attachment atoms of two distinct, so far unused,
    mutually compatible descriptors of the two residues' tokens and has their bond order"""
    s = rec["summary"]
    case = rec["case"]
    out = []
    if s is None:
        return out
    toks = [case.table.tokens[t] if t is not None else None for t in s["inst_tid"]]
    if any(t is None for t in toks):
        out.append(("residue-not-a-written-token", {"text": case.text}, f"instance tokens {s['inst_tid']}", None))
        return out
    inp = {"text": case.text, "events": genrun.history(rec["log"])[:80]}
    # candidate descriptor pairs per bond; then an exact assignment (every descriptor used at most once) by backtracking: a token
    # like [<1][Si][>1] offers two conjugate descriptors on one atom, so a greedy choice can block a later bond
    cands = []
    for (x, y, order) in s["bonds"]:
        i, j = s["owner"][x], s["owner"][y]
        if i is None or j is None or i == j:
            out.append(("bond-endpoint", inp, f"bond {(x, y, order)} owners {(i, j)}", None))
            return out
        lx, ly = x - s["offs"][i], y - s["offs"][j]
        opts = []
        for ka, da in enumerate(toks[i].bond_descriptors):
            if da.atom_bonding_to != lx:
                continue
            for kb, db in enumerate(toks[j].bond_descriptors):
                if db.atom_bonding_to != ly:
                    continue
                if spec_compatible_bd(da, db) and int(da.bond_type) == order and int(db.bond_type) == order:
                    opts.append(((i, ka), (j, kb)))
        if not opts:
            out.append(("bond-without-compatible-unused-descriptors", inp,
                        f"bond atoms {(x, y)} order {order} between residues {i} ({toks[i]}) and {j} ({toks[j]}); "
                        f"no compatible descriptor pair of that order on these atoms", None))
            return out
        cands.append(opts)
    order_idx = sorted(range(len(cands)), key=lambda k: len(cands[k]))
    used = set()
    steps = [0]

    def assign(pos):
        steps[0] += 1
        if steps[0] > 200000:
            return True          # give up searching (never observed): do not raise an alarm on an undecided instance
        if pos == len(order_idx):
            return True
        for a_, b_ in cands[order_idx[pos]]:
            if a_ in used or b_ in used:
                continue
            used.add(a_)
            used.add(b_)
            if assign(pos + 1):
                return True
            used.discard(a_)
            used.discard(b_)
        return False
    import sys
    sys.setrecursionlimit(max(sys.getrecursionlimit(), len(cands) + 1000))
    if not assign(0):
        out.append(("bond-without-compatible-unused-descriptors", inp,
                    f"{len(cands)} cross-residue bonds cannot each be given their own compatible descriptor pair (some descriptor would be used twice)", None))
        return out
    # accounting: used + open = all descriptors
    total = sum(len(t.bond_descriptors) for t in toks)
    if len(used) + len(s["opens"]) != total:
        out.append(("descriptor-accounting", inp, f"{len(used)} used + {len(s['opens'])} open != {total} descriptors", None))
    return out


def bad_list_cases(rnd, n):
    """transition lists that put positive weight on every slot in turn - compatible or not ($, <, > on repeat units and on
    end groups, same id and bond order): weight on an incompatible descriptor must end in an error, never in a bond"""
    out = []
    slots = 7     # A.<  A.>  B.$  B.$  E.<  E.$  E.>
    ids = ["", "1"]
    for k in range(n):
        i = ids[k % 2]
        w = rnd.choice(["1", "2", "0.5"])
        hot = k % slots
        second = rnd.randrange(slots) if rnd.random() < 0.4 else hot
        lst = " ".join(w if j in (hot, second) else "0" for j in range(slots))
        which = rnd.choice(["gt", "lt"])
        a_lt = f"[<{i}|{lst}|]" if which == "lt" else f"[<{i}]"
        a_gt = f"[>{i}|{lst}|]" if which == "gt" else f"[>{i}]"
        left = f"[>{i}]" if which == "gt" else f"[<{i}]"
        # the prefix's open descriptor has the left terminal's symbol; it enters A through the conjugate descriptor, leaving the listed one open
        a = f"{a_lt}CC{a_gt}"
        text = f"F{{{left} {a}, [${i}]CO[${i}] ; [<{i}]C, [${i}]Br, [>{i}]N []}}|uniform(20, 90)|"
        c = genrun.parse_case(text, "bad-list")
        if c is not None:
            out.append(c)
    return out


def main():
    ck = Check("C04")
    ck.do_build()
    rnd = random.Random(ck.seed)
    quick = ck.tier == "quick"
    cases = genrun.corpus_cases() + genrun.big_token_cases() + genrun.order_terminal_cases()
    cases += genrun.gen_cases(rnd, 120 if quick else 2500)
    cases += bad_list_cases(rnd, 28 if quick else 280)
    recs = genrun.run_batch(ck, cases, seeds_per_case=2 if quick else 4, what=("struct", "mass", "choices"), seed_base=ck.seed * 7919,
                            oracles=[oracle_c04], forced=genrun.cap_targets)
    for rec in recs:
        key = (rec["case"].text, tuple(genrun.history(rec["log"])))
        ck.case(key, nontrivial=rec["summary"] is not None and len(rec["summary"]["bonds"]) > 0,
                sample={"text": rec["case"].text, "bonds": rec["summary"]["bonds"][:6]} if rec["summary"] else None)
        if rec["summary"] is not None:
            ck.count("bonds", len(rec["summary"]["bonds"]))
        if rec["case"].archetype == "bad-list":
            if rec["error"] is None:
                # weight may have fallen on the compatible entry only
                pass
            ck.count("bad_list_error" if rec["error"] is not None else "bad_list_ok")
    ck.rule = ("one case = one real generation (string, recorded random history); non-trivial = at least one inter-residue bond; "
               "distinct by (string, history). corpus strings of README/SI/tests + structured generator archetypes + bad transition lists")
    ck.extra["assumptions"] = ["RDKit CombineMols appends atoms; residue atom ranges are contiguous in creation order (cross-checked with PDB residue numbers)"]
    ck.finish()


if __name__ == "__main__":
    main()
