"""adapters between the real generation code and the model's `GEN` op"""
import numpy as np
from rdkit import Chem
from rdkit.Chem import Descriptors as rdDescriptors

import gbigsmiles
from gbigsmiles.stochastic import Stochastic
from gbigsmiles.token import SmilesToken

from lib import frac

_FRAG_CACHE = {}


def frag_info(token):
    """(natoms, heavy-atom mass) of the token's fragment as RDKit reads it"""
    smi = token.generate_smiles_fragment()
    if smi not in _FRAG_CACHE:
        mol = Chem.MolFromSmiles(smi)
        if mol is None:
            _FRAG_CACHE[smi] = None
        else:
            _FRAG_CACHE[smi] = (mol.GetNumAtoms(), float(rdDescriptors.HeavyAtomMolWt(mol)))
    return _FRAG_CACHE[smi]


def desc_json(bd, atom=None):
    did = bd.descriptor_id
    a = getattr(bd, "atom_bonding_to", None)
    if atom is not None:
        a = atom
    return {"s": bd.descriptor, "id": None if did == "" else int(did), "o": int(bd.bond_type), "w": frac(bd.weight),
            "t": None if bd.transitions is None else [frac(x) for x in np.asarray(bd.transitions, dtype=float).tolist()],
            "a": int(a or 0)}


class TokenTable:
    """identity of the written tokens of one molecule (tid = position in this table)"""

    def __init__(self):
        self.tokens = []

    def tid(self, token):
        for i, t in enumerate(self.tokens):
            if t is token:
                return i
        self.tokens.append(token)
        return len(self.tokens) - 1


def token_json(token, table):
    info = frag_info(token)
    if info is None:
        raise ValueError(f"fragment of token {token} is not valid SMILES: {token.generate_smiles_fragment()!r}")
    return {"tid": table.tid(token), "n": info[0], "m": frac(info[1]), "bds": [desc_json(b) for b in token.bond_descriptors]}


def element_json(el, table):
    if isinstance(el, SmilesToken):
        return {"k": "tok", "t": token_json(el, table)}
    if isinstance(el, Stochastic):
        return {"k": "stoch", "left": desc_json(el.left_terminal, 0), "right": desc_json(el.right_terminal, 0),
                "rep": [token_json(t, table) for t in el.repeat_tokens],
                "end": [token_json(t, table) for t in el.end_tokens],
                "dist": el.distribution is not None}
    raise TypeError(type(el))


def molecule_json(mol):
    table = TokenTable()
    els = [element_json(e, table) for e in mol._elements]
    return els, table


class Run:
    """result of one real generation"""
    pass


def run_impl(mol, rng, forced_targets=None):
    """generate with `rng` (Recorder or Scripted); returns Run with events, trace, result.

    Every stochastic element's `draw_mw` is wrapped per instance so that drawn targets are recorded in
    call order with the `choice` calls; `forced_targets` (list, one per draw in order) overrides the
    drawn value *after* the real draw was made (the generator's stream is consumed identically)."""
    r = Run()
    r.error = None
    r.molgen = None
    r.draws = []
    wrapped = []
    k = [0]
    for el in mol._elements:
        if isinstance(el, Stochastic) and el.distribution is not None:
            d = el.distribution
            orig = d.draw_mw

            def wrapper(rng_=None, _orig=orig):
                v = _orig(rng_)
                v = float(v)
                if forced_targets is not None and k[0] < len(forced_targets) and forced_targets[k[0]] is not None:
                    v = float(forced_targets[k[0]])
                k[0] += 1
                rng.log.append(("draw", v))
                r.draws.append(v)
                return v
            d.draw_mw = wrapper
            wrapped.append(d)
    import contextlib
    import io
    try:
        with contextlib.redirect_stdout(io.StringIO()):   # attach_other prints the descriptor list before raising
            r.molgen = mol.generate(rng=rng)
    except Exception as exc:  # noqa
        r.error = exc
    finally:
        for d in wrapped:
            try:
                del d.draw_mw
            except AttributeError:
                pass
    r.log = list(rng.log)
    return r


def events_json(log):
    ev = []
    for item in log:
        if item[0] == "choice":
            ev.append({"p": item[3]})
        elif item[0] == "draw":
            ev.append({"d": frac(item[1])})
    return ev


def impl_summary(molgen, table):
    """observable result of a generation: residue instances (token id per instance, atom ranges), bonds between
    residues with order, residue-tree edges, open descriptors, mass"""
    g = molgen.graph
    mol = molgen._mol
    nodes = sorted(g.nodes())
    sizes = []
    for n in nodes:
        smi = g.nodes[n]["smiles"]
        m = Chem.MolFromSmiles(smi)
        sizes.append(m.GetNumAtoms())
    offs = [0]
    for s in sizes:
        offs.append(offs[-1] + s)
    natoms = mol.GetNumAtoms()
    owner = [None] * natoms
    for i in range(len(nodes)):
        for a in range(offs[i], min(offs[i + 1], natoms)):
            owner[a] = i
    # token identity per instance via the PDB residue number of its first atom (= token.res_id)
    by_res = {}
    for t_i, t in enumerate(table.tokens):
        by_res.setdefault(t.res_id, []).append(t_i)
    inst_tid = []
    for i in range(len(nodes)):
        if offs[i] < natoms:
            info = mol.GetAtomWithIdx(offs[i]).GetPDBResidueInfo()
            rid = info.GetResidueNumber() if info is not None else None
        else:
            rid = None
        cands = by_res.get(rid, [])
        big = g.nodes[nodes[i]].get("big_smiles")
        pick = None
        for c in cands:
            if str(table.tokens[c]) == big:
                pick = c
                break
        if pick is None and cands:
            pick = cands[0]
        inst_tid.append(pick)
    bonds = []
    inner = [[] for _ in nodes]
    for b in mol.GetBonds():
        a, c = b.GetBeginAtomIdx(), b.GetEndAtomIdx()
        if owner[a] is None or owner[c] is None or owner[a] != owner[c]:
            x, y = min(a, c), max(a, c)
            bonds.append((x, y, int(b.GetBondType())))
        else:
            i = owner[a]
            inner[i].append((min(a, c) - offs[i], max(a, c) - offs[i], int(b.GetBondType())))
    edges = sorted((min(u, v), max(u, v), int(d.get("bond_type", 0))) for u, v, d in g.edges(data=True))
    opens = [dict(desc_json(bd), node=int(bd.node_idx)) for bd in molgen.bond_descriptors]
    return {"natoms": natoms, "sizes": sizes, "offs": offs, "owner": owner, "inst_tid": inst_tid, "bonds": sorted(bonds),
            "inner": inner, "edges": edges, "opens": opens, "mass": float(molgen.weight), "total_atoms_expected": offs[-1]}


def model_gen_op(els, events, fuel=100000):
    return {"op": "GEN", "els": els, "ev": events, "fuel": fuel}
