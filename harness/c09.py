"""C09 — block sizes in an ensemble follow the declared molecular-weight distribution.

Decided by composition, deterministically: a grid of quantiles is fed through a scripted generator into the REAL generation
of linear chains; the number of units of every block must be the one the documented law assigns to that quantile
(first cumulative unit mass that exceeds the law's quantile), each block consuming its own draw."""
import math
import random
import warnings

import numpy as np
from rdkit.Chem import Descriptors as rdD

import gbigsmiles
from gbigsmiles.stochastic import Stochastic

import distref
import genrun
from genadapt import frag_info
from lib import Check
from rng import QuantileRNG

UNITS = [("CC", None), ("C(C)C", None), ("CC(c1ccccc1)", None), ("COC", None), ("C", None)]


class TwoQuantiles(QuantileRNG):
    """a different scripted quantile for each successive draw (one per stochastic object)"""

    def __new__(cls, qs):
        return super().__new__(cls, qs[0])

    def __init__(self, qs):
        super().__init__(qs[0])
        self.qs = list(qs)
        self.k = 0

    def _next(self):
        self.q = self.qs[min(self.k, len(self.qs) - 1)]
        self.k += 1

    def uniform(self, low=0.0, high=1.0, size=None):
        self._next()
        return super().uniform(low, high, size)

    def standard_normal(self, size=None, dtype=np.float64, out=None):
        self._next()
        return super().standard_normal(size)

    def poisson(self, lam=1.0, size=None):
        self._next()
        return super().poisson(lam, size)


def expected_units(ref, q, unit_mass):
    """least n >= 1 with n * unit_mass > quantile(q)"""
    T = ref.quantile(q)
    n = max(1, math.floor(T / unit_mass + 1e-12) + 1)
    # guard against rounding at exact multiples: decide with the same float product the implementation accumulates
    while n > 1 and (n - 1) * unit_mass > T:
        n -= 1
    while n * unit_mass <= T:
        n += 1
    return n, T


def main():
    ck = Check("C09")
    ck.do_build()
    rnd = random.Random(ck.seed + 9)
    quick = ck.tier == "quick"
    nq = 40 if quick else 400
    grid = [(i + 0.5) / nq for i in range(nq)]
    total_objects = 0
    for fam, params, text in distref.param_grid(rnd, quick):
        ref = distref.reference(fam, params)
        if ref.mean > 1600 and quick:
            continue        # thousands of residues per molecule: thorough tier only
        if ref.mean > 6000:
            continue
        unit, _ = rnd.choice(UNITS)
        unit2, _ = rnd.choice([u for u in UNITS if u[0] != unit])
        two = rnd.random() < 0.4
        mtext = f"C{{[>][<]{unit}[>][<]}}|{text}|" + (f"{{[>][<]{unit2}[>][<]}}|{text}|" if two else "") + "O"
        with warnings.catch_warnings():
            warnings.simplefilter("ignore")
            try:
                mol = gbigsmiles.Molecule(mtext)
            except Exception as exc:
                ck.fail("valid-molecule-rejected", {"text": mtext}, f"{type(exc).__name__}: {exc}")
                continue
            sts = [e for e in mol._elements if isinstance(e, Stochastic)]
            masses = [frag_info(s.repeat_tokens[0])[1] for s in sts]
            hist = {}
            tot_ref = getattr(ref, "total", 1.0)
            for q in grid:
                qs = [q, grid[(grid.index(q) * 7 + 3) % nq]] if two else [q]
                if any(x >= tot_ref - 1e-9 for x in qs):
                    continue
                rng = TwoQuantiles(qs)
                try:
                    g = mol.generate(rng=rng)
                except Exception as exc:
                    ck.fail("generation-raises", {"text": mtext, "quantiles": qs}, f"{type(exc).__name__}: {exc}")
                    break
                ndraw = sum(1 for c in rng.calls if c in ("uniform", "standard_normal", "poisson"))
                if ndraw != len(sts):
                    ck.fail("draws-per-generation", {"text": mtext, "quantiles": qs}, f"{ndraw} elementary draws for {len(sts)} stochastic objects")
                    break
                # units per block from the residue graph (creation order: prefix, block 1 units, block 2 units, suffix)
                names = [g.graph.nodes[n]["smiles"] for n in sorted(g.graph.nodes())]
                counts = []
                pos = 1
                for s in sts:
                    frag = s.repeat_tokens[0].generate_smiles_fragment()
                    k = 0
                    while pos < len(names) - 1 and names[pos] == frag:
                        k += 1
                        pos += 1
                    counts.append(k)
                for j, (k, m) in enumerate(zip(counts, masses)):
                    want, T = expected_units(ref, qs[j], m)
                    ck.evaluations += 1
                    total_objects += 1
                    near = any(abs(n * m - T) <= 1e-9 * max(1.0, abs(T)) for n in (want - 1, want))
                    if k != want and not near:
                        ck.fail("block-size-is-not-the-declared-law", {"text": mtext, "quantiles": qs, "block": j},
                                f"quantile {qs[j]} of {text} is {T!r}; unit mass {m}: the block must have {want} units, generated {k}")
                        break
                    hist[k] = hist.get(k, 0) + 1
                else:
                    continue
                break
        ck.distinct.add(mtext)
        ck.count("family:" + fam)
        if len(ck.samples) < 6:
            ck.samples.append({"text": mtext, "quantiles": nq, "block_size_histogram": dict(sorted(hist.items())[:8])})
    ck.count("objects", total_objects)
    ck.rule = ("one case = one generated block: (family x parameter region x unit mass, one or two blocks per molecule) x a grid of quantiles fed through a scripted "
               "generator into the real generation; the block size must be the one the documented law (closed-form quantile) assigns; distinct = molecules; "
               "no statistics are used in the quick tier")
    ck.extra["assumptions"] = ["SciPy draws via the inverse CDF of one elementary variate", "C07 (stop rule) and C11 (the law's quantiles) are checked separately; this check composes them on the real code"]
    ck.finish()


if __name__ == "__main__":
    main()
