"""C09 — block sizes in an ensemble follow the declared molecular-weight distribution.

Decided by composition, deterministically: a grid of quantiles is fed through a scripted generator into the REAL generation
of linear chains; the number of units of every block must be the one the documented law assigns to that quantile
(first cumulative unit mass that exceeds the law's quantile), each block consuming its own draw."""
import math
import random
import warnings

import numpy as np
from rdkit.Chem import Descriptors as rdD

import gbigsmiles
from gbigsmiles.stochastic import Stochastic

import distref
import genrun
from genadapt import frag_info
from lib import Check
from rng import QuantileRNG

UNITS = [("CC", None), ("C(C)C", None), ("CC(c1ccccc1)", None), ("COC", None), ("C", None)]


class TwoQuantiles(QuantileRNG):
    """a different scripted quantile for each successive draw (one per stochastic object)"""

    def __new__(cls, qs):
        return super().__new__(cls, qs[0])

    def __init__(self, qs):
        super().__init__(qs[0])
        self.qs = list(qs)
        self.k = 0

    def _next(self):
        self.q = self.qs[min(self.k, len(self.qs) - 1)]
        self.k += 1

    def uniform(self, low=0.0, high=1.0, size=None):
        self._next()
        return super().uniform(low, high, size)

    def standard_normal(self, size=None, dtype=np.float64, out=None):
        self._next()
        return super().standard_normal(size)

    def poisson(self, lam=1.0, size=None):
        self._next()
        return super().poisson(lam, size)


def expected_units(ref, q, unit_mass):
    """least n >= 1 with n * unit_mass > quantile(q)"""
    T = ref.quantile(q)
    n = max(1, math.floor(T / unit_mass + 1e-12) + 1)
    # guard against rounding at exact multiples: decide with the same float product the implementation accumulates
    while n > 1 and (n - 1) * unit_mass > T:
        n -= 1
    while n * unit_mass <= T:
        n += 1
    return n, T


def work(item):
    """one (family, parameters, unit masses) molecule: the whole quantile grid through the real generator"""
    fam, params, text, unit, unit2, two, nq = item
    warnings.simplefilter("ignore")
    grid = [(i + 0.5) / nq for i in range(nq)]
    ref = distref.reference(fam, params)
    out = {"fails": [], "evaluations": 0, "objects": 0, "fam": fam, "hist": {}}
    mtext = f"C{{[>][<]{unit}[>][<]}}|{text}|" + (f"{{[>][<]{unit2}[>][<]}}|{text}|" if two else "") + "O"
    out["mtext"] = mtext
    try:
        mol = gbigsmiles.Molecule(mtext)
    except Exception as exc:
        out["fails"].append(("valid-molecule-rejected", {"text": mtext}, f"{type(exc).__name__}: {exc}"))
        return out
    sts = [e for e in mol._elements if isinstance(e, Stochastic)]
    masses = [frag_info(s.repeat_tokens[0])[1] for s in sts]
    hist = out["hist"]
    tot_ref = getattr(ref, "total", 1.0)
    for qi, q in enumerate(grid):
        qs = [q, grid[(qi * 7 + 3) % nq]] if two else [q]
        if any(x >= tot_ref - 1e-9 for x in qs):
            continue
        rng = TwoQuantiles(qs)
        try:
            g = mol.generate(rng=rng)
        except Exception as exc:
            out["fails"].append(("generation-raises", {"text": mtext, "quantiles": qs}, f"{type(exc).__name__}: {exc}"))
            break
        ndraw = sum(1 for c in rng.calls if c in ("uniform", "standard_normal", "poisson"))
        if ndraw != len(sts):
            out["fails"].append(("draws-per-generation", {"text": mtext, "quantiles": qs}, f"{ndraw} elementary draws for {len(sts)} stochastic objects"))
            break
        # units per block from the residue graph (creation order: prefix, block 1 units, block 2 units, suffix)
        names = [g.graph.nodes[n]["smiles"] for n in sorted(g.graph.nodes())]
        counts = []
        pos = 1
        for s in sts:
            frag = s.repeat_tokens[0].generate_smiles_fragment()
            k = 0
            while pos < len(names) - 1 and names[pos] == frag:
                k += 1
                pos += 1
            counts.append(k)
        bad = False
        for j, (k, m) in enumerate(zip(counts, masses)):
            want, T = expected_units(ref, qs[j], m)
            out["evaluations"] += 1
            out["objects"] += 1
            near = any(abs(n * m - T) <= 1e-9 * max(1.0, abs(T)) for n in (want - 1, want))
            if k != want and not near:
                out["fails"].append(("block-size-is-not-the-declared-law", {"text": mtext, "quantiles": qs, "block": j},
                                     f"quantile {qs[j]} of {text} is {T!r}; unit mass {m}: the block must have {want} units, generated {k}"))
                bad = True
                break
            hist[k] = hist.get(k, 0) + 1
        if bad:
            break
    return out


def main():
    import multiprocessing as mp
    ck = Check("C09")
    ck.do_build()
    rnd = random.Random(ck.seed + 9)
    quick = ck.tier == "quick"
    nq = 40 if quick else 160
    items = []
    for fam, params, text in distref.param_grid(rnd, quick):
        ref = distref.reference(fam, params)
        if ref.mean > 1600 and quick:
            continue        # thousands of residues per molecule: thorough tier only
        if ref.mean > 3500:
            continue        # (chains of more than ~150 units: generation is quadratic in the chain length)
        unit, _ = rnd.choice(UNITS)
        unit2, _ = rnd.choice([u for u in UNITS if u[0] != unit])
        two = rnd.random() < 0.4
        items.append((fam, params, text, unit, unit2, two, nq))
    if not quick:
        # one block of 85 kDa (a support of millions of integer masses, where the library takes the normalisation constant of Schulz-Zimm as 1),
        # built from a heavy unit so that the chain stays short
        heavy_unit = "C(I)(I)" * 16
        items.append(("schulz_zimm", [127500.0, 85000.0], "schulz_zimm(127500.0, 85000.0)", heavy_unit, "CC", False, 6))
    # heavy molecules first, so that the pool is balanced
    order = sorted(range(len(items)), key=lambda i: -distref.reference(items[i][0], items[i][1]).mean)
    with mp.get_context("fork").Pool(min(16, len(items)), initializer=genrun._limit_worker) as pool:
        res = pool.map(work, [items[i] for i in order], chunksize=1)
    results = [None] * len(items)
    for i, r in zip(order, res):
        results[i] = r
    total_objects = 0
    for r in results:
        for kind, inp, detail in r["fails"]:
            ck.fail(kind, inp, detail)
        ck.evaluations += r["evaluations"]
        total_objects += r["objects"]
        ck.distinct.add(r["mtext"])
        ck.count("family:" + r["fam"])
        if len(ck.samples) < 6:
            ck.samples.append({"text": r["mtext"], "quantiles": nq, "block_size_histogram": dict(sorted(r["hist"].items())[:8])})
    ck.count("objects", total_objects)
    # ---- blocks whose mass does not grow by one repeat unit per step: comb units that attach HEAVY end groups during growth through a transition
    # list (they belong to the block's mass: the block stops at the first attachment that exceeds the drawn target); decided by the stop-rule
    # oracle of C07 on real runs with free draws of the declared distribution
    import c07
    comb = []
    for _ in range(6 if quick else 60):
        w_side, w_end = rnd.choice(["1", "0.5", "3"]), rnd.choice(["1", "2", "5"])
        side_end, cap = rnd.choice(["Br", "Cl", "CS", "I"]), rnd.choice(["F", "O", "CC"])
        lo = rnd.choice([60, 150])
        fam = rnd.choice([f"uniform({lo}, {lo + rnd.choice([200, 500])})", f"gauss({lo + 200}, {rnd.choice([20, 80])})", f"schulz_zimm({2 * lo + 300}, {lo + 200})"])
        comb.append(f"C{{[>] [<]CC([>2|0 0 0 {w_end} 0|])C[>|{w_side}|]; [<2]{side_end}, [<]{cap} [<]}}|{fam}|N")
    ccases = []
    for t in comb:
        try:
            ccases.append(genrun.parse_case(t, "comb"))
        except Exception as exc:
            ck.note(f"comb instance rejected: {t}: {type(exc).__name__}: {exc}")
    if ccases:
        crecs = genrun.run_batch(ck, ccases, seeds_per_case=4 if quick else 8, what=("struct", "mass"), seed_base=ck.seed * 7919 + 9,
                                 oracles=[c07.oracle_c07], forced=lambda c: ("free", 1), runner=c07.runner)
        ck.count("comb-blocks", len(crecs))
        for rec in crecs:
            ck.distinct.add(rec["case"].text)
    ck.rule = ("one case = one generated block: (family x parameter region x unit mass, one or two blocks per molecule) x a grid of quantiles fed through a scripted "
               "generator into the real generation; the block size must be the one the documented law (closed-form quantile) assigns; distinct = molecules; "
               "no statistics are used in the quick tier")
    ck.extra["assumptions"] = ["SciPy draws via the inverse CDF of one elementary variate", "C07 (stop rule) and C11 (the law's quantiles) are checked separately; this check composes them on the real code"]
    ck.finish()


if __name__ == "__main__":
    main()
