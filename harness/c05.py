"""C05 — a generated molecule is a tree of whole, unmodified copies of the written tokens."""
import random
import re

from rdkit import Chem
from rdkit.Chem import Descriptors as rdD

import genrun
from genadapt import frag_info
from lib import Check

NORMAL_VALENCE = {5: (3,), 6: (4,), 7: (3,), 8: (2,), 9: (1,), 15: (3, 5), 16: (2, 4, 6), 17: (1,), 35: (1,), 53: (1, 3, 5)}


_DESC = re.compile(r"\[[$<>][^\]]*\]")
_BRACKET = re.compile(r"\[(\d*)([A-Z][a-z]?|[a-z]{1,2})")


def written_symbols(raw_text):
    """element symbols of a token in written order, read off the WRITTEN text by a tokenizer of the SMILES organic subset that is
    independent of the library's (bracket atoms, Cl / Br, B C N O P S F I, aromatic b c n o p s); hydrogens are left out"""
    text = _DESC.sub("", raw_text)
    out = []
    i = 0
    while i < len(text):
        ch = text[i]
        if ch == "[":
            j = text.find("]", i)
            m = _BRACKET.match(text, i)
            if m:
                sym = m.group(2)
                out.append(sym[0].upper() + sym[1:])
            i = (j + 1) if j >= 0 else len(text)
            continue
        if text[i:i + 2] in ("Cl", "Br"):
            out.append(text[i:i + 2])
            i += 2
            continue
        if ch in "BCNOPSFI":
            out.append(ch)
        elif ch in "bcnops":
            out.append(ch.upper())
        i += 1
    return [x for x in out if x != "H"]


def written_bonds(raw_text):
    """inner bonds (i, j, RDKit bond type) of a token in written atom numbering, read by RDKit off the WRITTEN text in which every bond
    descriptor is replaced by a dummy atom (independent of the library's own fragment string); None when that reading is not available"""
    if "[H]" in raw_text:
        return None          # explicit hydrogens are dropped by RDKit: the numbering of the written text no longer applies
    text = _DESC.sub("[*]", raw_text.strip())
    try:
        mol = Chem.MolFromSmiles(text)
    except Exception:
        return None
    if mol is None:
        return None
    real = {}
    for a in mol.GetAtoms():
        if a.GetAtomicNum() != 0:
            real[a.GetIdx()] = len(real)
    out = []
    for b in mol.GetBonds():
        i, j = b.GetBeginAtomIdx(), b.GetEndAtomIdx()
        if i in real and j in real:
            out.append((min(real[i], real[j]), max(real[i], real[j]), int(b.GetBondType())))
    return len(real), sorted(out)


def oracle_c05(rec):
    out = []
    s = rec["summary"]
    case = rec["case"]
    if s is None:
        return out
    inp = {"text": case.text, "events": genrun.history(rec["log"])[:80]}
    molgen = rec["run"].molgen
    raw = molgen._mol
    toks = [case.table.tokens[t] if t is not None else None for t in s["inst_tid"]]
    if any(t is None for t in toks):
        return [("residue-not-a-written-token", inp, str(s["inst_tid"]), None)]
    if s["total_atoms_expected"] != s["natoms"]:
        out.append(("atom-count", inp, f"{s['natoms']} atoms, residues account for {s['total_atoms_expected']}", None))
        return out
    # every residue instance is an unmodified copy of its token's fragment
    for i, tok in enumerate(toks):
        frag = Chem.MolFromSmiles(tok.generate_smiles_fragment())
        off = s["offs"][i]
        ws = written_symbols(tok._raw_text)
        fs = [a.GetSymbol() for a in frag.GetAtoms() if a.GetAtomicNum() != 1]
        if ws != fs:
            out.append(("residue-differs-from-written-token", inp, f"token written as {tok._raw_text!r} has atoms {ws}; its residues are built from {fs}", None))
        wb = written_bonds(tok._raw_text)
        if wb is not None and wb[0] == frag.GetNumAtoms():
            fb0 = sorted((min(b.GetBeginAtomIdx(), b.GetEndAtomIdx()), max(b.GetBeginAtomIdx(), b.GetEndAtomIdx()), int(b.GetBondType())) for b in frag.GetBonds())
            if fb0 != wb[1]:
                out.append(("residue-differs-from-written-token", inp, f"token written as {tok._raw_text!r}: RDKit reads the inner bonds {wb[1]} off the written text "
                            f"(descriptors as dummy atoms); its residues are built with {fb0}", None))
        if frag.GetNumAtoms() != s["sizes"][i]:
            out.append(("residue-size", inp, f"instance {i} of {tok}", None))
            continue
        for a in frag.GetAtoms():
            b = raw.GetAtomWithIdx(off + a.GetIdx())
            if (a.GetAtomicNum(), a.GetFormalCharge(), a.GetIsotope()) != (b.GetAtomicNum(), b.GetFormalCharge(), b.GetIsotope()):
                out.append(("residue-atom-differs", inp, f"instance {i} ({tok}) atom {a.GetIdx()}: token has {(a.GetSymbol(), a.GetFormalCharge(), a.GetIsotope())}, "
                            f"molecule has {(b.GetSymbol(), b.GetFormalCharge(), b.GetIsotope())}", None))
        fb = sorted((min(b.GetBeginAtomIdx(), b.GetEndAtomIdx()), max(b.GetBeginAtomIdx(), b.GetEndAtomIdx()), int(b.GetBondType())) for b in frag.GetBonds())
        if fb != sorted(s["inner"][i]):
            out.append(("residue-bonds-differ", inp, f"instance {i} ({tok}): token bonds {fb}, molecule {sorted(s['inner'][i])}", None))
    # tree: one bond per adjacent residue pair, connected, no ring across residues
    n = len(toks)
    pairs = [(s["owner"][x], s["owner"][y]) for x, y, _ in s["bonds"]]
    if len(pairs) != n - 1:
        out.append(("not-a-tree", inp, f"{n} residues, {len(pairs)} inter-residue bonds", None))
    if len(set((min(p), max(p)) for p in pairs)) != len(pairs):
        out.append(("two-bonds-between-one-pair", inp, str(pairs), None))
    parent = list(range(n))

    def find(x):
        while parent[x] != x:
            parent[x] = parent[parent[x]]
            x = parent[x]
        return x
    for a, b in pairs:
        ra, rb = find(a), find(b)
        if ra == rb:
            out.append(("ring-across-residues", inp, str(pairs), None))
        parent[ra] = rb
    if len(set(find(i) for i in range(n))) != 1:
        out.append(("not-connected", inp, str(pairs), None))
    if sorted((min(a, b), max(a, b)) for a, b in pairs) != sorted((u, v) for u, v, _ in s["edges"]):
        out.append(("residue-graph-differs-from-bonds", inp, f"{pairs} vs {s['edges']}", None))
    # chemistry (RDKit's valence model: oracle only)
    try:
        mol = molgen.mol
    except Exception as exc:
        out.append(("sanitisation-fails", inp, f"{type(exc).__name__}: {exc}", None))
        return out
    if len(Chem.GetMolFrags(mol)) != 1:
        out.append(("disconnected-molecule", inp, Chem.MolToSmiles(mol), None))
    # what the user sees (`.mol`, `.smiles`) is the molecule the residues account for: same atoms (explicit hydrogens included), same bonds
    n_bonds = sum(len(b) for b in s["inner"]) + len(s["bonds"])
    if mol.GetNumAtoms() != s["total_atoms_expected"] or mol.GetNumBonds() != n_bonds:
        out.append(("public-molecule-differs-from-residues", inp, f".mol has {mol.GetNumAtoms()} atoms / {mol.GetNumBonds()} bonds; the residues of .graph account for "
                    f"{s['total_atoms_expected']} atoms / {n_bonds} bonds", None))
    else:
        try:
            smi_mol = Chem.MolFromSmiles(molgen.smiles)
            if smi_mol is None or smi_mol.GetNumHeavyAtoms() != mol.GetNumHeavyAtoms():
                out.append(("public-molecule-differs-from-residues", inp, f".smiles {molgen.smiles} does not describe the {mol.GetNumHeavyAtoms()} heavy atoms of .mol", None))
        except Exception as exc:
            out.append(("public-molecule-differs-from-residues", inp, f".smiles raises {type(exc).__name__}: {exc}", None))
    if not s["opens"]:
        for i, tok in enumerate(toks):
            for k, atom in enumerate(tok.atoms):
                text = atom.generate_string(False)
                if text.startswith("["):
                    continue
                a = mol.GetAtomWithIdx(s["offs"][i] + k)
                nv = NORMAL_VALENCE.get(a.GetAtomicNum())
                if nv is None:
                    continue
                heavy = a.GetTotalValence() - a.GetTotalNumHs()
                fits = [v for v in nv if v >= heavy]
                want_h = (min(fits) - heavy) if fits else None
                if a.GetNumRadicalElectrons() != 0 or a.GetFormalCharge() != 0 or want_h is None or a.GetTotalNumHs() != want_h:
                    out.append(("hydrogen-count", inp, f"instance {i} ({tok}) atom {k} '{text}': bonds {heavy}, hydrogens {a.GetTotalNumHs()} (normal: {want_h}), "
                                f"radicals {a.GetNumRadicalElectrons()}, charge {a.GetFormalCharge()}", None))
    want = sum(frag_info(t)[1] for t in toks)
    got = rdD.HeavyAtomMolWt(mol)
    if abs(want - got) > 1e-6 * max(1.0, abs(want)) or abs(molgen.weight - want) > 1e-6 * max(1.0, abs(want)):
        out.append(("mass", inp, f"molecule {got} / reported {molgen.weight}, residues sum to {want}", None))
    return out


def runner_with_embedding_schedule(case, seed, forced):
    """every second run is made with RDKit's 3D embedding FAILING for every fragment (MolGen then takes its 2D fallback): the embedding
    is a library outcome the molecule must not depend on, explored here as a schedule instead of waiting for a token that RDKit cannot embed"""
    from rng import Recorder
    if seed % 2 == 0:
        return genrun.run_real(case, Recorder(seed), forced)
    import gbigsmiles.mol_gen as _mg
    orig = _mg.AllChem.EmbedMolecule

    def shim(mol, *a, **k):
        orig(mol, *a, **k)
        mol.RemoveAllConformers()
        return -1
    _mg.AllChem.EmbedMolecule = shim
    try:
        return genrun.run_real(case, Recorder(seed), forced)
    finally:
        _mg.AllChem.EmbedMolecule = orig


def main():
    ck = Check("C05")
    ck.do_build()
    rnd = random.Random(ck.seed + 5)
    quick = ck.tier == "quick"
    cases = genrun.corpus_cases() + genrun.big_token_cases()
    cases += genrun.gen_cases(rnd, 250 if quick else 4000)
    recs = genrun.run_batch(ck, cases, seeds_per_case=2 if quick else 4, what=("struct", "mass"), seed_base=ck.seed * 104729 + 5,
                            oracles=[oracle_c05], forced=genrun.cap_targets, runner=runner_with_embedding_schedule)
    for rec in recs:
        s = rec["summary"]
        key = (rec["case"].text, tuple(genrun.history(rec["log"])))
        ck.case(key, nontrivial=s is not None and len(s["sizes"]) > 1,
                sample={"text": rec["case"].text, "residues": s["inst_tid"][:12], "bonds": s["bonds"][:5]} if s else None)
        if s is not None:
            ck.count("residues", len(s["sizes"]))
    ck.rule = ("one case = one real generation (string, recorded random history); non-trivial = more than one residue; distinct by (string, history); "
               "corpus + all archetypes incl. aromatic, charged, isotope, bracket and ring tokens; every second generation runs with RDKit's 3D embedding "
               "failing for every fragment (2D fallback of MolGen)")
    ck.extra["assumptions"] = ["RDKit: CombineMols appends atoms, AddBond adds exactly that bond, HeavyAtomMolWt sums non-H atomic weights",
                               "sanitisation / hydrogen counts are RDKit's valence model: oracle only (C05_chemistry_partial)"]
    ck.finish()


if __name__ == "__main__":
    main()
