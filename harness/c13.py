"""C13 — ensemble generation yields complete member molecules up to the system mass."""
import random

import genrun
import sysrun
from genadapt import events_json
from lib import Check, close, frac, unfrac
from rng import Recorder


def component_pick_positions(log, n):
    """indices in the log of the component picks: choice calls whose option list is range(n) with probabilities given at
    the system level are recognised by construction order: the first call, and the first call after each member"""
    return None


def main():
    ck = Check("C13")
    ck.do_build()
    rnd = random.Random(ck.seed + 13)
    quick = ck.tier == "quick"
    nsys = 60 if quick else 1500
    ops, recs = [], []
    tries = 0
    ntie = 25 if quick else 400
    while len(recs) < nsys + ntie and tries < (nsys + ntie) * 4:
        tries += 1
        tie = len(recs) >= nsys
        if tie:
            # exact tie: the system mass is exactly the accumulated (binary64) mass of the first k members of a dry run with the
            # same generator stream -> iteration must stop after exactly k members (`<`, not `<=`)
            ncomp = rnd.randint(1, 3)
            marks = sysrun.MARKERS[:]
            rnd.shuffle(marks)
            marks = marks[:ncomp]
            cuts = sorted(rnd.sample(range(1, 100), ncomp - 1)) if ncomp > 1 else []
            fr = [b - a for a, b in zip([0] + cuts, cuts + [100])]
            bodies = [rnd.choice(["C", "CC", "CCO", "CCN", "CCCC", "OCCO", "CC(C)C"]) + mk for mk in marks]
            text = "".join(f"{b}.|{float(f)!r}%|" for b, f in zip(bodies, fr))
            dry = sysrun.parse_system(text, 1e6)
            if dry is None:
                continue
            k = rnd.randint(1, 6)
            rng0 = Recorder(ck.seed * 7 + tries)
            members0 = []
            import gbigsmiles as _g
            old = _g.System.generator.fget.__defaults__
            _g.System.generator.fget.__defaults__ = (rng0,)
            try:
                for mg in dry.generator:
                    members0.append(float(mg.weight))
                    if len(members0) >= k:
                        break
            finally:
                _g.System.generator.fget.__defaults__ = old
            acc = 0.0
            for w in members0:
                acc += w
            sysmass = acc
            system = sysrun.parse_system(text, sysmass)
            ck.count("exact-tie-systems")
        else:
            ncomp = rnd.randint(1, 4)
            scale = rnd.choice([20, 150, 600, 1500, 4000])
            text, sysmass, marks, fr = sysrun.build_system(rnd, ncomp, scale)
            if rnd.random() < 0.25:
                # one component that is not generable: a stochastic object without distribution (the mass specification stays determined)
                import re
                spots = [m for m in re.finditer(r"\}\|[a-z_]+\([^)|]*\)\|", text)]
                if spots:
                    m = rnd.choice(spots)
                    text = text[:m.start()] + "}" + text[m.end():]
                    ck.count("systems-with-a-non-generable-component")
            if rnd.random() < 0.4:
                # one component whose molecules keep an open descriptor (a plain token that ends in a descriptor): the generator must
                # refuse to yield it (`fully_generated`), although every component is "generable"
                import re
                parts = re.split(r"(\.\|[^|]*\|)", text)
                idx = [k for k in range(0, len(parts), 2) if parts[k] and "{" not in parts[k] and "[" not in parts[k]]
                if idx:
                    k = rnd.choice(idx)
                    parts[k] = parts[k] + "[$]"
                    text = "".join(parts)
                    ck.count("systems-with-a-component-that-stays-open")
            system = sysrun.parse_system(text, sysmass)
        if system is None:
            continue
        try:
            generable = bool(system.generable)
        except Exception:
            continue
        single = (not tie) and rnd.random() < 0.2
        rng = Recorder(ck.seed * 7 + tries)
        members, error, log = sysrun.run_system(system, rng, single=single)
        if error is not None and genrun.is_c11_draw_failure(error):
            ck.count("skipped_c11_draw_failure")
            continue
        infos = [sysrun.member_info(m) for m in members]
        comps, tables = sysrun.system_json(system)
        M = None
        if generable:
            try:
                M = float(system.system_mass)
            except Exception:
                M = None
        estim = bool(system._generable)
        comp_gen = [bool(m.generable) for m in system._molecules]
        rec = dict(text=text, sysmass=sysmass, marks=marks, fr=fr, system=system, generable=generable, single=single, infos=infos,
                   error=error, log=log, M=M, estim=estim, comp_gen=comp_gen)
        recs.append(rec)
        # ties: where the implementation's accumulated (binary64) mass hits the system mass within 1e-9, the exact-rational model is
        # steered along the implementation's own decision (DESIGN.md 5.4); the oracle below decides such cases on the floats
        Mm = M if M is not None else 0.0
        if M is not None and error is None and not single:
            acc = 0.0
            for k, i in enumerate(infos):
                acc += i["mass"]
                if abs(acc - M) <= 1e-9 * max(1.0, abs(M)):
                    stopped = (k == len(infos) - 1)
                    Mm = M * (1 - 1e-6) if stopped else M * (1 + 1e-6)
                    ck.count("ties_followed_along_impl_branch")
        ops.append({"op": "SYSGEN", "comps": comps, "ev": events_json(log), "fuel": 100000, "single": single,
                    "M": frac(Mm), "estim": estim})
    outs = ck.driver.run(ops)
    for rec, out in zip(recs, outs):
        inp = {"text": rec["text"], "system_mass": rec["sysmass"], "single": rec["single"], "history": genrun.history(rec["log"])[:60]}
        infos = rec["infos"]
        ck.case((rec["text"], tuple(genrun.history(rec["log"]))), nontrivial=len(infos) > 0,
                sample={"text": rec["text"], "system_mass": rec["M"], "members": [(i["markers"], round(i["mass"], 2)) for i in infos][:8]})
        ck.count("components:%d" % len(rec["marks"]))
        ck.count("members", len(infos))
        # ---------------- oracle on the implementation
        should = rec["estim"] and all(rec["comp_gen"])
        if not should and not rec["single"]:
            if rec["generable"]:
                ck.fail("non-generable-system-reports-generable", inp, f"components generable: {rec['comp_gen']}, mass estimate ok: {rec['estim']}, yet System.generable is True")
            if infos:
                ck.fail("non-generable-system-generates", inp, f"{len(infos)} molecules were yielded although components generable = {rec['comp_gen']}")
        if not rec["single"] and "gen" in out and out["gen"] != rec["generable"]:
            ck.mismatch("SYSGEN.generable", inp, rec["generable"], out["gen"])
        if rec["error"] is None:
            if not rec["single"]:
                if not rec["generable"]:
                    ck.fail("non-generable-system-generates", inp, "iteration of a system that is not generable yielded molecules")
                else:
                    acc = 0.0
                    M = rec["M"]
                    for k, i in enumerate(infos):
                        if not (acc < M):
                            ck.fail("yield-after-system-mass", inp, f"member {k} yielded although accumulated mass {acc} >= system mass {M}")
                            break
                        acc += i["mass"]
                    else:
                        if acc < M and abs(acc - M) > 1e-9 * max(1.0, M):
                            ck.fail("stopped-before-system-mass", inp, f"iteration stopped at accumulated mass {acc} < system mass {M}")
            for k, i in enumerate(infos):
                if not i["full"]:
                    ck.fail("member-not-fully-generated", inp, f"member {k}")
                if len(i["markers"]) != 1 or i["markers"][0] not in rec["marks"]:
                    ck.fail("member-not-an-instance-of-one-component", inp, f"member {k} contains marker atoms {i['markers']}; components are marked {rec['marks']}")
            if rec["single"] and len(infos) != 1:
                ck.fail("single-generation", inp, f"{len(infos)} molecules")
        else:
            ck.count("impl_error:" + type(rec["error"]).__name__)
            if rec["generable"] and not rec["single"]:
                ck.note(f"generable system raised {type(rec['error']).__name__}: {rec['error']} on {rec['text'][:100]}")
        # ---------------- correspondence
        if "fail" in out:
            ck.mismatch("SYSGEN", inp, "run", out)
            continue
        if rec["error"] is not None:
            if out.get("ok"):
                ck.mismatch("SYSGEN", inp, f"raises {type(rec['error']).__name__}: {rec['error']}", {"ok": True, "members": len(out["members"])})
            continue
        if not out.get("ok"):
            ck.mismatch("SYSGEN", inp, {"members": len(infos)}, out)
            continue
        mm = out["members"]
        if len(mm) != len(infos):
            # an exact tie of accumulated mass and system mass may shift the end by one member
            acc = sum(i["mass"] for i in infos[:-1]) if infos else 0.0
            if rec["M"] and abs(sum(i["mass"] for i in infos) - rec["M"]) < 1e-9 * rec["M"]:
                ck.count("ties")
                continue
            ck.mismatch("SYSGEN.members", inp, len(infos), len(mm))
            continue
        for k, (a, b) in enumerate(zip(infos, mm)):
            if a["markers"] != [rec["marks"][b["i"]]] or not close(a["mass"], unfrac(b["mass"])) or a["n"] != b["n"]:
                ck.mismatch("SYSGEN.member", dict(inp, member=k), a, {"component": b["i"], "mass": float(unfrac(b["mass"])), "n": b["n"]})
                break
        ch_i = [x for x in rec["log"] if x[0] == "choice"]
        ch_m = [t["c"] for t in out["trace"] if "c" in t]
        if len(ch_i) != len(ch_m):
            ck.mismatch("SYSGEN.choice-count", inp, len(ch_i), len(ch_m))
        else:
            for k, (a, b) in enumerate(zip(ch_i, ch_m)):
                if a[1] != b["a"] or a[3] != b["r"] or not all(close(x, unfrac(y)) for x, y in zip(a[2], b["p"])):
                    ck.mismatch("SYSGEN.choice", dict(inp, call=k), {"a": a[1], "p": a[2], "r": a[3]}, b)
                    break
    # ---- histories on ONE System object: an iteration that the consumer abandons after k members, then a complete iteration: the complete one
    # starts from an accumulated mass of 0 whatever happened before
    nh = 0
    for rec in recs:
        if nh >= (12 if quick else 150):
            break
        if rec["single"] or rec["error"] is not None or not rec["generable"] or rec["M"] is None or len(rec["infos"]) < 3:
            continue
        nh += 1
        system, M = rec["system"], rec["M"]
        k = rnd.randint(1, max(1, len(rec["infos"]) - 1))
        sysrun.run_system(system, Recorder(ck.seed * 13 + nh), stop_after=k)
        members, err, _ = sysrun.run_system(system, Recorder(ck.seed * 17 + nh))
        inp = {"text": rec["text"], "system_mass": rec["sysmass"], "history": f"iterate, abandon after {k} members, iterate completely"}
        ck.evaluations += 1
        ck.count("abandoned-then-complete-iterations")
        if err is not None:
            if not genrun.is_c11_draw_failure(err):
                ck.note(f"complete iteration after an abandoned one raised {type(err).__name__}: {err} on {rec['text'][:80]}")
            continue
        acc = 0.0
        bad = None
        for j, m in enumerate(members):
            if not (acc < M):
                bad = f"member {j} yielded although the mass yielded by THIS iteration is already {acc} >= system mass {M}"
                break
            acc += float(m.weight)
        if bad is None and acc < M and abs(acc - M) > 1e-9 * max(1.0, M):
            bad = f"the complete iteration after an abandoned one stopped at an accumulated mass of {acc} < system mass {M} ({len(members)} members)"
        if bad:
            ck.fail("stop-rule-depends-on-earlier-iteration", inp, bad)
    # ---- members WITHOUT heavy atoms (molecular hydrogen) add nothing to the accumulated heavy-atom mass: the iteration still runs until the
    # system mass is reached, however many members that takes
    for text in ["[H][H].|99.0%|CCF.|1.0|", "[H][H].|96.0%|CC.|4.0|"]:
        system = sysrun.parse_system(text, None)
        if system is None or not system.generable:
            ck.note(f"hydrogen system not generable: {text}")
            continue
        M = float(system.system_mass)
        for sd in range(2 if quick else 6):
            members, err, _ = sysrun.run_system(system, Recorder(ck.seed * 29 + sd), max_members=200000)
            inp = {"text": text, "system_mass": M, "rng_seed": ck.seed * 29 + sd}
            ck.evaluations += 1
            ck.count("hydrogen-only-member-systems")
            if err is not None:
                ck.fail("generable-system-raises", inp, f"{type(err).__name__}: {err}")
                continue
            acc = 0.0
            bad = None
            for j, m in enumerate(members):
                if not (acc < M):
                    bad = f"member {j} yielded although the accumulated heavy-atom mass is already {acc} >= system mass {M}"
                    break
                if not m.fully_generated:
                    bad = f"member {j} is not fully generated"
                    break
                acc += float(m.weight)
            if bad is None and acc < M and abs(acc - M) > 1e-9 * max(1.0, M):
                bad = f"iteration stopped after {len(members)} members at an accumulated heavy-atom mass of {acc} < system mass {M}"
            if bad:
                ck.fail("stopped-before-system-mass" if "stopped" in bad else "yield-after-system-mass", inp, bad)
    ck.rule = ("one case = one iteration of System.generator (80 %) or one System.generate call (20 %) on a system of 1-4 components made "
               "distinguishable by marker atoms (F, Cl, Br, I), system masses from below one molecule to ~30 molecules; non-trivial = at least one member; "
               "distinct by (string, history)")
    ck.extra["assumptions"] = ["System.generator's default generator is replaced through generator.fget.__defaults__ (no change to /repo)"]
    ck.finish()


if __name__ == "__main__":
    main()
