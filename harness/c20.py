"""C20 — force-field typing is total, element-consistent, numbering- and history-free."""
import os
import random
import shutil
import tempfile
import warnings

import numpy as np
from rdkit import Chem

import gbigsmiles
import gbigsmiles.forcefield_helper as ffh

from extract import read_opls_rules
from lib import Check, VERIF
from rng import Recorder

TYPABLE = [
    "CC{[>][<]CC[>][<]}|uniform(20, 90)|C",
    "CC{[>][<]CC(C)[>][<]}|uniform(20, 120)|CC",
    "CCOC(=O)C(C)(C){[>][<]CC([>])c1ccccc1[<]}|uniform(100, 350)|[H]",
    "C{[>][<]CC([>])C(=O)OC[<]}|uniform(60, 300)|[H]",
    "{[][<]COC[>]; [<]C, [>]C []}|uniform(40, 200)|",
    "{[][<]CCO[>]; [<][H], [>]C []}|uniform(40, 200)|",
    "CC{[$][$]CC(Cl)[$][$]}|uniform(50, 200)|C",
    "CC{[$][$]CC(F)[$][$]}|uniform(40, 160)|CC",
    "NCC{[>][<]CC[>][<]}|uniform(20, 90)|CN",
    "OC{[>][<]CC[>], [<]CC(C)[>] [<]}|uniform(30, 160)|CO",
    "CCCCC", "c1ccccc1C", "CCO", "CC(=O)OC", "CCN", "CCCl", "COC",
    "C{[>][<]CC([>])c1ccccc1, [<]CC([>])C(=O)OC [<]}|uniform(100, 400)|[H]",
    "{[][$]C([$])C=O; [$][H], [$]C[]}|uniform(20, 120)|",   # aldehyde side group: may be only partially typable
    "CS{[>][<]CC[>][<]}|uniform(20,60)|C",
    # isotope labels: the parameter set follows the ELEMENT (12.011 for 13C), whatever the atom order
    "CC{[>][<]CC[>][<]}|uniform(20, 90)|[13CH3]", "[13CH3]C{[>][<]CC[>][<]}|uniform(20, 90)|C", "CC(C)[13CH3]", "[13CH3]C(C)C", "CC[13CH2]O",
]
ELEMENT_MASS = {1: 1.008, 6: 12.011, 7: 14.007, 8: 15.999, 9: 18.998, 16: 32.06, 17: 35.45, 35: 79.904, 53: 126.90, 14: 28.086, 15: 30.974}


class OpenSpy:
    def __init__(self):
        self.opened = []

    def __call__(self, file, *a, **k):
        self.opened.append(str(file))
        return open(file, *a, **k)


def type_name(assigner, param):
    for name, p in assigner._type_param.items():
        if p is param:
            return name
    return None


def matches_of(assigner, mol):
    out = []
    for rule in assigner._rule_dict:
        pat = Chem.MolFromSmarts(rule)
        ms = sorted(set(m[0] for m in mol.GetSubstructMatches(pat)))
        if ms:
            out.append([rule, ms])
    return out


def main():
    ck = Check("C20")
    ck.do_build()
    rnd = random.Random(ck.seed + 20)
    quick = ck.tier == "quick"
    data = os.path.join(os.path.dirname(gbigsmiles.__file__), "data")
    work = tempfile.mkdtemp(prefix="c20.", dir=os.path.join(VERIF, ".work") if os.path.isdir(os.path.join(VERIF, ".work")) else None)
    spy = OpenSpy()
    ffh.open = spy
    try:
        copies = []
        for k in range(2):
            a = os.path.join(work, f"rules{k}.par")
            b = os.path.join(work, f"nb{k}.itp")
            shutil.copy(os.path.join(data, "opls.par"), a)
            shutil.copy(os.path.join(data, "ffnonbonded.itp"), b)
            copies.append((a, b))
        names = {None: None, copies[0][0]: 1, copies[0][1]: 2, copies[1][0]: 3, copies[1][1]: 4,
                 os.path.join(data, "opls.par"): 5, os.path.join(data, "ffnonbonded.itp"): 6}
        smarts_opts = [None, copies[0][0], copies[1][0], os.path.join(data, "opls.par")]
        nb_opts = [None, copies[0][1], copies[1][1], os.path.join(data, "ffnonbonded.itp")]
        default_files = (os.path.join(data, "opls.par"), os.path.join(data, "ffnonbonded.itp"))
        mols = []
        for t in TYPABLE:
            try:
                mols.append((t, gbigsmiles.Molecule(t)))
            except Exception:
                pass
        nhist = 25 if quick else 600
        type_ids = {}
        for _, t, _ in read_opls_rules():
            type_ids.setdefault(t, len(type_ids))
        rules_json = [[type_ids[t], r] for _, t, r in read_opls_rules()]
        assign_ops, assign_expect = [], []
        for h in range(nhist):
            # fresh module state for every history
            ffh._global_assignment_class = None
            ffh._global_nonbonded_itp_file = None
            ffh._global_smarts_rule_file = None
            calls = []
            built_from = None
            hist_json = []
            # one to three molecules are typed in turn inside one history: what a call returns for a molecule must not depend on which
            # molecules were typed before it (the assignment object is cached between calls)
            picked = [rnd.choice(mols) for _ in range(rnd.choice([1, 2, 2, 3]))]
            texts_h, mgs = [], []
            with warnings.catch_warnings():
                warnings.simplefilter("ignore")
                for kk, (text_k, mol_k) in enumerate(picked):
                    try:
                        mg_k = mol_k.generate(rng=Recorder(ck.seed * 31 + h + 7919 * kk))
                    except Exception:
                        continue
                    if mg_k.fully_generated:
                        texts_h.append(text_k)
                        mgs.append(mg_k)
            if not mgs:
                continue
            # baseline of every molecule: typed by a freshly built assignment object (module state reset before and after)
            baselines = []
            for mg_k in mgs:
                ffh._global_assignment_class = None
                ffh._global_nonbonded_itp_file = None
                ffh._global_smarts_rule_file = None
                try:
                    ff0, _ = mg_k.get_forcefield_types(None, None)
                except ffh.FfAssignmentError as exc:
                    ff0 = exc.incomplete_ff_dict
                except Exception:
                    ff0 = None
                baselines.append(None if ff0 is None else {i: type_name(ffh._global_assignment_class, prm) for i, prm in ff0.items()})
            ffh._global_assignment_class = None
            ffh._global_nonbonded_itp_file = None
            ffh._global_smarts_rule_file = None
            spy.opened.clear()
            ncalls = rnd.randint(3, 8)
            ok_hist = True
            for c in range(ncalls):
                cur = rnd.randrange(len(mgs))
                mg, text, baseline = mgs[cur], texts_h[cur], baselines[cur]
                sf, nf = rnd.choice(smarts_opts), rnd.choice(nb_opts)
                if rnd.random() < 0.4:
                    sf, nf = None, None
                hist_json.append([names[sf], names[nf]])
                spy.opened.clear()
                err = None
                try:
                    ff, hmol = mg.get_forcefield_types(sf, nf)
                except ffh.FfAssignmentError as exc:
                    err = exc
                    ff, hmol = exc.incomplete_ff_dict, exc.mol
                except Exception as exc:
                    ck.fail("typing-raises", {"text": text, "calls": hist_json}, f"{type(exc).__name__}: {exc}")
                    ok_hist = False
                    break
                opened = list(spy.opened)
                if opened:
                    want = [sf or default_files[0], nf or default_files[1]]
                    if opened != want:
                        ck.fail("wrong-files-read", {"text": text, "calls": hist_json}, f"call {c} named {(sf, nf)}; files opened: {opened}")
                    built_from = (names[sf], names[nf])
                calls.append(built_from)
                # ---- oracle on the result
                inp = {"text": text, "smiles": Chem.MolToSmiles(hmol) if hmol is not None else None, "calls": hist_json}
                if hmol is None:
                    ck.fail("error-without-molecule", inp, "FfAssignmentError without the molecule attached")
                    continue
                n = hmol.GetNumAtoms()
                if err is None and sorted(ff) != list(range(n)):
                    ck.fail("not-total", inp, f"{len(ff)} parameter sets for {n} atoms")
                if err is not None and len(ff) >= n:
                    ck.fail("error-though-total", inp, "assignment error although every atom is typed")
                for i, prm in ff.items():
                    z = hmol.GetAtomWithIdx(i).GetAtomicNum()
                    em = ELEMENT_MASS.get(z)
                    if em is not None and abs(prm.mass - em) > 0.02:
                        ck.fail("element-mass", inp, f"atom {i} ({hmol.GetAtomWithIdx(i).GetSymbol()}) typed with mass {prm.mass}")
                assigner = ffh._global_assignment_class
                sig = {i: type_name(assigner, prm) for i, prm in ff.items()}
                if baseline is None:
                    baselines[cur] = sig
                elif sig != baseline:
                    ck.fail("history-or-file-dependence", inp, f"call {c} (molecule {cur} of {texts_h}) gives {sig}, a freshly built assignment object gave {baseline}")
                # renumbering
                perm = list(range(n))
                rnd.shuffle(perm)
                ren = Chem.RenumberAtoms(hmol, perm)   # new atom k = old atom perm[k]
                try:
                    d2 = assigner.get_type_assignments(ren)
                except ffh.FfAssignmentError as exc:
                    d2 = exc.incomplete_ff_dict
                sig2 = {perm[k]: type_name(assigner, prm) for k, prm in d2.items()}
                if sig2 != sig:
                    ck.fail("numbering-dependence", inp, f"after renumbering {perm}: {sig2} vs {sig}")
                ck.case((text, Chem.MolToSmiles(hmol), tuple(map(tuple, hist_json))), nontrivial=True,
                        sample={"text": text, "calls": hist_json, "atoms": n, "typed": len(ff)} if c == ncalls - 1 else None)
                if c == 0 and len(assign_ops) < (40 if quick else 400):
                    assign_ops.append({"op": "ASSIGN", "rules": rules_json, "matches": matches_of(assigner, hmol), "n": n})
                    assign_expect.append((inp, err is None, sorted((i, type_ids.get(t, -1)) for i, t in sig.items())))
            if ok_hist:
                out = ck.driver.run([{"op": "FFRUN", "calls": hist_json}])[0]
                mb = [None if b is None else tuple(b) for b in out.get("built", [])]
                if mb != calls:
                    ck.mismatch("FFRUN", {"calls": hist_json}, calls, mb)
                ck.count("histories")
        # ---- ordered pairs: B typed right after A by the SAME cached assignment object (defaults, no change of file names in between) gets what a
        # freshly built assignment object gives B; every ordered pair of a set of chemically different molecules
        pool = []
        for t, mol in mols:
            with warnings.catch_warnings():
                warnings.simplefilter("ignore")
                try:
                    mg = mol.generate(rng=Recorder(ck.seed * 37 + len(pool)))
                except Exception:
                    continue
            if mg.fully_generated and mg._mol.GetNumAtoms() <= 80:
                pool.append((t, mg))
        if quick:
            pool = pool[:13]

        def typed(mg):
            try:
                ff, _ = mg.get_forcefield_types(None, None)
            except ffh.FfAssignmentError as exc:
                ff = exc.incomplete_ff_dict
            return {i: type_name(ffh._global_assignment_class, prm) for i, prm in ff.items()}

        def reset():
            ffh._global_assignment_class = None
            ffh._global_nonbonded_itp_file = None
            ffh._global_smarts_rule_file = None
        fresh = []
        for t, mg in pool:
            reset()
            try:
                fresh.append(typed(mg))
            except Exception as exc:
                fresh.append(None)
        for ia, (ta, mga) in enumerate(pool):
            for ib, (tb, mgb) in enumerate(pool):
                if ia == ib or fresh[ia] is None or fresh[ib] is None:
                    continue
                reset()
                try:
                    typed(mga)
                    got = typed(mgb)
                except Exception as exc:
                    ck.fail("typing-raises", {"first": ta, "then": tb}, f"{type(exc).__name__}: {exc}")
                    continue
                ck.evaluations += 1
                ck.count("ordered-pairs")
                if got != fresh[ib]:
                    diff = [(i, fresh[ib].get(i), got.get(i)) for i in sorted(set(fresh[ib]) | set(got)) if fresh[ib].get(i) != got.get(i)][:4]
                    ck.fail("history-or-file-dependence", {"first": ta, "then": tb}, f"typed right after the first molecule, the second gets (atom, fresh, now) {diff}")
        reset()
        # ---- the id tables of the reader (fresh assigner on the bundled files): model vs code, and the table-level oracle
        ffh._global_assignment_class = None
        ffh._global_nonbonded_itp_file = None
        ffh._global_smarts_rule_file = None
        assigner = ffh.get_assignment_class(None, None)
        out = ck.driver.run([{"op": "FFREAD", "rules": rules_json}])[0]
        names = {v: k for k, v in type_ids.items()}
        m_dict = {names[a]: b for a, b in out["type_dict"]}
        m_rev = {a: names[b] for a, b in out["type_rev"]}
        if m_dict != dict(assigner._type_dict) or m_rev != dict(assigner._type_dict_rev):
            bad = [k for k in assigner._type_dict if m_dict.get(k) != assigner._type_dict[k]][:5]
            ck.mismatch("FFREAD", {"file": "opls.par"}, {k: assigner._type_dict[k] for k in bad}, {k: m_dict.get(k) for k in bad})
        last_type = {}
        for _, t, r in read_opls_rules():
            last_type[r] = t
        for rule, t in last_type.items():
            ck.evaluations += 1
            try:
                got = assigner.get_ffparam(assigner.get_type(assigner._rule_dict[rule]))
            except Exception as exc:
                ck.fail("rule-without-parameters", {"rule": rule, "type": t}, f"{type(exc).__name__}: {exc}")
                continue
            if got is not assigner._type_param.get(t):
                other = type_name(assigner, got)
                ck.fail("rule-resolves-to-another-type", {"rule": rule, "type": t}, f"rule of type {t} is given the parameters of {other} (mass {got.mass})")
        ck.count("rules_resolved", len(last_type))
        # partially generated molecules are refused
        for t in ["CC{[>][<]CC[>][<]}|uniform(20, 90)|", "{[][<]COC[>]; [<]C [>]}|uniform(40, 200)|"]:
            with warnings.catch_warnings():
                warnings.simplefilter("ignore")
                mg = gbigsmiles.Molecule(t).generate(rng=Recorder(3))
            try:
                mg.get_forcefield_types()
                ck.fail("partial-molecule-typed", {"text": t}, "a molecule with open descriptors was typed")
            except RuntimeError:
                ck.count("partial_refused")
        outs = ck.driver.run(assign_ops)
        for (inp, ok, sig), out in zip(assign_expect, outs):
            got = sorted((a, t) for a, t in out.get("types", []))
            if out.get("ok") != ok or got != sig:
                ck.mismatch("ASSIGN", inp, {"ok": ok, "types": sig[:8]}, {"ok": out.get("ok"), "types": got[:8]})
            ck.count("assign_ops")
    finally:
        try:
            del ffh.open
        except AttributeError:
            pass
        shutil.rmtree(work, ignore_errors=True)
    ck.rule = ("one case = one typing call inside a random history of 3-8 calls mixing defaults with explicit paths to copies of the bundled files, on "
               "one to three generated molecules of typable chemistry typed in turn; every call is checked for totality, element masses, agreement with what a "
               "freshly built assignment object gives for that molecule, and "
               "invariance under a random renumbering; distinct by (string, generated molecule, call history)")
    ck.extra["assumptions"] = ["RDKit SMARTS matching (which atoms a rule matches) is a parameter of the model: oracle only",
                               "which files the readers open is observed by binding the name `open` in gbigsmiles.forcefield_helper's module namespace"]
    ck.finish()


if __name__ == "__main__":
    main()
