"""run in a FRESH interpreter: for every (string, seed) read from stdin (JSON lines) parse a fresh object and generate once.
Every pair is computed in its own forked child of this interpreter, forked right after the import of the library: whatever the library keeps at
module level (caches, templates, counters, the global generator) is, for every pair, in the state a new process has — one pair cannot colour the
baseline of another."""
import json
import os
import sys
import warnings

import numpy as np

warnings.simplefilter("ignore")
import gbigsmiles  # noqa: E402

for line in sys.stdin:
    text, seed = json.loads(line)
    sys.stdout.flush()
    pid = os.fork()
    if pid != 0:
        _, status = os.waitpid(pid, 0)
        if status != 0:
            print("@@C10 " + json.dumps({"error": f"ChildDied: status {status}"}), flush=True)
        continue
    try:
        if text.startswith("SYSTEM:"):
            m = gbigsmiles.System(text[7:])
        else:
            m = gbigsmiles.Molecule(text)
        g = m.generate(rng=np.random.default_rng(seed))
        out = {"smiles": g.smiles, "weight": float(g.weight), "str": str(m), "noext": m.generate_string(False), "generable": bool(m.generable)}
    except Exception as exc:
        out = {"error": type(exc).__name__ + ": " + str(exc)[:100]}
    print("@@C10 " + json.dumps(out), flush=True)     # marked: the library (or a changed version of it) may print to stdout too
    os._exit(0)
