"""C07 — a stochastic object stops growing at the first unit that exceeds its drawn mass."""
import math
import random

import genrun
from genadapt import frag_info
from gbigsmiles.stochastic import Stochastic
from lib import Check
from rng import Recorder


objects_of = genrun.objects_of


def oracle_c07(rec):
    out = []
    s = rec["summary"]
    case = rec["case"]
    if s is None:
        return out
    inp = {"text": case.text, "history": genrun.history(rec["log"])[:80], "forced": rec.get("forced")}
    objs = objects_of(rec["log"])
    n_st = sum(1 for e in case.mol._elements if isinstance(e, Stochastic))
    if len(objs) != n_st:
        out.append(("one-draw-per-object", inp, f"{len(objs)} draws for {n_st} stochastic objects", None))
        return out
    toks = [case.table.tokens[t] for t in s["inst_tid"]]
    offs = s["offs"]
    st_elems = [e for e in case.mol._elements if isinstance(e, Stochastic)]
    for j, ob in enumerate(objs):
        T, start = ob["target"], ob["start"]
        K = len(ob["calls"])
        added = [m - start for m, _ in ob["calls"]]
        # continued after every unit but the last measured one
        for k in range(K - 1):
            if added[k] > T:
                out.append(("grew-past-target", inp, f"object {j}: after unit {k + 1} added mass {added[k]!r} > target {T!r} but growth continued", None))
        stopped_by_mass = K >= 1 and added[K - 1] > T
        # which instances are this object's units: those starting at the atom counts seen at the calls
        bounds = [ob["n0"]] + [n for _, n in ob["calls"]]
        for k in range(K):
            lo, hi = bounds[k], bounds[k + 1]
            inside = [i for i in range(len(offs) - 1) if lo <= offs[i] < hi]
            if len(inside) != 1:
                out.append(("unit-accounting", inp, f"object {j}: between the mass measurements {k} and {k + 1} there are {len(inside)} residues (capping or several units counted)", None))
                break
            want = sum(frag_info(toks[i])[1] for i in range(len(offs) - 1) if bounds[0] <= offs[i] < hi)
            if abs(want - added[k]) > 1e-6 * max(1.0, abs(want)):
                out.append(("added-mass", inp, f"object {j}: after unit {k + 1} the compared mass is {added[k]!r} but the units of this object weigh {want!r} (prefix / earlier elements / caps must not count)", None))
                break
        nxt = objs[j + 1]["n0"] if j + 1 < len(objs) else None
        # residues of this object after the last measured unit
        hi = bounds[-1]
        el = st_elems[j]
        end_ids = {id(t) for t in el.end_tokens}
        rep_ids = {id(t) for t in el.repeat_tokens}
        tail = [i for i in range(len(offs) - 1) if offs[i] >= hi and (nxt is None or offs[i] < nxt)]
        tail_obj = [i for i in tail if id(toks[i]) in end_ids or id(toks[i]) in rep_ids]
        if stopped_by_mass:
            extra_units = [i for i in tail_obj if id(toks[i]) in rep_ids]
            if extra_units:
                out.append(("unit-after-stop", inp, f"object {j}: target {T!r} exceeded after unit {K} (added {added[K - 1]!r}) but {len(extra_units)} more repeat unit(s) follow", None))
        else:
            # not stopped by mass: growth can only have ended because no open descriptor was left after one more unit
            if len(tail_obj) < 1:
                out.append(("no-unit-added" if K == 0 else "stopped-early", inp,
                            f"object {j}: target {T!r}, added after {K} units {added[K - 1] if K else 0.0!r} does not exceed it, yet growth stopped", None))
            elif s["opens"] or j + 1 < len(objs):
                # a premature end leaves nothing open; with something open (or a following object) growth had to continue
                if s["opens"] and j + 1 == len(objs):
                    out.append(("stopped-early", inp, f"object {j}: target {T!r} not exceeded (added {added[K - 1] if K else 0.0!r}) but growth stopped with open descriptors", None))
        if K == 0 and not tail_obj:
            out.append(("no-unit-added", inp, f"object {j}", None))
    return out


def runner(case, seed, forced):
    """forced = ('kind', k): dry run with far targets to learn the cumulative masses, then the real run"""
    kind, k = forced
    n_st = sum(1 for e in case.mol._elements if isinstance(e, Stochastic))
    if kind == "free":
        rec = genrun.run_real(case, Recorder(seed), None)
        rec["forced"] = None
        return rec
    dry = genrun.run_real(case, Recorder(seed), [k * 45.0 + 200.0] * n_st)
    objs = objects_of(dry["log"])
    targets = []
    for ob in objs:
        added = [m - ob["start"] for m, _ in ob["calls"]]
        if not added:
            targets.append(10.0)
            continue
        kk = min(k, len(added)) - 1
        a = added[kk]
        if kind == "tie":
            targets.append(a)                         # exactly equal: `>` must continue
        elif kind == "below":
            targets.append(math.nextafter(a, -math.inf))   # one ulp below: must stop here
        elif kind == "between":
            prev = added[kk - 1] if kk > 0 else 0.0
            targets.append((a + prev) / 2)
        elif kind == "neg":
            targets.append(-abs(a) - 1.0)
        elif kind == "tiny":
            targets.append(min(added[0] * 0.5, 0.5))
        else:
            targets.append(a)
    while len(targets) < n_st:
        targets.append(10.0)
    rec = genrun.run_real(case, Recorder(seed), targets)
    rec["forced"] = [kind, k, targets]
    return rec


def main():
    ck = Check("C07")
    ck.do_build()
    rnd = random.Random(ck.seed + 7)
    quick = ck.tier == "quick"
    cases = genrun.corpus_cases()
    if quick:
        rnd.shuffle(cases)
        cases = cases[:20]
    cases += genrun.gen_cases(rnd, 90 if quick else 3000)
    kinds = ["tie", "below", "between", "neg", "tiny", "free"]
    plan = {}

    def forced(case):
        i = plan.get(id(case), 0)
        plan[id(case)] = i + 1
        return (kinds[i % len(kinds)], 1 + (i // len(kinds) + hash(case.text) % 3) % 4)
    recs = genrun.run_batch(ck, cases, seeds_per_case=len(kinds) if quick else 2 * len(kinds), what=("struct", "mass", "choices"),
                            seed_base=ck.seed * 15485863 + 7, oracles=[oracle_c07], forced=forced, runner=runner)
    # the model's unit counts against the implementation's, object by object
    for rec in recs:
        out = rec.get("model")
        s = rec["summary"]
        key = (rec["case"].text, tuple(genrun.history(rec["log"])))
        objs = objects_of(rec["log"])
        ck.case(key, nontrivial=bool(objs), sample={"text": rec["case"].text, "targets": [o["target"] for o in objs], "units_measured": [len(o["calls"]) for o in objs]} if objs else None)
        for o in objs:
            ck.count("objects")
        if out and out.get("ok") and s is not None:
            mu = genrun.model_units(out)
            iu = []
            for o in objs:
                K = len(o["calls"])
                added = [m - o["start"] for m, _ in o["calls"]]
                iu.append(K if (K >= 1 and added[-1] > o["target"]) else K + 1)
            if mu != iu:
                ck.mismatch("GEN.units", {"text": rec["case"].text, "history": genrun.history(rec["log"])[:60]}, iu, mu)
            if rec.get("tie"):
                ck.count("exact_or_near_ties")
    ck.rule = ("one case = one real generation with forced targets (exact binary64 tie with the implementation's own accumulated mass, one ulp "
               "below it, between two units, negative, below one unit, free draw); non-trivial = at least one stochastic object; distinct by (string, history)")
    ck.extra["assumptions"] = ["targets are forced by replacing the value returned by distribution.draw_mw after the real draw (same generator stream)"]
    ck.finish()


if __name__ == "__main__":
    main()
