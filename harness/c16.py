"""C16 — the reaction graph states the generator's probabilities, normalised at every node."""
import random
import warnings

import gbigsmiles
from gbigsmiles.bond import BondDescriptor
from gbigsmiles.stochastic import Stochastic
from gbigsmiles.token import SmilesToken

import genrun
from genadapt import molecule_json
from genrun import spec_compatible_bd
from lib import Check, close, unfrac


def node_paths(mol):
    """object -> structural path: token (e, t); descriptor (e, t, k)"""
    path = {}
    for e, el in enumerate(mol._elements):
        toks = [el] if isinstance(el, SmilesToken) else el.repeat_tokens + el.end_tokens
        for t, tok in enumerate(toks):
            path[id(tok)] = (e, t)
            for k, bd in enumerate(tok.bond_descriptors):
                path[id(bd)] = (e, t, k)
    return path


def law(ws):
    if not ws:
        return []
    if all(w == ws[0] for w in ws):
        return [1.0 / len(ws)] * len(ws)
    s = sum(ws)
    return [w / s for w in ws]


def oracle(ck, case, G, path):
    """per-node sums and, edge by edge, the generator's selection law recomputed from the parsed object"""
    mol = case.mol
    inp = {"text": case.text}
    els = mol._elements
    for e, el in enumerate(els):
        toks = [el] if isinstance(el, SmilesToken) else el.repeat_tokens + el.end_tokens
        for t, tok in enumerate(toks):
            if tok not in G:
                ck.fail("token-node-missing", inp, f"token {tok}")
                continue
            for k, bd in enumerate(tok.bond_descriptors):
                if bd not in G:
                    ck.fail("descriptor-node-missing", inp, f"descriptor {k} of {tok}")
                    continue
                if bd.weight >= 0 and (not G.has_edge(tok, bd) or G[tok][bd].get("atom") != bd.atom_bonding_to):
                    ck.fail("atom-edge", inp, f"descriptor {k} of {tok}")
                sums = {"prob": 0.0, "term_prob": 0.0, "trans_prob": 0.0}
                cnt = {"prob": 0, "term_prob": 0, "trans_prob": 0}
                for _, dst, data in G.out_edges(bd, data=True):
                    for a in sums:
                        if a in data:
                            sums[a] += data[a]
                            cnt[a] += 1
                            if not isinstance(dst, BondDescriptor):
                                ck.fail("probability-edge-to-token", inp, f"{a} edge from descriptor {k} of {tok}")
                for a in sums:
                    if cnt[a] and not (abs(sums[a] - 1) < 1e-6 or abs(sums[a]) < 1e-6):
                        cls = "connector-with-several-compatible-descriptors" if a == "trans_prob" and isinstance(els[e], Stochastic) and e + 1 < len(els) and isinstance(els[e + 1], SmilesToken) else None
                        ck.fail("not-normalised", inp, f"{a} out of descriptor {(e, t, k)} ({bd}) sums to {sums[a]}", cls)
                # inter-element transitions: generation hands over the descriptor left open by the repeat units (never an end group's,
                # never one that does not fit the right terminal) and enters the next object at a repeat unit that fits its left terminal
                trans_out = [(dst, data["trans_prob"]) for _, dst, data in G.out_edges(bd, data=True) if "trans_prob" in data and isinstance(dst, BondDescriptor)]
                if trans_out and bd.weight >= 0:
                    if isinstance(el, Stochastic):
                        if tok not in el.repeat_tokens:
                            ck.fail("transition-edge-leaves-end-group", inp, f"trans_prob edge out of end-group descriptor {(e, t, k)} ({bd}): generation never hands over an end group's descriptor")
                        elif not spec_compatible_bd(bd, el.right_terminal):
                            ck.fail("transition-edge-ignores-right-terminal", inp, f"trans_prob edge out of {(e, t, k)} ({bd}), right terminal {el.right_terminal}")
                    nxt = els[e + 1] if e + 1 < len(els) else None
                    if nxt is None:
                        ck.fail("transition-edge-out-of-last-element", inp, f"{(e, t, k)}")
                    else:
                        nxt_bds = nxt.bond_descriptors
                        for dst, p in trans_out:
                            if not any(dst is o for o in nxt_bds):
                                ck.fail("transition-edge-skips-element", inp, f"{(e, t, k)} -> {path.get(id(dst))}")
                            elif not spec_compatible_bd(bd, dst):
                                ck.fail("transition-edge-between-incompatible-descriptors", inp, f"{(e, t, k)} -> {path[id(dst)]}")
                            elif isinstance(nxt, Stochastic) and (not any(dst in tk.bond_descriptors and any(dst is x for x in tk.bond_descriptors) for tk in nxt.repeat_tokens)
                                                                  or not spec_compatible_bd(dst, nxt.left_terminal)):
                                ck.fail("transition-edge-enters-at-inadmissible-descriptor", inp, f"{(e, t, k)} -> {path[id(dst)]} (left terminal {nxt.left_terminal})")
                        if isinstance(nxt, Stochastic):
                            adm = [o for tk in nxt.repeat_tokens for o in tk.bond_descriptors if spec_compatible_bd(bd, o) and spec_compatible_bd(o, nxt.left_terminal)]
                            ws = [float(o.weight) for o in adm]
                            if adm and not all(w == 0 for w in ws) and all(w >= 0 for w in ws):
                                tot = sum(ws)
                                for o, w in zip(adm, ws):
                                    got = next((p for d, p in trans_out if d is o), None)
                                    if w > 0 and (got is None or not close(got, w / tot)):
                                        ck.fail("transition-probability-differs-from-generator", inp, f"{(e, t, k)} -> {path[id(o)]}: graph {got}, generator {w / tot}")
                # the generator's law for this descriptor as the open one
                if isinstance(el, Stochastic) and bd.weight >= 0:
                    in_repeat = tok in el.repeat_tokens
                    if bd.transitions is not None:
                        tl = [float(x) for x in bd.transitions]
                        tot = sum(tl)
                        if tot > 0:
                            for i, w in enumerate(tl):
                                other = el.bond_descriptors[i]
                                got = G[bd][other].get("prob") if G.has_edge(bd, other) else None
                                if got is None or not close(got, w / tot):
                                    ck.fail("list-probability", inp, f"descriptor {(e, t, k)} lists {tl}; edge to descriptor #{i} carries {got}")
                    else:
                        for group, attr in ((el.repeat_bonds, "prob"), (el.end_bonds, "term_prob")):
                            comp = [o for o in group if spec_compatible_bd(bd, o)]
                            ws = [float(o.weight) for o in comp]
                            if not comp or all(w == 0 for w in ws):
                                continue     # hypothesis (a): all compatible weights zero -> generator picks uniformly, graph has no edge
                            pl = law(ws)
                            for o, p in zip(comp, pl):
                                got = G[bd][o].get(attr) if G.has_edge(bd, o) else None
                                if p > 0 and (got is None or not close(got, p)):
                                    ck.fail("probability-differs-from-generator", inp, f"{attr} {(e, t, k)} -> {path[id(o)]}: graph {got}, generator {p}")
                                if p == 0 and got not in (None, 0.0):
                                    ck.fail("probability-differs-from-generator", inp, f"{attr} {(e, t, k)} -> {path[id(o)]}: graph {got}, generator 0")
                        # weight edges join compatible descriptors only
                        for _, dst, data in G.out_edges(bd, data=True):
                            if ("prob" in data or "term_prob" in data) and isinstance(dst, BondDescriptor) and not spec_compatible_bd(bd, dst):
                                ck.fail("weight-edge-between-incompatible-descriptors", inp, f"{(e, t, k)} -> {path[id(dst)]}")


def graph_dict(mol, G):
    """edges of a reaction graph keyed by the positions of their end points in the molecule (None: a node that is not part of it)"""
    path = node_paths(mol)
    out = {}
    for u, v, data in G.edges(data=True):
        if id(u) not in path or id(v) not in path:
            return None
        out[(path[id(u)], path[id(v)])] = {k: float(x) for k, x in data.items()}
    return out


def same_graph(a, b):
    if a is None or b is None or set(a) != set(b):
        return False
    return all(set(a[k]) == set(b[k]) and all(close(a[k][x], b[k][x]) for x in a[k]) for k in a)


def history_cases(ck, case, first):
    """the graph is a function of the molecule, not of what was asked of the object before: a second call gives the same graph, and the
    graph of the mirror image (made AFTER a graph call) is the graph of the freshly parsed text of the mirror image"""
    import gbigsmiles
    inp = {"text": case.text}
    with warnings.catch_warnings():
        warnings.simplefilter("ignore")
        try:
            again = graph_dict(case.mol, case.mol.gen_reaction_graph())
            if not same_graph(first, again):
                ck.fail("graph-depends-on-call-history", inp, "a second gen_reaction_graph() call on the same object gives another graph")
            mir = case.mol.gen_mirror()
            gm = graph_dict(mir, mir.gen_reaction_graph())
            fresh = gbigsmiles.Molecule(str(mir))
            gf = graph_dict(fresh, fresh.gen_reaction_graph())
        except Exception as exc:
            ck.note(f"mirror / graph raised {type(exc).__name__}: {exc} on {case.text[:80]}")
            return
    ck.count("mirror-after-graph")
    if not same_graph(gm, gf):
        diff = [k for k in (gf or {}) if gm is None or k not in gm or any(not close(gm[k].get(x, float("nan")), gf[k][x]) for x in gf[k])][:3]
        ck.fail("graph-depends-on-call-history", dict(inp, mirror=str(mir)),
                f"graph of the mirror image made after a graph call differs from the graph of its freshly parsed text at {diff}: "
                f"{[(k, (gm or {}).get(k), gf[k]) for k in diff]}")


def main():
    ck = Check("C16")
    ck.do_build()
    rnd = random.Random(ck.seed + 16)
    quick = ck.tier == "quick"
    cases = genrun.corpus_cases() + genrun.gen_cases(rnd, 500 if quick else 15000)
    ops, keep = [], []
    for case in cases:
        with warnings.catch_warnings():
            warnings.simplefilter("ignore")
            try:
                G = case.mol.gen_reaction_graph()
            except Exception as exc:
                ck.fail("graph-raises", {"text": case.text}, f"{type(exc).__name__}: {exc}")
                continue
        path = node_paths(case.mol)
        oracle(ck, case, G, path)
        impl = {}
        bad = False
        for u, v, data in G.edges(data=True):
            if id(u) not in path or id(v) not in path:
                ck.fail("foreign-node", {"text": case.text}, f"edge {u} -> {v}")
                bad = True
                break
            impl[(path[id(u)], path[id(v)])] = {k: float(x) for k, x in data.items()}
        if bad:
            continue
        if G.number_of_nodes() != len(path):
            ck.fail("node-count", {"text": case.text}, f"{G.number_of_nodes()} nodes, {len(path)} tokens + descriptors")
        if len(keep) % 3 == 0:
            history_cases(ck, case, impl)
        ops.append({"op": "RGRAPH", "els": case.els})
        keep.append((case, impl))
        ck.case((case.text,), nontrivial=len(impl) > 0, sample={"text": case.text, "edges": len(impl)})
        ck.count("archetype:" + case.archetype)
        ck.count("edges", len(impl))
    outs = ck.driver.run(ops)
    for (case, impl), out in zip(keep, outs):
        model = {}
        for src, dst, attr, val in out.get("adds", []):
            model.setdefault((tuple(src), tuple(dst)), {})[attr] = float(unfrac(val))
        if set(model) != set(impl):
            ck.mismatch("RGRAPH.edges", {"text": case.text}, sorted(set(impl) - set(model))[:5], sorted(set(model) - set(impl))[:5])
            continue
        for key in impl:
            a, b = impl[key], model[key]
            if set(a) != set(b) or not all(close(a[k], b[k]) for k in a):
                ck.mismatch("RGRAPH.attributes", {"text": case.text, "edge": key}, a, b)
                break
    ck.rule = ("one case = one molecule (corpus + all archetypes); every node and every edge of its reaction graph is compared with the model and with the generator's "
               "selection law recomputed from the parsed object; non-trivial = graph has edges; distinct by text")
    ck.extra["assumptions"] = ["NetworkX DiGraph.add_edge merges the attributes of a repeated (u, v) pair"]
    ck.finish()


if __name__ == "__main__":
    main()
