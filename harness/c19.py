"""C19 — ensemble probability of linear directed chains equals the generation probability.

Molecules of the property's class are built from a catalogue of fragments (prefix or end-group start, one to three
blocks of one directed repeat unit each).  For every molecule and every chain length the real generator produces the
chain (forced targets), `get_ensemble_prob` is asked for its probability, and the value is compared with

* the model (lean/GBS/Model/MolProb.lean, op CPROB): the evaluation points `(value, previous)` of every block for
  every start fragment, at which closed-form CDFs (distref, written from the documentation) are evaluated
  — the correspondence;
* the property: product over blocks of F(n u) - F((n-1) u), times the start probabilities — the oracle;
and over all chain lengths the values are summed, SMILES strings are renumbered, and foreign molecules are queried."""
import itertools
import math
import multiprocessing as mp
import random
import signal
import warnings

import numpy as np

import distref
from lib import Check, close, frac, unfrac

UNITS = ["C(N)C", "C(=O)C", "C(F)C", "C(Cl)C", "CSC", "C(O)C", "CC", "CC(C)C", "C(C)(C)C"]
ENDS = ["[H]", "Br", "CO", "[Si]", "OCCCC", "I", "CC"]
PREFIX = ["[H]", "OCC", "Br", "N#CC", "I", "CC"]
SUFFIX = ["[Si]", "CO", "Br", "I"]

DISTS_QUICK = [("gauss", [150.0, 30.0]), ("uniform", [0, 300]), ("uniform", [100, 250]), ("log_normal", [150.0, 1.2]),
               ("poisson", [120.0]), ("poisson", [5.0]), ("flory_schulz", [0.03]), ("schulz_zimm", [200.0, 150.0]), ("gauss", [60.0, 40.0])]


def dist_text(fam, params):
    return fam + "(" + ", ".join(repr(p) for p in params) + ")"


def heavy(smi):
    from rdkit import Chem
    from rdkit.Chem import Descriptors
    return float(Descriptors.HeavyAtomMolWt(Chem.MolFromSmiles(smi)))


def heavy_all(smi):
    from rdkit import Chem
    from rdkit.Chem import Descriptors
    params = Chem.SmilesParserParams()
    params.removeHs = False
    return float(Descriptors.HeavyAtomMolWt(Chem.MolFromSmiles(smi, params)))


class Spec:
    """a molecule of the class: start kind, blocks (unit, family, params), end"""

    def __init__(self, kind, start, units, dists, ends, weights=(1, 1)):
        self.kind, self.start, self.units, self.dists, self.ends, self.weights = kind, start, units, dists, ends, weights

    def text(self):
        k = len(self.units)
        d = ["|" + dist_text(*x) + "|" for x in self.dists]
        if self.kind == "prefix-end":        # P{[<][<]U1[>][>]}...{[<][<]Uk[>];[>]E[]}
            s = self.start
            for i in range(k - 1):
                s += "{[<][<]%s[>][>]}%s" % (self.units[i], d[i])
            return s + "{[<][<]%s[>];[>]%s[]}%s" % (self.units[-1], self.ends[0], d[-1])
        if self.kind == "prefix-suffix":     # P{[<][<]U1[>][>]}...S
            s = self.start
            for i in range(k):
                s += "{[<][<]%s[>][>]}%s" % (self.units[i], d[i])
            return s + self.ends[0]
        if self.kind == "ends-both":         # {[][<]U[>];[<|w1|]E1,[>|w2|]E2[]}
            w1, w2 = self.weights
            return "{[][<]%s[>];[<|%s|]%s,[>|%s|]%s[]}%s" % (self.units[0], w1, self.ends[0], w2, self.ends[1], d[0])
        if self.kind == "end-start":         # {[][<]U1[>];[<]E1[>]}{[<][<]U2[>][>]}...{[<][<]Uk[>];[>]E2[]}
            if k == 1:
                return "{[][<]%s[>];[<]%s,[>]%s[]}%s" % (self.units[0], self.ends[0], self.ends[1], d[0])
            s = "{[][<]%s[>];[<]%s[>]}%s" % (self.units[0], self.ends[0], d[0])
            for i in range(1, k - 1):
                s += "{[<][<]%s[>][>]}%s" % (self.units[i], d[i])
            return s + "{[<][<]%s[>];[>]%s[]}%s" % (self.units[-1], self.ends[1], d[-1])
        raise ValueError(self.kind)

    def cands(self):
        """(weight, mass, found at an end of every chain of the ensemble) of the start candidates, and firstIsToken"""
        if self.kind.startswith("prefix"):
            return True, [(1.0, heavy(self.start), True)]
        if self.kind == "ends-both":
            return False, [(float(self.weights[0]), heavy(self.ends[0]), True), (float(self.weights[1]), heavy(self.ends[1]), True)]
        if len(self.units) == 1:
            return False, [(1.0, heavy(self.ends[0]), True), (1.0, heavy(self.ends[1]), True)]
        return False, [(1.0, heavy(self.ends[0]), True)]


def rand_spec(rnd, dists):
    kind = rnd.choice(["prefix-end", "prefix-suffix", "ends-both", "end-start", "prefix-end", "end-start"])
    k = 1 if kind == "ends-both" else rnd.choice([1, 1, 2, 2, 3])
    units = rnd.sample(UNITS, k)
    ds = [rnd.choice(dists) for _ in range(k)]
    if kind.startswith("prefix"):
        start = rnd.choice(PREFIX)
        ends = [rnd.choice([e for e in (ENDS if kind == "prefix-end" else SUFFIX) if e != start])]
    else:
        start = None
        ends = rnd.sample(ENDS, 2)
    w = (rnd.choice([1, 1, 2, 0.5]), rnd.choice([1, 3, 0.25])) if kind == "ends-both" else (1, 1)
    return Spec(kind, start, units, ds, ends, w)


class Timeout(Exception):
    pass


def _alarm(signum, frame):
    raise Timeout()


def generate(text, targets, seed):
    import gbigsmiles
    from gbigsmiles.stochastic import Stochastic
    mol = gbigsmiles.Molecule(text)
    st = [e for e in mol._elements if isinstance(e, Stochastic)]
    for e, t in zip(st, targets):
        e.distribution.draw_mw = (lambda t: (lambda rng=None: t))(t)
    return mol.generate(rng=np.random.default_rng(seed)).smiles


def prob(text, smi):
    import gbigsmiles
    from gbigsmiles.mol_prob import get_ensemble_prob
    mol = gbigsmiles.Molecule(text)
    r = get_ensemble_prob(smi, mol)
    if isinstance(r, tuple):
        return float(r[0]), len(r[1])
    return float(r), 0


def renumber(smi, seed):
    from rdkit import Chem
    params = Chem.SmilesParserParams()
    params.removeHs = False
    m = Chem.MolFromSmiles(smi, params)
    order = list(range(m.GetNumAtoms()))
    random.Random(seed).shuffle(order)
    m2 = Chem.RenumberAtoms(m, order)
    return Chem.MolToSmiles(m2, canonical=False, allHsExplicit=False)


def work(job):
    """one (spec text, unit counts) job: generate the chain, ask for its probability (plus variants)"""
    warnings.simplefilter("ignore")
    text, masses, ns, seed, variants = job
    signal.signal(signal.SIGALRM, _alarm)
    signal.alarm(600)
    out = {"ns": ns}
    try:
        targets = [u * (n - 0.5) for u, n in zip(masses, ns)]
        smi = generate(text, targets, seed)
        out["smiles"] = smi
        out["mass"] = heavy_all(smi)
        if all(n == 1 for n in ns):
            # the generator gives one unit for non-positive targets too
            out["nonpositive"] = [generate(text, [t] * len(ns), seed) == smi for t in (0.0, -5.0)]
        out["p"], out["matches"] = prob(text, smi)
        if "renumber" in variants:
            out["renumbered"] = []
            for k in range(2):
                s2 = renumber(smi, seed * 7 + k)
                out["renumbered"].append((s2, prob(text, s2)[0]))
        if "otherseed" in variants:
            s3 = generate(text, targets, seed + 1)
            out["otherseed"] = (s3, prob(text, s3)[0])
        if "foreign" in variants:
            out["foreign"] = []
            for f in variants["foreign"]:
                out["foreign"].append((f, prob(text, f)[0]))
    except Timeout:
        out["error"] = "timeout"
    except Exception as exc:  # noqa
        out["error"] = f"{type(exc).__name__}: {exc}"
    finally:
        signal.alarm(0)
    return out


EPS = 1e-7


def interval_bounds(ref, value, previous):
    """bounds of F(value) - F(previous) when both end points are known up to EPS"""
    if previous is None:      # nothing before: every target below `value`
        return max(0.0, ref.cdf(value - EPS)), max(0.0, ref.cdf(value + EPS))
    # an accumulated mass is known up to rounding; the literal 0.0 before the first unit is exact
    e = EPS if previous != 0 else 0.0
    lo = max(0.0, ref.cdf(value - EPS) - ref.cdf(previous + e))
    hi = max(0.0, ref.cdf(value + EPS) - ref.cdf(previous - e))
    return lo, hi


def within(p, lo, hi):
    return lo - max(2e-9, 2e-6 * lo) <= p <= hi + max(2e-9, 2e-6 * hi)


def nmax_for(ref, u, cap):
    total = getattr(ref, "total", 1.0)
    n = 1
    while n < cap and ref.cdf(n * u) < total * (1 - 1e-9):
        n += 1
    return n


def main():
    ck = Check("C19")
    ck.do_build()
    rnd = random.Random(ck.seed + 19)
    quick = ck.tier == "quick"
    dists = list(DISTS_QUICK)
    if not quick:
        dists += [(f, p) for f, p, _ in distref.param_grid(rnd, True) if (distref.reference(f, p).mean <= 700)]
    nspec = 24 if quick else 160
    cap = 26 if quick else 60
    specs, seen = [], set()
    # the pinned strings' shapes first (corpus), then random ones
    fixed = [Spec("ends-both", None, ["C(N)C"], [("uniform", [0, 500])], ["[H]", "OCCCC"]),
             Spec("ends-both", None, ["C(N)C"], [("uniform", [500, 600])], ["[H]", "CO"]),
             Spec("prefix-end", "[H]", ["C(N)C"], [("uniform", [100, 300])], ["CO"]),
             Spec("prefix-suffix", "[H]", ["C(N)C"], [("gauss", [150.0, 30.0])], ["CO"]),
             Spec("end-start", None, ["C(N)C", "C(=O)C"], [("uniform", [100, 200]), ("uniform", [100, 200])], ["[H]", "[H]"]),
             Spec("prefix-end", "OCC", ["C(N)C", "C(=O)C"], [("gauss", [100.0, 20.0]), ("gauss", [100.0, 20.0])], ["[H]"]),
             Spec("end-start", None, ["C(F)C", "C(=O)C"], [("uniform", [0, 200]), ("poisson", [120.0])], ["Br", "[H]"]),
             # a locally symmetric repeat unit (two CF3 groups: 72 automorphic placements per unit): chains of 8 units and more have over
             # a thousand non-uniquified substructure matches, the bulk of this ensemble has 10-14 units
             Spec("prefix-suffix", "OCC", ["C(C(F)(F)F)(C(F)(F)F)C"], [("gauss", [1900.0, 120.0])], ["CO"])]
    for s in fixed:
        specs.append(s)
        seen.add(s.text())
    while len(specs) < nspec:
        s = rand_spec(rnd, dists)
        if s.text() in seen:
            continue
        seen.add(s.text())
        specs.append(s)
    jobs, meta = [], []
    for si, s in enumerate(specs):
        text = s.text()
        masses = [heavy(u) for u in s.units]
        refs = [distref.reference(*d) for d in s.dists]
        nm = [nmax_for(r, u, cap) for r, u in zip(refs, masses)]
        k = len(s.units)
        if k == 1:
            combos = [(n,) for n in range(1, nm[0] + 1)]
            full = True
        else:
            full = si < len(fixed) + 2 and k == 2 and nm[0] * nm[1] <= (90 if quick else 400)
            if full:
                combos = list(itertools.product(*[range(1, n + 1) for n in nm]))
            else:
                combos = set()
                for _ in range(6 if quick else 14):
                    c = []
                    for r, u, n in zip(refs, masses, nm):
                        # lengths around the bulk of the law and at its edges
                        q = rnd.choice([0.02, 0.2, 0.5, 0.8, 0.98]) * getattr(r, "total", 1.0)
                        c.append(max(1, min(n, int(math.ceil(max(r.quantile(q), 1e-9) / u)))))
                    combos.add(tuple(c))
                combos = sorted(combos)
        for ci, ns in enumerate(combos):
            variants = {}
            if ci % 5 == 2 or len(combos) < 4:
                variants["renumber"] = True
                variants["otherseed"] = True
            if ci == len(combos) // 2:
                # foreign molecules: a unit / end group the ensemble cannot contain, a ring, a chain with both ends wrong
                alien_u = next(u for u in UNITS if u not in s.units)
                alien_e = next(e for e in ENDS if e not in s.ends and e != s.start and e != "[H]")
                body = "".join(u * n for u, n in zip(s.units, ns))
                variants["foreign"] = ["CC" + alien_u * 3 + "N", "N" + body + "N", "C1CCCCC1", "c1ccccc1" + body, alien_e + body + alien_u + alien_e]
            jobs.append([text, masses, list(ns), ck.seed * 1000 + si, variants])
            meta.append((si, full))
    with mp.get_context("fork").Pool(16) as pool:
        results = pool.map(work, jobs, chunksize=1)
    # model: evaluation points
    ops = []
    for j, (si, _) in zip(jobs, meta):
        s = specs[si]
        first_tok, cands = s.cands()
        ops.append({"op": "CPROB", "firstIsToken": first_tok, "cands": [{"w": frac(w), "m": frac(m), "ok": ok} for w, m, ok in cands],
                    "blocks": [{"n": n, "u": frac(u)} for n, u in zip(j[2], j[1])]})
    outs = ck.driver.run(ops)
    sums = {}
    for j, (si, full), res, out in zip(jobs, meta, results, outs):
        s = specs[si]
        text, masses, ns = j[0], j[1], j[2]
        inp = {"molecule": text, "units_per_block": ns, "smiles": res.get("smiles")}
        refs = [distref.reference(*d) for d in s.dists]
        ck.count("kind:" + s.kind)
        ck.count("blocks:%d" % len(ns))
        for d in s.dists:
            ck.count("family:" + d[0])
        if "error" in res:
            ck.fail("probability-raises", inp, res["error"])
            continue
        # the generator really produced the requested number of units (forced targets in the middle of the unit's interval)
        fixed_mass = (heavy(s.start) if s.start else 0.0) + sum(heavy(e) for e in s.ends)
        if abs(res["mass"] - fixed_mass - sum(n * u for n, u in zip(ns, masses))) > 1e-6:
            ck.fail("generator-did-not-produce-the-requested-chain", inp, f"mass {res['mass']}")
            continue
        if "nonpositive" in res and not all(res["nonpositive"]):
            ck.fail("non-positive-target-gives-other-chain", inp, "targets 0.0 / -5.0 do not give the one-unit chain")
        # property: product of the interval probabilities without any start mass.  The implementation accumulates the unit masses by
        # repeated float addition, so a cumulative mass that is an integer up to rounding (40 x 59.475) may fall on either side of an
        # atom of an integer-valued law: bounds with the end points moved by EPS are compared instead of one number.
        # The generator adds the first unit before it compares, so a block has one unit for EVERY target below the unit's mass,
        # also the non-positive ones of laws that have mass there (gauss with a broad width, poisson's atom at 0).
        wlo = whi = 1.0
        below_zero = False
        for r, u, n in zip(refs, masses, ns):
            lo_, hi_ = interval_bounds(r, n * u, (n - 1) * u if n > 1 else None)
            wlo *= lo_
            whi *= hi_
            if n == 1 and r.cdf(0.0) > 0:
                below_zero = True
        want = math.sqrt(wlo * whi) if wlo > 0 else (wlo + whi) / 2
        # model
        if "starts" not in out:
            ck.mismatch("CPROB", inp, res["p"], out)
            continue
        mlo = mhi = 0.0
        for st in out["starts"]:
            flo = fhi = float(unfrac(st["p"]))
            for r, (v, pr) in zip(refs, st["pts"]):
                lo_, hi_ = interval_bounds(r, float(unfrac(v)), float(unfrac(pr)))
                flo *= lo_
                fhi *= hi_
            mlo += flo
            mhi += fhi
        pm = (mlo + mhi) / 2
        first_tok, cands = s.cands()
        offset = (not first_tok) and any(m > 0 for _, m, _ in cands)
        ck.case((text, tuple(ns)), nontrivial=True, sample={"molecule": text, "units": ns, "reported": res["p"], "model": pm, "property": want})
        ck.count("mass_in_interval:%s" % ("<1e-6" if want < 1e-6 else "<0.01" if want < 0.01 else ">=0.01"))
        if not within(res["p"], mlo, mhi):
            ck.mismatch("CPROB", inp, res["p"], {"model_value": pm, "points": out})
        if not within(res["p"], wlo, whi):
            ck.fail("probability-differs-from-generation", inp,
                    f"get_ensemble_prob = {res['p']!r}; generation produces this chain with probability {want!r} (targets in "
                    f"{[((n - 1) * u, n * u) for u, n in zip(masses, ns)]})",
                    ("end-group-start-mass-counted" if offset else "mass-at-or-below-zero-not-counted" if below_zero else None)
                    if within(res["p"], mlo, mhi) else None)
        sums.setdefault(si, [0.0, 0.0, full, 0.0])
        sums[si][0] += res["p"]
        sums[si][1] += want
        sums[si][3] += pm
        for s2, p2 in res.get("renumbered", []):
            ck.evaluations += 1
            ck.count("renumbered")
            if not close(p2, res["p"], 1e-9, 1e-12):
                ck.fail("atom-order-changes-probability", dict(inp, renumbered=s2), f"{res['p']!r} for {res['smiles']} but {p2!r} for {s2}")
        if "otherseed" in res:
            s3, p3 = res["otherseed"]
            ck.evaluations += 1
            if not close(p3, res["p"], 1e-9, 1e-12):
                ck.fail("same-molecule-different-probability", dict(inp, other=s3), f"{res['p']!r} vs {p3!r}")
        for f, pf in res.get("foreign", []):
            ck.evaluations += 1
            ck.count("foreign")
            if pf != 0:
                ck.fail("foreign-molecule-has-probability", dict(inp, foreign=f), f"{pf!r}")
    # sums over all chain lengths
    for si, (tot, want_tot, full, model_tot) in sums.items():
        s = specs[si]
        if not (len(s.units) == 1 or full):
            continue
        refs = [distref.reference(*d) for d in s.dists]
        total = 1.0
        for r in refs:
            total *= getattr(r, "total", 1.0)
        below_zero = any(r.cdf(0.0) > 0 for r in refs)
        ck.evaluations += 1
        ck.count("summed-ensembles")
        first_tok, cands = s.cands()
        offset = (not first_tok) and any(m > 0 for _, m, _ in cands)
        inp = {"molecule": s.text(), "all_lengths_up_to": "1 - 1e-9 of the law"}
        ck.extra.setdefault("ensemble_sums", {})[s.text()] = round(tot, 9)
        if abs(want_tot - total) > 1e-5:
            ck.note(f"lengths explored cover {want_tot:.7f} of {total:.7f}: {s.text()}")
        if abs(tot - want_tot) > 1e-6:
            ck.fail("ensemble-does-not-sum-to-one", inp, f"reported probabilities of all chain lengths add up to {tot!r}, the law's mass there is {want_tot!r}",
                    ("end-group-start-mass-counted" if offset else "mass-at-or-below-zero-not-counted" if below_zero else None)
                    if abs(tot - model_tot) <= 1e-6 else None)
    # ---- two directly adjacent blocks of the SAME repeat unit: a chain of n units arises from every split (j, n - j), the reported value is the sum
    # over the splits (uniform laws without mass at or below zero, prefix start: none of the recorded findings applies)
    for text, (l1, h1), (l2, h2), unit in [("[H]{[<][<]CC[>][>]}|uniform(10, 150)|{[<][<]CC[>][>]}|uniform(20, 100)|[Si]", (10, 150), (20, 100), "CC"),
                                          ("OCC{[<][<]C(N)C[>][>]}|uniform(0, 200)|{[<][<]C(N)C[>][>]}|uniform(30, 120)|Br", (0, 200), (30, 120), "C(N)C")]:
        u = heavy(unit)

        def F(x, lo, hi):
            return min(1.0, max(0.0, (x - lo) / (hi - lo)))
        tot_impl = tot_want = 0.0
        nmax = int((h1 + h2) / u) + 3
        for n in range(2, nmax + 1):
            want = 0.0
            for j in range(1, n):
                want += (F(j * u, l1, h1) - F((j - 1) * u, l1, h1)) * (F((n - j) * u, l2, h2) - F((n - j - 1) * u, l2, h2))
            j0 = max(1, min(n - 1, n // 2))
            try:
                smi = generate(text, [(j0 - 0.5) * u, (n - j0 - 0.5) * u], ck.seed + n)
                got, _ = prob(text, smi)
            except Exception as exc:
                ck.fail("probability-raises", {"molecule": text, "units": n}, f"{type(exc).__name__}: {exc}")
                continue
            ck.evaluations += 1
            ck.count("same-unit-adjacent-blocks")
            tot_impl += got
            tot_want += want
            if not close(got, want, 1e-6, 1e-9):
                ck.fail("probability-differs-from-generation", {"molecule": text, "units_in_both_blocks": n, "smiles": smi},
                        f"get_ensemble_prob = {got!r}; generation produces this chain with probability {want!r} (sum over the {n - 1} splits between the two blocks)")
        if abs(tot_impl - tot_want) > 1e-6:
            ck.fail("ensemble-does-not-sum-to-one", {"molecule": text}, f"reported probabilities of all chain lengths add up to {tot_impl!r}, expected {tot_want!r}")
    ck.rule = ("one case = one (molecule of the class, unit count per block): the chain is produced by the real generator with forced targets and queried; "
               "molecules: prefix or end-group start x 1-3 blocks x 6 units x 6 end groups x distribution families; single-block and small two-block ensembles "
               "are enumerated over all chain lengths carrying 1 - 1e-9 of the law and summed; every fifth chain is re-queried under two random atom renumberings "
               "and from a generation with another seed; foreign molecules are queried once per molecule")
    ck.extra["assumptions"] = ["the closed-form CDFs (distref) are the declared laws; the implementation's CDFs are compared with them in C11",
                               "which start fragments sit at an end of the queried chain is known by construction of the molecule class"]
    ck.finish()


if __name__ == "__main__":
    main()
