"""C01 — canonical notation round-trips: fixed point, same object, extensions erasable."""
import random
import re
import warnings

import numpy as np

import gbigsmiles

import gen
import parsecases
from lib import Check, close
from parsedump import diff, impl_parse, parse_op, KINDS, Diverged

SEG = re.compile(r"\|[^|]*\|")


def erase(p):
    return SEG.sub("", p)


MIXSEG = re.compile(r"\.\|([^|%]*)(%?)\|")


def same_print(a, b):
    """equal strings, except that the masses inside mixture specifiers `.|…|` (derived by binary64 arithmetic in the
    implementation, by exact arithmetic in the model) are compared numerically at 1e-9"""
    if a == b:
        return True
    if MIXSEG.sub(".|#|", a) != MIXSEG.sub(".|#|", b):
        return False
    va, vb = MIXSEG.findall(a), MIXSEG.findall(b)
    if len(va) != len(vb):
        return False
    for (x, px), (y, py) in zip(va, vb):
        if px != py:
            return False
        try:
            if not close(float(x), float(y), 1e-9):
                return False
        except ValueError:
            if x != y:
                return False
    return True


def strip_ids(d):
    """dump without residue ids (internal numbering, not part of the denoted object)"""
    if isinstance(d, dict):
        return {k: strip_ids(v) for k, v in d.items() if k != "res"}
    if isinstance(d, list):
        return [strip_ids(x) for x in d]
    return d


def same_dump(a, b, path=""):
    """implementation dump against implementation dump (floats at 1e-12)"""
    if isinstance(a, dict):
        if not isinstance(b, dict) or set(a) != set(b):
            return f"{path}: keys differ"
        for k in a:
            r = same_dump(a[k], b[k], path + "." + k)
            if r:
                return r
        return None
    if isinstance(a, list):
        if not isinstance(b, list) or len(a) != len(b):
            return f"{path}: length {len(a)} vs {len(b) if isinstance(b, list) else b!r}"
        for i, (x, y) in enumerate(zip(a, b)):
            r = same_dump(x, y, f"{path}[{i}]")
            if r:
                return r
        return None
    if isinstance(a, float) and isinstance(b, float):
        return None if close(a, b, 1e-12) else f"{path}: {a!r} vs {b!r}"
    return None if a == b else f"{path}: {a!r} vs {b!r}"


def tokens_of(dump, kind):
    """(atoms, [(sym, id, atom, order)]) per token, in order"""
    out = []

    def tok(t):
        out.append((tuple(t["atoms"]), tuple((d["s"], d["id"], d["a"], d["o"]) for d in t["descs"])))
    if kind == "token":
        tok(dump)
    elif kind == "stoch":
        out.append(("terminals", (dump["left"]["s"], dump["left"]["id"]), (dump["right"]["s"], dump["right"]["id"])))
        for t in dump["rep"] + dump["end"]:
            tok(t)
    elif kind == "mol":
        for e in dump["elems"]:
            if e["k"] == "tok":
                tok(e["v"])
            else:
                out += tokens_of(e["v"], "stoch")
    return out


def main():
    ck = Check("C01")
    ck.do_build()
    rnd = random.Random(ck.seed + 1)
    quick = ck.tier == "quick"
    cases = []    # (kind, text, group) ; group ties layout variants of one AST together
    g = 0
    for m in parsecases.molecule_cases(rnd, 140 if quick else 6000):
        g += 1
        for v in range(3):
            for e in m.elems:
                if isinstance(e, gen.StochT):
                    e.lay = gen.rand_layout(rnd, 0.1 + 0.3 * v)
            cases.append(("mol", m.text(), g))
        for e in m.elems:
            if isinstance(e, gen.StochT):
                cases.append(("stoch", parsecases.relayout(rnd, e.text()), None))
    for t in parsecases.token_cases(rnd, 300 if quick else 6000):
        cases.append(("token", parsecases.relayout(rnd, t.text), None))
    for _ in range(60 if quick else 1500):
        ms = parsecases.molecule_cases(rnd, rnd.randint(1, 3))
        if ms:
            text, sysmass, specs = parsecases.system_text(rnd, ms)
            cases.append(("system", text, None if sysmass is None else ("M", sysmass)))
    for s in parsecases.corpus_strings():
        cases.append(("mol", s, None))
        cases.append(("system", s, None))
    # mixture masses whose canonical (repr) form carries a signed exponent: below 1e-4, from 1e16 on - written in plain decimals or derived
    for s in ["CCO.|0.00001%|", "CC.|0.00002|", "CC.|20000000000000000|", "CCN.|0.000025|", "CC{[$][$]CC[$][$]}|uniform(20, 90)|C.|0.00003%|"]:
        cases.append(("mol", s, None))
    for s in ["CCO.|0.000001%|{[][<]CC[>]; [<]C, [>]N []}|uniform(50, 100)|.|1000|", "CCO.|0.00002|CCN.|0.00006|", "CC.|30000000000000000|CCC.|10000000000000000|"]:
        cases.append(("system", s, None))
    by_group = {}
    ops = []
    meta = []
    for kind, text, grp in cases:
        sysmass = grp[1] if isinstance(grp, tuple) else None
        with warnings.catch_warnings():
            warnings.simplefilter("ignore")
            if kind == "system" and sysmass is not None:
                try:
                    obj = gbigsmiles.System(text, sysmass)
                    dump, err = [__import__("parsedump").mol_dump(m) for m in obj._molecules], None
                except Exception as exc:
                    dump, err = None, exc
            else:
                dump, err = impl_parse(kind, text)
        if err is not None:
            ck.count("rejected-input:" + kind)
            continue       # C01 quantifies over accepted strings
        inp = {"kind": kind, "text": text, "system_mass": sysmass}
        p = "".join(d["ext"] for d in dump) if kind == "system" else dump["ext"]
        q = "".join(d["noext"] for d in dump) if kind == "system" else dump["noext"]
        ck.case((kind, text), nontrivial="|" in p or "{" in p or "[" in p, sample={"kind": kind, "s": text, "p": p, "q": q} if len(text) > 20 else None)
        ck.count("kind:" + kind)
        # 1. the canonical string is accepted again, prints to itself, denotes the same object
        dump2, err2 = impl_parse(kind, p)
        if err2 is not None:
            ck.fail("canonical-string-rejected", inp, f"p = {p!r}: {type(err2).__name__}: {err2}")
        else:
            p2 = "".join(d["ext"] for d in dump2) if kind == "system" else dump2["ext"]
            if p2 != p:
                ck.fail("not-a-fixed-point", inp, f"p = {p!r} prints as {p2!r}")
            d = same_dump(strip_ids(dump), strip_ids(dump2))
            if d:
                ck.fail("canonical-string-denotes-another-object", inp, f"p = {p!r}: {d}")
        # 2. printing without extensions = the canonical string with every |...| erased
        if q != erase(p):
            ck.fail("noext-is-not-erasure", inp, f"p = {p!r}, q = {q!r}, erase(p) = {erase(p)!r}")
        if "|" in q:
            ck.fail("noext-contains-bar", inp, q)
        if kind in ("mol", "token", "stoch") and not q.endswith("."):
            dump3, err3 = impl_parse(kind, q)
            if err3 is not None:
                ck.fail("noext-string-rejected", inp, f"q = {q!r}: {type(err3).__name__}: {err3}")
            elif tokens_of(dump3, kind) != tokens_of(dump, kind):
                ck.fail("noext-string-denotes-other-tokens", inp, f"q = {q!r}: {tokens_of(dump3, kind)} vs {tokens_of(dump, kind)}")
        # 3. layout does not matter
        if isinstance(grp, int):
            if grp in by_group and by_group[grp][0] != p:
                ck.fail("layout-changes-canonical-string", inp, f"{by_group[grp][1]!r} -> {by_group[grp][0]!r} but {text!r} -> {p!r}")
            by_group.setdefault(grp, (p, text))
        # 4. same molecule under an identically seeded generator
        if kind == "mol" and err2 is None and (len(ops) % (16 if quick else 4) == 0):
            try:
                with warnings.catch_warnings():
                    warnings.simplefilter("ignore")
                    m1, m2 = gbigsmiles.Molecule(text), gbigsmiles.Molecule(p)
                    if m1.generable:
                        if not m2.generable:
                            ck.fail("canonical-string-not-generable", inp, p)
                        else:
                            for seed in range(2):
                                a = m1.generate(rng=np.random.default_rng(seed))
                                b = m2.generate(rng=np.random.default_rng(seed))
                                if a.smiles != b.smiles or not close(a.weight, b.weight, 1e-12):
                                    ck.fail("different-molecule-under-same-seed", inp, f"seed {seed}: {a.smiles} vs {b.smiles}")
                                ck.count("seeded-generation-pairs")
                            # the object that was used for generation still prints its canonical string (C01: "prints to itself")
                            if str(m1) != p or m1.generate_string(False) != q:
                                ck.fail("canonical-string-changes-after-generation", inp, f"before {p!r}, after generate() {str(m1)!r} / {m1.generate_string(False)!r}")
                            if str(m2) != p:
                                ck.fail("canonical-string-changes-after-generation", inp, f"object parsed from p: before {p!r}, after generate() {str(m2)!r}")
            except RuntimeError as exc:
                if "updating stopped" in str(exc):
                    ck.count("skipped_c11_draw_failure")
                else:
                    ck.note(f"generation raised {type(exc).__name__}: {exc} on {text[:80]}")
            except Exception as exc:
                ck.note(f"generation raised {type(exc).__name__}: {exc} on {text[:80]}")
        # correspondence: the model's printed forms of s, and its reading of p
        o1 = parse_op(kind, text)
        if kind == "system" and sysmass is not None:
            from lib import frac
            o1["M"] = frac(float(sysmass))
        ops.append(o1)
        ops.append(parse_op(kind, p))
        meta.append((inp, dump, p, q, dump2, err2))
    try:
        outs = ck.driver.run(ops)
    except RuntimeError as exc:
        ck.mismatch("driver", "PARSE batch", "n/a", str(exc))
        outs = []
    for k, (inp, dump, p, q, dump2, err2) in enumerate(meta):
        if 2 * k + 1 >= len(outs):
            break
        o1, o2 = outs[2 * k], outs[2 * k + 1]
        if not o1.get("ok"):
            ck.mismatch("PARSE", inp, "accepted", o1)
            continue
        mp, mq = o1.get("ext"), o1.get("noext")
        if mp is None:
            mp, mq = o1["v"]["ext"], o1["v"]["noext"]
        if "?" not in mp and not same_print(mp, p):
            ck.mismatch("PRINT.ext", inp, p, mp)
        if mq != q:
            ck.mismatch("PRINT.noext", inp, q, mq)
        if (err2 is None) != bool(o2.get("ok")):
            ck.mismatch("PARSE(canonical)", dict(inp, p=p), "accepted" if err2 is None else f"raises {type(err2).__name__}", o2 if not o2.get("ok") else "accepted")
        elif err2 is None:
            d = diff(dump2, o2["v"])
            if d:
                ck.mismatch("PARSE(canonical)", dict(inp, p=p), d, "(model)")
    ck.rule = ("every accepted string of: generated molecules of all archetypes in 3 whitespace / number-spelling layouts, their stochastic objects, random tokens, "
               "1-3 component systems (with and without caller mass), and the strings of README / SI.md / tests; one case = one accepted string; "
               "non-trivial = contains descriptors or extensions; distinct by text")
    ck.extra["assumptions"] = ["float(repr(x)) == x (CPython)", "repr of a float whose shortest decimal has <= 15 significant digits is that decimal (model printer; other numbers are compared numerically)"]
    ck.finish()


if __name__ == "__main__":
    main()
