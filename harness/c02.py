"""C02 — parsing recovers exactly the structure the notation denotes."""
import random

from rdkit import Chem

import gen
import parsecases
from lib import Check, close
from parsedump import diff, impl_parse, parse_op

ORDER_RD = {1: 1, 2: 2, 3: 3, 12: 12}


def check_token(ck, text, tok, dump, where):
    """oracle: the parsed token against what the AST denotes (independent printer) and against RDKit's own reading"""
    exp = parsecases.expected_token(tok)
    inp = {"text": text, "token": tok.text, "where": where}
    if dump["atoms"] != exp["atoms"]:
        ck.fail("atoms", inp, f"parsed atoms {dump['atoms']}, written {exp['atoms']}")
        return
    if len(dump["descs"]) != len(exp["descs"]):
        ck.fail("descriptor-count", inp, f"{len(dump['descs'])} parsed, {len(exp['descs'])} written")
        return
    for k, (g, e) in enumerate(zip(dump["descs"], exp["descs"])):
        if g["s"] != e["s"] or g["id"] != e["id"]:
            ck.fail("descriptor-symbol-id", inp, f"descriptor {k}: parsed {(g['s'], g['id'])}, written {(e['s'], e['id'])}")
        if not close(g["w"], e["w"]) or (g["t"] is None) != (e["t"] is None) or (g["t"] is not None and not all(close(x, y) for x, y in zip(g["t"], e["t"]))):
            ck.fail("descriptor-weight", inp, f"descriptor {k}: parsed weight {g['w']} list {g['t']}, written {e['w']} {e['t']}")
        if g["t"] is not None and not close(g["w"], sum(g["t"])):
            ck.fail("list-total", inp, f"descriptor {k}: weight {g['w']} is not the sum of {g['t']}")
        if g["a"] != e["a"]:
            ck.fail("descriptor-atom", inp, f"descriptor {k} ({g['s']}): bound to atom {g['a']}, the notation attaches it to atom {e['a']}")
        if g["o"] != e["o"]:
            ck.fail("descriptor-bond-order", inp, f"descriptor {k}: bond order {g['o']}, written {e['o']}")
    rd = parsecases.rdkit_reading(tok)
    if rd is not None and len(rd) == len(dump["descs"]):
        for k, (g, (a, o)) in enumerate(zip(dump["descs"], rd)):
            if g["a"] != a or g["o"] != o:
                ck.fail("descriptor-vs-rdkit-dummy-atom", inp, f"descriptor {k}: parsed (atom {g['a']}, order {g['o']}); RDKit reads the dummy atom at (atom {a}, order {o})")
    # atoms and internal bonds of the fragment
    frag = Chem.MolFromSmiles(dump["frag"]) if dump["frag"] else None
    if dump["atoms"] and frag is None:
        ck.fail("fragment-invalid", inp, f"fragment {dump['frag']!r}")
        return
    if frag is not None:
        if frag.GetNumAtoms() != len(exp["atoms"]):
            if not any(a == "[H]" for a in exp["atoms"]):
                ck.fail("fragment-atom-count", inp, f"fragment {dump['frag']!r} has {frag.GetNumAtoms()} atoms, token {len(exp['atoms'])}")
            return
        fb = sorted((min(b.GetBeginAtomIdx(), b.GetEndAtomIdx()), max(b.GetBeginAtomIdx(), b.GetEndAtomIdx()), int(b.GetBondType())) for b in frag.GetBonds())
        if fb != exp["bonds"]:
            ck.fail("internal-bonds", inp, f"fragment bonds {fb}, written {exp['bonds']}")


def check_stoch(ck, text, ast, dump, where):
    inp = {"text": text, "where": where}
    for side, term in (("left", ast.left), ("right", ast.right)):
        g = dump[side]
        want = ("", None) if term is None else (term.sym, term.id)
        if (g["s"], g["id"]) != want:
            ck.fail("terminal", inp, f"{side} terminal parsed {(g['s'], g['id'])}, written {want}")
    if len(dump["rep"]) != len(ast.repeats) or len(dump["end"]) != len(ast.ends):
        ck.fail("unit-count", inp, f"{len(dump['rep'])} repeat / {len(dump['end'])} end tokens parsed, {len(ast.repeats)} / {len(ast.ends)} written")
        return
    for t, d in zip(ast.repeats + ast.ends, dump["rep"] + dump["end"]):
        check_token(ck, text, t, d, where)
    if ast.dist is None:
        if dump["dist"] is not None:
            ck.fail("distribution", inp, f"no distribution written, parsed {dump['dist']}")
    else:
        fam, params, _ = ast.dist
        g = dump["dist"]
        want = [float(int(p)) for p in params] if fam == "uniform" else [float(p) for p in params]
        if g is None or g["fam"] != fam or len(g["params"]) != len(want) or not all(close(x, y) for x, y in zip(g["params"], want)):
            ck.fail("distribution", inp, f"written {fam}{tuple(params)}, parsed {g}")
    # descriptor numbering inside the object: 0, 1, 2 … in written order
    nums = [d["num"] for t in dump["rep"] + dump["end"] for d in t["descs"]]
    if nums != list(range(len(nums))):
        ck.fail("descriptor-numbering", inp, f"descriptor numbers {nums}")


# a bond order written on the LEFT TERMINAL of an object whose prefix / connector has no descriptor of its own: the descriptor the library
# inserts at the end of that token prescribes this order (text, [(element index, expected order of the token's last descriptor)])
ORDER_TERMINAL = [
    ("C{=[$] =[$]CC=[$]; =[$]O []}|uniform(50, 60)|", [(0, 2)]),
    ("CC{#[$] #[$]C[$], [$]CC#[$]; #[$]N, [$]Cl []}|uniform(40, 120)|", [(0, 3)]),
    ("C{[$] [$]CC[$] [$]}|uniform(30, 60)|N{=[$] =[$]CC=[$]; =[$]O []}|uniform(50, 90)|", [(0, 1), (2, 2)]),
    ("O{=[<] =[<]CC=[>], =[<]C(C)C=[>]; =[>]S []}|gauss(120, 30)|", [(0, 2)]),
]


def main():
    ck = Check("C02")
    ck.do_build()
    rnd = random.Random(ck.seed + 2)
    quick = ck.tier == "quick"
    cases = []   # (kind, text, ast)
    for t in parsecases.token_cases(rnd, 1500 if quick else 40000):
        cases.append(("token", parsecases.relayout(rnd, t.text), t))
    for m in parsecases.molecule_cases(rnd, 400 if quick else 8000):
        cases.append(("mol", m.text(), m))
        for e in m.elems:
            if isinstance(e, gen.StochT):
                cases.append(("stoch", parsecases.relayout(rnd, e.text()), e))
    for s in parsecases.corpus_strings():
        cases.append(("mol", s, None))
        cases.append(("system", s, None))
    for s, want in ORDER_TERMINAL:
        cases.append(("mol", s, None))
        dump, err = impl_parse("mol", s)
        inp = {"kind": "mol", "text": s}
        if err is not None:
            ck.fail("valid-string-rejected", inp, f"{type(err).__name__}: {err}")
            continue
        for k, o in want:
            el = dump["elems"][k] if k < len(dump["elems"]) else None
            got = el["v"]["descs"][-1]["o"] if el is not None and el["k"] == "tok" and el["v"]["descs"] else None
            if got != o:
                ck.fail("inserted-descriptor-order", inp, f"element {k}: the descriptor towards the next object prescribes bond order {got}; its left terminal is written with order {o}")
    ops = [parse_op(k, s) for k, s, _ in cases]
    try:
        outs = ck.driver.run(ops)
    except RuntimeError as exc:
        ck.mismatch("driver", "PARSE batch", "n/a", str(exc))
        outs = [None] * len(cases)
    for (kind, text, ast), out in zip(cases, outs):
        dump, err = impl_parse(kind, text)
        ck.case((kind, text), nontrivial=err is None, sample={"kind": kind, "text": text} if kind != "token" or len(text) > 12 else None)
        ck.count("kind:" + kind)
        # ---- oracle (generated inputs: the AST is the ground truth)
        if ast is not None:
            if err is not None:
                ck.fail("valid-notation-rejected", {"kind": kind, "text": text}, f"{type(err).__name__}: {err}")
            elif kind == "token":
                check_token(ck, text, ast, dump, "token")
                ck.count("descriptors", len(dump["descs"]))
            elif kind == "stoch":
                check_stoch(ck, text, ast, dump, "stochastic object")
            elif kind == "mol":
                kinds = ["tok" if isinstance(e, gen.TokenT) else "stoch" for e in ast.elems]
                got = [e["k"] for e in dump["elems"]]
                if got != kinds:
                    ck.fail("element-kinds", {"text": text}, f"parsed {got}, written {kinds}")
                else:
                    for e, d in zip(ast.elems, dump["elems"]):
                        if isinstance(e, gen.StochT):
                            check_stoch(ck, text, e, d["v"], "molecule")
                        else:
                            # plain tokens get descriptors inserted automatically; atoms and inner bonds must be the written ones
                            exp = parsecases.expected_token(e)
                            if d["v"]["atoms"] != exp["atoms"]:
                                ck.fail("atoms", {"text": text, "token": e.text}, f"parsed {d['v']['atoms']}")
        # ---- correspondence with the model
        if out is None:
            continue
        if "fail" in out:
            ck.mismatch("PARSE", {"kind": kind, "text": text}, "run", out)
        elif err is not None:
            if out.get("ok"):
                ck.mismatch("PARSE", {"kind": kind, "text": text}, f"raises {type(err).__name__}: {str(err)[:100]}", "accepted")
        elif not out.get("ok"):
            ck.mismatch("PARSE", {"kind": kind, "text": text}, "accepted", out)
        else:
            d = diff(dump, out["v"])
            if d:
                ck.mismatch("PARSE." + kind, {"kind": kind, "text": text}, d, "(model)")
    ck.rule = ("tokens, stochastic objects and molecules printed from ASTs by the harness's own printer (branches, rings, bracket / two-letter / aromatic atoms, "
               "=/# bonds towards descriptors, descriptors first / last / in a branch / adjacent, multi-digit ids, weights in many float spellings, random "
               "whitespace) plus the documented strings; one case = one string; non-trivial = accepted; distinct by text")
    ck.extra["assumptions"] = ["RDKit reads a SMILES string into atoms in written order (used by the dummy-atom oracle and the fragment comparison)",
                               "tokens with an explicit [H] inside a multi-atom token are outside the domain (RDKit removes the hydrogen and renumbers)"]
    ck.finish()


if __name__ == "__main__":
    main()
