"""Common machinery of every check: build + audit of the Lean side, the model driver, the decision
logic of DESIGN.md section 6, evidence, replays and known findings."""
import fcntl
import hashlib
import json
import os
import re
import subprocess
import sys
import time
import warnings
from fractions import Fraction

VERIF = os.path.dirname(os.path.dirname(os.path.abspath(__file__)))
LEAN = os.path.join(VERIF, "lean")
REPO = os.environ.get("GBS_REPO", "/repo")
DRIVER = os.path.join(LEAN, ".lake", "build", "bin", "driver")
ALLOWED_AXIOMS = {"propext", "Classical.choice", "Quot.sound"}
FORBIDDEN = re.compile(r"\b(sorry|admit|native_decide|bv_decide|implemented_by|unsafe)\b|^\s*axiom\s|maxHeartbeats\s+0\b")

TRUSTED_BASE = [
    "Lean 4.33.0 kernel (leanchecker re-check in the thorough tier)",
    "axioms allowed: propext, Classical.choice, Quot.sound (audited with #print axioms each run); no sorry/admit/native_decide/bv_decide/own axioms (grep each run)",
    "translator harness/extract.py (Python ast -> lean/GBS/Extracted.lean) for the extracted parts",
    "correspondence harness (harness/*.py): generators, canonicalisers, scripted numpy Generator, tolerance 1e-9",
]

# which extracted parts each property's model depends on
PARTS_OF = {
    "C01": ["bond", "token", "dist", "mixture"], "C02": ["bond", "token", "dist"], "C03": ["bond", "choose"], "C04": ["bond"],
    "C05": ["bond"], "C06": ["bond", "loops"], "C07": ["bond", "loops"], "C08": ["bond", "choose"], "C09": ["dist", "bond", "loops"], "C10": ["bond"],
    "C11": ["dist"], "C12": ["mixture"], "C13": ["bond", "loops"], "C14": ["loops"], "C15": ["bond", "token", "dist"], "C16": ["bond", "choose"],
    "C17": ["bond"], "C18": ["bond", "masses"], "C19": ["bond"], "C20": ["ffcache", "fftables"],
}


def frac(x):
    """exact rational string of a Python number (floats via as_integer_ratio)"""
    if isinstance(x, bool):
        raise TypeError("bool is not a number here")
    if isinstance(x, int):
        return str(x)
    if isinstance(x, Fraction):
        return f"{x.numerator}/{x.denominator}"
    f = float(x)
    if f != f or f in (float("inf"), float("-inf")):
        raise ValueError(f"non-finite {x}")
    n, d = f.as_integer_ratio()
    return f"{n}/{d}"


def unfrac(s):
    return Fraction(s)


def close(a, b, rel=1e-9, abs_=1e-12):
    a = float(a)
    b = float(b)
    return abs(a - b) <= max(abs_, rel * max(abs(a), abs(b)))


class BuildStatus:
    def __init__(self):
        self.ok = True
        self.problems = []  # (kind, detail)
        self.theorems = []
        self.axioms = {}
        self.stale = {}
        self.wall = 0.0

    def problem(self, kind, detail):
        self.ok = False
        self.problems.append((kind, detail))


def _run(cmd, cwd=None, timeout=3600, env=None):
    p = subprocess.run(cmd, cwd=cwd, stdout=subprocess.PIPE, stderr=subprocess.STDOUT, text=True, timeout=timeout, env=env)
    return p.returncode, p.stdout


def prop_theorems(pid):
    """fully qualified names of the theorems stated in lean/GBS/Props/<pid>*.lean (the obligations of the property)"""
    names = []
    pdir = os.path.join(LEAN, "GBS", "Props")
    for fn in sorted(os.listdir(pdir)):
        if fn.startswith(pid) and fn.endswith(".lean"):
            stack = []
            with open(os.path.join(pdir, fn)) as fh:
                for line in fh:
                    m = re.match(r"^namespace\s+(\S+)", line)
                    if m:
                        stack.append(m.group(1))
                        continue
                    m = re.match(r"^end\s+(\S+)", line)
                    if m and stack and stack[-1] == m.group(1):
                        stack.pop()
                        continue
                    m = re.match(r"^theorem\s+([^\s({\[:]+)", line)
                    if m:
                        names.append(".".join(stack + [m.group(1)]))
    return names


def prop_modules(pid):
    pdir = os.path.join(LEAN, "GBS", "Props")
    return ["GBS.Props." + fn[:-5] for fn in sorted(os.listdir(pdir)) if fn.startswith(pid) and fn.endswith(".lean")]


def grep_forbidden(pid):
    """sorry/admit/axiom/native_decide ... in any Lean file of the project (comments stripped)"""
    hits = []
    for root, _, files in os.walk(LEAN):
        if ".lake" in root:
            continue
        for fn in files:
            if not fn.endswith(".lean"):
                continue
            path = os.path.join(root, fn)
            with open(path) as fh:
                text = fh.read()
            text = re.sub(r"/-.*?-/", lambda m: "\n" * m.group(0).count("\n"), text, flags=re.S)
            for i, line in enumerate(text.split("\n"), 1):
                line = re.sub(r"--.*$", "", line)
                line = re.sub(r'"(\\.|[^"\\])*"', '""', line)
                if FORBIDDEN.search(line):
                    hits.append(f"{os.path.relpath(path, LEAN)}:{i}: {line.strip()[:100]}")
    return hits


def build(pid, tier="quick"):
    """extract -> lake build (property modules + driver) -> axiom audit.  Serialised by a file lock."""
    st = BuildStatus()
    t0 = time.time()
    os.makedirs(os.path.join(LEAN, ".lake"), exist_ok=True)
    with open(os.path.join(LEAN, ".build.lock"), "w") as lock:
        fcntl.flock(lock, fcntl.LOCK_EX)
        rc, out = _run(["/venv/bin/python", os.path.join(VERIF, "harness", "extract.py")], env=dict(os.environ, GBS_REPO=REPO))
        try:
            with open(os.path.join(LEAN, ".extract_status.json")) as fh:
                st.stale = json.load(fh)["stale"]
        except Exception as exc:  # extractor crashed outright
            st.stale = {"*": f"extractor failed: {out[-500:]} {exc}"}
        for part in PARTS_OF.get(pid, []):
            if part in st.stale or "*" in st.stale:
                st.problem("extract", f"translator could not regenerate part '{part}': {st.stale.get(part, st.stale.get('*'))}")
        mods = prop_modules(pid)
        rc, out = _run(["lake", "build", "driver"] + mods, cwd=LEAN)
        if rc != 0:
            # find which module failed
            failed = re.findall(r"^- (\S+)", out, flags=re.M)
            errs = [l for l in out.split("\n") if l.startswith("error:")][:8]
            st.problem("lake-build", {"failed_targets": failed, "errors": errs})
        st.theorems = prop_theorems(pid)
        if rc == 0 and st.theorems:
            audit = os.path.join(LEAN, ".lake", f"audit_{pid}_{os.getpid()}.lean")
            with open(audit, "w") as fh:
                for m in mods:
                    fh.write(f"import {m}\n")
                fh.write("\n")
                for t in st.theorems:
                    fh.write(f"#print axioms {t}\n")
            rc2, out2 = _run(["lake", "env", "lean", audit], cwd=LEAN)
            os.unlink(audit)
            # the name is quoted with ' and may itself end in primes: `'GBS.P.foo'' depends on axioms`
            for m in re.finditer(r"'([^'\s]+'*)' depends on axioms: \[([^\]]*)\]", out2):
                st.axioms[m.group(1).split(".")[-1]] = [a.strip() for a in m.group(2).replace("\n", " ").split(",")]
            for m in re.finditer(r"'([^'\s]+'*)' does not depend on any axioms", out2):
                st.axioms[m.group(1).split(".")[-1]] = []
            for t in st.theorems:
                key = t.split(".")[-1]
                if key not in st.axioms:
                    st.problem("audit", f"no axiom report for theorem {t}: {out2[-300:]}")
                else:
                    bad = [a for a in st.axioms[key] if a not in ALLOWED_AXIOMS]
                    if bad:
                        st.problem("audit", f"theorem {t} depends on {bad}")
        hits = grep_forbidden(pid)
        if hits:
            st.problem("forbidden", hits[:10])
        if tier == "thorough" and rc == 0 and mods:
            rc3, out3 = _run(["lake", "env", "leanchecker"] + mods, cwd=LEAN, timeout=3000)
            if rc3 != 0:
                st.problem("leanchecker", out3[-800:])
    st.wall = time.time() - t0
    return st


class Driver:
    """batch interface to the compiled model driver: list of JSON ops in, list of JSON results out"""

    def __init__(self):
        self.calls = 0

    def run(self, ops):
        if not ops:
            return []
        if not os.path.exists(DRIVER):
            raise RuntimeError("model driver not built")
        data = "\n".join(json.dumps(o, separators=(",", ":")) for o in ops) + "\n"
        p = subprocess.run([DRIVER], input=data, stdout=subprocess.PIPE, stderr=subprocess.PIPE, text=True, timeout=3000)
        if p.returncode != 0:
            raise RuntimeError(f"driver exited {p.returncode}: {p.stderr[-500:]}")
        lines = p.stdout.split("\n")
        if lines and lines[-1] == "":
            lines = lines[:-1]
        if len(lines) != len(ops):
            raise RuntimeError(f"driver returned {len(lines)} lines for {len(ops)} ops")
        self.calls += len(ops)
        return [json.loads(l) for l in lines]


def load_known():
    with open(os.path.join(VERIF, "known_findings.json")) as fh:
        return json.load(fh)


class Check:
    """one run of one property's check"""

    def __init__(self, pid, argv=None):
        import argparse
        ap = argparse.ArgumentParser()
        ap.add_argument("--tier", default=os.environ.get("VERIF_TIER", "quick"))
        ap.add_argument("--replay", default=None)
        ap.add_argument("--no-build", action="store_true")
        a = ap.parse_args(argv if argv is not None else sys.argv[2:])
        self.pid = pid
        self.tier = os.environ.get("VERIF_TIER") or a.tier
        if self.tier not in ("quick", "thorough"):
            self.tier = "quick"
        self.seed = int(os.environ.get("VERIF_SEED", "0") or 0)
        self.replay = a.replay
        self.replay_payload = None
        if a.replay:
            # a replay re-runs the check with the seed and tier recorded in the file (every random choice derives from the seed)
            # and reports whether the recorded input fails again
            with open(a.replay) as fh:
                self.replay_payload = json.load(fh)
            self.seed = int(self.replay_payload.get("seed", self.seed))
            if self.replay_payload.get("tier") in ("quick", "thorough"):
                self.tier = self.replay_payload["tier"]
        self.no_build = a.no_build
        self.t0 = time.time()
        self.driver = Driver()
        self.evaluations = 0
        self.distinct = set()
        self.samples = []
        self.failures = []      # oracle failures: dict(kind, input, detail, finding_class)
        self.mismatches = []    # model/implementation disagreements
        self.notes = []
        self.extra = {}
        self.dist = {}
        self.build_status = None
        self.rule = ""
        self.exhaustive = False
        self.known = [k for k in load_known().get("findings", []) if k["property"] == pid]
        self.known_seen = {}
        warnings.simplefilter("ignore")

    # ------------------------------------------------------------------ bookkeeping
    def count(self, key, n=1):
        self.dist[key] = self.dist.get(key, 0) + n

    def case(self, key, nontrivial=True, sample=None):
        self.evaluations += 1
        if nontrivial:
            h = hashlib.sha1(repr(key).encode()).hexdigest()[:16]
            self.distinct.add(h)
        if sample is not None and len(self.samples) < 8:
            self.samples.append(sample)

    def fail(self, kind, inp, detail, finding_class=None):
        """an oracle failure on the implementation: the property is violated on `inp`"""
        self.failures.append({"kind": kind, "input": inp, "detail": detail, "class": finding_class})

    def mismatch(self, op, inp, impl, model):
        self.mismatches.append({"op": op, "input": inp, "impl": impl, "model": model})

    def note(self, text):
        if len(self.notes) < 50:
            self.notes.append(text)

    def do_build(self):
        if self.no_build:
            st = BuildStatus()
            st.theorems = prop_theorems(self.pid)
            self.build_status = st
            return st
        st = build(self.pid, self.tier)
        self.build_status = st
        # a part the translator could not regenerate: the Lean definitions are the pinned ones; where the part has a finite domain the
        # tie is re-established by comparing the pinned model with the code over the whole domain (harness/partcheck.py)
        stale_here = [p for p in PARTS_OF.get(self.pid, []) if p in st.stale]
        if stale_here and not any(k == "lake-build" for k, _ in st.problems):
            import partcheck
            for part in stale_here:
                ok, what, diffs = partcheck.validate(part, self.driver)
                self.extra.setdefault("stale_parts_validated", {})[part] = {"ok": ok, "compared": what, "translator": st.stale[part]}
                if ok:
                    st.problems = [(k, d) for k, d in st.problems if not (k == "extract" and f"part '{part}'" in str(d))]
                    self.note(f"translator could not read part '{part}' ({st.stale[part]}); the pinned definitions were validated against the code instead: {what}")
                else:
                    for d in diffs[:3]:
                        self.mismatch(f"PART.{part}", d, "code", "pinned model")
            st.ok = not st.problems
        return st

    # ------------------------------------------------------------------ decision
    def _write_replay(self, payload):
        os.makedirs(os.path.join(VERIF, "replay"), exist_ok=True)
        h = hashlib.sha1(json.dumps(payload, sort_keys=True, default=str).encode()).hexdigest()[:10]
        path = os.path.join(VERIF, "replay", f"{self.pid}-{h}.json")
        payload = dict(payload)
        payload["property"] = self.pid
        payload["seed"] = self.seed
        payload["tier"] = self.tier
        payload["replay_cmd"] = f"./check {self.pid} --replay {path}"
        with open(path, "w") as fh:
            json.dump(payload, fh, indent=1, default=str)
        return path

    def finish(self, search=None):
        """decide, print, write evidence, exit.  `search` = callable run when the tie is broken but no
        oracle failure was seen; it may call self.fail()."""
        st = self.build_status or BuildStatus()
        unknown = []
        for f in self.failures:
            cls = f.get("class")
            k = next((k for k in self.known if k["class"] == cls), None) if cls else None
            if k is not None:
                self.known_seen.setdefault(cls, []).append(f)
            else:
                unknown.append(f)
        tie_broken = (not st.ok) or bool(self.mismatches)
        if tie_broken and not unknown and search is not None:
            before = len(self.failures)
            try:
                search()
            except Exception as exc:  # the search is best effort
                self.note(f"search raised {type(exc).__name__}: {exc}")
            for f in self.failures[before:]:
                cls = f.get("class")
                k = next((k for k in self.known if k["class"] == cls), None) if cls else None
                if k is not None:
                    self.known_seen.setdefault(cls, []).append(f)
                else:
                    unknown.append(f)
        lines = []
        for cls, fs in self.known_seen.items():
            k = next(k for k in self.known if k["class"] == cls)
            lines.append(f"KNOWN-FINDING: property={self.pid} class={cls} {k['what']} (seen {len(fs)}x this run, e.g. {json.dumps(fs[0]['input'], default=str)[:160]})")
        code = 0
        if unknown:
            f = unknown[0]
            path = self._write_replay({"violation": f, "others": unknown[1:6], "build_problems": st.problems, "mismatches": self.mismatches[:3]})
            lines.append(f"VIOLATION property={self.pid} replay={path}")
            code = 1
        elif tie_broken:
            broken = []
            for kind, detail in st.problems:
                broken.append({"what": kind, "detail": detail})
            for m in self.mismatches[:5]:
                broken.append({"what": "correspondence", "detail": m})
            path = self._write_replay({"tie_broken": broken, "theorems": st.theorems,
                                       "explanation": "no input on which the property fails was found; the listed theorem(s) / correspondence op(s) no longer check, so the property is no longer shown to hold"})
            lines.append(f"VIOLATION property={self.pid} replay={path} no-failing-input-found")
            code = 1
        self._write_evidence(st, len(unknown) + (1 if (tie_broken and not unknown) else 0))
        if self.replay_payload is not None:
            want = (self.replay_payload.get("violation") or {}).get("input")
            if want is not None:
                again = any(json.dumps(f["input"], sort_keys=True, default=str) == json.dumps(want, sort_keys=True, default=str) for f in self.failures)
                lines.append(f"REPLAY property={self.pid} recorded input {'fails again' if again else 'no longer fails'}: {json.dumps(want, default=str)[:200]}")
            else:
                lines.append(f"REPLAY property={self.pid} recorded a broken tie ({[b.get('what') for b in self.replay_payload.get('tie_broken', [])][:4]}); tie now {'broken' if tie_broken else 'intact'}")
        for l in lines:
            print(l)
        print(f"[{self.pid}] tier={self.tier} seed={self.seed} evaluations={self.evaluations} distinct={len(self.distinct)} "
              f"theorems={len(st.theorems)} build_ok={st.ok} mismatches={len(self.mismatches)} failures={len(self.failures)} "
              f"known={sum(len(v) for v in self.known_seen.values())} wall={time.time() - self.t0:.1f}s exit={code}")
        sys.stdout.flush()
        sys.exit(code)

    def _write_evidence(self, st, nviol):
        os.makedirs(os.path.join(VERIF, "evidence"), exist_ok=True)
        discharged = 0
        if st.ok or not any(k in ("lake-build", "audit", "forbidden", "leanchecker") for k, _ in st.problems):
            discharged = len([t for t in st.theorems if (t.split(".")[-1] in st.axioms or self.no_build)])
        mods = prop_modules(self.pid)
        cov = {
            "obligations": len(st.theorems),
            "discharged": discharged,
            "checker_cmd": "cd /verif/lean && lake build " + " ".join(mods) + (" && lake env leanchecker " + " ".join(mods) if self.tier == "thorough" else ""),
            "trusted_base": TRUSTED_BASE + self.extra.get("trusted_base", []),
            "theorems": st.theorems,
            "axioms": st.axioms,
            "extraction_stale_parts": st.stale,
            "build_problems": [list(map(str, p)) for p in st.problems],
            "evaluations": self.evaluations,
            "distinct_nontrivial": len(self.distinct),
            "rule": self.rule,
            "samples": self.samples or ["(none)"],
            "exhaustive": self.exhaustive,
            "traces_validated_against_impl": self.extra.get("traces_validated", self.evaluations),
            "model_driver_ops": self.driver.calls,
            "correspondence_mismatches": len(self.mismatches),
            "oracle_failures": len(self.failures),
            "known_findings_seen": {k: len(v) for k, v in self.known_seen.items()},
            "input_distribution": self.dist,
            "notes": self.notes,
            "build_wall_s": round(st.wall, 2),
        }
        for k, v in self.extra.items():
            if k not in ("trusted_base", "traces_validated", "assumptions"):
                cov[k] = v
        ev = {
            "property_id": self.pid,
            "tier": self.tier,
            "seed": self.seed,
            "level": "proof",
            "coverage": cov,
            "assumptions": self.extra.get("assumptions", []),
            "wall_s": round(time.time() - self.t0, 2),
            "violations": nviol,
        }
        path = os.path.join(VERIF, "evidence", f"{self.pid}.json")
        tmp = path + f".tmp{os.getpid()}"
        with open(tmp, "w") as fh:
            json.dump(ev, fh, indent=1, default=str)
        os.replace(tmp, path)
