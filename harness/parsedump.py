"""dumps of parsed implementation objects in the shape of the model's PARSE op, and the comparison"""
import re
import warnings

import numpy as np
from rdkit import RDLogger

import gbigsmiles
from gbigsmiles.atom import Atom
from gbigsmiles.bond import BondDescriptor
from gbigsmiles.stochastic import Stochastic
from gbigsmiles.token import SmilesToken

from lib import close, frac, unfrac

RDLogger.DisableLog("rdApp.*")
_VALID = {}


def valid_atoms(text):
    """bracket groups of `text` (without descriptor characters) that RDKit accepts as a single atom"""
    out = []
    for m in re.finditer(r"\[[^\]]*\]", text):
        tok = m.group(0)
        # the scanner cuts at the first ']' after a '[' that it meets while scanning; nested '[' inside are part of the group
        cands = {tok}
        inner = tok.rfind("[")
        if inner > 0:
            cands.add(tok[inner:])
        for c in cands:
            if "$" in c or "<" in c or ">" in c:
                continue
            if c not in _VALID:
                try:
                    Atom(c)
                    _VALID[c] = True
                except Exception:
                    _VALID[c] = False
            if _VALID[c]:
                out.append(c)
    # groups that start at an earlier '[' (e.g. "[[Si]"): every substring from a '[' to the next ']'
    for i, ch in enumerate(text):
        if ch == "[":
            j = text.find("]", i)
            if j > 0:
                c = text[i:j + 1]
                if "$" in c or "<" in c or ">" in c or c in out:
                    continue
                if c not in _VALID:
                    try:
                        Atom(c)
                        _VALID[c] = True
                    except Exception:
                        _VALID[c] = False
                if _VALID[c]:
                    out.append(c)
    return sorted(set(out))


def desc_dump(bd):
    did = bd.descriptor_id
    a = getattr(bd, "atom_bonding_to", None)
    return {"s": bd.descriptor, "id": None if did == "" else int(did), "o": int(bd.bond_type), "w": float(bd.weight),
            "t": None if bd.transitions is None else [float(x) for x in np.asarray(bd.transitions, dtype=float).tolist()],
            "a": int(a or 0), "pre": bd.preceding_characters, "num": int(bd.descriptor_num), "noatom": a is None}


def token_dump(tok):
    els = []
    for e in tok.elements:
        if isinstance(e, Atom):
            els.append({"a": e.generate_string(False)})
        elif isinstance(e, BondDescriptor):
            k = next(i for i, b in enumerate(tok.bond_descriptors) if b is e)
            els.append({"b": k})
        else:
            els.append({"s": e})
    return {"els": els, "atoms": [a.generate_string(False) for a in tok.atoms], "descs": [desc_dump(b) for b in tok.bond_descriptors],
            "res": int(tok.res_id), "ext": tok.generate_string(True), "noext": tok.generate_string(False), "frag": tok.generate_smiles_fragment()}


def frozen_law(d):
    """(loc, scale, ...) of a frozen SciPy distribution as held by the object: what draw_mw / prob_mw really use"""
    fz = getattr(d, "_distribution", None)
    kw = getattr(fz, "kwds", None)
    ar = getattr(fz, "args", None)
    if kw is None and ar is None:
        return None
    try:
        return [float(x) for x in (ar or ())] + [float(kw[k]) for k in sorted(kw or {})]
    except (TypeError, ValueError):
        return None


def law_from_params(fam, params):
    """the law the printed parameters denote, in the layout of `frozen_law`"""
    if fam == "uniform":
        return [float(params[0]), float(params[1]) - float(params[0])]
    if fam == "gauss":
        return [float(params[0]), float(params[1])]
    return None


def dist_dump(d):
    out = _dist_dump(d)
    if out is not None:
        law = frozen_law(d)
        want = law_from_params(out["fam"], out["params"])
        # the law the object samples from is the law its printed parameters denote (uniform: bounds after truncation)
        out["law_ok"] = bool(law is None or want is None or (len(law) == len(want) and all(abs(a - b) <= 1e-12 * max(1.0, abs(b)) for a, b in zip(law, want))))
    return out


def _dist_dump(d):
    if d is None:
        return None
    name = type(d).__name__
    if name == "FlorySchulz":
        return {"fam": "flory_schulz", "params": [float(d._a)]}
    if name == "Gauss":
        return {"fam": "gauss", "params": [float(d._mu), float(d._sigma)]}
    if name == "Uniform":
        return {"fam": "uniform", "params": [float(d._low), float(d._high)]}
    if name == "SchulzZimm":
        return {"fam": "schulz_zimm", "params": [float(d._Mw), float(d._Mn)]}
    if name == "LogNormal":
        return {"fam": "log_normal", "params": [float(d._M), float(d._D)]}
    if name == "Poisson":
        return {"fam": "poisson", "params": [float(d._N)]}
    return {"fam": name, "params": []}


def stoch_dump(o):
    return {"left": desc_dump(o.left_terminal), "right": desc_dump(o.right_terminal), "rep": [token_dump(t) for t in o.repeat_tokens],
            "end": [token_dump(t) for t in o.end_tokens], "dist": dist_dump(o.distribution), "ext": o.generate_string(True), "noext": o.generate_string(False)}


def mol_dump(m):
    elems = []
    for e in m._elements:
        if isinstance(e, SmilesToken):
            elems.append({"k": "tok", "v": token_dump(e)})
        else:
            elems.append({"k": "stoch", "v": stoch_dump(e)})
    mix = None
    if m.mixture is not None:
        mix = {"abs": m.mixture._absolute_mass, "rel": m.mixture._relative_mass}
    return {"elems": elems, "mix": mix, "ext": m.generate_string(True), "noext": m.generate_string(False)}


NUM_KEYS = {"w", "abs", "rel"}


def diff(impl, model, path=""):
    """first difference between an implementation dump and a model dump (model numbers are rational strings); None if equal"""
    if isinstance(impl, dict):
        if not isinstance(model, dict):
            return f"{path}: {impl!r} vs {model!r}"
        for k in impl:
            if k == "law_ok":
                if impl[k] is not True:
                    return f"{path}.law_ok: the distribution object samples from another law than its parameters {impl.get('params')} denote"
                continue
            if k not in model:
                return f"{path}.{k}: missing in model"
            if k in ("ext", "noext") and isinstance(model[k], str) and "?" in model[k]:
                continue    # a number outside reprFloat's domain: structure is compared numerically instead
            if k in NUM_KEYS:
                a, b = impl[k], model[k]
                if (a is None) != (b is None) or (a is not None and not close(a, unfrac(b))):
                    return f"{path}.{k}: {a!r} vs {b!r}"
                continue
            if k in ("t", "params"):
                a, b = impl[k], model[k]
                if (a is None) != (b is None):
                    return f"{path}.{k}: {a!r} vs {b!r}"
                if a is not None and (len(a) != len(b) or not all(close(x, unfrac(y)) for x, y in zip(a, b))):
                    return f"{path}.{k}: {a!r} vs {b!r}"
                continue
            d = diff(impl[k], model[k], path + "." + k)
            if d:
                return d
        return None
    if isinstance(impl, list):
        if not isinstance(model, list) or len(impl) != len(model):
            return f"{path}: length {len(impl) if isinstance(impl, list) else '?'} vs {len(model) if isinstance(model, list) else model!r}"
        for i, (a, b) in enumerate(zip(impl, model)):
            d = diff(a, b, f"{path}[{i}]")
            if d:
                return d
        return None
    if impl != model:
        return f"{path}: {impl!r} vs {model!r}"
    return None


KINDS = {"token": lambda s: gbigsmiles.SmilesToken(s, 0, 0), "stoch": lambda s: gbigsmiles.Stochastic(s, 0),
         "mol": lambda s: gbigsmiles.Molecule(s), "system": lambda s: gbigsmiles.System(s)}


class Diverged(Exception):
    """the implementation did not return within the time limit (System.__init__ loops forever on an unterminated `.|`)"""


def _alarm(signum, frame):
    raise Diverged("no result within the time limit")


def impl_parse(kind, text, limit=2):
    """(dump | None, exception | None); a parse that does not return within `limit` seconds counts as divergence"""
    import signal
    old = signal.signal(signal.SIGALRM, _alarm)
    signal.alarm(limit)
    try:
        return _impl_parse(kind, text)
    except Diverged as exc:
        return None, exc
    finally:
        signal.alarm(0)
        signal.signal(signal.SIGALRM, old)


def _impl_parse(kind, text):
    with warnings.catch_warnings():
        warnings.simplefilter("ignore")
        try:
            if kind == "token":
                return token_dump(gbigsmiles.SmilesToken(text, 0, 0)), None
            if kind == "stoch":
                return stoch_dump(gbigsmiles.Stochastic(text, 0)), None
            if kind == "mol":
                return mol_dump(gbigsmiles.Molecule(text)), None
            if kind == "system":
                s = gbigsmiles.System(text)
                return [mol_dump(m) for m in s._molecules], None
            if kind == "dist":
                from gbigsmiles.distribution import get_distribution
                d = get_distribution(text)
                return dict(dist_dump(d), ext=d.generate_string(True)), None
        except Diverged:
            raise
        except MemoryError:
            return None, Diverged("memory exhausted")
        except Exception as exc:
            return None, exc
    raise ValueError(kind)


def parse_op(kind, text):
    op = {"op": "PARSE", "kind": kind, "text": text, "valid": valid_atoms(text)}
    if kind == "token":
        op["offset"] = 0
    if kind == "system":
        op["M"] = None
    return op
