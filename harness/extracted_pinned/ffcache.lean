/-- File name argument: `none` = Python `None` (bundled default), `some k` = a user path. -/
abbrev FName := Option Nat

/-- module globals of forcefield_helper.py; `cached` = the two file names the cached object was built from,
    in the order (smarts rule file, non-bonded parameter file) of `SMARTS_ASSIGNMENTS.__init__`. -/
structure FFCache where
  cached : Option (FName × FName) := none
  gNb : FName := none
  gSmarts : FName := none
deriving DecidableEq, Repr, Inhabited

/-- `get_assignment_class(smarts_filename, nb_filename)`: new cache state; the object returned is `cached`. -/
def ffCacheStep (s : FFCache) (smarts nb : FName) : FFCache :=
  if (s.cached.isNone || (smarts != s.gSmarts) || (nb != s.gNb)) then
    { cached := some (smarts, nb), gNb := nb, gSmarts := smarts }
  else s
