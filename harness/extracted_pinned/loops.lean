/-- `if <mass now> - starting_mol_weight > target_mol_weight: break` at the end of the `while True` loop of
`Stochastic.generate` (stochastic.py): growth stops after the unit that makes this true. -/
@[reducible] def growStopsX (added target : Rat) : Prop := added > target
instance (added target : Rat) : Decidable (growStopsX added target) := inferInstanceAs (Decidable (added > target))

/-- `while generated_total_mass < self.system_mass` of `System.generator` (system.py): another member is generated while this is true. -/
@[reducible] def sysContinuesX (acc M : Rat) : Prop := acc < M
instance (acc M : Rat) : Decidable (sysContinuesX acc M) := inferInstanceAs (Decidable (acc < M))
