inductive FamilyName | florySchulz | gauss | uniform | schulzZimm | logNormal | poisson
deriving DecidableEq, Repr, Inhabited

/-- `get_distribution`: first substring that occurs in the text decides the class. -/
def distDispatch : List (String × FamilyName) := [("flory_schulz", FamilyName.florySchulz), ("gauss", FamilyName.gauss), ("uniform", FamilyName.uniform), ("schulz_zimm", FamilyName.schulzZimm), ("log_normal", FamilyName.logNormal), ("poisson", FamilyName.poisson)]
