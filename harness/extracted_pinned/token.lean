def singleLetterAtoms : List Char := ['B', 'C', 'N', 'O', 'P', 'S', 'F', 'I', 'c', 'n', 's', 'p', 'o']
def doubleLetterAtoms : List (Char × Char) := [('C', 'l'), ('B', 'r')]
