/-- `weights` of `choose_compatible_weight` at the call of `rng.choice`, as a function of the weights of the compatible descriptors
(in the order of `get_compatible_bond_descriptor_ids`); the choice is made over exactly those indices with `p = weights`. -/
def chooseSumX (l : List Rat) : Rat := l.foldr (· + ·) 0
def chooseWeightsX (ws : List Rat) : List Rat :=
  let ws1 := if (decide (ws.length > 0) && (ws.all (fun x => x == ws.headD 0))) then ws.map (· + (1 : Rat)) else ws
  ws1.map (· / chooseSumX ws1)

/-- `get_compatible_bond_descriptor_ids(bond_descriptors, bond)` (core.py): the for loop over `enumerate(bond_descriptors)` appending the index
where the condition holds, as a left fold with append -/
def compatIdsX (bds : List Desc) (b : Option Desc) : List Nat :=
  bds.zipIdx.foldl (fun acc (p : Desc × Nat) => if (b.isNone || (match b with | some bond => isCompatible bond p.1 | none => false)) then acc ++ [p.2] else acc) []
