/-- `Mixture.system_mass.setter` (mixture.py), statement by statement; Python's `ZeroDivisionError` at every division by a variable -/
def setSysX (m : Mix) (mass : Rat) : E Mix :=
  if mass < (0 : Rat) then .error .negMass else
  match ({ m with sys := some mass }).rel with
  | some rel0 => .ok { { m with sys := some mass } with abs := some ((rel0 / (100 : Rat)) * mass) }
  | none => (match ({ m with sys := some mass }).abs with
  | some abs1 => if mass = 0 then .error .zeroDiv else .ok { { m with sys := some mass } with rel := some (((100 : Rat) * abs1) / mass) }
  | none => (.ok { m with sys := some mass }))

/-- `Mixture.relative_mass.setter` (mixture.py); the assignment to `self.system_mass` is the call of the setter above -/
def setRelX (m : Mix) (fraction : Rat) : E Mix :=
  if (fraction < (0 : Rat) ∨ fraction > (100 : Rat)) then .error .badFraction else
  match ({ m with rel := some fraction }).abs with
  | some abs0 => if abs0 ≠ 0 then (if (fraction / (100 : Rat)) = 0 then .error .zeroDiv else setSysX { m with rel := some fraction } (abs0 / (fraction / (100 : Rat)))) else (.ok { m with rel := some fraction })
  | none => (.ok { m with rel := some fraction })

/-- `Mixture.generate_string(extension)` (mixture.py): the if-chain and the f-strings as written; a float is formatted by `repr` (`numStr`) -/
def printMixX (m : P.PMix) (ext : Bool) : Py.Str :=
  open P in (if ext then (if m.abs.isNone then ".|".toList ++ (match m.rel with | some x => numStr x | none => "None".toList) ++ "%|".toList else ".|".toList ++ (match m.abs with | some x => numStr x | none => "None".toList) ++ "|".toList) else ".".toList)
