/-- `BondDescriptor.is_compatible` (bond.py), translated statement by statement. -/
def isCompatible (a b : Desc) : Bool :=
  (if (a.order != b.order) then false else
  (if (a.id != b.id) then false else
  (if ((a.sym == Sym.none) || (b.sym == Sym.none)) then false else
  (if ((a.sym == Sym.dollar) && (b.sym == Sym.dollar)) then true else
  (if ((a.sym == Sym.lt) && (b.sym == Sym.gt)) then true else
  (if ((a.sym == Sym.gt) && (b.sym == Sym.lt)) then true else
  false))))))

/-- the bond order if-chain of `BondDescriptor.__init__` (last matching test wins). -/
def orderOfPrefix (p : List Char) : Order :=
  let o := Order.single
  let o := if p.contains '=' then Order.double else o
  let o := if p.contains '#' then Order.triple else o
  let o := if p.contains '$' then Order.quadruple else o
  let o := if p.contains ':' then Order.oneAndAHalf else o
  o

/-- prefixes for which `BondDescriptor.__init__` raises "Stereochemistry not implemented". -/
def stereoRejected (p : List Char) : Bool :=
  p.contains '@' || p.contains '/' || p.contains '\\'

def orderChain : List (Char × Order) := [('=', Order.double), ('#', Order.triple), ('$', Order.quadruple), (':', Order.oneAndAHalf)]
def orderDefault : Order := Order.single

/-- symbol chosen by `_create_compatible_bond_text` from the printed descriptor text. -/
def compatSymbolOfText (s : List Char) : Char :=
  let c := '$'
  let c := if s.contains '<' then '<' else c
  let c := if s.contains '>' then '>' else c
  c
