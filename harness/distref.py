"""closed-form reference laws of the six documented distributions (written from the documentation with scipy.special
primitives, NOT from the repo's distribution objects)"""
import math

import numpy as np
from scipy import special


class Ref:
    discrete = False

    def cdf(self, x):
        raise NotImplementedError

    def quantile(self, q):
        raise NotImplementedError


class RefGauss(Ref):
    def __init__(self, mu, sigma):
        self.mu, self.sigma = mu, sigma
        self.mean = mu
        self.support = (-math.inf, math.inf)

    def cdf(self, x):
        return float(special.ndtr((x - self.mu) / self.sigma))

    def quantile(self, q):
        return self.mu + self.sigma * float(special.ndtri(q))


class RefUniform(Ref):
    def __init__(self, low, high):
        self.low, self.high = int(low), int(high)
        self.mean = (self.low + self.high) / 2
        self.support = (self.low, self.high)

    def cdf(self, x):
        return min(1.0, max(0.0, (x - self.low) / (self.high - self.low)))

    def quantile(self, q):
        return self.low + (self.high - self.low) * q


class RefLogNormal(Ref):
    """documented density: 1/(m sqrt(2 pi ln D)) exp(-(ln(m/Mn) + ln(D)/2)^2 / (2 ln D))"""

    def __init__(self, M, D):
        self.s2 = math.log(D)
        self.mu = math.log(M) - self.s2 / 2
        self.mean = M
        self.support = (0.0, math.inf)

    def cdf(self, x):
        if x <= 0:
            return 0.0
        return float(special.ndtr((math.log(x) - self.mu) / math.sqrt(self.s2)))

    def quantile(self, q):
        return math.exp(self.mu + math.sqrt(self.s2) * float(special.ndtri(q)))


class RefPoisson(Ref):
    discrete = True

    def __init__(self, N):
        self.N = N
        self.mean = N
        self.support = (0, math.inf)

    def cdf(self, x):
        return float(special.pdtr(math.floor(x), self.N)) if x >= 0 else 0.0

    def quantile(self, q):
        k = max(0, int(self.N - 10 * math.sqrt(self.N) - 10))
        while special.pdtr(k, self.N) < q:
            k += 1
        return k


class RefFlorySchulz(Ref):
    """W(k) = a^2 k (1-a)^(k-1), k = 1, 2, ...; CDF 1 - (1-a)^n (1 + a n)  (lean/GBS/Props/C11.lean)"""
    discrete = True

    def __init__(self, a):
        self.a = a
        self.mean = 2 / a - 1
        self.support = (1, math.inf)

    def cdf(self, x):
        n = math.floor(x)
        if n < 1:
            return 0.0
        return 1 - (1 - self.a) ** n * (1 + self.a * n)

    def quantile(self, q):
        lo, hi = 0, 1
        while self.cdf(hi) < q:
            lo, hi = hi, hi * 2
        while hi - lo > 1:
            mid = (lo + hi) // 2
            if self.cdf(mid) < q:
                lo = mid
            else:
                hi = mid
        return hi


class RefSchulzZimm(Ref):
    """documented density z^(z+1)/Gamma(z+1) M^(z-1)/Mn^z exp(-z M/Mn), z = Mn/(Mw-Mn), at the integers 1, 2, ..., normalised to a mass function
    (mass 0 is outside the support: the density is positive there for z = 1 and diverges for z < 1)"""
    discrete = True

    def __init__(self, Mw, Mn):
        self.Mn = Mn
        self.z = Mn / (Mw - Mn)
        self.mean = Mn
        self.support = (1, math.inf)
        z = self.z
        # mean Mn, standard deviation Mn / sqrt(z), exponential tail of scale Mn / z
        top = min(int(Mn * (1 + 40 / math.sqrt(z) + 60 / z)) + 200, 6_000_000)
        M = np.arange(1, top + 1, dtype=float)
        logp = (z + 1) * math.log(z) - special.gammaln(z + 1) + (z - 1) * np.log(M) - z * math.log(Mn) - z * M / Mn
        self.pm = np.concatenate([[0.0], np.exp(logp)])
        # normalised over the positive integers (as the library does since its fix)
        self.raw_total = float(np.sum(self.pm))
        self.pm = self.pm / self.raw_total
        self.cum = np.cumsum(self.pm)
        # exact mean of the mass function (the discretisation moves it away from Mn by a per cent or so when Mn * min(z, 1) is small)
        self.mean_exact = float(np.sum(np.arange(len(self.pm)) * self.pm))
        self.total = float(self.cum[-1])

    def cdf(self, x):
        n = math.floor(x)
        if n < 0:
            return 0.0
        return float(self.cum[min(n, len(self.cum) - 1)])

    def quantile(self, q):
        return int(np.searchsorted(self.cum, q, side="left"))


def reference(fam, params):
    return {"gauss": RefGauss, "uniform": RefUniform, "log_normal": RefLogNormal, "poisson": RefPoisson,
            "flory_schulz": RefFlorySchulz, "schulz_zimm": RefSchulzZimm}[fam](*params)


def param_grid(rnd, quick):
    """(family, params, text) over small / large / narrow / broad regions"""
    out = []
    for mu, rel in [(60, 0.1), (400, 0.3), (5000, 0.01), (1500, 0.6)]:
        out.append(("gauss", [float(mu), float(mu * rel)]))
    for lo, hi in [(0, 100), (12, 72), (500, 600), (100, 5000), (20.9, 160.9), (0.5, 99.75)]:
        out.append(("uniform", [lo, hi]))
    for mn, d in [(50, 1.1), (500, 1.05), (2000, 1.5), (120, 2.0)]:
        out.append(("log_normal", [float(mn), d]))
    for n in [5, 65, 900, 20.5]:
        out.append(("poisson", [float(n)]))
    for a in [0.5, 0.1, 0.0011, 0.02]:
        out.append(("flory_schulz", [a]))
    # the last one: a support of millions of integer masses (the library then takes its normalisation constant as 1);
    # the three before it: shape parameter z = Mn / (Mw - Mn) exactly 1 (dispersity 2: k**(z-1) is 0**0 at k = 0), exactly 2, and below 1
    for mw, mn in [(1500, 1400), (150, 100), (5000, 4000), (700, 600), (200, 150), (2000, 1000), (60, 30), (450, 300), (900, 300), (127500, 85000)]:
        out.append(("schulz_zimm", [float(mw), float(mn)]))
    if not quick:
        for _ in range(40):
            f = rnd.choice(["gauss", "uniform", "log_normal", "poisson", "flory_schulz", "schulz_zimm"])
            if f == "gauss":
                m = rnd.uniform(20, 5000)
                out.append((f, [round(m, 1), round(m * rnd.uniform(0.01, 0.6), 2)]))
            elif f == "uniform":
                lo = rnd.randint(0, 2000)
                out.append((f, [lo, lo + rnd.randint(1, 3000)]))
            elif f == "log_normal":
                out.append((f, [round(rnd.uniform(30, 4000), 1), round(rnd.uniform(1.02, 2.2), 3)]))
            elif f == "poisson":
                out.append((f, [round(rnd.uniform(1, 2000), 1)]))
            elif f == "flory_schulz":
                out.append((f, [round(rnd.uniform(0.001, 0.7), 4)]))
            else:
                mn = round(rnd.uniform(40, 4000), 0)
                out.append((f, [round(mn * rnd.uniform(1.05, 1.9), 0), mn]))
    return [(f, p, f"{f}({', '.join(repr(x) for x in p)})") for f, p in out]
