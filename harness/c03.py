"""C03 — bond-descriptor compatibility is exactly the BigSMILES conjugation rule.

Proof: lean/GBS/Props/C03.lean over the *extracted* `isCompatible` / `orderOfPrefix`.
Correspondence: exhaustive — every ordered pair of the finite universe through the real constructor,
compared with the extracted model run by the driver.  Oracle: the rule, written independently here.
"""
import itertools
import random

from lib import Check, frac

SYMS = ["$", "<", ">"]
IDS = [None] + list(range(13))
PREFIXES = ["", "-", "=", "#", ":"]
WEIGHTS = [None, "scalar", "list"]
SPEC_ORDER = {"": "SINGLE", "-": "SINGLE", "=": "DOUBLE", "#": "TRIPLE", ":": "ONEANDAHALF"}


def universe():
    out = []
    for p in PREFIXES:
        out.append(("[]", p, dict(sym="", id=None, prefix=p, w=None)))
    for s, i, p, w in itertools.product(SYMS, IDS, PREFIXES, WEIGHTS):
        text = "[" + s + ("" if i is None else str(i))
        if w == "scalar":
            text += "|2.5|"
        elif w == "list":
            text += "|1 0 3|"
        text += "]"
        out.append((text, p, dict(sym=s, id=i, prefix=p, w=w)))
    return out


def desc_json(bd):
    """the model's view of a real BondDescriptor object"""
    import numpy as np
    did = bd.descriptor_id
    return {"s": bd.descriptor, "id": None if did == "" else int(did), "o": int(bd.bond_type), "w": frac(bd.weight),
            "t": None if bd.transitions is None else [frac(x) for x in np.asarray(bd.transitions).tolist()],
            "a": int(getattr(bd, "atom_bonding_to", 0) or 0)}


def spec_compatible(a, b):
    """the property, from the *text* of the two descriptors"""
    if a["sym"] == "" or b["sym"] == "":
        return False
    if a["id"] != b["id"]:
        return False
    if SPEC_ORDER[a["prefix"]] != SPEC_ORDER[b["prefix"]]:
        return False
    return (a["sym"], b["sym"]) in (("$", "$"), ("<", ">"), (">", "<"))


def main():
    ck = Check("C03")
    st = ck.do_build()
    import gbigsmiles
    from gbigsmiles.core import get_compatible_bond_descriptor_ids

    uni = universe()
    objs = []
    for text, p, meta in uni:
        try:
            objs.append(gbigsmiles.BondDescriptor(text, 0, p, 0))
        except Exception as exc:
            ck.fail("constructor-raises", {"text": text, "prefix": p}, f"{type(exc).__name__}: {exc}")
            objs.append(None)
    ok_idx = [i for i, o in enumerate(objs) if o is not None]

    # --- oracle on the implementation (exhaustive) ---------------------------------------------
    n = len(uni)
    impl = [[None] * n for _ in range(n)]
    for i in ok_idx:
        a = objs[i]
        for j in ok_idx:
            r = bool(a.is_compatible(objs[j]))
            impl[i][j] = r
            want = spec_compatible(uni[i][2], uni[j][2])
            ck.evaluations += 1
            if r != want:
                if len(ck.failures) < 20:
                    ck.fail("conjugation-rule", {"a": uni[i][0], "a_prefix": uni[i][1], "b": uni[j][0], "b_prefix": uni[j][1]},
                            f"is_compatible={r}, rule says {want}")
    for i in ok_idx:
        m = uni[i][2]
        ck.distinct.add(("d", m["sym"], m["id"], m["prefix"], m["w"]))
    # weights never influence: rows of descriptors differing only in weight form are identical (implied by the rule
    # check above; counted separately for the evidence)
    ck.count("descriptors", n)
    ck.count("ordered_pairs", len(ok_idx) ** 2)

    # --- correspondence with the extracted model (exhaustive) -----------------------------------
    try:
        res = ck.driver.run([{"op": "COMPATMAT", "ds": [desc_json(objs[i]) for i in ok_idx]}])[0]
        rows = res.get("rows")
        if rows is None:
            ck.mismatch("COMPATMAT", "universe", "matrix", res)
        else:
            bad = 0
            for a, i in enumerate(ok_idx):
                for b, j in enumerate(ok_idx):
                    if (rows[a][b] == "1") != impl[i][j]:
                        bad += 1
                        if bad <= 5:
                            ck.mismatch("COMPAT", {"a": uni[i][0], "a_prefix": uni[i][1], "b": uni[j][0], "b_prefix": uni[j][1]},
                                        impl[i][j], rows[a][b] == "1")
        # bond order of prefixes, including mixed and unusual ones
        prefixes = ["", "-", "=", "#", ":", "$", "=#", "#=", "-=", "(=", "(", ")", "=:", ":#", "1", "(-", "%", "=="]
        ops = [{"op": "ORDER", "p": p} for p in prefixes]
        outs = ck.driver.run(ops)
        for p, o in zip(prefixes, outs):
            bd = gbigsmiles.BondDescriptor("[$]", 0, p, 0)
            if int(bd.bond_type) != o.get("o"):
                ck.mismatch("ORDER", p, int(bd.bond_type), o)
            ck.evaluations += 1
        for p in ["@", "/", "\\", "=/", "@@"]:
            o = ck.driver.run([{"op": "ORDER", "p": p}])[0]
            try:
                gbigsmiles.BondDescriptor("[$]", 0, p, 0)
                raised = False
            except RuntimeError:
                raised = True
            if raised != o.get("stereo"):
                ck.mismatch("ORDER-stereo", p, raised, o)
        # the index filter
        rnd = random.Random(ck.seed)
        nlists = 300 if ck.tier == "quick" else 5000
        ops, exp = [], []
        for _ in range(nlists):
            k = rnd.randint(0, 7)
            idx = [rnd.choice(ok_idx) for _ in range(k)]
            bi = rnd.choice(ok_idx + [None])
            bds = [objs[i] for i in idx]
            b = None if bi is None else objs[bi]
            got = [int(x) for x in get_compatible_bond_descriptor_ids(bds, b)]
            want = [q for q, i in enumerate(idx) if bi is None or spec_compatible(uni[bi][2], uni[i][2])]
            if got != want:
                ck.fail("filter", {"list": [uni[i][0] for i in idx], "bond": None if bi is None else uni[bi][0]}, f"ids {got}, rule says {want}")
            ops.append({"op": "IDS", "bds": [desc_json(o) for o in bds], "b": None if b is None else desc_json(b)})
            exp.append(got)
            ck.evaluations += 1
        for o, e, op in zip(ck.driver.run(ops), exp, ops):
            if o.get("ids") != e:
                ck.mismatch("IDS", op, e, o)
    except RuntimeError as exc:
        ck.mismatch("driver", "all", "n/a", str(exc))

    ck.exhaustive = True
    ck.rule = ("all ordered pairs over {[]} x 5 prefixes and {$,<,>} x ids {none,0..12} x prefixes {'',-,=,#,:} x weight forms "
               "{none,scalar,list}, each built by the real BondDescriptor constructor; a case is one ordered pair; distinct = "
               "distinct descriptors (every pair of distinct descriptors is a distinct case); plus prefix strings and random lists for the index filter")
    ck.samples = [{"a": uni[7][0], "a_prefix": uni[7][1], "b": uni[300][0], "b_prefix": uni[300][1], "impl": impl[7][300]},
                  {"a": "[<12|2.5|]", "b": "[>12|1 0 3|]", "prefix": "=", "rule": True}]
    ck.extra["assumptions"] = ["RDKit BondType enum values (SINGLE=1, DOUBLE=2, TRIPLE=3, QUADRUPLE=4, ONEANDAHALF=7)"]
    ck.finish(search=None)


if __name__ == "__main__":
    main()
