"""C14 — generated ensembles have the declared composition by mass.

Decided at the generator interface (deterministic): the probabilities handed to rng.choice for the component pick,
the mean molecule masses of the components, and the share formula proved in lean/GBS/Props/C14.lean."""
import random
import statistics
import warnings

import gbigsmiles

import genrun
import sysrun
from genadapt import events_json
from lib import Check, close, frac, unfrac
from rng import Recorder


def mean_mass(mol, n, seed):
    """(mean, exact?) heavy-atom mass of the molecules of one component"""
    from gbigsmiles.stochastic import Stochastic
    if not any(isinstance(e, Stochastic) for e in mol._elements):
        return float(mol.generate(rng=Recorder(seed)).weight), True
    ms = []
    for k in range(n):
        try:
            with warnings.catch_warnings():
                warnings.simplefilter("ignore")
                ms.append(float(mol.generate(rng=Recorder(seed + k)).weight))
        except Exception:
            continue
    if not ms:
        return None, False
    return statistics.fmean(ms), False


def main():
    ck = Check("C14")
    ck.do_build()
    rnd = random.Random(ck.seed + 14)
    quick = ck.tier == "quick"
    nsys = 40 if quick else 450
    done = 0
    tries = 0
    ops, recs = [], []
    while done < nsys and tries < nsys * 4:
        tries += 1
        ncomp = rnd.randint(2, 4)
        text, sysmass, marks, fr = sysrun.build_system(rnd, ncomp, rnd.choice([300, 2000]))
        system = sysrun.parse_system(text, sysmass)
        if system is None or not system.generable:
            continue
        rng = Recorder(ck.seed * 11 + tries)
        members, error, log = sysrun.run_system(system, rng, single=True)
        picks = [x for x in log if x[0] == "choice"]
        if not picks:
            continue
        a, p, r = picks[0][1], picks[0][2], picks[0][3]
        M = float(system.system_mass)
        declared = [float(m.mixture.absolute_mass) / M for m in system._molecules]
        means = [mean_mass(m, 12 if quick else 60, 1000 + tries) for m in system._molecules]
        if any(mm[0] is None or mm[0] <= 0 for mm in means):
            continue
        done += 1
        comps, _ = sysrun.system_json(system)
        ops.append({"op": "SYSGEN", "comps": comps, "ev": events_json(log), "fuel": 100000, "single": True, "M": frac(M), "generable": True})
        recs.append((text, sysmass, a, p, declared, means, log, error))
    outs = ck.driver.run(ops)
    for (text, sysmass, a, p, declared, means, log, error), out in zip(recs, outs):
        inp = {"text": text, "system_mass": sysmass}
        mbar = [m for m, _ in means]
        tot = sum(pi * mi for pi, mi in zip(p, mbar))
        share = [pi * mi / tot for pi, mi in zip(p, mbar)]
        spread = max(mbar) / min(mbar)
        ck.case((text,), nontrivial=True, sample={"text": text, "p_at_interface": [round(x, 4) for x in p], "declared": [round(x, 4) for x in declared],
                                                  "mean_masses": [round(x, 2) for x in mbar], "predicted_share": [round(x, 4) for x in share]})
        ck.count("mass_ratio:%s" % ("1-1.05" if spread <= 1.05 else "1.05-3" if spread <= 3 else "3-20" if spread <= 20 else ">20"))
        # correspondence: the model's component pick (C14_impl_law)
        if out.get("ok") or error is None:
            ch = [t["c"] for t in out.get("trace", []) if "c" in t]
            if not ch or ch[0]["a"] != a or not all(close(x, unfrac(y)) for x, y in zip(p, ch[0]["p"])):
                ck.mismatch("SYSGEN.component-pick", inp, {"a": a, "p": p}, ch[0] if ch else out)
        # oracle: share = declared fraction?
        law_is_declared = a == list(range(len(declared))) and all(close(x, y, 1e-9) for x, y in zip(p, declared))
        unfair = max(abs(s - f) for s, f in zip(share, declared))
        if spread <= 1.05 and unfair <= 0.03:
            continue
        if law_is_declared and spread > 1.05:
            ck.fail("mass-share-differs", inp, f"selection probabilities {p} equal the declared mass fractions while mean molecule masses are {mbar}: "
                    f"long-run mass shares {share} instead of {declared}", "mass-share-differs-when-molecule-masses-differ")
        elif unfair > 0.03 and all(ex for _, ex in means):
            ck.fail("mass-share-differs", inp, f"selection probabilities {p}, exact molecule masses {mbar}: mass shares {share} instead of {declared}")
        elif unfair > 0.03:
            ck.note(f"selection law differs from the declared fractions and predicted shares {share} differ from {declared} (sampled means): {text[:100]}")
            ck.fail("mass-share-differs", inp, f"selection probabilities {p}, mean molecule masses {mbar} (sampled): mass shares {share} instead of {declared}")
    # ---- one LARGE ensemble (more than a thousand members) through System.generator: every member's component is picked under the declared
    # law, the first as well as the 1500th (decided at the rng.choice interface, call by call)
    for text, M in [("CCF.|15.0%|CCCl.|25.0%|CCBr.|60.0%|", 130000.0), ("CCF.|20.0%|CCCl.|30.0%|CCBr", 40000.0)] + ([] if quick else [("COC.|70.0%|CCO.|30.0%|", 70000.0), ("CCO.|30.0%|CCCCS.|50.0%|COC", 50000.0)]):
        system = sysrun.parse_system(text, M)
        if system is None or not system.generable:
            ck.note(f"large-ensemble system not generable: {text}")
            continue
        rng = Recorder(ck.seed * 23 + 5)
        members, error, log = sysrun.run_system(system, rng, max_members=5000)
        inp = {"text": text, "system_mass": M, "members": len(members)}
        ck.evaluations += 1
        ck.count("large-ensemble-members", len(members))
        if error is not None:
            ck.fail("large-ensemble-raises", inp, f"{type(error).__name__}: {error}")
            continue
        declared = [float(m.mixture.absolute_mass) / float(system.system_mass) for m in system._molecules]
        n = len(declared)
        picks = [x for x in log if x[0] == "choice" and x[1] == list(range(n))]
        covered = 0
        for k, (_, a, p, r) in enumerate(picks):
            cnt = len(r) if isinstance(r, list) else 1
            if p is None or len(p) != n or not all(close(x, y, 1e-9) for x, y in zip(p, declared)):
                ck.fail("component-pick-not-under-the-declared-law", inp, f"pick call #{k} (covering members {covered}..{covered + cnt - 1}) was made with p = {p}; declared fractions {declared}")
                break
            covered += cnt
        else:
            if covered < len(members):
                ck.fail("component-pick-not-under-the-declared-law", inp, f"{len(members)} members but only {covered} component picks under the declared law were observed")
            else:
                # ... and from the generated masses: the k-th member IS a molecule of the component picked for it (plain components: exact mass),
                # so the realised mass of a component is (number of its picks) x (its molecule mass) — the quantity the share formula is about
                exact = [mean_mass(m, 1, 0) for m in system._molecules]
                seq = [int(i) for (_, a, p, r) in picks for i in (r if isinstance(r, list) else [r])]
                if all(ex for _, ex in exact):
                    for k, mem in enumerate(members):
                        if not close(float(mem.weight), exact[seq[k]][0], 1e-9):
                            realised = [sum(float(x.weight) for x in members if close(float(x.weight), e[0], 1e-9)) for e in exact]
                            tot = sum(float(x.weight) for x in members)
                            ck.fail("member-is-not-a-molecule-of-the-picked-component", inp,
                                    f"member #{k} was picked as component {seq[k]} (molecule mass {exact[seq[k]][0]}) but weighs {float(mem.weight)}; realised mass shares "
                                    f"{[round(x / tot, 4) for x in realised]}, declared {[round(x, 4) for x in declared]}")
                            break
                    ck.count("large-ensemble-members-identified", len(members))
    ck.rule = ("one case = one two- to four-component system (components differ in molecule mass by factors 1-100); the selection probabilities are read off "
               "the rng.choice call of the component pick, mean molecule masses are exact (plain molecules) or sampled; share formula from C14_share")
    ck.extra["assumptions"] = ["renewal-reward theorem (expected mass per pick -> almost sure long-run share) is cited, not formalised (C14_partial)"]
    ck.finish()


if __name__ == "__main__":
    main()
