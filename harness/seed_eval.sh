#!/bin/bash
# usage: seed_eval.sh <seed dir under /tmp, e.g. /tmp/seed_C07> <property id> <name> [more property ids to run]
# copies patch + demo into /verif/seeded/<name>/, applies the patch to /repo, runs the demo and the checks, undoes it.
set -u
src="$1"; pid="$2"; name="$3"; shift 3
dst=/verif/seeded/$name
mkdir -p "$dst"
cp "$src/patch.diff" "$dst/patch.diff"
cp "$src/demo.py" "$dst/demo.py"
[ -f "$src/notes.txt" ] && cp "$src/notes.txt" "$dst/notes.txt"
cd /verif
git -C /repo apply "$dst/patch.diff" || { echo "patch does not apply"; exit 2; }
(cd /repo && PYTHONPATH=/repo/src timeout 600 /venv/bin/python "$dst/demo.py" > "$dst/demo_with.log" 2>&1; echo "demo_with_exit=$?" ) | tee "$dst/run.log"
for p in "$pid" "$@"; do
  out=$(./check "$p" --tier quick 2>&1 | tail -3)
  echo "check $p: $(echo "$out" | grep -c VIOLATION) violation line(s): $(echo "$out" | tail -1 | cut -c1-200)" | tee -a "$dst/run.log"
  echo "$out" | grep VIOLATION | head -1 >> "$dst/run.log"
done
git -C /repo checkout -- .
(cd /repo && PYTHONPATH=/repo/src timeout 600 /venv/bin/python "$dst/demo.py" > "$dst/demo_without.log" 2>&1; echo "demo_without_exit=$?" ) | tee -a "$dst/run.log"
git -C /repo status --short | head -3
