"""adapters for the stochastic atom graph (C17, C18)"""
import warnings

from rdkit import Chem
from rdkit.Chem import Descriptors as rdD

from gbigsmiles.stochastic import Stochastic
from gbigsmiles.token import SmilesToken

from genadapt import desc_json
from lib import frac


def atoken_json(tok):
    mol = Chem.MolFromSmiles(tok.generate_smiles_fragment())
    atoms = [[a.GetAtomicNum(), a.GetFormalCharge(), bool(a.GetIsAromatic())] for a in mol.GetAtoms()]
    inner = [[b.GetBeginAtomIdx(), b.GetEndAtomIdx(), int(b.GetBondType())] for b in mol.GetBonds()]
    return {"atoms": atoms, "inner": inner, "bds": [desc_json(b) for b in tok.bond_descriptors], "m": frac(float(rdD.HeavyAtomMolWt(mol)))}


def aelems_json(mol, with_dist):
    out = []
    for el in mol._elements:
        if isinstance(el, SmilesToken):
            out.append({"k": "tok", "t": atoken_json(el)})
        else:
            mn = mw = None
            if with_dist:
                mn, mw = frac(float(el.distribution._Mn)), frac(float(el.distribution._Mw))
            out.append({"k": "stoch", "left": desc_json(el.left_terminal, 0), "right": desc_json(el.right_terminal, 0),
                        "rep": [atoken_json(t) for t in el.repeat_tokens], "end": [atoken_json(t) for t in el.end_tokens], "mn": mn, "mw": mw})
    return out


def is_schulz_zimm(mol):
    from gbigsmiles.distribution import SchulzZimm
    sts = [e for e in mol._elements if isinstance(e, Stochastic)]
    return all(isinstance(e.distribution, SchulzZimm) for e in sts)


def sag_dump(g):
    nodes = sorted((int(n), int(d["atomic_num"]), int(d["formal_charge"]), bool(d["aromatic"]), d.get("mn"), d.get("mw")) for n, d in g.nodes(data=True))
    edges = sorted((int(u), int(v), int(d["bond_type"]), float(d["static_weight"]), float(d["stochastic_weight"]), float(d["termination_weight"]),
                    float(d["transition_weight"])) for u, v, d in g.edges(data=True))
    return nodes, edges
