"""C10 — generation is a pure, reproducible function of string and supplied generator."""
import json
import os
import random
import subprocess
import warnings

import numpy as np

import gbigsmiles
import gbigsmiles.core as core
from gbigsmiles.bond import BondDescriptor

import genrun
from lib import Check, VERIF, close


def digest(obj, seen=None, depth=0):
    """every mutable field reachable from a parsed object (dict walk), as a hashable nested tuple; numpy arrays by value"""
    if seen is None:
        seen = set()
    if obj is None or isinstance(obj, (bool, int, float, str)):
        return obj
    if isinstance(obj, np.ndarray):
        return ("nd",) + tuple(float(x) for x in obj.ravel().tolist())
    if isinstance(obj, (list, tuple)):
        return (type(obj).__name__,) + tuple(digest(x, seen, depth + 1) for x in obj)
    if isinstance(obj, dict):
        return ("dict",) + tuple((str(k), digest(v, seen, depth + 1)) for k, v in sorted(obj.items(), key=lambda kv: str(kv[0])))
    mod = type(obj).__module__ or ""
    if not mod.startswith("gbigsmiles"):
        return ("<" + type(obj).__name__ + ">",)          # scipy distributions, rdkit objects: opaque
    if id(obj) in seen:
        return ("ref", type(obj).__name__)
    seen.add(id(obj))
    d = getattr(obj, "__dict__", {})
    return (type(obj).__name__,) + tuple((k, digest(v, seen, depth + 1)) for k, v in sorted(d.items()))


def descriptor_ids(obj, acc=None, seen=None):
    """ids of all BondDescriptor objects owned by a parsed object"""
    if acc is None:
        acc, seen = set(), set()
    if isinstance(obj, BondDescriptor):
        acc.add(id(obj))
        return acc
    if isinstance(obj, (list, tuple)):
        for x in obj:
            descriptor_ids(x, acc, seen)
        return acc
    mod = type(obj).__module__ or ""
    if mod.startswith("gbigsmiles") and id(obj) not in seen:
        seen.add(id(obj))
        for v in getattr(obj, "__dict__", {}).values():
            descriptor_ids(v, acc, seen)
    return acc


def sibling_pair(rnd):
    """two DIFFERENT strings that share every token's plain text at the same residue number and differ only in weights / listed transition
    weights: anything remembered per plain text, per residue number or per token position across objects shows as the one string generating with
    the other one's numbers"""
    def lst(n, allowed):
        while True:
            l = [rnd.choice([0, 0, 1, 2, 3]) if i in allowed else 0 for i in range(n)]
            if sum(l) > 0:
                return "|" + " ".join(str(x) for x in l) + "|"

    def variant(kind):
        if kind == 0:
            a = rnd.choice(["", lst(5, range(5))])
            b = rnd.choice(["", lst(5, range(5))])
            c = rnd.choice(["", "|2|", "|0.5|"])
            return f"{{[][${a}]CC[${b}], [${c}]CC(C(=O)O)[$]; [$][H][]}}|gauss(300, 40)|"
        if kind == 1:
            a = rnd.choice(["", lst(6, (1, 3, 5))])
            b = rnd.choice(["", lst(6, (0, 2, 4))])
            c = rnd.choice(["", "|3|", "|0.25|"])
            return f"C{{[>][<{a}]CC[>{b}], [<{c}]C(C)C[>]; [<][H], [>]O[]}}|uniform(100, 300)|"
        if kind == 3:
            # a listed LEFT TERMINAL (its list is handed to the prefix's open descriptor at every generation)
            a = rnd.choice([lst(5, range(5)), lst(5, range(4))])
            c = rnd.choice(["", "|2|"])
            return f"CC{{[${a}][$]CC[$], [${c}]C(N)C[$]; [$]F[]}}|uniform(60, 200)|"
        a = rnd.choice(["", lst(4, range(4))])
        w = rnd.choice(["", "|2|", "|5|"])
        return f"O{{[$][${a}]CC(F)[$], [${w}]CO[$][$]}}|uniform(80, 200)|[${w}]CC[$]{{[$][$]CS[$]; [$]Br[]}}|uniform(60, 150)|"

    kind = rnd.randrange(4)
    for _ in range(50):
        x, y = variant(kind), variant(kind)
        if x != y:
            return x, y
    return x, y


def main():
    ck = Check("C10")
    ck.do_build()
    rnd = random.Random(ck.seed + 10)
    quick = ck.tier == "quick"
    pool = genrun.corpus_cases()
    rnd.shuffle(pool)
    pool = [c for c in pool if len(c.text) < 160][:12] + genrun.gen_cases(rnd, 40 if quick else 600, units=(1, 4))
    texts = [c.text for c in pool]
    # legal strings whose growth can run into a dead end (a repeat-unit descriptor of small weight without partner among the repeat units):
    # generation then raises for SOME seeds; the object must be exactly as before afterwards and later calls must not notice
    for _ in range(4 if quick else 40):
        i, w = rnd.choice([2, 5, 11]), rnd.choice(["0.05", "0.2", ".5", "1"])
        texts.append(rnd.choice([
            f"C{{[>] [<]CC([>{i}|{w}|])[>]; [<][H], [<{i}]Cl [<]}}|uniform(40, 120)|N",
            f"{{[] [$]CC([${i}|{w}|])[$]; [$][H], [${i}]O []}}|uniform(30, 100)|",
            f"OC{{[>] [<]C(C[>{i}|{w}|])C[>], [<]CO[>]; [<]F, [<{i}]N [<]}}|gauss(90, 20)|CC"]))
    deadend_texts = set(texts[-(4 if quick else 40):])
    nhist = 40 if quick else 1200
    # ---- plan the histories first, so that one fresh interpreter can compute every baseline
    plans = []
    need = set()
    nsib = 14 if quick else 400
    rnd_s = random.Random(ck.seed + 1010)
    for h in range(nhist + nsib):
        r_ = rnd if h < nhist else rnd_s              # the sibling histories draw from their own stream: the others stay what they were
        k = r_.randint(2, 4)
        strs = [r_.choice(texts) for _ in range(k)]
        if r_.random() < 0.3:
            strs[0] = r_.choice(sorted(deadend_texts))
        if h >= nhist:
            strs[0], strs[1] = sibling_pair(r_)      # same plain text everywhere, other weights / transition lists
        if r_.random() < 0.5:
            strs.append(strs[0])                      # a second instance parsed from the same string
        # one system (ensemble) made of two of the strings, in a third of the histories: System.generate(rng=...) is a generation too
        if r_.random() < 0.35:
            parts = [t for t in strs if "." not in t][:2]
            if len(parts) == 2:
                strs.append("SYSTEM:" + parts[0] + ".|300|" + parts[1] + ".|700|")
        ops = []
        for _ in range(r_.randint(15, 40)):
            r = r_.random()
            i = r_.randrange(len(strs))
            if strs[i].startswith("SYSTEM:"):
                if r < 0.7:
                    seed = r_.randrange(5)
                    ops.append(("generate", i, seed))
                    need.add((strs[i], seed))
                elif r < 0.85:
                    ops.append(("print", i))
                else:
                    ops.append(("global", i))
                continue
            if r < 0.45:
                seed = r_.randrange(5)
                ops.append(("generate", i, seed))
                need.add((strs[i], seed))
            elif r < 0.55:
                ops.append(("print", i))
            elif r < 0.63:
                ops.append(("rgraph", i))
            elif r < 0.70:
                ops.append(("sag", i))
            elif r < 0.76:
                ops.append(("mirror", i))
            elif r < 0.82:
                ops.append(("elements", i))
            elif r < 0.88:
                ops.append(("global", i))
            elif r < 0.91:
                ops.append(("generate_global", i))
            elif r < 0.94:
                # the same generation while RDKit's (privately random) embedding fails for the k-th fragment
                seed = r_.randrange(5)
                ops.append(("generate_embedfail", i, seed, r_.randrange(6)))
                need.add((strs[i], seed))
            else:
                ops.append(("ff", i, r_.randrange(5)))
                need.add((strs[i], ops[-1][2]))
        plans.append((strs, ops))
    need = sorted(need)
    env = dict(os.environ, PYTHONPATH=os.path.join(os.environ.get("GBS_REPO", "/repo"), "src"))
    p = subprocess.run(["/venv/bin/python", os.path.join(VERIF, "harness", "c10_baseline.py")], input="".join(json.dumps(x) + "\n" for x in need),
                       stdout=subprocess.PIPE, stderr=subprocess.DEVNULL, text=True, env=env, timeout=3000)
    lines = [json.loads(l[6:]) for l in p.stdout.split("\n") if l.startswith("@@C10 ")]
    if len(lines) != len(need):
        print(f"[C10] baseline interpreter returned {len(lines)} of {len(need)} results")
        raise SystemExit(2)
    base = dict(zip(need, lines))
    ck.count("baseline_pairs_fresh_interpreter", len(need))
    # ---- replay
    for hi, (strs, ops) in enumerate(plans):
        with warnings.catch_warnings():
            warnings.simplefilter("ignore")
            objs = [gbigsmiles.System(s[7:]) if s.startswith("SYSTEM:") else gbigsmiles.Molecule(s) for s in strs]
            dig0 = [digest(o) for o in objs]
            owned = [descriptor_ids(o) for o in objs]
            str0 = [(str(o), o.generate_string(False), o.generable) for o in objs]
            hist = []
            for op in ops:
                name, i = op[0], op[1]
                o = objs[i]
                hist.append(list(op))
                inp = {"strings": strs, "history": hist[-25:]}
                try:
                    if name == "generate":
                        g = o.generate(rng=np.random.default_rng(op[2]))
                        b = base[(strs[i], op[2])]
                        if "error" in b:
                            ck.fail("raises-only-in-baseline", inp, b["error"])
                            ck.count("op:generate:baseline-raises")
                        elif g.smiles != b["smiles"] or not close(g.weight, b["weight"], 1e-12):
                            ck.fail("output-depends-on-history", inp, f"generate(seed {op[2]}) gives {g.smiles} ({g.weight}); a fresh process gives {b['smiles']} ({b['weight']})")
                        if any(id(bd) in owned[i] for bd in g.bond_descriptors):
                            ck.fail("molecule-shares-descriptor-with-parsed-object", inp, "an open descriptor of the generated molecule IS a descriptor of the parsed object")
                        ck.count("op:generate" + (":system" if strs[i].startswith("SYSTEM:") else ""))
                    elif name == "generate_embedfail":
                        import gbigsmiles.mol_gen as _mg
                        orig = _mg.AllChem.EmbedMolecule
                        calls = [0]

                        def shim(mol, *a, **k):
                            calls[0] += 1
                            rc = orig(mol, *a, **k)
                            if calls[0] - 1 == op[3]:
                                mol.RemoveAllConformers()
                                return -1
                            return rc
                        _mg.AllChem.EmbedMolecule = shim
                        try:
                            try:
                                g = o.generate(rng=np.random.default_rng(op[2]))
                                got = (g.smiles, None)
                            except Exception as exc:   # noqa
                                got = (None, f"{type(exc).__name__}: {exc}")
                        finally:
                            _mg.AllChem.EmbedMolecule = orig
                        b = base[(strs[i], op[2])]
                        if "error" not in b and calls[0] > op[3]:
                            ck.count("op:generate_embedfail")
                            if got[0] != b["smiles"]:
                                ck.fail("outcome-depends-on-rdkit-embedding", inp, f"generate(seed {op[2]}) with the embedding of fragment #{op[3]} failing gives {got}; "
                                        f"a fresh process gives {b['smiles']}: RDKit's embedding draws from its own random numbers and fails now and then")
                    elif name == "generate_global":
                        o.generate()                       # library's global generator: result is not compared, state effects are
                    elif name == "print":
                        if (str(o), o.generate_string(False), o.generable) != str0[i]:
                            ck.fail("printed-form-changed", inp, f"{str0[i]} -> {(str(o), o.generate_string(False), o.generable)}")
                    elif name == "rgraph":
                        o.gen_reaction_graph()
                    elif name == "sag":
                        try:
                            o.gen_stochastic_atom_graph(expect_schulz_zimm_distribution=False)
                        except Exception:
                            pass
                    elif name == "mirror":
                        o.gen_mirror()
                    elif name == "elements":
                        els = o.elements
                        for e in els:       # the returned copy may be modified by the caller at will
                            for bd in getattr(e, "bond_descriptors", []):
                                bd.weight = 99.0
                    elif name == "global":
                        core._GLOBAL_RNG.random(rnd.randint(1, 5))
                    elif name == "ff":
                        g = o.generate(rng=np.random.default_rng(op[2]))
                        if g.fully_generated:
                            try:
                                g.get_forcefield_types()
                            except Exception:
                                pass
                except RuntimeError as exc:
                    if "updating stopped" in str(exc):
                        ck.count("skipped_c11_draw_failure")
                    else:
                        b = base.get((strs[i], op[2])) if name in ("generate", "ff") else None
                        if b is not None and "error" not in b:
                            ck.fail("raises-depending-on-history", inp, f"{type(exc).__name__}: {exc}")
                        elif b is not None and name == "generate":
                            ck.count("op:generate:raises-as-in-baseline")
                            if b["error"].split(":")[0] != type(exc).__name__:
                                ck.fail("error-depends-on-history", inp, f"generate(seed {op[2]}) raises {type(exc).__name__}: {exc}; a fresh process raises {b['error']}")
                except Exception as exc:
                    b = base.get((strs[i], op[2])) if name in ("generate", "ff") else None
                    if b is not None and "error" not in b:
                        ck.fail("raises-depending-on-history", inp, f"{type(exc).__name__}: {exc}")
                    elif b is not None and name == "generate":
                        ck.count("op:generate:raises-as-in-baseline")
                        if b["error"].split(":")[0] != type(exc).__name__:
                            ck.fail("error-depends-on-history", inp, f"generate(seed {op[2]}) raises {type(exc).__name__}: {exc}; a fresh process raises {b['error']}")
                # frame: nothing reachable from any parsed object changed
                for k, ob in enumerate(objs):
                    if digest(ob) != dig0[k]:
                        ck.fail("parsed-object-mutated", inp, f"object {k} ({strs[k][:60]}) changed by {op}")
                        dig0[k] = digest(ob)
            ck.case((tuple(strs), tuple(map(tuple, ops))), nontrivial=True, sample={"strings": strs, "ops": [list(x) for x in ops[:10]]} if hi < 3 else None)
            ck.count("calls", len(ops))
    ck.rule = ("one case = one random history of 15-40 calls (generate with seeds, generate with the global generator, print, reaction graph, stochastic atom graph, mirror, "
               "elements + caller-side modification of the copy, force-field typing, advancing the global generator) over 2-5 objects (two of them parsed from the same "
               "string in half of the histories); after every call every mutable field reachable from every parsed object is digested and every generate output is "
               "compared with a baseline computed in one fresh interpreter from fresh parses; distinct by history")
    ck.extra["assumptions"] = ["copy.deepcopy returns objects disjoint from the original (CPython)"]
    ck.finish()


if __name__ == "__main__":
    main()
