#!/usr/bin/env python3
"""usage: seed_keep.py <agent worktree> <name> <property> <breaks> <needs> <caught_by> [suite note]
copies patch.diff / demo.py / notes.txt of a confirmed seeded change into /verif/seeded/<name>/ and writes meta.json"""
import json, os, shutil, sys
wt, name, prop, breaks, needs, caught = sys.argv[1:7]
suite = sys.argv[7] if len(sys.argv) > 7 else None
dst = f"/verif/seeded/{name}"
os.makedirs(dst, exist_ok=True)
for f in ("patch.diff", "demo.py", "notes.txt"):
    shutil.copy(os.path.join(wt, "_seed", f), os.path.join(dst, f))
conf = open(os.path.join(wt, "_seed", "confirm.log")).read()
ex = {l.split("=")[0]: int(l.split("=")[1]) for l in conf.splitlines() if l.startswith("demo_")}
failed = [l for l in conf.splitlines() if l.startswith("FAILED")]
meta = {"property": prop, "breaks": breaks, "needs": needs,
        "source": "independent sub-agent given only the property text (with its code anchors and the one-line descriptions of earlier mechanisms not to repeat) and a scratch worktree",
        "confirmed": {"existing_tests": suite or ("full suite re-run by me in the agent's worktree with the change applied (PYTHONPATH = worktree/src, import path verified, pytest -x): no failure"
                                                 if not failed else "see suite note"),
                      "demo_with_change_exit": ex.get("demo_with_exit"), "demo_without_change_exit": ex.get("demo_without_exit")},
        "caught_by": caught}
json.dump(meta, open(os.path.join(dst, "meta.json"), "w"), indent=1)
print(dst, meta["confirmed"])
