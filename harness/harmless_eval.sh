#!/bin/bash
# usage: harmless_eval.sh  — applies every behaviour-preserving refactoring under /verif/harmless to /repo in turn, runs all quick checks,
# undoes it; no check may raise an alarm.  Output: /verif/harmless/results.txt
cd /verif
out=/verif/harmless/results.txt
: > $out
for p in /verif/harmless/r*.diff; do
  name=$(basename $p .diff)
  git -C /repo apply "$p" || { echo "$name: patch does not apply" | tee -a $out; continue; }
  echo "== $name applied ($(git -C /repo diff --stat | tail -1))" | tee -a $out
  for i in 01 02 03 04 05 06 07 08 09 10 11 12 13 14 15 16 17 18 19 20; do
    res=$(./check C$i --tier quick 2>&1 | grep -E "^\[C|VIOLATION|infrastructure" | tr '\n' ' ' | cut -c1-330)
    case "$res" in *"exit=0"*) echo "  C$i ok" >> $out ;; *) echo "  C$i ALARM: $res" | tee -a $out ;; esac
  done
  git -C /repo checkout -- .
done
git -C /repo status --short | head -3
echo finished | tee -a $out
