"""inputs for the parsing properties: ASTs with their rendered strings and what they denote"""
import random

from rdkit import Chem

import gen
from corpus import notation_strings


def dummy_text(tok):
    """the token with every descriptor replaced by an isotope-labelled dummy atom `[k*]` (k = 1-based written position)"""
    counter = [0]

    class D:
        pass
    # re-render with descriptors printed as dummies
    out = []
    next_digit = [1]
    pending = {}

    def emit(node):
        out.append(node.text)
        if id(node) in pending:
            out.append(str(pending.pop(id(node))))
        for r in node.rings:
            d = next_digit[0]
            next_digit[0] += 1
            pending[id(r[2])] = d
            out.append(str(d))
        kids = list(node.children)
        for k, (o, child) in enumerate(kids):
            last = k == len(kids) - 1
            if not last:
                out.append("(")
            if isinstance(child, gen.DescT):
                counter[0] += 1
                out.append(gen.BOND_CHARS.get(o, "") + f"[{counter[0]}*]")
            else:
                out.append("" if o in (1, 12) else gen.BOND_CHARS[o])
                emit(child)
            if not last:
                out.append(")")
    if tok.lead is not None:
        o, d = tok.lead
        counter[0] += 1
        out.append(f"[{counter[0]}*]" + gen.BOND_CHARS.get(o, ""))
    emit(tok.root)
    return "".join(out)


def rdkit_reading(tok):
    """[(neighbour atom index in token numbering, bond order)] per descriptor in written order, read off RDKit's molecule
    of the token text in which the descriptors are dummy atoms"""
    smi = dummy_text(tok)
    mol = Chem.MolFromSmiles(smi, sanitize=False)
    if mol is None:
        return None
    real_index = {}
    n = 0
    for a in mol.GetAtoms():
        if a.GetAtomicNum() == 0 and a.GetIsotope() > 0:
            continue
        real_index[a.GetIdx()] = n
        n += 1
    res = {}
    for a in mol.GetAtoms():
        if a.GetAtomicNum() == 0 and a.GetIsotope() > 0:
            nb = list(a.GetBonds())
            if len(nb) != 1:
                return None
            other = nb[0].GetOtherAtomIdx(a.GetIdx())
            if other not in real_index:
                return None
            res[a.GetIsotope()] = (real_index[other], int(nb[0].GetBondType()))
    return [res[k] for k in sorted(res)]


def expected_token(tok):
    gen.render_token(tok)
    descs = []
    for d, a, o in tok.descs:
        w, tl = d.value()
        descs.append({"s": d.sym, "id": d.id, "w": w, "t": tl, "a": a, "o": {1: 1, 2: 2, 3: 3}[o]})
    return {"atoms": list(tok.atoms), "bonds": sorted((min(i, j), max(i, j), o) for i, j, o in tok.bonds), "descs": descs}


def relayout(rnd, text):
    """extra whitespace where the notation allows it on the outside"""
    return rnd.choice(["", " ", "\t"]) + text + rnd.choice(["", " ", "  "])


def token_cases(rnd, n):
    out = []
    for _ in range(n):
        try:
            t = gen.rand_token_for_parse(rnd)
        except RuntimeError:
            continue
        out.append(t)
    return out


def molecule_cases(rnd, n, archetypes=None):
    out = []
    tries = 0
    while len(out) < n and tries < 5 * n:
        tries += 1
        try:
            m = gen.rand_molecule(rnd, rnd.choice(archetypes or gen.ARCHETYPES))
        except (RuntimeError, RecursionError):
            continue
        out.append(m)
    return out


def system_text(rnd, mols):
    """molecules joined into a system string with mixture specifiers that make it generable"""
    n = len(mols)
    cuts = sorted(rnd.sample(range(1, 100), n - 1)) if n > 1 else []
    fr = [b - a for a, b in zip([0] + cuts, cuts + [100])]
    M = rnd.choice([500.0, 5000.0, 1e5, 5e6])
    mode = rnd.choice(["abs", "pct+abs", "pct+last-missing"])
    text = ""
    specs = []
    for i, (m, f) in enumerate(zip(mols, fr)):
        body = m.text()
        if mode == "abs" or (mode == "pct+abs" and i == n - 1):
            v = f * M / 100
            sp = rnd.choice([repr(v), "%g" % v if "e" not in "%g" % v else repr(v)])
            text += body + f".|{sp}|"
            specs.append(("abs", v))
        elif mode == "pct+last-missing" and i == n - 1:
            text += body
            specs.append(("none",))
        else:
            text += body + f".|{f}%|"
            specs.append(("pct", float(f)))
    sysmass = M if mode == "pct+last-missing" else None
    return text, sysmass, specs


def corpus_strings():
    return notation_strings()
