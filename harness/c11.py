"""C11 — each molecular-weight distribution is one coherent probability law."""
import math
import random
import warnings

import numpy as np

import gbigsmiles
from gbigsmiles.distribution import get_distribution
from gbigsmiles.mol_prob import RememberAdd

import distref
from lib import Check, close, unfrac
from parsedump import dist_dump, parse_op
from rng import QuantileRNG


# log_normal's CDF is SciPy's generic numerical integration of the density (quad, epsabs 1.49e-8 per evaluation): two evaluations
INTEGRATED_ABS = 1e-7


def interval(value, previous):
    r = RememberAdd(previous)
    r += (value - previous)
    return r


def main():
    ck = Check("C11")
    ck.do_build()
    import resource
    try:
        lim = 8 << 30
        resource.setrlimit(resource.RLIMIT_AS, (lim, lim))      # a runaway quantile search fails here instead of taking the machine down
    except (ValueError, OSError):
        pass
    rnd = random.Random(ck.seed + 11)
    quick = ck.tier == "quick"
    nq = 200 if quick else 2000
    grid = [(i + 0.5) / nq for i in range(nq)]
    ops, texts = [], []
    for fam, params, text in distref.param_grid(rnd, quick):
        inp = {"distribution": text}
        with warnings.catch_warnings():
            warnings.simplefilter("ignore")
            try:
                d = get_distribution("|" + text + "|")
            except Exception as exc:
                ck.fail("valid-distribution-rejected", inp, f"{type(exc).__name__}: {exc}")
                continue
            ref = distref.reference(fam, params)
            total_ref = getattr(ref, "total", 1.0)
            # one coherent law whatever is asked first: on a FRESH object the very first question is an interval probability (as for a freshly
            # parsed molecule in mol_prob.get_ensemble_prob); it equals the CDF difference, and the same question after a draw and a point
            # query gets the same answer
            try:
                d0 = get_distribution("|" + text + "|")
                qa, qb = ref.quantile(0.2 * total_ref), ref.quantile(0.8 * total_ref)
                first = float(d0.prob_mw(interval(qb, qa)))
                want0 = ref.cdf(qb) - ref.cdf(qa)
                ck.count("interval-asked-first")
                if not close(first, want0, 1e-6, INTEGRATED_ABS if fam == "log_normal" else 1e-9):
                    ck.fail("interval-probability", dict(inp, interval=[qa, qb], asked="first on a fresh object"),
                            f"prob_mw = {first!r}, F(value) - F(previous) = {want0!r}")
                d0.draw_mw(QuantileRNG(0.37))
                try:
                    d0.prob_mw(round(qa) if ref.discrete else qa)
                except Exception:
                    pass
                again = float(d0.prob_mw(interval(qb, qa)))
                if not close(first, again, 1e-9, 1e-12):
                    ck.fail("law-depends-on-call-history", dict(inp, interval=[qa, qb]), f"the same interval has probability {first!r} on a fresh object and {again!r} after a draw and a point query")
            except Exception as exc:
                ck.fail("prob-raises", dict(inp, asked="interval first on a fresh object"), f"{type(exc).__name__}: {exc}")
            draws = []
            for q in grid:
                if fam == "schulz_zimm" and q >= total_ref - 1e-9:
                    continue
                try:
                    x = float(d.draw_mw(QuantileRNG(q)))
                except Exception as exc:
                    ck.fail("draw-raises", dict(inp, quantile=q), f"{type(exc).__name__}: {exc}")
                    break
                ck.evaluations += 1
                if not math.isfinite(x) or x < ref.support[0] - 1e-9 or x > ref.support[1] + 1e-9:
                    ck.fail("draw-outside-support", dict(inp, quantile=q), f"draw {x}, support {ref.support}")
                    break
                want = ref.quantile(q)
                okq = close(x, want, 1e-6 if fam == "log_normal" else 1e-9)
                if ref.discrete and not okq:
                    # at a plateau of the CDF (q within rounding of a jump) the neighbouring integer is as good
                    okq = abs(x - want) <= 1 and (abs(ref.cdf(min(x, want)) - q) < 1e-9)
                if not okq:
                    ck.fail("draw-is-not-the-declared-quantile", dict(inp, quantile=q), f"draw {x!r}, {fam}{tuple(params)} has quantile {want!r}")
                    break
                draws.append(x)
            if fam == "schulz_zimm" and total_ref < 1 - 1e-12:
                # a uniform number above the total mass of the (not normalised) mass function: the draw must still return
                for q in ((total_ref + 1) / 2, 1 - 1e-9):
                    ck.evaluations += 1
                    ck.count("quantile-above-total-mass")
                    try:
                        x = float(d.draw_mw(QuantileRNG(q)))
                        if not math.isfinite(x) or x < 0:
                            ck.fail("draw-outside-support", dict(inp, quantile=q), f"draw {x}")
                    except BaseException as exc:
                        if isinstance(exc, (KeyboardInterrupt, SystemExit)):
                            raise
                        ck.fail("draw-raises", dict(inp, quantile=q), f"{type(exc).__name__}: {str(exc)[:120]} (quantile above the total mass {total_ref})")
            if draws:
                mean = float(np.mean(draws))
                # the draws were already compared one by one with the law's quantiles; what is decided here is the documented mean, against
                # the exact mean of the law where the reference knows it (a quantile grid of a heavy-tailed law is a poor quadrature)
                law_mean = getattr(ref, "mean_exact", None)
                if law_mean is not None:
                    if abs(law_mean - ref.mean) > 0.05 * max(abs(ref.mean), 1.0) + 1.0:
                        ck.fail("mean", inp, f"exact mean of the law {law_mean}, documented mean {ref.mean}")
                else:
                    tol = 0.03 * max(abs(ref.mean), 1.0) + (1.0 if ref.discrete else 0.0)
                    if abs(mean - ref.mean) > tol:
                        ck.fail("mean", inp, f"mean of the quantile grid {mean}, documented mean {ref.mean}")
            # interval probabilities = CDF differences; non-negative; telescoping
            lo = ref.quantile(0.001) if ref.support[0] == -math.inf else max(ref.support[0], ref.quantile(0.001))
            hi = ref.quantile(0.999 * total_ref)
            pts = sorted(rnd.uniform(lo, hi) for _ in range(40 if quick else 500))
            tot = 0.0
            for a, b in zip(pts, pts[1:]):
                try:
                    p = float(d.prob_mw(interval(b, a)))
                except Exception as exc:
                    ck.fail("prob-raises", dict(inp, interval=[a, b]), f"{type(exc).__name__}: {exc}")
                    break
                want = ref.cdf(b) - ref.cdf(a)
                ck.evaluations += 1
                if p < -1e-12:
                    ck.fail("negative-probability", dict(inp, interval=[a, b]), str(p))
                if not close(p, want, 1e-6, INTEGRATED_ABS if fam == "log_normal" else 1e-9):
                    ck.fail("interval-probability", dict(inp, interval=[a, b]), f"prob_mw = {p!r}, F(value) - F(previous) = {want!r}")
                    break
                tot += p
            else:
                # edge intervals: lower end exactly 0 (the state of the accumulator before the first unit), lower end at the edge of the
                # support, zero-length interval
                edges = [(pts[len(pts) // 3], 0.0), (pts[-1], 0.0), (pts[len(pts) // 2], pts[len(pts) // 2])]
                if ref.support[0] != -math.inf:
                    edges.append((pts[len(pts) // 3], float(ref.support[0])))
                for b, a in edges:
                    if b < a:
                        continue
                    try:
                        p = float(d.prob_mw(interval(b, a)))
                    except Exception as exc:
                        ck.fail("prob-raises", dict(inp, interval=[a, b]), f"{type(exc).__name__}: {exc}")
                        continue
                    want = ref.cdf(b) - ref.cdf(a)
                    ck.evaluations += 1
                    ck.count("edge-intervals")
                    if not close(p, want, 1e-6, INTEGRATED_ABS if fam == "log_normal" else 1e-9):
                        ck.fail("interval-probability", dict(inp, interval=[a, b]), f"prob_mw = {p!r}, F(value) - F(previous) = {want!r}")
                whole = float(d.prob_mw(interval(pts[-1], pts[0])))
                if not close(tot, whole, 1e-7, 1e-9):
                    ck.fail("intervals-do-not-telescope", inp, f"sum of consecutive intervals {tot}, whole interval {whole}")
            # normalisation over the support
            whole = float(d.prob_mw(interval(ref.quantile(1 - 1e-12) if not ref.discrete else hi * 4 + 50, ref.quantile(1e-12) if ref.support[0] == -math.inf else ref.support[0] - 1)))
            want_total = total_ref
            ck.extra.setdefault("normalisation", {})[text] = whole
            if abs(whole - want_total) > 1e-6 and fam != "schulz_zimm":
                ck.fail("not-normalised", inp, f"total probability {whole}")
            if fam == "schulz_zimm" and abs(whole - 1.0) > 1e-6:
                ck.fail("not-normalised", inp, f"total probability {whole}")
            # text form reproduces the parameters
            s = d.generate_string(True)
            d2 = get_distribution(s)
            if dist_dump(d2) != dist_dump(d):
                ck.fail("text-form-changes-parameters", inp, f"{s} -> {dist_dump(d2)}")
            if d.generate_string(False) != "":
                ck.fail("noext-text", inp, d.generate_string(False))
        ck.distinct.add(text)
        ck.count("family:" + fam)
        ops.append(parse_op("dist", "|" + text + "|"))
        texts.append((text, dist_dump(d), d.generate_string(True)))
        if len(ck.samples) < 6:
            ck.samples.append({"distribution": text, "quantiles": nq, "first_draws": draws[:3]})
    # unknown names are rejected
    for bad in ["gamma(1, 2)", "normal(3, 4)", "weibull(1)", "gaus(1,2)", "schulz-zimm(1,2)", "Gauss(100, 20)"]:
        try:
            get_distribution("|" + bad + "|")
            ck.fail("unknown-distribution-accepted", {"distribution": bad}, "accepted")
        except Exception:
            ck.count("unknown-rejected")
        ops.append(parse_op("dist", "|" + bad + "|"))
        texts.append((bad, None, None))
    for (text, dump, ext), out in zip(texts, ck.driver.run(ops)):
        if dump is None:
            if out.get("ok"):
                ck.mismatch("PARSE.dist", {"text": text}, "rejected", out)
            continue
        if not out.get("ok") or out["v"]["fam"] != dump["fam"] or not all(close(a, unfrac(b)) for a, b in zip(dump["params"], out["v"]["params"])):
            ck.mismatch("PARSE.dist", {"text": text}, dump, out)
        elif "?" not in out["ext"] and out["ext"] != ext:
            ck.mismatch("PRINT.dist", {"text": text}, ext, out["ext"])
    ck.rule = ("six families x parameter regions (small / large means, narrow / broad; thorough adds random parameters); for every parameter set a grid of "
               f"{nq} quantiles is fed through a scripted generator into draw_mw and compared with the closed-form quantile of the documented law; interval "
               "probabilities against closed-form CDF differences; normalisation; documented mean; text round trip; one case = one (parameters, quantile or "
               "interval); distinct = parameter sets")
    ck.extra["assumptions"] = ["SciPy draws via the inverse CDF of one uniform / one normal / one Poisson variate (QuantileRNG answers those calls)",
                               "Schulz-Zimm is a density evaluated at the integers: its total is 1 only up to the discretisation error, reported in coverage.normalisation"]
    ck.finish()


if __name__ == "__main__":
    main()
