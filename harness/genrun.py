"""shared machinery of the generation properties (C04-C08, C10, C13): run the real generator under
observation, run the model on the same random history, compare, and expose the observations to the
property oracles."""
import os
import random

import numpy as np
from rdkit import Chem, RDLogger
from rdkit.Chem import Descriptors as _rdD

import gbigsmiles
import gbigsmiles.stochastic as _st
import gbigsmiles.token as _tk
import gbigsmiles.core as _core
from gbigsmiles.stochastic import Stochastic
from gbigsmiles.token import SmilesToken

import gen
from genadapt import (desc_json, events_json, frag_info, impl_summary, model_gen_op, molecule_json, run_impl)
from lib import close, unfrac
from rng import Recorder, Scripted

RDLogger.DisableLog("rdApp.*")

SPEC_ORDER = {"": 1, "-": 1, "=": 2, "#": 3, ":": 7}


def spec_compatible_bd(a, b):
    """the conjugation rule on real BondDescriptor objects (independent of is_compatible)"""
    if a.descriptor == "" or b.descriptor == "":
        return False
    if a.descriptor_id != b.descriptor_id:
        return False
    if int(a.bond_type) != int(b.bond_type):
        return False
    return (a.descriptor, b.descriptor) in (("$", "$"), ("<", ">"), (">", "<"))


class MassProxy:
    """records every `HeavyAtomMolWt` call made while a generation is observed.  The observation point is the function of
    `rdkit.Chem.Descriptors` itself, not an attribute of gbigsmiles.stochastic: the record does not depend on which module of the
    library asks for the mass (`rdDescriptors.HeavyAtomMolWt(my_mol.mol)` in stochastic.py or `MolGen.weight` in mol_gen.py)"""

    def __init__(self, log=None):
        self.calls = []
        self.log = log
        self.orig = None

    def HeavyAtomMolWt(self, mol, *a, **k):
        v = self.orig(mol, *a, **k)
        self.calls.append((float(v), mol.GetNumAtoms()))
        if self.log is not None:
            self.log.append(("mass", float(v), mol.GetNumAtoms()))
        return v


class Observed:
    """context manager installing the observation points (module attributes only; nothing in /repo changes)"""

    def __init__(self, log=None):
        self.mass = MassProxy(log)
        self.chooses = []   # dict(kind-less): bds (list of BondDescriptor), bond, result, rng_log_index

    def __enter__(self):
        self._orig_choose_st = getattr(_st, "choose_compatible_weight", None)
        self._orig_choose_tk = getattr(_tk, "choose_compatible_weight", None)
        self.mass.orig = _rdD.HeavyAtomMolWt
        obs = self

        def make(orig, site):
            def wrapper(bond_descriptors, bond, rng):
                n_before = len(getattr(rng, "log", []))
                rec = {"site": site, "bds": list(bond_descriptors), "list_obj": bond_descriptors, "bond": bond, "log_index": n_before, "result": None, "error": None,
                       "w": [float(b.weight) for b in bond_descriptors],
                       "trans": [None if b.transitions is None else [float(x) for x in b.transitions] for b in bond_descriptors]}
                obs.chooses.append(rec)
                try:
                    r = orig(bond_descriptors, bond, rng)
                except Exception as exc:
                    rec["error"] = type(exc).__name__
                    raise
                rec["result"] = int(r)
                return r
            return wrapper
        if self._orig_choose_st is not None:
            _st.choose_compatible_weight = make(self._orig_choose_st, "stochastic")
        if self._orig_choose_tk is not None:
            _tk.choose_compatible_weight = make(self._orig_choose_tk, "token")
        _rdD.HeavyAtomMolWt = self.mass.HeavyAtomMolWt
        return self

    def __exit__(self, *a):
        if self._orig_choose_st is not None:
            _st.choose_compatible_weight = self._orig_choose_st
        if self._orig_choose_tk is not None:
            _tk.choose_compatible_weight = self._orig_choose_tk
        _rdD.HeavyAtomMolWt = self.mass.orig
        return False


class Case:
    pass


def parse_case(text, archetype="corpus", ast=None):
    """parse with the real code; returns Case or None if not accepted / not generable"""
    c = Case()
    c.text = text
    c.archetype = archetype
    c.ast = ast
    try:
        c.mol = gbigsmiles.Molecule(text)
    except Exception as exc:
        c.parse_error = exc
        return None
    try:
        if not c.mol.generable:
            return None
        c.els, c.table = molecule_json(c.mol)
    except Exception as exc:
        c.parse_error = exc
        return None
    return c


def gen_cases(rnd, n, archetypes=None, **kw):
    out = []
    tries = 0
    archetypes = archetypes or [a for a in gen.ARCHETYPES]
    while len(out) < n and tries < n * 5:
        tries += 1
        a = rnd.choice(archetypes)
        try:
            ast = gen.rand_molecule(rnd, a, **kw)
        except (RuntimeError, RecursionError):
            continue
        c = parse_case(ast.text(), a, ast)
        if c is not None:
            out.append(c)
    return out


def is_c11_draw_failure(exc):
    return isinstance(exc, RuntimeError) and "updating stopped" in str(exc)


def run_real(case, rng, forced_targets=None):
    """one observed real generation; returns dict with everything the oracles need"""
    with Observed(rng.log) as obs:
        run = run_impl(case.mol, rng, forced_targets)
    rec = {"case": case, "run": run, "obs": obs, "log": run.log, "error": run.error, "summary": None}
    if run.error is None and run.molgen is not None:
        rec["summary"] = impl_summary(run.molgen, case.table)
    return rec


ERRMAP = {
    "notGenerable": ["RuntimeError"], "prefixOpenCount": ["RuntimeError"], "prefixMissing": ["RuntimeError"],
    "prefixMismatch": ["RuntimeError"], "endGroupArity": ["RuntimeError"], "noCompatible": ["ValueError"],
    "choiceValue": ["ValueError"], "attachIndex": ["RuntimeError"], "attachIncompatible": ["RuntimeError"],
    "tokenIndex": ["IndexError"],
}


def history(log):
    """the random history of a run: picks (ints) and drawn targets (floats), in call order"""
    return [x[3] if x[0] == "choice" else x[1] for x in log if x[0] in ("choice", "draw")]


def _ename(e):
    return e.name if isinstance(e, LightErr) else type(e).__name__


def _etext(e):
    return e.text if isinstance(e, LightErr) else str(e)


def compare(ck, rec, out, what=("struct", "choices", "mass")):
    """model output `out` (GEN op) against the observed real run `rec`; registers mismatches"""
    case = rec["case"]
    inp = {"text": case.text, "history": history(rec["log"])[:80]}
    if "fail" in out:
        ck.mismatch("GEN", inp, "run", out)
        return False
    if rec["error"] is not None:
        if out.get("ok"):
            ck.mismatch("GEN", inp, f"raises {_ename(rec['error'])}: {_etext(rec['error'])[:120]}", "ok")
            return False
        want = ERRMAP.get(out.get("err"))
        if want is None:
            # model ran out of oracle / bad oracle while the implementation raised: the implementation failed earlier
            # than the model expected -> disagreement about *where* generation fails
            ck.mismatch("GEN", inp, f"raises {_ename(rec['error'])}: {_etext(rec['error'])[:120]}", out)
            return False
        if _ename(rec["error"]) not in want:
            ck.note(f"exception type differs: impl {_ename(rec['error'])}, model class {out.get('err')} on {case.text[:80]}")
        return True
    if not out.get("ok"):
        ck.mismatch("GEN", inp, "ok", out)
        return False
    s = rec["summary"]
    m = out["mol"]
    ok = True
    if "struct" in what:
        if m["insts"] != s["inst_tid"]:
            ck.mismatch("GEN.instances", inp, s["inst_tid"], m["insts"])
            ok = False
        mb = sorted((min(b[0], b[1]), max(b[0], b[1]), b[2]) for b in m["bonds"])
        if mb != s["bonds"]:
            ck.mismatch("GEN.bonds", inp, s["bonds"], mb)
            ok = False
        me = sorted((min(b[3], b[4]), max(b[3], b[4]), b[2]) for b in m["bonds"])
        if me != s["edges"]:
            ck.mismatch("GEN.residue-edges", inp, s["edges"], me)
            ok = False
        if m["natoms"] != s["natoms"] or m["offs"] != s["offs"][:-1]:
            ck.mismatch("GEN.atoms", inp, (s["natoms"], s["offs"]), (m["natoms"], m["offs"]))
            ok = False
        mo = [(o["s"], o["id"], o["o"], o["a"], o["node"]) for o in m["opens"]]
        so = [(o["s"], o["id"], o["o"], o["a"], o["node"]) for o in s["opens"]]
        if mo != so:
            ck.mismatch("GEN.open-descriptors", inp, so, mo)
            ok = False
        for a, b in zip(m["opens"], s["opens"]):
            if not close(unfrac(a["w"]), unfrac(b["w"])) or (a["t"] is None) != (b["t"] is None):
                ck.mismatch("GEN.open-descriptor-weights", inp, b, a)
                ok = False
    if "mass" in what and not close(unfrac(m["mass"]), s["mass"], 1e-9):
        ck.mismatch("GEN.mass", inp, s["mass"], float(unfrac(m["mass"])))
        ok = False
    if "choices" in what:
        ch_i = [x for x in rec["log"] if x[0] == "choice"]
        ch_m = [t["c"] for t in out["trace"] if "c" in t]
        if len(ch_i) != len(ch_m) or out["rest"] != 0:
            ck.mismatch("GEN.choice-count", inp, len(ch_i), (len(ch_m), out["rest"]))
            return False
        for k, (a, b) in enumerate(zip(ch_i, ch_m)):
            if a[1] != b["a"] or a[3] != b["r"] or len(a[2] or []) != len(b["p"]) or not all(close(x, unfrac(y)) for x, y in zip(a[2], b["p"])):
                ck.mismatch("GEN.choice", dict(inp, call=k), {"a": a[1], "p": a[2], "r": a[3]}, {"a": b["a"], "p": [float(unfrac(y)) for y in b["p"]], "r": b["r"]})
                ok = False
                break
    return ok


def objects_of(log):
    """split the observation log into stochastic objects: start mass / atom count, target, [(mass_k, natoms_k)...]"""
    objs = []
    cur = None
    last_mass = None
    for item in log:
        if item[0] == "mass":
            if cur is not None:
                cur["calls"].append((item[1], item[2]))
            last_mass = item
        elif item[0] == "draw":
            # the mass call directly before a draw is the new object's start, not a unit of the previous object
            if cur is not None and cur["calls"] and last_mass is not None and cur["calls"][-1] == (last_mass[1], last_mass[2]):
                cur["calls"].pop()
            cur = {"start": last_mass[1] if last_mass else 0.0, "n0": last_mass[2] if last_mass else 0, "target": item[1], "calls": []}
            objs.append(cur)
    return objs


def untie_events(log):
    """events for the model in which every target that the implementation's accumulated mass hit within 1e-9 (relative)
    is nudged by 1e-6 towards the implementation's own decision, so that the exact-arithmetic model follows the
    implementation's branch (DESIGN.md 5.4: ties)"""
    objs = objects_of(log)
    new_targets = []
    for ob in objs:
        T = ob["target"]
        scale = max(1.0, abs(T))
        added = [m - ob["start"] for m, _ in ob["calls"]]
        t2 = T
        for k, a in enumerate(added):
            if abs(a - T) <= 1e-9 * scale:
                last = (k == len(added) - 1)
                stopped = last and a > T
                t2 = T - 1e-6 * scale if stopped else T + 1e-6 * scale
        new_targets.append(t2)
    ev = []
    j = 0
    for item in log:
        if item[0] == "choice":
            ev.append({"p": item[3]})
        elif item[0] == "draw":
            from lib import frac
            ev.append({"d": frac(new_targets[j])})
            j += 1
    return ev


def min_margin(out):
    best = 1e300
    for t in out.get("trace", []):
        if "cmp" in t:
            a, b = unfrac(t["cmp"][0]), unfrac(t["cmp"][1])
            d = abs(float(a - b)) / max(1.0, abs(float(a)), abs(float(b)))
            best = min(best, d)
    return best


def model_units(out):
    return [t["u"] for t in out.get("trace", []) if "u" in t]


class LightErr:
    """picklable stand-in for the exception raised by the implementation"""

    def __init__(self, exc):
        self.name = type(exc).__name__
        self.text = str(exc)[:300]


_G = {}


class _JobTimeout(Exception):
    pass


def _alarm(signum, frame):
    raise _JobTimeout()


def _limit_worker():
    """per worker process: an address-space limit, so that a runaway generation raises MemoryError in that job instead of taking
    the machine down (a worker killed by the kernel makes Pool.map wait forever)"""
    import resource
    import signal
    lim = int(os.environ.get("VERIF_WORKER_MEM_GB", "6")) * (1 << 30)
    try:
        resource.setrlimit(resource.RLIMIT_AS, (lim, lim))
    except (ValueError, OSError):
        pass
    signal.signal(signal.SIGALRM, _alarm)


def _worker(args):
    import signal
    ci, seed, forced = args
    case = _G["cases"][ci]
    signal.alarm(int(os.environ.get("VERIF_JOB_TIMEOUT", "300")))
    try:
        if _G.get("runner"):
            rec = _G["runner"](case, seed, forced)
        else:
            rec = run_real(case, Recorder(seed), forced)
    except (_JobTimeout, MemoryError) as exc:
        signal.alarm(0)
        import gc
        gc.collect()
        return {"ci": ci, "seed": seed, "resource": type(exc).__name__, "forced": forced}
    finally:
        signal.alarm(0)
    fails = []
    for f in _G["oracles"]:
        try:
            fails += list(f(rec) or [])
        except Exception as exc:  # an oracle must never crash the run silently
            fails.append(("oracle-crash", {"text": case.text, "oracle": f.__name__}, f"{type(exc).__name__}: {exc}", None))
    err = rec["error"]
    return {"ci": ci, "seed": seed, "log": rec["log"], "error": None if err is None else LightErr(err),
            "c11": err is not None and is_c11_draw_failure(err), "summary": rec["summary"],
            "mass_calls": rec["obs"].mass.calls, "fails": fails, "draws": rec["run"].draws}


def run_batch(ck, cases, seeds_per_case=1, forced=None, what=("struct", "choices", "mass"), seed_base=0, oracles=(), procs=None, runner=None):
    """(real run + oracles) in forked worker processes, then the model on the same random histories, then the diff.
    C11 draw failures (SciPy's generic discrete ppf) are skipped and counted."""
    import multiprocessing as mp
    import os
    _G["cases"] = cases
    _G["oracles"] = list(oracles)
    _G["runner"] = runner
    jobs = []
    for ci, case in enumerate(cases):
        for s in range(seeds_per_case):
            jobs.append((ci, seed_base + 1000 * ci + s, forced(case) if forced else None))
    procs = procs or min(16, os.cpu_count() or 1)
    if procs > 1 and len(jobs) > 8:
        ctx = mp.get_context("fork")
        with ctx.Pool(procs, initializer=_limit_worker) as pool:
            lights = pool.map(_worker, jobs, chunksize=max(1, len(jobs) // (procs * 8)))
    else:
        import signal
        signal.signal(signal.SIGALRM, _alarm)
        lights = [_worker(j) for j in jobs]
    recs = []
    ops = []
    for l in lights:
        case = cases[l["ci"]]
        if "resource" in l:
            # a single generation ran into the per-job time or memory limit: reported with its input, not compared
            ck.count("job_hit_resource_limit:" + l["resource"])
            ck.note(f"generation hit the per-job {l['resource']} limit: {case.text[:200]} seed={l['seed']} forced={l['forced']}")
            ck.extra.setdefault("resource_limited_jobs", []).append({"text": case.text, "seed": l["seed"], "forced": l["forced"], "limit": l["resource"]})
            continue
        if l["c11"]:
            ck.count("skipped_c11_draw_failure")
            continue
        rec = {"case": case, "log": l["log"], "error": l["error"], "summary": l["summary"], "mass_calls": l["mass_calls"],
               "draws": l["draws"], "seed": l["seed"]}
        for (kind, inp, detail, cls) in l["fails"]:
            ck.fail(kind, inp, detail, cls)
        recs.append(rec)
        ev = untie_events(rec["log"])
        if ev != events_json(rec["log"]):
            rec["tie"] = True
            ck.count("ties_followed_along_impl_branch")
        ops.append(model_gen_op(case.els, ev))
    try:
        outs = ck.driver.run(ops)
    except RuntimeError as exc:
        ck.mismatch("driver", "GEN batch", "n/a", str(exc))
        outs = [None] * len(recs)
    for rec, out in zip(recs, outs):
        rec["model"] = out
        if out is not None:
            rec["agree"] = compare(ck, rec, out, what)
        ck.count("archetype:" + rec["case"].archetype)
        if rec["error"] is not None:
            ck.count("impl_error:" + rec["error"].name)
    return recs


# ------------------------------------------------------------------------------------------------
# enumeration of all choice sequences of a bounded instance

def enumerate_paths(case, forced_targets, max_paths=5000, seed=0):
    """depth-first over the branching factors observed at the generator interface (scripted generator).
    Yields (rec, path_probability, script) for every complete path; stops after max_paths."""
    stack = [[]]
    n = 0
    while stack and n < max_paths:
        script = stack.pop()
        rng = Scripted(script, seed=seed)
        rec = run_real(case, rng, forced_targets)
        n += 1
        full = []
        for pos, live in enumerate(rng.branching):
            taken = script[pos] if pos < len(script) else live[0]
            full.append(taken)
            if pos >= len(script):
                for alt in live[1:]:
                    stack.append(full[:-1] + [alt])
        p = 1.0
        for item in rec["log"]:
            if item[0] == "choice":
                k = item[1].index(item[3])
                p *= item[2][k]
        rec["script"] = full
        rec["complete"] = not stack
        yield rec, p


def cap_targets(case, cap=400.0):
    """forced targets that keep documented molecules (Mn of thousands) small: min(drawn, cap) is not expressible
    before the draw, so the drawn value is replaced by a value derived deterministically from the case text"""
    n = sum(1 for e in case.mol._elements if isinstance(e, Stochastic))
    if case.archetype != "corpus":
        return None
    h = random.Random(case.text)
    return [h.uniform(-10.0, cap) for _ in range(n)]


def big_token_cases():
    """tokens of a hundred atoms and more (prefix, suffix, end group, repeat unit), each followed by further attachments: atom indices of the
    growing molecule beyond 99 (MolGen labels atoms with PDB serial numbers that it clamps at 99)"""
    texts = ["CC" + "OCC" * 36 + "{[$][$]CC[$][$]}|uniform(30, 100)|N",
             "C{[>][<]CC[>][<]}|uniform(30, 100)|" + "C" * 105,
             "{[][<]CC[>]; [<]" + "C" * 101 + ", [>]N []}|uniform(30, 90)|",
             "O{[>][<]C(" + "C" * 99 + ")C[>], [<]CC[>][<]}|uniform(1400, 3200)|F"]
    out = []
    for t in texts:
        try:
            c = parse_case(t, "bigtoken")
        except Exception:
            c = None
        if c is not None:
            out.append(c)
    return out


def order_terminal_cases():
    """a bond ORDER written on the left terminal of a stochastic object whose prefix / connector is written without its own descriptor: the
    descriptor the library inserts on the prefix must prescribe that order"""
    texts = ["C{=[$] =[$]CC=[$]; =[$]O []}|uniform(50, 60)|",
             "N{=[$] =[$]CC[$], [$]CC=[$]; =[$]O, [$]F []}|uniform(60, 160)|",
             "CC{#[$] #[$]C[$], [$]CC#[$]; #[$]N, [$]Cl []}|uniform(40, 120)|",
             "C{[$] [$]CC[$] [$]}|uniform(30, 60)|N{=[$] =[$]CC=[$]; =[$]O []}|uniform(50, 90)|",
             "O{=[<] =[<]CC=[>], =[<]C(C)C=[>]; =[>]S []}|gauss(120, 30)|"]
    out = []
    for t in texts:
        try:
            c = parse_case(t, "orderterminal")
        except Exception:
            c = None
        if c is not None:
            out.append(c)
    return out


def zero_reserve_cases():
    """closable by construction: a non-empty right terminal AND a repeat unit with a further zero-weight descriptor that an end group has to
    cap (the "never grow from here" idiom): when the molecule is finalised all descriptors still to be capped can have weight 0 — the descriptor
    reserved for the right terminal must nevertheless stay out of that pick"""
    texts = ["C{[$] [$]C(CC[<])(C[>3|0|])C[$2|0|], [>]CC[<]; [>][H], [<3]F [$2]}|uniform(100, 101)|[Br]",
             "N{[$] [$]C(CO[<])(C[>4|0|])C[$1|0|], [>]CO[<]; [>][H], [<4]Cl [$1]}|uniform(100, 101)|F",
             "C{[$] [$]C(CC[<])(C[>3|0|])C[$2|0|], [>]CC[<]; [>][H], [<3]F [$2]}|uniform(60, 200)|{[$2] [$2]CS[$2]; [$2]O []}|uniform(40, 90)|"]
    out = []
    for t in texts:
        try:
            c = parse_case(t, "zeroreserve")
        except Exception:
            c = None
        if c is not None:
            out.append(c)
    return out


def corpus_cases():
    from corpus import notation_strings
    out = []
    for s in notation_strings():
        if ".|" in s:
            s = s[: s.find(".|")]
        if "{" not in s:
            continue
        c = parse_case(s, "corpus")
        if c is not None and all(frag_ok(t) for t in c.table.tokens):
            out.append(c)
    return out


def frag_ok(token):
    info = frag_info(token)
    # tokens with an explicit non-bond "." (several components) are outside the domain of the generation properties
    return info is not None and info[0] > 0 and "." not in token.generate_smiles_fragment()
